package c03

// A small evaluator for loop-free table functions over constants (engine E9):
// it runs barrierStatus on every (state, command) pair. Anything outside the
// supported subset makes the evaluation fail, which the rule reports as
// UNDECIDED.

import (
	"fmt"
	"go/ast"
	"go/constant"
	"go/token"
	"go/types"

	"rscheck/cfgq"
	"rscheck/core"
)

type ival struct {
	c constant.Value    // scalar
	m map[string]string // string->string map
}

type outcome int

const (
	oNext outcome = iota
	oReturn
	oPanic
	oFallthrough
	oBreak
)

type interp struct {
	c     *core.Ctx
	info  *types.Info
	env   map[types.Object]ival
	ret   []constant.Value
	fuel  int
	depth int
}

type interpErr struct{ msg string }

func (it *interp) fail(n ast.Node, format string, a ...interface{}) {
	panic(interpErr{fmt.Sprintf("%s: %s", it.c.Src(n), fmt.Sprintf(format, a...))})
}

// MapLiteral reads a package-level `var m = map[string]string{...}` with constant entries.
func MapLiteral(c *core.Ctx, pkgPath string, obj types.Object) (map[string]string, *ast.CompositeLit) {
	pk := c.Pkg(pkgPath)
	if pk == nil || obj == nil {
		return nil, nil
	}
	var lit *ast.CompositeLit
	for _, f := range pk.Syntax {
		ast.Inspect(f, func(n ast.Node) bool {
			vs, ok := n.(*ast.ValueSpec)
			if !ok {
				return true
			}
			for i, nm := range vs.Names {
				if pk.TypesInfo.Defs[nm] == obj && len(vs.Values) == len(vs.Names) {
					lit, _ = ast.Unparen(vs.Values[i]).(*ast.CompositeLit)
				}
			}
			return true
		})
	}
	if lit == nil {
		return nil, nil
	}
	m := map[string]string{}
	for _, el := range lit.Elts {
		kv, ok := el.(*ast.KeyValueExpr)
		if !ok {
			return nil, nil
		}
		k, ok1 := core.StringConst(pk.TypesInfo, kv.Key)
		v, ok2 := core.StringConst(pk.TypesInfo, kv.Value)
		if !ok1 || !ok2 {
			return nil, nil
		}
		if _, dup := m[k]; dup {
			return nil, nil
		}
		m[k] = v
	}
	return m, lit
}

// evalTable runs fn(args...) and returns its constant results, or panicked=true.
func evalTable(c *core.Ctx, fn *core.Fn, args []constant.Value, globals map[types.Object]ival) (res []constant.Value, panicked bool, err error) {
	return evalTableDepth(c, fn, args, globals, 0)
}

func evalTableDepth(c *core.Ctx, fn *core.Fn, args []constant.Value, globals map[types.Object]ival, depth int) (res []constant.Value, panicked bool, err error) {
	it := &interp{c: c, info: fn.Pkg.TypesInfo, env: map[types.Object]ival{}, fuel: 2000, depth: depth}
	for k, v := range globals {
		it.env[k] = v
	}
	i := 0
	for _, f := range fn.Decl.Type.Params.List {
		for _, nm := range f.Names {
			if i >= len(args) {
				return nil, false, fmt.Errorf("more parameters than arguments")
			}
			it.env[it.info.Defs[nm]] = ival{c: args[i]}
			i++
		}
	}
	defer func() {
		if r := recover(); r != nil {
			if ie, ok := r.(interpErr); ok {
				err = fmt.Errorf("%s", ie.msg)
				return
			}
			if _, ok := r.(interpPanic); ok {
				panicked = true
				return
			}
			panic(r)
		}
	}()
	switch it.block(fn.Decl.Body.List) {
	case oReturn:
		return it.ret, false, nil
	case oPanic:
		return nil, true, nil
	}
	return nil, false, fmt.Errorf("function ends without return")
}

func (it *interp) block(list []ast.Stmt) outcome {
	for _, s := range list {
		if o := it.stmt(s); o != oNext {
			return o
		}
	}
	return oNext
}

func (it *interp) stmt(s ast.Stmt) outcome {
	if it.fuel--; it.fuel < 0 {
		it.fail(s, "evaluation budget exhausted")
	}
	switch s := s.(type) {
	case *ast.BlockStmt:
		return it.block(s.List)
	case *ast.EmptyStmt:
		return oNext
	case *ast.ReturnStmt:
		it.ret = nil
		for _, r := range s.Results {
			it.ret = append(it.ret, it.scalar(r))
		}
		return oReturn
	case *ast.BranchStmt:
		switch s.Tok {
		case token.FALLTHROUGH:
			return oFallthrough
		case token.BREAK:
			if s.Label == nil {
				return oBreak
			}
		}
		it.fail(s, "unsupported branch")
	case *ast.ExprStmt:
		call, ok := s.X.(*ast.CallExpr)
		if !ok {
			it.fail(s, "unsupported expression statement")
		}
		if cfgq.NR(it.c.Program).Is(it.info, call) {
			return oPanic
		}
		if f := core.CalleeFunc(it.info, call); f != nil && f.Pkg() != nil && (f.Pkg().Name() == "log" || f.Pkg().Path() == "fmt") {
			return oNext // logging only
		}
		it.fail(s, "call with unknown effect")
	case *ast.DeclStmt:
		gd, ok := s.Decl.(*ast.GenDecl)
		if !ok || gd.Tok != token.VAR {
			it.fail(s, "unsupported declaration")
		}
		for _, sp := range gd.Specs {
			vs := sp.(*ast.ValueSpec)
			for i, nm := range vs.Names {
				if len(vs.Values) == len(vs.Names) {
					it.env[it.info.Defs[nm]] = it.eval(vs.Values[i])
				} else if len(vs.Values) == 0 {
					it.env[it.info.Defs[nm]] = ival{c: zeroOf(it.info.Defs[nm].Type())}
				} else {
					it.fail(s, "unsupported declaration")
				}
			}
		}
		return oNext
	case *ast.AssignStmt:
		if s.Tok != token.ASSIGN && s.Tok != token.DEFINE {
			it.fail(s, "unsupported assignment operator")
		}
		set := func(l ast.Expr, v ival) {
			id, ok := ast.Unparen(l).(*ast.Ident)
			if !ok {
				it.fail(s, "assignment to a non-variable")
			}
			if id.Name == "_" {
				return
			}
			it.env[core.ObjOf(it.info, id)] = v
		}
		if len(s.Lhs) == 2 && len(s.Rhs) == 1 { // v, ok := m[k]
			ix, ok := ast.Unparen(s.Rhs[0]).(*ast.IndexExpr)
			if !ok {
				it.fail(s, "unsupported tuple assignment")
			}
			m := it.eval(ix.X)
			if m.m == nil {
				it.fail(s, "index of a non-map")
			}
			v, found := m.m[constant.StringVal(it.scalar(ix.Index))]
			set(s.Lhs[0], ival{c: constant.MakeString(v)})
			set(s.Lhs[1], ival{c: constant.MakeBool(found)})
			return oNext
		}
		if len(s.Lhs) != len(s.Rhs) {
			it.fail(s, "unsupported assignment")
		}
		vals := make([]ival, len(s.Rhs))
		for i, r := range s.Rhs {
			vals[i] = it.eval(r)
		}
		for i, l := range s.Lhs {
			set(l, vals[i])
		}
		return oNext
	case *ast.IfStmt:
		if s.Init != nil {
			if o := it.stmt(s.Init); o != oNext {
				return o
			}
		}
		if constant.BoolVal(it.boolean(s.Cond)) {
			return it.block(s.Body.List)
		}
		if s.Else != nil {
			return it.stmt(s.Else)
		}
		return oNext
	case *ast.SwitchStmt:
		if s.Init != nil {
			if o := it.stmt(s.Init); o != oNext {
				return o
			}
		}
		var tag constant.Value = constant.MakeBool(true)
		if s.Tag != nil {
			tag = it.scalar(s.Tag)
		}
		start := -1
		for i, cl := range s.Body.List {
			cc := cl.(*ast.CaseClause)
			if cc.List == nil {
				continue
			}
			for _, e := range cc.List {
				v := it.scalar(e)
				if v.Kind() == tag.Kind() && constant.Compare(v, token.EQL, tag) {
					start = i
				}
			}
			if start >= 0 {
				break
			}
		}
		if start < 0 {
			for i, cl := range s.Body.List {
				if cl.(*ast.CaseClause).List == nil {
					start = i
				}
			}
		}
		if start < 0 {
			return oNext
		}
		for i := start; i < len(s.Body.List); i++ {
			switch o := it.block(s.Body.List[i].(*ast.CaseClause).Body); o {
			case oFallthrough:
				continue
			case oBreak, oNext:
				return oNext
			default:
				return o
			}
		}
		return oNext
	}
	it.fail(s, "unsupported statement")
	return oNext
}

func zeroOf(t types.Type) constant.Value {
	if b, ok := t.Underlying().(*types.Basic); ok {
		switch {
		case b.Info()&types.IsString != 0:
			return constant.MakeString("")
		case b.Info()&types.IsBoolean != 0:
			return constant.MakeBool(false)
		case b.Info()&types.IsInteger != 0:
			return constant.MakeInt64(0)
		}
	}
	return constant.MakeUnknown()
}

func (it *interp) scalar(e ast.Expr) constant.Value {
	v := it.eval(e)
	if v.c == nil || v.c.Kind() == constant.Unknown {
		it.fail(e, "not a scalar constant")
	}
	return v.c
}

func (it *interp) boolean(e ast.Expr) constant.Value {
	v := it.scalar(e)
	if v.Kind() != constant.Bool {
		it.fail(e, "not a boolean")
	}
	return v
}

func (it *interp) eval(e ast.Expr) ival {
	e = ast.Unparen(e)
	if tv, ok := it.info.Types[e]; ok && tv.Value != nil {
		return ival{c: tv.Value}
	}
	switch x := e.(type) {
	case *ast.Ident:
		if v, ok := it.env[core.ObjOf(it.info, x)]; ok {
			return v
		}
		it.fail(e, "variable without a known value")
	case *ast.IndexExpr:
		m := it.eval(x.X)
		if m.m == nil {
			it.fail(e, "index of a non-map")
		}
		return ival{c: constant.MakeString(m.m[constant.StringVal(it.scalar(x.Index))])}
	case *ast.UnaryExpr:
		if x.Op == token.NOT {
			return ival{c: constant.MakeBool(!constant.BoolVal(it.boolean(x.X)))}
		}
	case *ast.BinaryExpr:
		switch x.Op {
		case token.LAND:
			if !constant.BoolVal(it.boolean(x.X)) {
				return ival{c: constant.MakeBool(false)}
			}
			return ival{c: it.boolean(x.Y)}
		case token.LOR:
			if constant.BoolVal(it.boolean(x.X)) {
				return ival{c: constant.MakeBool(true)}
			}
			return ival{c: it.boolean(x.Y)}
		case token.EQL, token.NEQ:
			a, b := it.scalar(x.X), it.scalar(x.Y)
			if a.Kind() != b.Kind() {
				it.fail(e, "comparison of different kinds")
			}
			return ival{c: constant.MakeBool(constant.Compare(a, x.Op, b))}
		}
	}
	if call, ok := e.(*ast.CallExpr); ok && it.depth < 3 {
		// a helper of the module with constant arguments: evaluate it the same way
		if fn := it.c.FnOf(core.CalleeFunc(it.info, call)); fn != nil && fn.Decl.Body != nil && !call.Ellipsis.IsValid() {
			args := make([]constant.Value, len(call.Args))
			for i, a := range call.Args {
				args[i] = it.scalar(a)
			}
			globals := map[types.Object]ival{}
			for k, v := range it.env {
				if vv, ok := k.(*types.Var); ok && vv.Parent() == vv.Pkg().Scope() {
					globals[k] = v
				}
			}
			res, pan, err := evalTableDepth(it.c, fn, args, globals, it.depth+1)
			if err != nil {
				it.fail(e, "helper %s: %v", fn.Name(), err)
			}
			if pan {
				panic(interpPanic{})
			}
			if len(res) == 1 {
				return ival{c: res[0]}
			}
			it.fail(e, "helper %s has %d results", fn.Name(), len(res))
		}
	}
	it.fail(e, "unsupported expression")
	return ival{}
}

type interpPanic struct{}
