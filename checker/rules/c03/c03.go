// Package c03 decides the structural clauses of property C03 (incremental
// sync forwards the filtered command stream in order, exactly once) and holds
// the helpers shared with C04 and C08.
package c03

import (
	"fmt"
	"go/ast"
	"go/token"
	"go/types"
	"strings"

	"golang.org/x/tools/go/cfg"

	"rscheck/cfgq"
	"rscheck/core"
	"rscheck/driver"
	"rscheck/pat"
)

var Def = driver.PropDef{
	ID: "C03",
	Explanation: "Structural necessary conditions of the parser/sender pair of redis-shake/dbSync, checked on every path: " +
		"R1 single FIFO (ds.sendBuf created once before the goroutines start; only parseSourceCommand sends, only sendTargetCommand receives; one go statement each); " +
		"R2 one enqueue per surviving command (no iteration of the parser loop ends without an enqueue or the filter counter; no path enqueues twice); " +
		"R3 nothing dropped or duplicated in the sender (dequeued item appended once unless it is a source MULTI/EXEC marker, markers never cached; sendFunc sends the whole batch by one range with Send(item.Cmd, item.Args...) once per item without leaving the loop early, flushes, and empties the batch only after it was sent and on every path); " +
		"R4 barrier before append (after barrierStatus reports flush, sendFunc() runs before the barrier command is cached); " +
		"R5 barrier automaton (barrierMap + barrierStatus evaluated on 5 states x {select,multi,exec,other} and the illegal state against the reference table; ParseArgs lower-cases the command name the table is keyed by); " +
		"R6 payload identity (Cmd/Args/Db of every enqueue flow from ParseArgs / HandleFilterKeyWithCommand / the parsed SELECT argument or target.db; start database enqueued first; fixed target database really selected); " +
		"R7 filter polarity (the filter counter is reachable only through a positive filter verdict, and a command counted as filtered is not enqueued afterwards; conversely every enqueue of the loop lies behind tests that found every drop flag, above all the database verdict of the last SELECT, false since it was last written); " +
		"R8 ticker flush (a constant-period ticker arm exists and, once it requests a flush, sendFunc() runs before the next select).",
	NotDecided: "the delay bound itself, back-pressure of Send, interleavings with the target-reply reader, byte equality of arguments beyond the dataflow shape; the flush aspects of R4/R5 are necessary for C04 (one database per batch) and only reported as UNDECIDED here when they deviate.",
	Trusted:    []string{"go/parser, go/types, go/cfg (x/tools v0.29.0)", "Go channel FIFO semantics", "redigo Conn.Send/Flush preserve call order on one connection"},
	Run:        Run,
}

func Run(c *core.Ctx) {
	if c.Pkg(DbSync) == nil {
		c.Undecidedf("anchor", DbSync, token.NoPos, "package not loaded")
		return
	}
	p := AnalyseParser(c)
	s := AnalyseSender(c)
	r1(c)
	if p != nil {
		r2(c, p)
		r6(c, p)
		r7(c, p)
	}
	if s != nil {
		r3(c, s)
		BarrierBeforeAppend(c, s, "R4.barrier", false)
		r8(c, s)
	}
	Automaton(c, "R5.automaton", false)
	Expect(c, "R1.fifo", 7)
	Expect(c, "R2.enqueue", 4)
	Expect(c, "R3.sender", 14)
	Expect(c, "R4.barrier", 2)
	Expect(c, "R5.automaton", 22)
	Expect(c, "R6.payload", 8)
	Expect(c, "R7.polarity", 5)
	Expect(c, "R8.ticker", 3)
}

// ---------------------------------------------------------------------------
// R1 single FIFO

func r1(c *core.Ctx) {
	const rule = "R1.fifo"
	parse := c.Func(DbSync, Syncer, "parseSourceCommand")
	send := c.Func(DbSync, Syncer, "sendTargetCommand")
	sc := c.Func(DbSync, Syncer, "syncCommand")
	if parse == nil || send == nil || sc == nil {
		return
	}
	sites := GoSites(c)
	// creation
	ws := FieldWrites(c, Syncer, "sendBuf")
	var created *ast.AssignStmt
	for _, w := range ws {
		as, isAs := w.Stmt.(*ast.AssignStmt)
		call, _ := ast.Unparen(w.Rhs).(*ast.CallExpr)
		isMake := false
		if call != nil {
			if b, ok := core.Callee(w.In.Pkg.TypesInfo, call).(*types.Builtin); ok && b.Name() == "make" {
				isMake = true
			}
		}
		if len(ws) == 1 && isAs && isMake && w.In.Lit == nil && w.In.Decl == sc.Decl {
			created = as
			c.Okf(rule, "create/"+w.In.Name, w.Stmt.Pos(), "the queue is created once, in syncCommand")
		} else {
			c.Undecidedf(rule, "create/"+w.In.Name, w.Stmt.Pos(), "ds.sendBuf is written by `%s`: the rule only knows one creation by make() in syncCommand", c.Src(w.Stmt))
		}
	}
	if len(ws) == 0 {
		c.Undecidedf(rule, "create", sc.Decl.Pos(), "no creation of ds.sendBuf found")
	}
	// go statements
	gsc := cfgq.Of(c.Program, sc)
	for _, role := range []struct {
		fn   *core.Fn
		what string
	}{{parse, "parser"}, {send, "sender"}} {
		n := 0
		for _, cs := range CallsTo(c, role.fn.Obj) {
			if !cs.IsGo {
				c.Undecidedf(rule, "start/"+role.what+"/plain-call/"+cs.In.Name, cs.Call.Pos(), "%s is also called synchronously: goroutine ownership of the queue is not established", role.fn.Name())
				continue
			}
			n++
			if n > 1 {
				c.Failf(rule, "start/"+role.what, cs.Call.Pos(), "a second go statement starts %s: two %ss share ds.sendBuf, so the order in which commands reach the target is no longer the source order", role.fn.Name(), role.what)
				continue
			}
			c.Okf(rule, "start/"+role.what, cs.Call.Pos(), "%s is started by one go statement (in %s)", role.fn.Name(), cs.In.Name)
			if created != nil && cs.In.Lit == nil && cs.In.Decl == sc.Decl {
				var gst ast.Node
				for _, g := range sites {
					if g.Stmt.Call == cs.Call {
						gst = g.Stmt
					}
				}
				if pt, ok := gsc.Find(gst); ok {
					dom, w := gsc.Dominated(pt, func(m ast.Node) bool { return m == ast.Node(created) })
					c.Check(rule, "start/"+role.what+"/after-create", cs.Call.Pos(), dom,
						"the queue must exist before the "+role.what+" goroutine starts (a goroutine that reads the nil/old channel never sees the commands)", w...)
				}
			}
		}
		if n == 0 {
			c.Undecidedf(rule, "start/"+role.what, role.fn.Decl.Pos(), "no go statement starts %s", role.fn.Name())
		}
	}
	// sends, receives, other uses
	for _, b := range AllBodies(c) {
		b := b
		info := b.Pkg.TypesInfo
		other := func() string {
			if b.Lit != nil && !StartedByGo(sites, b) {
				return "?" // a closure runs where it is called: judged by the goroutines that reach it
			}
			if StartedByGo(sites, b) || b.Decl == send.Decl || b.Decl == parse.Decl {
				return "FAIL"
			}
			return "?"
		}
		core.Inspect(b.Root(), func(n ast.Node) bool {
			switch x := n.(type) {
			case *ast.SendStmt:
				if !IsSendBuf(info, x.Chan) {
					return true
				}
				switch {
				case b.Lit == nil && b.Decl == parse.Decl:
					c.Okf(rule, "send/"+b.Name, x.Pos(), "enqueue in the parser goroutine")
				case other() == "FAIL":
					c.Failf(rule, "send/"+b.Name, x.Pos(), "%s enqueues on ds.sendBuf from another goroutine than the parser: its commands interleave with the source stream in an order the source never produced", b.Name)
				default:
					// a helper: which goroutines execute it?
					onlyParser, other := true, false
					for _, r := range goroutinesOf(c, b, x, 4) {
						switch r.Kind {
						case "parser":
						case "golit", "gofn", "sync":
							other, onlyParser = true, false
						default:
							onlyParser = false
						}
					}
					switch {
					case onlyParser:
						c.Okf(rule, "send/"+b.Name, x.Pos(), "enqueue in a helper that only the parser goroutine calls")
					case other:
						c.Failf(rule, "send/"+b.Name, x.Pos(), "%s enqueues on ds.sendBuf and is reached from another goroutine than the parser: its commands interleave with the source stream in an order the source never produced", b.Name)
					default:
						c.Undecidedf(rule, "send/"+b.Name, x.Pos(), "enqueue outside parseSourceCommand: cannot tell which goroutine executes it")
					}
				}
			case *ast.UnaryExpr:
				if x.Op != token.ARROW || !IsSendBuf(info, x.X) {
					return true
				}
				switch {
				case b.Lit == nil && b.Decl == send.Decl:
					c.Okf(rule, "recv/"+b.Name, x.Pos(), "dequeue in the sender goroutine")
				case other() == "FAIL":
					c.Failf(rule, "recv/"+b.Name, x.Pos(), "%s dequeues from ds.sendBuf besides the sender: commands taken here never reach the target (or reach it out of order)", b.Name)
				default:
					onlySender, otherG := true, false
					for _, r := range goroutinesOf(c, b, x, 4) {
						if r.Kind == "gofn" && r.Fn == send.Obj {
							continue
						}
						if r.Kind == "unknown" {
							onlySender = false
						} else {
							otherG, onlySender = true, false
						}
					}
					switch {
					case onlySender:
						c.Okf(rule, "recv/"+b.Name, x.Pos(), "dequeue in code that only the sender goroutine runs")
					case otherG:
						c.Failf(rule, "recv/"+b.Name, x.Pos(), "%s dequeues from ds.sendBuf and is reached from another goroutine than the sender: commands taken there never reach the target (or reach it out of order)", b.Name)
					default:
						c.Undecidedf(rule, "recv/"+b.Name, x.Pos(), "dequeue outside sendTargetCommand: cannot tell which goroutine executes it")
					}
				}
			case *ast.RangeStmt:
				if IsSendBuf(info, x.X) {
					c.Undecidedf(rule, "recv/"+b.Name, x.Pos(), "range over ds.sendBuf: not the known receive idiom")
				}
			case *ast.SelectorExpr:
				if !IsSendBuf(info, x) {
					return true
				}
				path := core.PathTo(b.Root(), x)
				if len(path) < 2 {
					return true
				}
				switch par := path[len(path)-2].(type) {
				case *ast.SendStmt:
					if par.Chan == ast.Expr(x) {
						return true
					}
				case *ast.UnaryExpr:
					if par.Op == token.ARROW {
						return true
					}
				case *ast.AssignStmt:
					for _, l := range par.Lhs {
						if l == ast.Expr(x) {
							return true
						}
					}
					// `out := ds.sendBuf`: a local alias, followed by IsSendBuf
					if len(par.Lhs) == len(par.Rhs) {
						for i, r := range par.Rhs {
							if r == ast.Expr(x) && IsSendBuf(info, par.Lhs[i]) {
								return true
							}
						}
					}
				case *ast.CallExpr:
					if bi, ok := core.Callee(info, par).(*types.Builtin); ok && (bi.Name() == "len" || bi.Name() == "cap") {
						return true
					}
				}
				c.Undecidedf(rule, "escape/"+b.Name, x.Pos(), "ds.sendBuf is used in `%s`: the channel may be closed or handed to code the rule does not follow", c.Src(path[len(path)-2]))
			}
			return true
		})
	}
}

// ---------------------------------------------------------------------------
// R2 one enqueue per surviving command

// isFilterCount: the call is ds.stat.incrSyncFilter.Incr()/Add().
func isFilterCount(info *types.Info, call *ast.CallExpr) bool {
	sel := MethodSel(info, call)
	return sel != nil && (sel.Sel.Name == "Incr" || sel.Sel.Name == "Add") && core.IsFieldNamed(info, sel.X, "Status", "incrSyncFilter")
}

// MethodSel returns the selector `x.M` of the method (or field function) that
// call invokes: the call's own Fun, or the method value bound once to the
// local the call goes through (`count := x.M; count()`).
func MethodSel(info *types.Info, call *ast.CallExpr) *ast.SelectorExpr {
	fun := ast.Unparen(call.Fun)
	for step := 0; step < 4; step++ {
		id, ok := fun.(*ast.Ident)
		if !ok {
			break
		}
		v, ok := core.ObjOf(info, id).(*types.Var)
		if !ok || v.IsField() {
			return nil
		}
		fd := enclosingDecl(v.Pkg(), v.Pos())
		if fd == nil {
			return nil
		}
		o, ok := SoleOrigin(info, fd, id)
		if !ok || o.Expr == nil || o.Op != 0 || o.Range || o.Res > 0 {
			return nil
		}
		fun = ast.Unparen(o.Expr)
	}
	sel, _ := fun.(*ast.SelectorExpr)
	return sel
}

func (p *Parser) counts(c *core.Ctx) func(ast.Node) bool {
	return func(n ast.Node) bool {
		for _, call := range cfgq.ExecCalls(n) {
			if Transitively(c, p.Info, call, 3, isFilterCount) {
				return true
			}
		}
		return false
	}
}

func r2(c *core.Ctx, p *Parser) {
	const rule = "R2.enqueue"
	w := p.G.Path(cfgq.Query{From: p.DecodePt, After: true, Avoid: cfgq.Or(p.IsSend, p.counts(c)), Target: p.IsDecode})
	c.Check(rule, "no-silent-drop", p.Decode.Pos(), w == nil,
		"every command decoded from the source must be enqueued on ds.sendBuf or counted as filtered (incrSyncFilter) before the next one is decoded; on this path a command that passed all filters is never forwarded", w...)
	idx := map[string]int{}
	for _, e := range p.Sends {
		idx[e.Name]++
		w := p.G.Path(cfgq.Query{From: e.Pt, After: true, Avoid: p.IsDecode, Target: p.IsSend})
		c.Check(rule, fmt.Sprintf("at-most-once/%s#%d", e.Name, idx[e.Name]), e.Pos(), w == nil,
			"after an enqueue no second enqueue may be reached before the next command is decoded: the target would apply the command (or an extra SELECT) twice", w...)
	}
	loop := 0
	for _, e := range p.Sends {
		if e.InLoop {
			loop++
		}
	}
	if loop == 0 {
		c.Failf(rule, "forwards", p.Loop.Pos(), "the parser loop never enqueues: no source command reaches the target")
	}
}

// ---------------------------------------------------------------------------
// R3 sender

func r3(c *core.Ctx, s *Sender) {
	const rule = "R3.sender"
	info := s.Info
	holdS, holdE := pkgConst(c, "barrierStatusHoldStart"), pkgConst(c, "barrierStatusHoldEnd")
	if holdS == nil || holdE == nil || s.Bs == nil {
		c.Undecidedf(rule, "hold-constants", s.Fn.Decl.Pos(), "barrierStatusHoldStart/HoldEnd or the barrier state variable not found")
	} else {
		isHold := func(k *types.Const, want bool) func(cfgq.Fact) bool {
			return func(ft cfgq.Fact) bool {
				eq, ok := EqFact(ft, IsObj(info, s.Bs), IsConstVal(info, k))
				return ok && eq == want
			}
		}
		// (a) the dequeued item is cached unless the state says it is a MULTI/EXEC marker
		inGraph := 0
		for _, a := range s.Appends {
			if _, ok := s.G.Find(a); ok {
				inGraph++
			}
		}
		// `item, ok := <-queue`: on the branch where ok is false nothing was dequeued
		var okVar types.Object
		if len(s.RecvComm.Lhs) == 2 {
			okVar = core.ObjOf(info, s.RecvComm.Lhs[1])
		}
		nothingReceived := s.Fl.Edge(func(ft cfgq.Fact) bool {
			o, val := BoolFact(info, ft)
			return okVar != nil && o == okVar && !val
		})
		w := s.G.Path(cfgq.Query{From: cfgq.Point{B: s.RecvBody, I: 0}, Avoid: s.IsAppend,
			AvoidEdge: func(b *cfg.Block, si int) bool {
				return nothingReceived(b, si) || s.Fl.Edge(func(ft cfgq.Fact) bool { return isHold(holdS, true)(ft) || isHold(holdE, true)(ft) })(b, si)
			},
			Target: s.IsRecv, TargetExit: cfgq.NormalExit})
		if inGraph != len(s.Appends) {
			c.Undecidedf(rule, "append-unless-marker", s.RecvComm.Pos(), "the batch is appended to inside a closure; paths of the receive arm cannot be judged")
		} else if w != nil && s.G.Path(cfgq.Query{From: cfgq.Point{B: s.RecvBody, I: 0}, Avoid: s.IsAppend,
			AvoidEdge: func(b *cfg.Block, si int) bool {
				return nothingReceived(b, si) || opaqueEdge(s, b, si) || s.Fl.Edge(func(ft cfgq.Fact) bool { return isHold(holdS, true)(ft) || isHold(holdE, true)(ft) })(b, si)
			}, Target: s.IsRecv, TargetExit: cfgq.NormalExit}) == nil {
			c.Undecidedf(rule, "append-unless-marker", s.RecvComm.Pos(), "the append is skipped under a condition on the barrier state that the rule cannot read")
		} else {
			c.Check(rule, "append-unless-marker", s.RecvComm.Pos(), w == nil,
				"a command taken from ds.sendBuf must be appended to the batch on every path except those on which the barrier state is HoldStart/HoldEnd (source MULTI/EXEC); on this path a real command is discarded", w...)
		}
		// markers are never cached
		for _, k := range []struct {
			k    *types.Const
			name string
		}{{holdS, "MULTI"}, {holdE, "EXEC"}} {
			for i, a := range s.Appends {
				pt, ok := s.G.Find(a)
				if !ok {
					continue // append outside the function's own graph (closure): judged below
				}
				tn := pt.Node()
				w := s.G.Path(cfgq.Query{From: cfgq.Point{B: s.RecvBody, I: 0}, AvoidEdge: s.Fl.Edge(isHold(k.k, false)),
					Target: func(n ast.Node) bool { return n == tn }, Avoid: s.IsRecv})
				if w != nil && s.G.Path(cfgq.Query{From: cfgq.Point{B: s.RecvBody, I: 0},
					AvoidEdge: func(b *cfg.Block, si int) bool { return opaqueEdge(s, b, si) || s.Fl.Edge(isHold(k.k, false))(b, si) },
					Target:    func(n ast.Node) bool { return n == tn }, Avoid: s.IsRecv}) == nil {
					c.Undecidedf(rule, fmt.Sprintf("marker-not-cached/%s#%d", k.name, i+1), a.Pos(), "the append is guarded by a condition on the barrier state that the rule cannot read")
					continue
				}
				c.Check(rule, fmt.Sprintf("marker-not-cached/%s#%d", k.name, i+1), a.Pos(), w == nil,
					"the append must be reachable only after the barrier state was found different from the "+k.name+" marker state: otherwise the source's "+k.name+" is forwarded and nests inside / breaks the checkpoint transaction on the target", w...)
			}
		}
	}
	// (b) appended once, and it is the received item
	if len(s.Appends) == 0 {
		c.Failf(rule, "append", s.RecvComm.Pos(), "nothing is ever appended to the batch: no command reaches the target")
	}
	for i, a := range s.Appends {
		call := ast.Unparen(a.Rhs[0]).(*ast.CallExpr)
		key := fmt.Sprintf("append-item#%d", i+1)
		pt, inG := s.G.Find(a)
		switch {
		case !inG:
			c.Undecidedf(rule, key, a.Pos(), "the batch is appended to inside a closure")
		case len(call.Args) == 2 && IsObj(info, s.Tunnel)(call.Args[0]) && (!call.Ellipsis.IsValid() && IsObj(info, s.Item)(call.Args[1]) || call.Ellipsis.IsValid() && oneItemSlice(info, s, call.Args[1])):
			c.Okf(rule, key, a.Pos(), "the received item itself is appended")
			w := s.G.Path(cfgq.Query{From: pt, After: true, Avoid: s.IsRecv, Target: s.IsAppend})
			c.Check(rule, fmt.Sprintf("append-once#%d", i+1), a.Pos(), w == nil, "after the item was cached no second append may be reached before the next receive: the command would be sent twice", w...)
		default:
			n := 0
			for _, x := range call.Args[1:] {
				if IsObj(info, s.Item)(x) {
					n++
				}
			}
			if n > 1 && IsObj(info, s.Tunnel)(call.Args[0]) {
				c.Failf(rule, key, a.Pos(), "`%s` caches the received command %d times: the target applies it %d times", c.Src(a), n, n)
			} else {
				c.Undecidedf(rule, key, a.Pos(), "`%s` is not the known `batch = append(batch, item)` form", c.Src(a))
			}
		}
	}
	// (c) the closure sends the whole batch, each item once
	switch x := ast.Unparen(s.RangeExpr).(type) {
	case *ast.Ident:
		c.Okf(rule, "range-whole-batch", s.Loop.Pos(), "sendFunc ranges over the whole batch in index order")
	case *ast.SliceExpr:
		lowOK := x.Low == nil
		if v, isC := core.IntConst(info, x.Low); x.Low != nil && isC && v == 0 {
			lowOK = true
		}
		highOK := x.High == nil || pat.Expr("len(_t)").Match(info, x.High, pat.Binds{"_t": x.X}) != nil
		if IsObj(info, s.Tunnel)(x.X) && lowOK && highOK {
			c.Okf(rule, "range-whole-batch", s.Loop.Pos(), "sendFunc ranges over the whole batch in index order")
		} else if IsObj(info, s.Tunnel)(x.X) {
			c.Failf(rule, "range-whole-batch", s.Loop.Pos(), "sendFunc ranges over `%s`: the commands outside that window are never sent but are cleared with the batch", c.Src(x))
		} else {
			c.Undecidedf(rule, "range-whole-batch", s.Loop.Pos(), "unknown ranged expression `%s`", c.Src(x))
		}
	default:
		c.Undecidedf(rule, "range-whole-batch", s.Loop.Pos(), "unknown ranged expression `%s`", c.Src(s.RangeExpr))
	}
	var rbody, rhead *cfg.Block
	rg, rinfo := s.RC.G, s.RC.Info // the graph that holds the range loop
	for _, b := range rg.CFG.Blocks {
		if b.Stmt == s.Loop && b.Kind == s.KBody() {
			rbody = b
		}
		if b.Stmt == s.Loop && b.Kind == s.KHead() {
			rhead = b
		}
	}
	twice := false
	for _, d := range s.Data { // a second Send reachable from a first within one iteration
		dp, ok := rg.Find(d.Call)
		if !ok || rhead == nil {
			continue
		}
		reach := BlocksFrom(dp, true, nil, rhead)
		for _, e := range s.Data {
			ep, ok := rg.Find(e.Call)
			if ok && (reach[ep.B] || ep.B == dp.B && ep.I > dp.I) {
				twice = true
			}
		}
	}
	c.Check(rule, "one-send-per-item", s.Loop.Pos(), !twice,
		fmt.Sprintf("within one iteration over the batch at most one conn.Send may execute (%d Send sites, one reachable from another): each extra Send applies every command of the batch once more on the target", len(s.Data)))
	site := s.Data[0]
	call := &ast.CallExpr{Fun: site.Call.Fun, Args: site.Args, Lparen: site.Call.Lparen, Rparen: site.Call.Rparen}
	if site.Ellipsis {
		call.Ellipsis = site.Call.Rparen
	}
	okArgs := len(call.Args) == 2 && call.Ellipsis.IsValid() &&
		itemField(rinfo, s, call.Args[0], "Cmd") && itemField(rinfo, s, call.Args[1], "Args")
	if okArgs {
		c.Okf(rule, "send-args", call.Pos(), "Send(item.Cmd, item.Args...) of the ranged element")
	} else if s.ItemVar != nil && (mentionsObj(info, call, s.Tunnel) || !mentionsObj(rinfo, call, s.ItemVar)) || len(call.Args) != 2 {
		c.Failf(rule, "send-args", call.Pos(), "`%s` does not send the ranged element's command with all its arguments: the target receives a different command than the source issued", c.Src(call))
	} else {
		c.Undecidedf(rule, "send-args", call.Pos(), "`%s` is not the known Send(item.Cmd, item.Args...) form", c.Src(call))
	}
	if dp, ok := rg.Find(site.Call); ok {
		// every iteration executes the Send: the loop head is not reachable from the body start without it
		body, head := rbody, rhead
		isData := func(n ast.Node) bool {
			for _, d := range s.Data {
				if p, ok := rg.Find(d.Call); ok && p.Node() == n {
					return true
				}
			}
			return false
		}
		_ = dp
		if body != nil && head != nil {
			reach := BlocksFrom(cfgq.Point{B: body, I: 0}, false, isData)
			skipped := reach[head]
			for _, b := range rg.CFG.Blocks { // leaving the loop early (break/return) also skips the rest of the batch
				if reach[b] && b.Kind == s.KDone() && b.Stmt == s.Loop {
					skipped = true
				}
			}
			c.Check(rule, "send-each-item", call.Pos(), !skipped, "every iteration over the batch must execute the Send: on some path an item is skipped and then cleared with the batch (command lost)")
			// the loop is left only through its head (no break / return after a partial batch)
			early := false
			for b := range BlocksFrom(cfgq.Point{B: body, I: 0}, false, nil, head) {
				if b.Kind == s.KDone() && b.Stmt == s.Loop || rg.Exit(b) == cfgq.ExitRet {
					early = true
				}
			}
			c.Check(rule, "send-whole-batch", s.Loop.Pos(), !early, "the loop over the batch must not be left by break/return: the remaining commands are never sent but are cleared with the batch")
		}
	}
	// (d) clearing and flushing
	isTrunc := func(n ast.Node) bool {
		as, ok := n.(*ast.AssignStmt)
		return ok && len(as.Lhs) == 1 && IsObj(info, s.Tunnel)(as.Lhs[0]) && !s.IsAppend(n)
	}
	truncs := s.LG.Points(isTrunc)
	xTrunc := func(n XNode) bool { return n.C == s.X.Root && isTrunc(n.N) }
	for i, tp := range truncs {
		as := tp.Node().(*ast.AssignStmt)
		key := fmt.Sprintf("clear-form#%d", i+1)
		b := pat.Binds{"_t": as.Lhs[0]}
		emptyMake := false
		if call, ok := ast.Unparen(as.Rhs[0]).(*ast.CallExpr); ok && len(as.Rhs) == 1 && len(call.Args) >= 2 {
			if bi, ok := core.Callee(info, call).(*types.Builtin); ok && bi.Name() == "make" {
				if n, ok := core.IntConst(info, call.Args[1]); ok && n == 0 {
					emptyMake = true
				}
			}
		}
		if !emptyMake && pat.Stmt("_t = _t[:0]").Match(info, as, b) == nil && pat.Stmt("_t = _t[0:0]").Match(info, as, b) == nil && pat.Stmt("_t = nil").Match(info, as, b) == nil {
			c.Undecidedf(rule, key, as.Pos(), "the batch is reassigned by `%s`: not the known clearing form", c.Src(as))
			continue
		}
		c.Okf(rule, key, as.Pos(), "batch cleared by truncation")
		tn := tp.Node()
		w := s.X.Path(XQuery{Avoid: s.RangeX.Is(), Target: func(n XNode) bool { return n.C == s.X.Root && n.N == tn }})
		c.Check(rule, fmt.Sprintf("clear-after-send#%d", i+1), as.Pos(), w == nil,
			"the batch may be emptied only after the range that sends it: here it can be emptied first, so its commands are never sent", w...)
	}
	// a truncation inside `defer func(){...}()` of sendFunc runs at every exit reached after the defer statement
	deferredClear := false
	for _, dp := range s.LG.Points(func(n ast.Node) bool {
		d, ok := n.(*ast.DeferStmt)
		if !ok {
			return false
		}
		fl, ok := ast.Unparen(d.Call.Fun).(*ast.FuncLit)
		if !ok {
			return false
		}
		has := false
		ast.Inspect(fl.Body, func(m ast.Node) bool {
			if as, ok := m.(*ast.AssignStmt); ok && isTrunc(as) {
				has = true
			}
			return true
		})
		return has
	}) {
		isD := XPoint{s.X.Root, dp}.Is()
		// registered before the batch is sent on every path, and no exit between the defer and the send loop
		if s.X.Path(XQuery{Avoid: isD, Target: s.RangeX.Is()}) == nil {
			deferredClear = true
			c.Okf(rule, "clear-form#deferred", dp.Node().Pos(), "batch cleared by a deferred function")
			w := s.X.Path(XQuery{From: XPoint{s.X.Root, dp}, After: true, Avoid: s.RangeX.Is(), TargetExit: true})
			c.Check(rule, "clear-after-send#deferred", dp.Node().Pos(), w == nil,
				"the deferred clearing of the batch must not run on a path that did not send it: here sendFunc can return after the defer statement without reaching the send loop, so queued commands are discarded unsent", w...)
		}
	}
	inLit := func(n ast.Node) bool { return s.InFlush(n) }
	truncElsewhere, flushElsewhere := false, false
	core.InspectAll(s.Fn.Decl.Body, func(n ast.Node) bool {
		if as, ok := n.(*ast.AssignStmt); ok && isTrunc(as) && as.Tok != token.DEFINE && !inLit(as) {
			truncElsewhere = true
		}
		if call, ok := n.(*ast.CallExpr); ok && !inLit(call) {
			if _, ok := ConnMethod(info, call, "Flush"); ok {
				flushElsewhere = true
			}
		}
		return true
	})
	w := s.X.Path(XQuery{From: s.RangeX, After: true, Avoid: xTrunc, TargetExit: true})
	if deferredClear {
		c.Okf(rule, "clear-on-every-path", s.Loop.Pos(), "the batch is emptied by a deferred function registered before the send loop")
	} else if w != nil && truncElsewhere {
		c.Undecidedf(rule, "clear-on-every-path", s.Loop.Pos(), "the batch is emptied outside sendFunc; the rule only follows the closure")
	} else {
		c.Check(rule, "clear-on-every-path", s.Loop.Pos(), w == nil && len(truncs) > 0,
			"after the batch was sent every path to the end of sendFunc must empty it: otherwise the same commands are sent again with the next batch", w...)
	}
	w = s.X.Path(XQuery{From: s.RangeX, After: true, Avoid: XIsFlush, TargetExit: true})
	if w != nil && flushElsewhere {
		c.Undecidedf(rule, "flush-after-send", s.Loop.Pos(), "the connection is flushed outside sendFunc; the rule only follows the closure")
	} else {
		c.Check(rule, "flush-after-send", s.Loop.Pos(), w == nil,
			"after the batch was handed to conn.Send every path must Flush before returning: otherwise small batches stay in the client buffer while the stream is idle", w...)
	}
	// other writers of the batch
	core.InspectAll(s.Fn.Decl.Body, func(n ast.Node) bool {
		switch x := n.(type) {
		case *ast.AssignStmt:
			for i, l := range x.Lhs {
				if ix, ok := ast.Unparen(l).(*ast.IndexExpr); ok && IsObj(info, s.Tunnel)(ix.X) {
					c.Undecidedf(rule, "batch-element-write", x.Pos(), "`%s` overwrites an element of the batch", c.Src(x))
				}
				if id, ok := ast.Unparen(l).(*ast.Ident); ok && x.Tok == token.DEFINE && info.Defs[id] == s.Tunnel && len(x.Lhs) == len(x.Rhs) {
					continue // the declaration of the batch, alone or in a parallel `a, b, c := ...`
				}
				if IsObj(info, s.Tunnel)(l) && len(x.Lhs) == len(x.Rhs) && len(x.Lhs) > 1 && x.Tok == token.ASSIGN && emptyBatch(info, x.Rhs[i]) && topLevelBefore(s.Fn.Decl.Body, x, s.Select) {
					continue // the initialisation of the batch in a parallel assignment before the receive loop
				}
				if IsObj(info, s.Tunnel)(l) && !s.IsAppend(x) && !isTrunc(x) {
					c.Undecidedf(rule, "batch-write", x.Pos(), "unexpected write of the batch variable")
				}
				if IsObj(info, s.Tunnel)(l) && isTrunc(x) && !s.InFlush(x) {
					if x.Tok == token.DEFINE {
						continue
					}
					c.Undecidedf(rule, "batch-write", x.Pos(), "the batch is reassigned outside sendFunc by `%s`", c.Src(x))
				}
			}
		}
		return true
	})
}

// opaqueEdge: the branch condition involves the barrier state, a predicate of
// the module or a bool flag in a form that yields no readable fact about the state.
func opaqueEdge(s *Sender, b *cfg.Block, si int) bool {
	info := s.Info
	cond := cfgq.CondOf(b)
	if cond == nil {
		return false
	}
	aboutBs := func(ft cfgq.Fact) bool {
		_, ok := EqFact(ft, IsObj(info, s.Bs), func(ast.Expr) bool { return true })
		return ok
	}
	for _, ft := range s.Fl.Facts(b, si) {
		if aboutBs(ft) {
			return false
		}
	}
	for _, al := range s.Fl.AltsOf(b, si) { // a disjunction of readable facts about the state is readable
		all := len(al) > 0
		for _, ft := range al {
			all = all && aboutBs(ft)
		}
		if all {
			return false
		}
	}
	hit := core.Mentions(info, cond, s.Bs)
	ast.Inspect(cond, func(m ast.Node) bool {
		switch x := m.(type) {
		case *ast.CallExpr:
			if f := core.CalleeFunc(info, x); f != nil && f.Pkg() != nil && strings.HasPrefix(f.Pkg().Path(), core.Module) {
				hit = true
			}
		case *ast.Ident:
			if v, ok := core.ObjOf(info, x).(*types.Var); ok && !v.IsField() && types.Identical(v.Type().Underlying(), types.Typ[types.Bool]) {
				if len(s.RecvComm.Lhs) == 2 && core.ObjOf(info, s.RecvComm.Lhs[1]) == types.Object(v) {
					break // the ok flag of the receive says nothing about the state
				}
				hit = true
			}
		}
		return true
	})
	return hit
}

// oneItemSlice: e is `[]cmdDetail{item}`.
func oneItemSlice(info *types.Info, s *Sender, e ast.Expr) bool {
	lit, ok := ast.Unparen(e).(*ast.CompositeLit)
	return ok && len(lit.Elts) == 1 && IsObj(info, s.Item)(lit.Elts[0])
}

// itemField: e is <element of this iteration>.<field>.
func itemField(info *types.Info, s *Sender, e ast.Expr, field string) bool {
	sel, ok := ast.Unparen(e).(*ast.SelectorExpr)
	return ok && sel.Sel.Name == field && s.IsItem(info, sel.X)
}

func isFieldOf(info *types.Info, e ast.Expr, base types.Object, field string) bool {
	sel, ok := ast.Unparen(e).(*ast.SelectorExpr)
	return ok && sel.Sel.Name == field && core.FieldOf(info, sel) != nil && IsObj(info, base)(sel.X)
}

func mentionsObj(info *types.Info, n ast.Node, obj types.Object) bool {
	return obj != nil && core.Mentions(info, n, obj)
}

func pkgConst(c *core.Ctx, name string) *types.Const {
	pk := c.Pkg(DbSync)
	if pk == nil {
		return nil
	}
	k, _ := pk.Types.Scope().Lookup(name).(*types.Const)
	return k
}

// ---------------------------------------------------------------------------
// R8 ticker flush

func r8(c *core.Ctx, s *Sender) {
	const rule = "R8.ticker"
	info := s.Info
	if s.Tick == nil {
		c.Failf(rule, "arm", s.Select.Pos(), "the sender's select has no ticker arm: a command cached below the count/size thresholds is never flushed while the source stream is idle")
		return
	}
	c.Okf(rule, "arm", s.Tick.Pos(), "the sender's select has a ticker arm")
	// period: constant, at most one second
	perOK := false
	period := func(call *ast.CallExpr) {
		if len(call.Args) == 1 {
			if d, ok := core.IntConst(info, call.Args[0]); ok && d > 0 && d <= 1e9 {
				perOK = true
				c.Okf(rule, "period", call.Pos(), "timer period is the constant %dms", d/1e6)
			}
		}
	}
	switch x := ast.Unparen(s.TickChan).(type) {
	case *ast.SelectorExpr: // ticker.C
		if o, ok := SoleOrigin(info, s.Fn.Decl.Body, x.X); ok {
			if call, ok := CallOrigin(info, o, "time", "", "NewTicker", 0); ok {
				period(call)
			}
		}
	case *ast.CallExpr: // time.After(d) / time.Tick(d)
		if f := core.CalleeFunc(info, x); core.IsFunc(f, "time", "", "After") || core.IsFunc(f, "time", "", "Tick") {
			period(x)
		}
	case *ast.Ident: // tick := time.Tick(d)
		if o, ok := SoleOrigin(info, s.Fn.Decl.Body, x); ok {
			if call, ok := CallOrigin(info, o, "time", "", "Tick", 0); ok {
				period(call)
			}
		}
	}
	if !perOK {
		c.Undecidedf(rule, "period", s.Tick.Pos(), "the timer arm is not driven by time.NewTicker/time.After with a constant period of at most 1s")
	}
	yes, no := pkgConst(c, "flushStatusYes"), pkgConst(c, "flushStatusNo")
	if yes == nil || no == nil || s.Fs == nil {
		c.Undecidedf(rule, "flush-requested", s.Tick.Pos(), "flush constants / flush variable not found")
		return
	}
	setYes := func(n ast.Node) bool {
		as, ok := n.(*ast.AssignStmt)
		if !ok || len(as.Lhs) != len(as.Rhs) {
			return false
		}
		for i, l := range as.Lhs {
			if IsObj(info, s.Fs)(l) && IsConstVal(info, yes)(as.Rhs[i]) {
				return true
			}
		}
		return false
	}
	setAny := func(n ast.Node) bool {
		as, ok := n.(*ast.AssignStmt)
		if !ok {
			return false
		}
		for _, l := range as.Lhs {
			if IsObj(info, s.Fs)(l) {
				return true
			}
		}
		return false
	}
	noFlush := func(ft cfgq.Fact) bool {
		if eq, ok := EqFact(ft, IsObj(info, s.Fs), IsConstVal(info, yes)); ok && !eq {
			return true
		}
		eq, ok := EqFact(ft, IsObj(info, s.Fs), IsConstVal(info, no))
		return ok && eq
	}
	call := s.IsFlushCall
	n := 0
	reach := BlocksFrom(cfgq.Point{B: s.TickBody, I: 0}, false, s.IsRecv)
	for _, pt := range s.G.Points(setYes) {
		if !reach[pt.B] && pt.B != s.TickBody {
			continue
		}
		if !(s.Tick.Pos() <= pt.Node().Pos() && pt.Node().End() <= s.Tick.End()) {
			continue
		}
		n++
		w := s.G.Path(cfgq.Query{From: pt, After: true, Avoid: cfgq.Or(call, setAny), AvoidEdge: s.Fl.Edge(noFlush), Target: s.IsRecv, TargetExit: cfgq.NormalExit})
		c.Check(rule, fmt.Sprintf("flush-requested#%d", n), pt.Node().Pos(), w == nil,
			"once the ticker arm requests a flush, sendFunc() must run before the next select: otherwise the cached commands wait for further traffic", w...)
	}
	if n == 0 {
		// the flush variable may be computed in the arm (helper, expression): not judged
		computed := false
		for _, pt := range s.G.Points(setAny) {
			if !(s.Tick.Pos() <= pt.Node().Pos() && pt.Node().End() <= s.Tick.End()) {
				continue
			}
			as := pt.Node().(*ast.AssignStmt)
			for i, l := range as.Lhs {
				if IsObj(info, s.Fs)(l) {
					if len(as.Lhs) != len(as.Rhs) {
						computed = true
					} else if tv, ok := info.Types[as.Rhs[i]]; !ok || tv.Value == nil {
						computed = true
					}
				}
			}
		}
		if computed {
			c.Undecidedf(rule, "flush-requested", s.Tick.Pos(), "the timer arm computes the flush request by an expression the rule does not evaluate")
			return
		}
		// the arm may also flush directly
		fsTest := func(b *cfg.Block, i int) bool { // any branch on the flush variable
			cond := cfgq.CondOf(b)
			if cond != nil && core.Mentions(info, cond, s.Fs) {
				return true
			}
			for si := range b.Succs {
				for _, ft := range s.Fl.Facts(b, si) {
					if core.Mentions(info, ft.Expr, s.Fs) {
						return true
					}
				}
			}
			return false
		}
		if s.G.Path(cfgq.Query{From: cfgq.Point{B: s.TickBody, I: 0}, Avoid: s.IsRecv, AvoidEdge: fsTest, Target: call}) != nil {
			c.Okf(rule, "flush-requested", s.Tick.Pos(), "the timer arm reaches sendFunc() directly")
			return
		}
		c.Failf(rule, "flush-requested", s.Tick.Pos(), "the ticker arm never requests a flush (no `flush = flushStatusYes`): cached commands below the thresholds are not sent while the stream is idle")
	}
}

// emptyBatch: e is an empty slice: make(T, 0[, cap]), nil, or T{}.
func emptyBatch(info *types.Info, e ast.Expr) bool {
	e = ast.Unparen(e)
	if core.IsNil(info, e) {
		return true
	}
	switch x := e.(type) {
	case *ast.CompositeLit:
		return len(x.Elts) == 0
	case *ast.CallExpr:
		if bi, ok := core.Callee(info, x).(*types.Builtin); ok && bi.Name() == "make" && len(x.Args) >= 2 {
			n, ok := core.IntConst(info, x.Args[1])
			return ok && n == 0
		}
	}
	return false
}

// topLevelBefore: st is a statement of body's own list that ends before node.
func topLevelBefore(body *ast.BlockStmt, st ast.Stmt, node ast.Node) bool {
	if node == nil || st.End() > node.Pos() {
		return false
	}
	for _, x := range body.List {
		if x == st {
			return true
		}
	}
	return false
}
