// Package c03 decides the structural clauses of property C03 (incremental
// sync forwards the filtered command stream in order, exactly once) and holds
// the helpers shared with C04 and C08.
package c03

import (
	"fmt"
	"go/ast"
	"go/constant"
	"go/token"
	"go/types"
	"sort"
	"strings"

	"golang.org/x/tools/go/cfg"

	"rscheck/cfgq"
	"rscheck/core"
	"rscheck/driver"
	"rscheck/pat"
)

var Def = driver.PropDef{
	ID: "C03",
	Explanation: "Structural necessary conditions of the parser/sender pair of redis-shake/dbSync, checked on every path: " +
		"R1 single FIFO (ds.sendBuf created once before the goroutines start; only parseSourceCommand sends, only sendTargetCommand receives; one go statement each); " +
		"R2 one enqueue per surviving command (no iteration of the parser loop ends without an enqueue or the filter counter; no path enqueues twice); " +
		"R3 nothing dropped or duplicated in the sender (dequeued item appended once unless it is a source MULTI/EXEC marker, markers never cached; sendFunc sends the whole batch by one range with Send(item.Cmd, item.Args...) once per item, flushes, and empties the batch only after it was sent and on every path); " +
		"R4 barrier before append (after barrierStatus reports flush, sendFunc() runs before the barrier command is cached); " +
		"R5 barrier automaton (barrierMap + barrierStatus evaluated on 5 states x {select,multi,exec,other} and the illegal state against the reference table; ParseArgs lower-cases the command name the table is keyed by); " +
		"R6 payload identity (Cmd/Args/Db of every enqueue flow from ParseArgs / HandleFilterKeyWithCommand / the parsed SELECT argument or target.db; start database enqueued first; fixed target database really selected); " +
		"R7 filter polarity (the filter counter is reachable only through a positive filter verdict); " +
		"R8 ticker flush (a constant-period ticker arm exists and, once it requests a flush, sendFunc() runs before the next select).",
	NotDecided: "the delay bound itself, back-pressure of Send, interleavings with the target-reply reader, byte equality of arguments beyond the dataflow shape; the flush aspects of R4/R5 are necessary for C04 (one database per batch) and only reported as UNDECIDED here when they deviate.",
	Trusted:    []string{"go/parser, go/types, go/cfg (x/tools v0.29.0)", "Go channel FIFO semantics", "redigo Conn.Send/Flush preserve call order on one connection"},
	Run:        Run,
}

func Run(c *core.Ctx) {
	if c.Pkg(DbSync) == nil {
		c.Undecidedf("anchor", DbSync, token.NoPos, "package not loaded")
		return
	}
	p := AnalyseParser(c)
	s := AnalyseSender(c)
	r1(c)
	if p != nil {
		r2(c, p)
		r6(c, p)
		r7(c, p)
	}
	if s != nil {
		r3(c, s)
		BarrierBeforeAppend(c, s, "R4.barrier", false)
		r8(c, s)
	}
	Automaton(c, "R5.automaton", false)
	c.Expect("R1.fifo", 8)
	c.Expect("R2.enqueue", 4)
	c.Expect("R3.sender", 10)
	c.Expect("R4.barrier", 2)
	c.Expect("R5.automaton", 22)
	c.Expect("R6.payload", 8)
	c.Expect("R7.polarity", 6)
	c.Expect("R8.ticker", 3)
}

// ---------------------------------------------------------------------------
// R1 single FIFO

func r1(c *core.Ctx) {
	const rule = "R1.fifo"
	parse := c.Func(DbSync, Syncer, "parseSourceCommand")
	send := c.Func(DbSync, Syncer, "sendTargetCommand")
	sc := c.Func(DbSync, Syncer, "syncCommand")
	if parse == nil || send == nil || sc == nil {
		return
	}
	sites := GoSites(c)
	// creation
	ws := FieldWrites(c, Syncer, "sendBuf")
	var created *ast.AssignStmt
	for _, w := range ws {
		as, isAs := w.Stmt.(*ast.AssignStmt)
		call, _ := ast.Unparen(w.Rhs).(*ast.CallExpr)
		isMake := false
		if call != nil {
			if b, ok := core.Callee(w.In.Pkg.TypesInfo, call).(*types.Builtin); ok && b.Name() == "make" {
				isMake = true
			}
		}
		if len(ws) == 1 && isAs && isMake && w.In.Lit == nil && w.In.Decl == sc.Decl {
			created = as
			c.Okf(rule, "create/"+w.In.Name, w.Stmt.Pos(), "the queue is created once, in syncCommand")
		} else {
			c.Undecidedf(rule, "create/"+w.In.Name, w.Stmt.Pos(), "ds.sendBuf is written by `%s`: the rule only knows one creation by make() in syncCommand", c.Src(w.Stmt))
		}
	}
	if len(ws) == 0 {
		c.Undecidedf(rule, "create", sc.Decl.Pos(), "no creation of ds.sendBuf found")
	}
	// go statements
	gsc := cfgq.Of(c.Program, sc)
	for _, role := range []struct {
		fn   *core.Fn
		what string
	}{{parse, "parser"}, {send, "sender"}} {
		n := 0
		for _, cs := range CallsTo(c, role.fn.Obj) {
			if !cs.IsGo {
				c.Undecidedf(rule, "start/"+role.what+"/plain-call/"+cs.In.Name, cs.Call.Pos(), "%s is also called synchronously: goroutine ownership of the queue is not established", role.fn.Name())
				continue
			}
			n++
			if n > 1 {
				c.Failf(rule, "start/"+role.what, cs.Call.Pos(), "a second go statement starts %s: two %ss share ds.sendBuf, so the order in which commands reach the target is no longer the source order", role.fn.Name(), role.what)
				continue
			}
			c.Okf(rule, "start/"+role.what, cs.Call.Pos(), "%s is started by one go statement (in %s)", role.fn.Name(), cs.In.Name)
			if created != nil && cs.In.Lit == nil && cs.In.Decl == sc.Decl {
				var gst ast.Node
				for _, g := range sites {
					if g.Stmt.Call == cs.Call {
						gst = g.Stmt
					}
				}
				if pt, ok := gsc.Find(gst); ok {
					dom, w := gsc.Dominated(pt, func(m ast.Node) bool { return m == ast.Node(created) })
					c.Check(rule, "start/"+role.what+"/after-create", cs.Call.Pos(), dom,
						"the queue must exist before the "+role.what+" goroutine starts (a goroutine that reads the nil/old channel never sees the commands)", w...)
				}
			}
		}
		if n == 0 {
			c.Undecidedf(rule, "start/"+role.what, role.fn.Decl.Pos(), "no go statement starts %s", role.fn.Name())
		}
	}
	// sends, receives, other uses
	for _, b := range AllBodies(c) {
		b := b
		info := b.Pkg.TypesInfo
		other := func() string {
			if StartedByGo(sites, b) || b.Decl == send.Decl || b.Decl == parse.Decl {
				return "FAIL"
			}
			return "?"
		}
		core.Inspect(b.Root(), func(n ast.Node) bool {
			switch x := n.(type) {
			case *ast.SendStmt:
				if !IsSendBuf(info, x.Chan) {
					return true
				}
				switch {
				case b.Lit == nil && b.Decl == parse.Decl:
					c.Okf(rule, "send/"+b.Name, x.Pos(), "enqueue in the parser goroutine")
				case other() == "FAIL":
					c.Failf(rule, "send/"+b.Name, x.Pos(), "%s enqueues on ds.sendBuf from another goroutine than the parser: its commands interleave with the source stream in an order the source never produced", b.Name)
				default:
					c.Undecidedf(rule, "send/"+b.Name, x.Pos(), "enqueue outside parseSourceCommand: cannot tell which goroutine executes it")
				}
			case *ast.UnaryExpr:
				if x.Op != token.ARROW || !IsSendBuf(info, x.X) {
					return true
				}
				switch {
				case b.Lit == nil && b.Decl == send.Decl:
					c.Okf(rule, "recv/"+b.Name, x.Pos(), "dequeue in the sender goroutine")
				case other() == "FAIL":
					c.Failf(rule, "recv/"+b.Name, x.Pos(), "%s dequeues from ds.sendBuf besides the sender: commands taken here never reach the target (or reach it out of order)", b.Name)
				default:
					c.Undecidedf(rule, "recv/"+b.Name, x.Pos(), "dequeue outside sendTargetCommand: cannot tell which goroutine executes it")
				}
			case *ast.RangeStmt:
				if IsSendBuf(info, x.X) {
					c.Undecidedf(rule, "recv/"+b.Name, x.Pos(), "range over ds.sendBuf: not the known receive idiom")
				}
			case *ast.SelectorExpr:
				if !IsSendBuf(info, x) {
					return true
				}
				path := core.PathTo(b.Root(), x)
				if len(path) < 2 {
					return true
				}
				switch par := path[len(path)-2].(type) {
				case *ast.SendStmt:
					if par.Chan == ast.Expr(x) {
						return true
					}
				case *ast.UnaryExpr:
					if par.Op == token.ARROW {
						return true
					}
				case *ast.AssignStmt:
					for _, l := range par.Lhs {
						if l == ast.Expr(x) {
							return true
						}
					}
				case *ast.CallExpr:
					if bi, ok := core.Callee(info, par).(*types.Builtin); ok && (bi.Name() == "len" || bi.Name() == "cap") {
						return true
					}
				}
				c.Undecidedf(rule, "escape/"+b.Name, x.Pos(), "ds.sendBuf is used in `%s`: the channel may be closed or handed to code the rule does not follow", c.Src(path[len(path)-2]))
			}
			return true
		})
	}
}

// ---------------------------------------------------------------------------
// R2 one enqueue per surviving command

// isFilterCount: the call is ds.stat.incrSyncFilter.Incr()/Add().
func isFilterCount(info *types.Info, call *ast.CallExpr) bool {
	sel, ok := ast.Unparen(call.Fun).(*ast.SelectorExpr)
	return ok && (sel.Sel.Name == "Incr" || sel.Sel.Name == "Add") && core.IsFieldNamed(info, sel.X, "Status", "incrSyncFilter")
}

func (p *Parser) counts(c *core.Ctx) func(ast.Node) bool {
	return func(n ast.Node) bool {
		for _, call := range cfgq.ExecCalls(n) {
			if Transitively(c, p.Info, call, 3, isFilterCount) {
				return true
			}
		}
		return false
	}
}

func r2(c *core.Ctx, p *Parser) {
	const rule = "R2.enqueue"
	w := p.G.Path(cfgq.Query{From: p.DecodePt, After: true, Avoid: cfgq.Or(p.IsSend, p.counts(c)), Target: p.IsDecode})
	c.Check(rule, "no-silent-drop", p.Decode.Pos(), w == nil,
		"every command decoded from the source must be enqueued on ds.sendBuf or counted as filtered (incrSyncFilter) before the next one is decoded; on this path a command that passed all filters is never forwarded", w...)
	idx := map[string]int{}
	for _, e := range p.Sends {
		idx[e.Name]++
		w := p.G.Path(cfgq.Query{From: e.Pt, After: true, Avoid: p.IsDecode, Target: p.IsSend})
		c.Check(rule, fmt.Sprintf("at-most-once/%s#%d", e.Name, idx[e.Name]), e.Stmt.Pos(), w == nil,
			"after an enqueue no second enqueue may be reached before the next command is decoded: the target would apply the command (or an extra SELECT) twice", w...)
	}
	loop := 0
	for _, e := range p.Sends {
		if e.InLoop {
			loop++
		}
	}
	if loop == 0 {
		c.Failf(rule, "forwards", p.Loop.Pos(), "the parser loop never enqueues: no source command reaches the target")
	}
}

// ---------------------------------------------------------------------------
// R3 sender

func r3(c *core.Ctx, s *Sender) {
	const rule = "R3.sender"
	info := s.Info
	holdS, holdE := pkgConst(c, "barrierStatusHoldStart"), pkgConst(c, "barrierStatusHoldEnd")
	if holdS == nil || holdE == nil || s.Bs == nil {
		c.Undecidedf(rule, "hold-constants", s.Fn.Decl.Pos(), "barrierStatusHoldStart/HoldEnd or the barrier state variable not found")
	} else {
		isHold := func(k *types.Const, want bool) func(cfgq.Fact) bool {
			return func(ft cfgq.Fact) bool {
				eq, ok := EqFact(ft, IsObj(info, s.Bs), IsConstVal(info, k))
				return ok && eq == want
			}
		}
		// (a) the dequeued item is cached unless the state says it is a MULTI/EXEC marker
		w := s.G.Path(cfgq.Query{From: cfgq.Point{B: s.RecvBody, I: 0}, Avoid: s.IsAppend,
			AvoidEdge: s.Fl.Edge(func(ft cfgq.Fact) bool { return isHold(holdS, true)(ft) || isHold(holdE, true)(ft) }),
			Target: s.IsRecv, TargetExit: cfgq.NormalExit})
		c.Check(rule, "append-unless-marker", s.RecvComm.Pos(), w == nil,
			"a command taken from ds.sendBuf must be appended to the batch on every path except those on which the barrier state is HoldStart/HoldEnd (source MULTI/EXEC); on this path a real command is discarded", w...)
		// markers are never cached
		for _, k := range []struct {
			k    *types.Const
			name string
		}{{holdS, "MULTI"}, {holdE, "EXEC"}} {
			for i, a := range s.Appends {
				pt, ok := s.G.Find(a)
				if !ok {
					continue // append outside the function's own graph (closure): judged below
				}
				tn := pt.Node()
				w := s.G.Path(cfgq.Query{From: cfgq.Point{B: s.RecvBody, I: 0}, AvoidEdge: s.Fl.Edge(isHold(k.k, false)),
					Target: func(n ast.Node) bool { return n == tn }, Avoid: s.IsRecv})
				c.Check(rule, fmt.Sprintf("marker-not-cached/%s#%d", k.name, i+1), a.Pos(), w == nil,
					"the append must be reachable only after the barrier state was found different from the "+k.name+" marker state: otherwise the source's "+k.name+" is forwarded and nests inside / breaks the checkpoint transaction on the target", w...)
			}
		}
	}
	// (b) appended once, and it is the received item
	if len(s.Appends) == 0 {
		c.Failf(rule, "append", s.RecvComm.Pos(), "nothing is ever appended to the batch: no command reaches the target")
	}
	for i, a := range s.Appends {
		call := ast.Unparen(a.Rhs[0]).(*ast.CallExpr)
		key := fmt.Sprintf("append-item#%d", i+1)
		pt, inG := s.G.Find(a)
		switch {
		case !inG:
			c.Undecidedf(rule, key, a.Pos(), "the batch is appended to inside a closure")
		case len(call.Args) == 2 && !call.Ellipsis.IsValid() && IsObj(info, s.Tunnel)(call.Args[0]) && IsObj(info, s.Item)(call.Args[1]):
			c.Okf(rule, key, a.Pos(), "the received item itself is appended")
			w := s.G.Path(cfgq.Query{From: pt, After: true, Avoid: s.IsRecv, Target: s.IsAppend})
			c.Check(rule, fmt.Sprintf("append-once#%d", i+1), a.Pos(), w == nil, "after the item was cached no second append may be reached before the next receive: the command would be sent twice", w...)
		default:
			n := 0
			for _, x := range call.Args[1:] {
				if IsObj(info, s.Item)(x) {
					n++
				}
			}
			if n > 1 && IsObj(info, s.Tunnel)(call.Args[0]) {
				c.Failf(rule, key, a.Pos(), "`%s` caches the received command %d times: the target applies it %d times", c.Src(a), n, n)
			} else {
				c.Undecidedf(rule, key, a.Pos(), "`%s` is not the known `batch = append(batch, item)` form", c.Src(a))
			}
		}
	}
	// (c) the closure sends the whole batch, each item once
	switch x := ast.Unparen(s.Range.X).(type) {
	case *ast.Ident:
		c.Okf(rule, "range-whole-batch", s.Range.Pos(), "sendFunc ranges over the whole batch in index order")
	case *ast.SliceExpr:
		if IsObj(info, s.Tunnel)(x.X) && (x.Low != nil || x.High != nil) {
			c.Failf(rule, "range-whole-batch", s.Range.Pos(), "sendFunc ranges over `%s`: the commands outside that window are never sent but are cleared with the batch", c.Src(x))
		} else {
			c.Undecidedf(rule, "range-whole-batch", s.Range.Pos(), "unknown ranged expression `%s`", c.Src(x))
		}
	default:
		c.Undecidedf(rule, "range-whole-batch", s.Range.Pos(), "unknown ranged expression `%s`", c.Src(s.Range.X))
	}
	c.Check(rule, "one-send-per-item", s.Range.Pos(), len(s.Data) == 1,
		fmt.Sprintf("the range body must contain exactly one conn.Send (found %d): each extra Send applies every command of the batch once more on the target", len(s.Data)))
	call := s.Data[0]
	okArgs := len(call.Args) == 2 && call.Ellipsis.IsValid() &&
		isFieldOf(info, call.Args[0], s.ItemVar, "Cmd") && isFieldOf(info, call.Args[1], s.ItemVar, "Args")
	if okArgs {
		c.Okf(rule, "send-args", call.Pos(), "Send(item.Cmd, item.Args...) of the ranged element")
	} else if mentionsObj(info, call, s.Tunnel) || !mentionsObj(info, call, s.ItemVar) || len(call.Args) != 2 {
		c.Failf(rule, "send-args", call.Pos(), "`%s` does not send the ranged element's command with all its arguments: the target receives a different command than the source issued", c.Src(call))
	} else {
		c.Undecidedf(rule, "send-args", call.Pos(), "`%s` is not the known Send(item.Cmd, item.Args...) form", c.Src(call))
	}
	if dp, ok := s.LG.Find(call); ok {
		// every iteration executes the Send: the loop head is not reachable from the body start without it
		var body, head *cfg.Block
		for _, b := range s.LG.CFG.Blocks {
			if b.Stmt == ast.Stmt(s.Range) && b.Kind == cfg.KindRangeBody {
				body = b
			}
			if b.Stmt == ast.Stmt(s.Range) && b.Kind == cfg.KindRangeLoop {
				head = b
			}
		}
		dn := dp.Node()
		if body != nil && head != nil {
			reach := BlocksFrom(cfgq.Point{B: body, I: 0}, false, func(n ast.Node) bool { return n == dn })
			skipped := reach[head]
			for _, b := range s.LG.CFG.Blocks { // leaving the loop early (break/return) also skips the rest of the batch
				if reach[b] && b.Kind == cfg.KindRangeDone && b.Stmt == ast.Stmt(s.Range) {
					skipped = true
				}
			}
			c.Check(rule, "send-each-item", call.Pos(), !skipped, "every iteration over the batch must execute the Send: on some path an item is skipped and then cleared with the batch (command lost)")
		}
	}
	// (d) clearing and flushing
	isTrunc := func(n ast.Node) bool {
		as, ok := n.(*ast.AssignStmt)
		return ok && len(as.Lhs) == 1 && IsObj(info, s.Tunnel)(as.Lhs[0]) && !s.IsAppend(n)
	}
	truncs := s.LG.Points(isTrunc)
	isRange := func(n ast.Node) bool { return n == s.RangePt.Node() }
	for i, tp := range truncs {
		as := tp.Node().(*ast.AssignStmt)
		key := fmt.Sprintf("clear-form#%d", i+1)
		b := pat.Binds{"_t": as.Lhs[0]}
		if pat.Stmt("_t = _t[:0]").Match(info, as, b) == nil && pat.Stmt("_t = _t[0:0]").Match(info, as, b) == nil && pat.Stmt("_t = nil").Match(info, as, b) == nil {
			c.Undecidedf(rule, key, as.Pos(), "the batch is reassigned by `%s`: not the known clearing form", c.Src(as))
			continue
		}
		c.Okf(rule, key, as.Pos(), "batch cleared by truncation")
		dom, w := s.LG.Dominated(tp, isRange)
		c.Check(rule, fmt.Sprintf("clear-after-send#%d", i+1), as.Pos(), dom,
			"the batch may be emptied only after the range that sends it: here it can be emptied first, so its commands are never sent", w...)
	}
	w := s.LG.Path(cfgq.Query{From: s.RangePt, After: true, Avoid: isTrunc, TargetExit: cfgq.NormalExit})
	c.Check(rule, "clear-on-every-path", s.Range.Pos(), w == nil && len(truncs) > 0,
		"after the batch was sent every path to the end of sendFunc must empty it: otherwise the same commands are sent again with the next batch", w...)
	w = s.LG.Path(cfgq.Query{From: s.RangePt, After: true, Avoid: IsFlush(info), TargetExit: cfgq.NormalExit})
	c.Check(rule, "flush-after-send", s.Range.Pos(), w == nil,
		"after the batch was handed to conn.Send every path must Flush before returning: otherwise small batches stay in the client buffer while the stream is idle", w...)
	// other writers of the batch
	core.InspectAll(s.Fn.Decl.Body, func(n ast.Node) bool {
		switch x := n.(type) {
		case *ast.AssignStmt:
			for _, l := range x.Lhs {
				if ix, ok := ast.Unparen(l).(*ast.IndexExpr); ok && IsObj(info, s.Tunnel)(ix.X) {
					c.Undecidedf(rule, "batch-element-write", x.Pos(), "`%s` overwrites an element of the batch", c.Src(x))
				}
				if IsObj(info, s.Tunnel)(l) && !s.IsAppend(x) && !isTrunc(x) {
					c.Undecidedf(rule, "batch-write", x.Pos(), "unexpected write of the batch variable")
				}
				if IsObj(info, s.Tunnel)(l) && isTrunc(x) && !(s.Lit.Pos() <= x.Pos() && x.End() <= s.Lit.End()) {
					if x.Tok == token.DEFINE {
						continue
					}
					c.Undecidedf(rule, "batch-write", x.Pos(), "the batch is reassigned outside sendFunc by `%s`", c.Src(x))
				}
			}
		}
		return true
	})
}

func isFieldOf(info *types.Info, e ast.Expr, base types.Object, field string) bool {
	sel, ok := ast.Unparen(e).(*ast.SelectorExpr)
	return ok && sel.Sel.Name == field && core.FieldOf(info, sel) != nil && IsObj(info, base)(sel.X)
}

func mentionsObj(info *types.Info, n ast.Node, obj types.Object) bool {
	return obj != nil && core.Mentions(info, n, obj)
}

func pkgConst(c *core.Ctx, name string) *types.Const {
	pk := c.Pkg(DbSync)
	if pk == nil {
		return nil
	}
	k, _ := pk.Types.Scope().Lookup(name).(*types.Const)
	return k
}

// ---------------------------------------------------------------------------
// R4 barrier before append (strict: deviations are failures; otherwise UNDECIDED)

func BarrierBeforeAppend(c *core.Ctx, s *Sender, rule string, strict bool) {
	info := s.Info
	yes, no := pkgConst(c, "flushStatusYes"), pkgConst(c, "flushStatusNo")
	if s.Barrier == nil || yes == nil || no == nil || s.Fs == nil {
		c.Undecidedf(rule, "shape", s.Fn.Decl.Pos(), "no `state, flush = barrierStatus(item.Cmd, state)` in sendTargetCommand, or the flush constants are missing")
		return
	}
	call := ast.Unparen(s.Barrier.Rhs[0]).(*ast.CallExpr)
	okArgs := len(call.Args) == 2 && isFieldOf(info, call.Args[0], s.Item, "Cmd") && IsObj(info, s.Bs)(call.Args[1])
	if okArgs {
		c.Okf(rule, "automaton-input", call.Pos(), "barrierStatus is fed the received command's name and the previous state, and its result becomes the state")
	} else {
		c.Undecidedf(rule, "automaton-input", call.Pos(), "`%s` does not thread (item.Cmd, previous state) through barrierStatus", c.Src(s.Barrier))
	}
	noFlush := func(ft cfgq.Fact) bool {
		if eq, ok := EqFact(ft, IsObj(info, s.Fs), IsConstVal(info, yes)); ok && !eq {
			return true
		}
		eq, ok := EqFact(ft, IsObj(info, s.Fs), IsConstVal(info, no))
		return ok && eq
	}
	fsWrite := func(n ast.Node) bool {
		as, ok := n.(*ast.AssignStmt)
		if !ok || n == ast.Node(s.Barrier) {
			return false
		}
		for _, l := range as.Lhs {
			if IsObj(info, s.Fs)(l) {
				return true
			}
		}
		return false
	}
	flushed := cfgq.Or(IsCallTo(info, s.SendFunc), s.IsRecv)
	var tests []*cfg.Block // branches on the flush variable
	for _, b := range s.G.CFG.Blocks {
		if !b.Live || len(b.Succs) != 2 {
			continue
		}
		hit := false
		for si := range b.Succs {
			for _, ft := range s.Fl.Facts(b, si) {
				hit = hit || core.Mentions(info, ft.Expr, s.Fs)
			}
		}
		if cond := cfgq.CondOf(b); hit || cond != nil && core.Mentions(info, cond, s.Fs) {
			tests = append(tests, b)
		}
	}
	isTestEdge := func(b *cfg.Block, i int) bool {
		for _, t := range tests {
			if t == b {
				return true
			}
		}
		return false
	}
	for i, a := range s.Appends {
		pt, ok := s.G.Find(a)
		if !ok {
			continue
		}
		tn := pt.Node()
		toAppend := func(n ast.Node) bool { return n == tn }
		detail := "when barrierStatus reports a flush (SELECT/MULTI/EXEC), sendFunc() must run before the barrier command itself is cached: otherwise one batch spans a SELECT and its checkpoint is stored in only one of the databases its commands ran in"
		key := fmt.Sprintf("flush-before-append#%d", i+1)
		// definite: the flush status is tested unmodified, the flush edge is taken, and the append is reached without sendFunc()
		var bad []string
		for _, t := range tests {
			cn := t.Nodes[len(t.Nodes)-1]
			p1 := s.G.Path(cfgq.Query{From: s.BarrierPt, After: true, Avoid: cfgq.Or(flushed, fsWrite), Target: func(n ast.Node) bool { return n == cn }})
			if p1 == nil {
				continue
			}
			for si, succ := range t.Succs {
				if s.Fl.Edge(noFlush)(t, si) {
					continue
				}
				if p2 := s.G.Path(cfgq.Query{From: cfgq.Point{B: succ, I: 0}, Avoid: flushed, AvoidEdge: s.Fl.Edge(noFlush), Target: toAppend}); p2 != nil {
					bad = append(append([]string{}, p1...), p2...)
				}
			}
		}
		if bad == nil { // or the append is reached without consulting the flush status at all
			bad = s.G.Path(cfgq.Query{From: s.BarrierPt, After: true, Avoid: flushed, AvoidEdge: isTestEdge, Target: toAppend})
		}
		any := s.G.Path(cfgq.Query{From: s.BarrierPt, After: true, Avoid: flushed, AvoidEdge: s.Fl.Edge(noFlush), Target: toAppend})
		switch {
		case bad == nil && any == nil:
			c.Okf(rule, key, a.Pos(), "the append is reachable from the barrier test only through sendFunc() or a no-flush edge")
		case bad != nil && strict:
			c.Check(rule, key, a.Pos(), false, detail, bad...)
		default:
			c.Undecidedf(rule, key, a.Pos(), "%s (not a necessary condition of this property by itself, or the flush variable is rewritten before its test; decided under C04.R3)", detail)
		}
	}
}

// ---------------------------------------------------------------------------
// R5 automaton

// Automaton evaluates barrierStatus over all states and command classes.
func Automaton(c *core.Ctx, rule string, strict bool) {
	fn := c.Func(DbSync, "", "barrierStatus")
	pk := c.Pkg(DbSync)
	if fn == nil || pk == nil {
		return
	}
	bm := pk.Types.Scope().Lookup("barrierMap")
	m, lit := MapLiteral(c, DbSync, bm)
	if m == nil {
		c.Undecidedf(rule, "barrierMap", fn.Decl.Pos(), "barrierMap is not a map[string]string literal with distinct constant entries")
		return
	}
	names := []string{"barrierStatusNo", "barrierStatusAdd", "barrierStatusHoldStart", "barrierStatusHolding", "barrierStatusHoldEnd"}
	st := map[string]string{}
	for _, n := range names {
		k := pkgConst(c, n)
		if k == nil || k.Val().Kind() != constant.String {
			c.Undecidedf(rule, "states", fn.Decl.Pos(), "state constant %s not found", n)
			return
		}
		st[n] = constant.StringVal(k.Val())
	}
	yes, no := pkgConst(c, "flushStatusYes"), pkgConst(c, "flushStatusNo")
	if yes == nil || no == nil {
		c.Undecidedf(rule, "states", fn.Decl.Pos(), "flush constants not found")
		return
	}
	name := func(v string) string {
		for _, n := range names {
			if st[n] == v {
				return strings.TrimPrefix(n, "barrierStatus")
			}
		}
		return fmt.Sprintf("%q", v)
	}
	No, Add, HS, Hg, HE := st[names[0]], st[names[1]], st[names[2]], st[names[3]], st[names[4]]
	cmds := []string{"select", "multi", "exec"}
	for k := range m {
		if k != "select" && k != "multi" && k != "exec" {
			cmds = append(cmds, k)
		}
	}
	sort.Strings(cmds[3:])
	cmds = append(cmds, "\x00other")
	globals := map[types.Object]ival{bm: {m: m}}
	type cell struct {
		next  string
		flush bool
		panic bool
	}
	run := func(state, cmd string) (cell, error) {
		res, pan, err := evalTable(c, fn, []constant.Value{constant.MakeString(cmd), constant.MakeString(state)}, globals)
		if err != nil {
			return cell{}, err
		}
		if pan {
			return cell{panic: true}, nil
		}
		if len(res) != 2 || res[0].Kind() != constant.String {
			return cell{}, fmt.Errorf("unexpected result arity")
		}
		f := constant.Compare(res[1], token.EQL, yes.Val())
		if !f && !constant.Compare(res[1], token.EQL, no.Val()) {
			return cell{}, fmt.Errorf("flush result is neither flushStatusYes nor flushStatusNo")
		}
		return cell{next: constant.StringVal(res[0]), flush: f}, nil
	}
	dropped := func(next string) bool { return next == HS || next == HE }
	for _, sn := range names {
		state := st[sn]
		hold := state == HS || state == Hg
		for _, cmd := range cmds {
			label := cmd
			if cmd == "\x00other" {
				label = "other"
			}
			key := strings.TrimPrefix(sn, "barrierStatus") + "/" + label
			got, err := run(state, cmd)
			if err != nil {
				c.Undecidedf(rule, key, fn.Decl.Pos(), "barrierStatus is outside the evaluable subset: %v", err)
				continue
			}
			var ref cell
			switch {
			case hold && cmd == "exec":
				ref = cell{next: HE, flush: true}
			case hold:
				ref = cell{next: Hg}
			case cmd == "select":
				ref = cell{next: Add, flush: true}
			case cmd == "multi":
				ref = cell{next: HS, flush: true}
			case cmd == "exec":
				ref = cell{next: HE, flush: true}
			default:
				ref = cell{next: No}
			}
			show := func(x cell) string {
				if x.panic {
					return "panic"
				}
				return fmt.Sprintf("(%s, flush=%v)", name(x.next), x.flush)
			}
			if got == ref {
				c.Okf(rule, key, fn.Decl.Pos(), "%s -> %s", key, show(got))
				continue
			}
			pos := fn.Decl.Pos()
			if lit != nil {
				pos = lit.Pos()
			}
			marker := cmd == "multi" && !hold || cmd == "exec"
			switch {
			case got.panic && !(cmd == "exec" && !hold):
				c.Failf(rule, key, pos, "state %s, command %s: barrierStatus panics on a stream every master can emit (reference %s)", name(state), label, show(ref))
			case marker && !got.panic && !dropped(got.next) && !(cmd == "exec" && !hold):
				c.Failf(rule, key, pos, "state %s, command %s: next state %s is not a marker state, so the sender caches the source's %s and forwards it to the target (reference %s)", name(state), label, name(got.next), strings.ToUpper(label), show(ref))
			case !marker && !got.panic && dropped(got.next):
				c.Failf(rule, key, pos, "state %s, command %s: next state %s makes the sender discard the command although it is not a MULTI/EXEC marker (reference %s)", name(state), label, name(got.next), show(ref))
			case strict && !hold && cmd == "select" && !got.panic && !got.flush:
				c.Failf(rule, key, pos, "state %s, command select: no flush is requested, so one batch (and its single checkpoint) spans two databases (reference %s)", name(state), show(ref))
			default:
				c.Undecidedf(rule, key, pos, "state %s, command %s: got %s, reference %s; the difference concerns batching or a stream no master emits and is not judged here", name(state), label, show(got), show(ref))
			}
		}
	}
	// illegal state
	got, err := run("\x00illegal", "\x00other")
	switch {
	case err != nil:
		c.Undecidedf(rule, "illegal-state", fn.Decl.Pos(), "barrierStatus is outside the evaluable subset: %v", err)
	case got.panic:
		c.Okf(rule, "illegal-state", fn.Decl.Pos(), "an unknown state panics")
	default:
		c.Undecidedf(rule, "illegal-state", fn.Decl.Pos(), "an unknown state is accepted silently (reference: panic)")
	}
	// the table is keyed by lower-case names: ParseArgs must lower-case the command
	pa := c.Func("pkg/redis", "", "ParseArgs")
	if pa == nil {
		return
	}
	pinfo := pa.Pkg.TypesInfo
	var res0 *ast.Ident
	if r := pa.Decl.Type.Results; r != nil && len(r.List) > 0 && len(r.List[0].Names) > 0 {
		res0 = r.List[0].Names[0]
	}
	if res0 == nil {
		c.Undecidedf(rule, "lower-case/ParseArgs", pa.Decl.Pos(), "ParseArgs has no named command result")
		return
	}
	g := cfgq.Of(c.Program, pa)
	isLower := func(n ast.Node) bool {
		return pat.Stmt("_cmd = strings.ToLower(_x)").Match(pinfo, n, pat.Binds{"_cmd": res0}) != nil
	}
	w := g.Path(cfgq.Query{From: g.Entry(), Avoid: isLower, TargetExit: func(b *cfg.Block, k cfgq.ExitKind) bool {
		if k != cfgq.ExitRet {
			return k == cfgq.ExitFall
		}
		ret := b.Nodes[len(b.Nodes)-1].(*ast.ReturnStmt)
		if len(ret.Results) == 0 {
			return true
		}
		return core.IsNil(pinfo, ret.Results[len(ret.Results)-1]) && pat.Same(pinfo, ret.Results[0], res0)
	}})
	c.Check(rule, "lower-case/ParseArgs", pa.Decl.Pos(), w == nil,
		"ParseArgs must lower-case the command name on every successful return: the master emits SELECT/MULTI/EXEC in upper case and barrierMap/the parser match lower-case names, so otherwise MULTI/EXEC are forwarded and SELECT is not tracked", w...)
}

// ---------------------------------------------------------------------------
// R6 payload identity

// DecimalOf recognises "decimal text of integer expression E" and returns E.
func DecimalOf(info *types.Info, scope ast.Node, e ast.Expr) ast.Expr {
	for depth := 0; depth < 6; depth++ {
		o, ok := SoleOrigin(info, scope, e)
		if !ok || o.Expr == nil || o.Res > 0 || o.Range || o.Op != 0 {
			return nil
		}
		call, ok := ast.Unparen(o.Expr).(*ast.CallExpr)
		if !ok {
			return nil
		}
		f := core.CalleeFunc(info, call)
		switch {
		case core.IsFunc(f, Common, "", "String2Bytes") && len(call.Args) == 1:
			e = call.Args[0]
		case core.IsFunc(f, "strconv", "", "FormatInt") && len(call.Args) == 2:
			if b, ok := core.IntConst(info, call.Args[1]); !ok || b != 10 {
				return nil
			}
			return stripConv(info, call.Args[0])
		case core.IsFunc(f, "strconv", "", "Itoa") && len(call.Args) == 1:
			return stripConv(info, call.Args[0])
		case core.IsFunc(f, "fmt", "", "Sprintf") && len(call.Args) == 2:
			if s, ok := core.StringConst(info, call.Args[0]); !ok || s != "%d" && s != "%v" {
				return nil
			}
			return stripConv(info, call.Args[1])
		case core.IsFunc(f, "fmt", "", "Sprint") && len(call.Args) == 1:
			return stripConv(info, call.Args[0])
		default:
			return nil
		}
	}
	return nil
}

func stripConv(info *types.Info, e ast.Expr) ast.Expr {
	for {
		e = ast.Unparen(e)
		call, ok := e.(*ast.CallExpr)
		if !ok || len(call.Args) != 1 {
			return e
		}
		if tv, ok := info.Types[call.Fun]; !ok || !tv.IsType() {
			return e
		}
		e = call.Args[0]
	}
}

func isTargetDB(info *types.Info, e ast.Expr) bool {
	return core.IsFieldNamed(info, e, "Configuration", "TargetDB")
}

// selectArg returns the integer expression whose decimal text is the single
// argument of an enqueued SELECT.
func selectArg(info *types.Info, scope ast.Node, args ast.Expr) ast.Expr {
	lit, ok := ast.Unparen(args).(*ast.CompositeLit)
	if !ok || len(lit.Elts) != 1 {
		return nil
	}
	return DecimalOf(info, scope, lit.Elts[0])
}

func r6(c *core.Ctx, p *Parser) {
	const rule = "R6.payload"
	info := p.Info
	body := p.Fn.Decl.Body
	idx := map[string]int{}
	for _, e := range p.Sends {
		idx[e.Name]++
		key := fmt.Sprintf("%s#%d", e.Name, idx[e.Name])
		switch e.Name {
		case "command":
			// Cmd: first result of ParseArgs(resp); Args: element-wise copy of HandleFilterKeyWithCommand(cmd, argv)[0]
			var pa *ast.CallExpr
			okCmd := false
			if o, ok := SoleOrigin(info, body, e.Field["Cmd"]); ok {
				if call, ok := CallOrigin(info, o, "pkg/redis", "", "ParseArgs", 0); ok && len(call.Args) == 1 && IsObj(info, p.Resp)(call.Args[0]) {
					pa, okCmd = call, true
				}
			}
			if okCmd {
				c.Okf(rule, key+"/cmd", e.Stmt.Pos(), "Cmd is the command name parsed from the response decoded in this iteration")
			} else if v, isConst := core.StringConst(info, e.Field["Cmd"]); isConst {
				c.Failf(rule, key+"/cmd", e.Stmt.Pos(), "every source command is forwarded under the fixed name %q", v)
			} else {
				c.Undecidedf(rule, key+"/cmd", e.Stmt.Pos(), "cannot trace Cmd `%s` to ParseArgs(resp)", c.Src(e.Field["Cmd"]))
			}
			checkArgs(c, p, e, key, pa)
			if lastDb := dbVar(info, e.Field["Db"]); lastDb != nil {
				checkLastDb(c, p, key, lastDb)
			} else {
				c.Undecidedf(rule, key+"/db", e.Stmt.Pos(), "Db `%s` is not a local variable", c.Src(e.Field["Db"]))
			}
		case "start-db":
			// handled by StartDb below
		case "select":
			arg := selectArg(info, body, e.Field["Args"])
			db := e.Field["Db"]
			switch {
			case arg == nil:
				c.Undecidedf(rule, key+"/arg-is-db", e.Stmt.Pos(), "cannot read the SELECT argument `%s` as the decimal text of an integer", c.Src(e.Field["Args"]))
			case pat.Same(info, arg, db) || isTargetDB(info, arg) && isTargetDB(info, db):
				c.Okf(rule, key+"/arg-is-db", e.Stmt.Pos(), "the SELECT argument and the Db tag are the same value")
			default:
				c.Undecidedf(rule, key+"/arg-is-db", e.Stmt.Pos(), "SELECT argument `%s` and Db tag `%s` are different expressions", c.Src(arg), c.Src(db))
			}
			fixedTargetDb(c, p, e, rule, key)
		}
	}
	StartDb(c, p, rule)
}

// StartDb checks that the resumed start database is enqueued first (also used by C04.R5).
func StartDb(c *core.Ctx, p *Parser, rule string) {
	n := 0
	for _, e := range p.Sends {
		if e.Name == "start-db" {
			n++
			startDb(c, p, e, rule, fmt.Sprintf("start-db#%d", n))
		}
	}
	if n == 0 {
		if len(FieldWrites(c, Syncer, "startDbId")) > 0 {
			c.Failf(rule, "start-db", p.Fn.Decl.Pos(), "Sync records the checkpoint's database in ds.startDbId but parseSourceCommand never enqueues a SELECT for it: after PSYNC CONTINUE the stream carries no SELECT of its own, so the resumed commands run in database 0")
		} else {
			c.Undecidedf(rule, "start-db", p.Fn.Decl.Pos(), "no start-database SELECT before the parser loop")
		}
	}
}

func dbVar(info *types.Info, e ast.Expr) *types.Var {
	id, ok := ast.Unparen(e).(*ast.Ident)
	if !ok {
		return nil
	}
	v, _ := core.ObjOf(info, id).(*types.Var)
	return v
}

func checkArgs(c *core.Ctx, p *Parser, e *Enq, key string, pa *ast.CallExpr) {
	const rule = "R6.payload"
	info := p.Info
	body := p.Fn.Decl.Body
	k := key + "/args"
	und := func(format string, a ...interface{}) { c.Undecidedf(rule, k, e.Stmt.Pos(), format, a...) }
	id, ok := ast.Unparen(e.Field["Args"]).(*ast.Ident)
	if !ok {
		und("Args `%s` is not a local slice", c.Src(e.Field["Args"]))
		return
	}
	var src ast.Expr
	for _, o := range Origins(info, body, id) {
		call, _ := ast.Unparen(o.Expr).(*ast.CallExpr)
		bi, _ := core.Callee(info, call).(*types.Builtin)
		switch {
		case call != nil && bi != nil && bi.Name() == "make":
			n, ok := int64(-1), false
			if len(call.Args) >= 2 {
				n, ok = core.IntConst(info, call.Args[1])
			}
			if !ok || n != 0 {
				c.Failf(rule, k, call.Pos(), "`%s` starts the argument list with nil elements before the copied ones: the forwarded command has extra arguments", c.Src(call))
				return
			}
		case call != nil && bi != nil && bi.Name() == "append" && len(call.Args) == 2 && !call.Ellipsis.IsValid() && pat.Same(info, call.Args[0], id):
			ro, ok := SoleOrigin(info, body, call.Args[1])
			if !ok || !ro.Range || ro.Res != 1 {
				und("appended element `%s` is not the value of a range loop", c.Src(call.Args[1]))
				return
			}
			rs := ro.Stmt.(*ast.RangeStmt)
			if !(rs.Pos() <= call.Pos() && call.End() <= rs.End()) {
				und("append outside the range that binds its element")
				return
			}
			// one append per element, executed on every iteration
			n := 0
			for _, st := range rs.Body.List {
				if as, ok := st.(*ast.AssignStmt); ok && len(as.Rhs) == 1 && ast.Unparen(as.Rhs[0]) == ast.Expr(call) {
					n++
				}
			}
			if n != 1 {
				und("the append is not a top-level statement of the range body")
				return
			}
			src = rs.X
		default:
			und("unexpected definition of the argument slice: `%s`", c.Src(o.Stmt))
			return
		}
	}
	if src == nil {
		c.Failf(rule, k, e.Stmt.Pos(), "the argument slice is never filled: every command is forwarded without arguments")
		return
	}
	o, ok := SoleOrigin(info, body, src)
	if !ok {
		und("cannot trace the copied slice `%s`", c.Src(src))
		return
	}
	if call, ok := CallOrigin(info, o, "redis-shake/filter", "", "HandleFilterKeyWithCommand", 0); ok && len(call.Args) == 2 {
		// its inputs are the command and arguments of the same ParseArgs call
		good := pa != nil
		for i, a := range call.Args {
			ao, ok := SoleOrigin(info, body, a)
			if !ok || ast.Unparen(ao.Expr) != ast.Expr(pa) || ao.Res != i {
				good = false
			}
		}
		if good {
			c.Okf(rule, k, e.Stmt.Pos(), "Args is an element-wise copy of HandleFilterKeyWithCommand(cmd, argv) of this iteration's command")
		} else {
			und("HandleFilterKeyWithCommand is not applied to (cmd, argv) of this iteration's ParseArgs")
		}
		return
	}
	if call, ok := CallOrigin(info, o, "pkg/redis", "", "ParseArgs", 1); ok && call == pa {
		c.Failf(rule, k, e.Stmt.Pos(), "Args copies the unfiltered argument list: keys removed by the key filter are forwarded to the target")
		return
	}
	und("the copied slice `%s` does not come from HandleFilterKeyWithCommand", c.Src(src))
}

// checkLastDb: every definition of the Db variable is -1, the parsed SELECT argument or target.db.
func checkLastDb(c *core.Ctx, p *Parser, key string, v *types.Var) {
	const rule = "R6.payload"
	info := p.Info
	body := p.Fn.Decl.Body
	n := 0
	var ref ast.Expr
	core.Inspect(body, func(m ast.Node) bool {
		if x, ok := m.(*ast.Ident); ok && ref == nil && core.ObjOf(info, x) == types.Object(v) {
			ref = x
		}
		return true
	})
	for _, o := range Origins(info, body, ref) {
		n++
		k := fmt.Sprintf("%s/db-source#%d", key, n)
		pos := token.NoPos
		if o.Stmt != nil {
			pos = o.Stmt.Pos()
		}
		switch {
		case o.Zero:
			c.Okf(rule, k, pos, "zero value")
		case o.Op != 0 || o.Range || o.Res > 0:
			c.Failf(rule, k, pos, "the database tag is changed by `%s`, not taken from a SELECT: commands are tagged with a database the source never selected", c.Src(o.Stmt))
		case isTargetDB(info, o.Expr):
			c.Okf(rule, k, pos, "conf.Options.TargetDB")
		default:
			if _, isConst := core.IntConst(info, o.Expr); isConst && o.Stmt != nil {
				if _, isSpec := o.Stmt.(*ast.ValueSpec); isSpec {
					c.Okf(rule, k, pos, "initial value before the first SELECT")
					continue
				}
				c.Failf(rule, k, pos, "the database tag is set to a constant by `%s`", c.Src(o.Stmt))
				continue
			}
			if call, ok := CallOrigin(info, o, "strconv", "", "Atoi", 0); ok && len(call.Args) == 1 {
				ao, ok := SoleOrigin(info, body, call.Args[0])
				ix, _ := ast.Unparen(ao.Expr).(*ast.IndexExpr)
				if ok && ix != nil {
					if i0, isC := core.IntConst(info, ix.Index); isC && i0 == 0 {
						if xo, ok := SoleOrigin(info, body, ix.X); ok {
							if pc, ok := CallOrigin(info, xo, "pkg/redis", "", "ParseArgs", 1); ok && len(pc.Args) == 1 && IsObj(info, p.Resp)(pc.Args[0]) {
								c.Okf(rule, k, pos, "the argument of the parsed SELECT")
								continue
							}
						}
					}
				}
			}
			c.Undecidedf(rule, k, pos, "cannot trace `%s` to the SELECT argument or target.db", c.Src(o.Expr))
		}
	}
}

// startDb: `if ds.startDbId != 0 { enqueue select <startDbId> }` before the loop.
func startDb(c *core.Ctx, p *Parser, e *Enq, rule, key string) {
	info := p.Info
	isStart := func(x ast.Expr) bool { return core.IsFieldNamed(info, x, Syncer, "startDbId") }
	arg := selectArg(info, p.Fn.Decl.Body, e.Field["Args"])
	cmd, _ := core.StringConst(info, e.Field["Cmd"])
	switch {
	case !strings.EqualFold(cmd, "select"):
		c.Undecidedf(rule, key+"/select", e.Stmt.Pos(), "the command enqueued before the loop is not a constant SELECT")
	case arg != nil && isStart(arg) && isStart(e.Field["Db"]):
		c.Okf(rule, key+"/select", e.Stmt.Pos(), "SELECT <ds.startDbId>, tagged with the same database")
	case arg != nil && (isStart(arg) || isStart(e.Field["Db"])):
		c.Failf(rule, key+"/select", e.Stmt.Pos(), "the start SELECT names `%s` but is tagged Db `%s`: the resumed stream continues in another database than the checkpoint recorded", c.Src(arg), c.Src(e.Field["Db"]))
	default:
		c.Undecidedf(rule, key+"/select", e.Stmt.Pos(), "cannot read the start SELECT's argument/Db as ds.startDbId")
	}
	zero := func(ft cfgq.Fact) bool {
		eq, ok := EqFact(ft, isStart, func(x ast.Expr) bool { v, ok := core.IntConst(info, x); return ok && v == 0 })
		return ok && eq
	}
	notSend := func(n ast.Node) bool { return n == ast.Node(e.Stmt) }
	w := p.G.Path(cfgq.Query{From: p.G.Entry(), Avoid: notSend, AvoidEdge: p.Fl.Edge(zero), Target: p.IsDecode})
	if w != nil {
		// a guard on startDbId of another form is not judged
		anyTest := func(b *cfg.Block, s int) bool {
			cond := cfgq.CondOf(b)
			return cond != nil && core.MentionsField(info, cond, Syncer, "startDbId")
		}
		if p.G.Path(cfgq.Query{From: p.G.Entry(), Avoid: notSend, AvoidEdge: anyTest, Target: p.IsDecode}) == nil {
			c.Undecidedf(rule, key+"/first", e.Stmt.Pos(), "the start SELECT is guarded by a test of ds.startDbId that is not the known `!= 0` form")
			return
		}
	}
	c.Check(rule, key+"/first", e.Stmt.Pos(), w == nil,
		"when ds.startDbId != 0 the SELECT of the resumed database must be enqueued before the first source command is decoded: a stream resumed by PSYNC CONTINUE carries no SELECT of its own, so the commands would run in database 0", w...)
}

// fixedTargetDb: with target.db configured, the injected SELECT may only be
// skipped when the *target* is known to be in that database.
func fixedTargetDb(c *core.Ctx, p *Parser, e *Enq, rule, key string) {
	info := p.Info
	body := p.Fn.Decl.Body
	k := key + "/fixed-target-db"
	// the guard: an edge `TargetDB == v` / `TargetDB != v` (v a local) on which the enqueue is skipped
	var guard *cfg.Block
	var gv types.Object
	for _, b := range p.G.CFG.Blocks {
		if !b.Live || len(b.Succs) != 2 {
			continue
		}
		for si := range b.Succs {
			for _, ft := range p.Fl.Facts(b, si) {
				be, ok := ast.Unparen(ft.Expr).(*ast.BinaryExpr)
				if !ok || be.Op != token.EQL && be.Op != token.NEQ {
					continue
				}
				for _, pair := range [][2]ast.Expr{{be.X, be.Y}, {be.Y, be.X}} {
					if v := dbVar(info, pair[1]); isTargetDB(info, pair[0]) && v != nil && !v.IsField() {
						guard, gv = b, v
					}
				}
			}
		}
	}
	if guard == nil {
		// no skip guard: the SELECT must then be unconditional in its arm; nothing to judge
		c.Okf(rule, k, e.Stmt.Pos(), "the injected SELECT is not skipped by a comparison with a local database variable")
		return
	}
	eqEdge := func(ft cfgq.Fact) bool {
		eq, ok := EqFact(ft, func(x ast.Expr) bool { return isTargetDB(info, x) }, IsObj(info, gv))
		return ok && eq
	}
	// is the enqueue really skipped on the `==` edge?
	skip := p.G.Path(cfgq.Query{From: cfgq.Point{B: guard, I: len(guard.Nodes) - 1}, After: true, Avoid: p.IsSend, Target: p.IsDecode,
		AvoidEdge: func(b *cfg.Block, s int) bool { return b == guard && !p.Fl.Edge(eqEdge)(b, s) }})
	if skip == nil {
		c.Okf(rule, k, e.Stmt.Pos(), "no path skips the SELECT when the compared variable equals target.db")
		return
	}
	// does the compared variable hold the *source's* database at the guard?
	var srcAssign ast.Node
	isAssignOf := func(n ast.Node) (ast.Expr, bool) {
		as, ok := n.(*ast.AssignStmt)
		if !ok || len(as.Lhs) != len(as.Rhs) {
			return nil, false
		}
		for i, l := range as.Lhs {
			if IsObj(info, gv)(l) {
				return as.Rhs[i], true
			}
		}
		return nil, false
	}
	for _, pt := range p.G.Points(func(n ast.Node) bool { _, ok := isAssignOf(n); return ok }) {
		rhs, _ := isAssignOf(pt.Node())
		o, ok := SoleOrigin(info, body, rhs)
		if !ok {
			continue
		}
		if _, ok := CallOrigin(info, o, "strconv", "", "Atoi", 0); !ok {
			continue
		}
		gn := guard.Nodes[len(guard.Nodes)-1]
		w := p.G.Path(cfgq.Query{From: pt, After: true, Target: func(n ast.Node) bool { return n == gn },
			Avoid: func(n ast.Node) bool { _, ok := isAssignOf(n); return ok || p.IsDecode(n) }})
		if w != nil {
			srcAssign = pt.Node()
		}
	}
	if srcAssign == nil {
		c.Okf(rule, k, e.Stmt.Pos(), "the variable compared with target.db does not hold the source's database at the comparison")
		return
	}
	// any other SELECT on the target connection at start would make the skip safe: not judged then
	preselected := false
	for _, b := range AllBodies(c) {
		if b.Pkg.PkgPath != p.Fn.Pkg.PkgPath || b.Decl.Name.Name != "syncCommand" && b.Decl.Name.Name != "sendTargetCommand" {
			continue
		}
		core.Inspect(b.Root(), func(n ast.Node) bool {
			if call, ok := n.(*ast.CallExpr); ok && len(call.Args) > 0 {
				_, isSend := ConnMethod(b.Pkg.TypesInfo, call, "Send")
				_, isDo := ConnMethod(b.Pkg.TypesInfo, call, "Do")
				if v, ok := core.StringConst(b.Pkg.TypesInfo, call.Args[0]); ok && (isSend || isDo) && strings.EqualFold(v, "select") {
					preselected = true
				}
			}
			return true
		})
	}
	if preselected {
		c.Undecidedf(rule, k, e.Stmt.Pos(), "the target connection is selected elsewhere; cannot judge the skipped SELECT")
		return
	}
	c.Check(rule, k, e.Stmt.Pos(), false,
		fmt.Sprintf("with target.db = k the injected `SELECT k` is skipped whenever the source's own SELECT argument (`%s`) equals k, although that says nothing about the database the target connection is in. "+
			"Witness: target.db = 3, fresh target connection (database 0), source stream `SELECT 3; SET a 1`: no SELECT is ever sent and `SET a 1` is applied in database 0 instead of the configured database 3", c.Src(srcAssign)), skip...)
}

// ---------------------------------------------------------------------------
// R7 filter polarity

func r7(c *core.Ctx, p *Parser) {
	const rule = "R7.polarity"
	info := p.Info
	body := p.Fn.Decl.Body
	// plain verdict variables: bool locals only ever assigned true/false or an un-negated filter.* result
	plain := map[types.Object]bool{}
	verdict := func(o types.Object) bool {
		if v, ok := plain[o]; ok {
			return v
		}
		ok := true
		var ref ast.Expr
		core.Inspect(body, func(m ast.Node) bool {
			if x, isID := m.(*ast.Ident); isID && ref == nil && core.ObjOf(info, x) == o {
				ref = x
			}
			return true
		})
		if ref == nil {
			ok = false
		} else {
			for _, or := range Origins(info, body, ref) {
				if or.Zero {
					continue
				}
				if or.Expr == nil || or.Op != 0 || or.Range {
					ok = false
					continue
				}
				if tv, has := info.Types[or.Expr]; has && tv.Value != nil {
					continue
				}
				call, isCall := ast.Unparen(or.Expr).(*ast.CallExpr)
				f := core.CalleeFunc(info, call)
				if !isCall || f == nil || f.Pkg() == nil || !strings.HasSuffix(f.Pkg().Path(), "redis-shake/filter") {
					ok = false
				}
			}
		}
		plain[o] = ok
		return ok
	}
	positive := func(ft cfgq.Fact) bool {
		o, val := BoolFact(info, ft)
		return o != nil && val
	}
	unknown := func(ft cfgq.Fact) bool { // a test the rule cannot interpret as a plain negative verdict
		o, val := BoolFact(info, ft)
		if o != nil {
			return val || !verdict(o)
		}
		found := false
		ast.Inspect(ft.Expr, func(m ast.Node) bool {
			if id, ok := m.(*ast.Ident); ok {
				if v, ok := core.ObjOf(info, id).(*types.Var); ok && types.Identical(v.Type().Underlying(), types.Typ[types.Bool]) {
					found = true
				}
			}
			return true
		})
		return found
	}
	k := 0
	for _, pt := range p.G.Points(p.counts(c)) {
		if !(p.Loop.Pos() <= pt.Node().Pos() && pt.Node().End() <= p.Loop.End()) {
			continue
		}
		k++
		tn := pt.Node()
		key := fmt.Sprintf("filtered-only-on-verdict#%d", k)
		tgt := func(n ast.Node) bool { return n == tn }
		wf := p.G.Path(cfgq.Query{From: pt, After: true, Avoid: p.IsDecode, Target: p.IsSend})
		c.Check(rule, fmt.Sprintf("filtered-means-dropped#%d", k), tn.Pos(), wf == nil,
			"a command counted as filtered must not be enqueued afterwards: on this path a command rejected by the db/command/key filter is still applied on the target", wf...)
		w := p.G.Path(cfgq.Query{From: p.DecodePt, After: true, AvoidEdge: p.Fl.Edge(positive), Target: tgt, Avoid: p.IsDecode})
		if w == nil {
			c.Okf(rule, key, tn.Pos(), "the drop site is reachable only through a positive filter verdict")
			continue
		}
		w2 := p.G.Path(cfgq.Query{From: p.DecodePt, After: true, AvoidEdge: p.Fl.Edge(unknown), Target: tgt, Avoid: p.IsDecode})
		if w2 != nil {
			c.Check(rule, key, tn.Pos(), false, "a command is dropped and counted as filtered on a path on which every filter verdict is negative (or none was consulted): commands that survive the filters are not forwarded", w2...)
		} else {
			c.Undecidedf(rule, key, tn.Pos(), "the drop site is reached through a condition whose polarity the rule cannot interpret")
		}
	}
	if k == 0 {
		c.Undecidedf(rule, "filtered-only-on-verdict", p.Loop.Pos(), "no filter counter site in the parser loop")
	}
}

// ---------------------------------------------------------------------------
// R8 ticker flush

func r8(c *core.Ctx, s *Sender) {
	const rule = "R8.ticker"
	info := s.Info
	if s.Tick == nil {
		c.Failf(rule, "arm", s.Select.Pos(), "the sender's select has no ticker arm: a command cached below the count/size thresholds is never flushed while the source stream is idle")
		return
	}
	c.Okf(rule, "arm", s.Tick.Pos(), "the sender's select has a ticker arm")
	// period: constant, at most one second
	tsel := ast.Unparen(s.TickChan).(*ast.SelectorExpr)
	perOK := false
	if o, ok := SoleOrigin(info, s.Fn.Decl.Body, tsel.X); ok {
		if call, ok := CallOrigin(info, o, "time", "", "NewTicker", 0); ok && len(call.Args) == 1 {
			if d, ok := core.IntConst(info, call.Args[0]); ok && d > 0 && d <= 1e9 {
				perOK = true
				c.Okf(rule, "period", call.Pos(), "ticker period is the constant %dms", d/1e6)
			}
		}
	}
	if !perOK {
		c.Undecidedf(rule, "period", s.Tick.Pos(), "the ticker is not created once by time.NewTicker with a constant period of at most 1s")
	}
	yes, no := pkgConst(c, "flushStatusYes"), pkgConst(c, "flushStatusNo")
	if yes == nil || no == nil || s.Fs == nil {
		c.Undecidedf(rule, "flush-requested", s.Tick.Pos(), "flush constants / flush variable not found")
		return
	}
	setYes := func(n ast.Node) bool {
		as, ok := n.(*ast.AssignStmt)
		if !ok || len(as.Lhs) != len(as.Rhs) {
			return false
		}
		for i, l := range as.Lhs {
			if IsObj(info, s.Fs)(l) && IsConstVal(info, yes)(as.Rhs[i]) {
				return true
			}
		}
		return false
	}
	setAny := func(n ast.Node) bool {
		as, ok := n.(*ast.AssignStmt)
		if !ok {
			return false
		}
		for _, l := range as.Lhs {
			if IsObj(info, s.Fs)(l) {
				return true
			}
		}
		return false
	}
	noFlush := func(ft cfgq.Fact) bool {
		if eq, ok := EqFact(ft, IsObj(info, s.Fs), IsConstVal(info, yes)); ok && !eq {
			return true
		}
		eq, ok := EqFact(ft, IsObj(info, s.Fs), IsConstVal(info, no))
		return ok && eq
	}
	call := IsCallTo(info, s.SendFunc)
	n := 0
	reach := BlocksFrom(cfgq.Point{B: s.TickBody, I: 0}, false, s.IsRecv)
	for _, pt := range s.G.Points(setYes) {
		if !reach[pt.B] && pt.B != s.TickBody {
			continue
		}
		if !(s.Tick.Pos() <= pt.Node().Pos() && pt.Node().End() <= s.Tick.End()) {
			continue
		}
		n++
		w := s.G.Path(cfgq.Query{From: pt, After: true, Avoid: cfgq.Or(call, setAny), AvoidEdge: s.Fl.Edge(noFlush), Target: s.IsRecv, TargetExit: cfgq.NormalExit})
		c.Check(rule, fmt.Sprintf("flush-requested#%d", n), pt.Node().Pos(), w == nil,
			"once the ticker arm requests a flush, sendFunc() must run before the next select: otherwise the cached commands wait for further traffic", w...)
	}
	if n == 0 {
		c.Failf(rule, "flush-requested", s.Tick.Pos(), "the ticker arm never requests a flush (no `flush = flushStatusYes`): cached commands below the thresholds are not sent while the stream is idle")
	}
}
