package c03

// Rules on the replication offset shared by C04 (checkpoint offsets) and C08
// (ACK / reconnect offsets): who writes DbSyncer.sourceOffset, and the
// `offset+1 unless -1` contract of common.SendPSyncContinue.

import (
	"fmt"
	"go/ast"
	"go/token"
	"go/types"
	"strings"

	"rscheck/cfgq"
	"rscheck/core"
)

// IsSourceOffset: e selects DbSyncer.sourceOffset.
func IsSourceOffset(info *types.Info, e ast.Expr) bool {
	return FieldIs(info, e, Syncer, "sourceOffset")
}

// OffWriter is one classified write of DbSyncer.sourceOffset.
type OffWriter struct {
	W      FieldWrite
	Class  string // "parser", "before-start", "concurrent", "unknown"
	Why    string
	Gated  bool // inside `case <-ds.WaitFull:` (runs only once the incremental phase has begun)
	InLoop bool
	Name   string // construct name used in the obligation key: "ack-goroutine" or the body name
}

func hasMutex(b MBody) bool {
	found := false
	core.Inspect(b.Root(), func(n ast.Node) bool {
		if call, ok := n.(*ast.CallExpr); ok {
			if f := core.CalleeFunc(b.Pkg.TypesInfo, call); f != nil && f.Pkg() != nil && f.Pkg().Path() == "sync" && (f.Name() == "Lock" || f.Name() == "RLock") {
				found = true
			}
		}
		return true
	})
	return found
}

// gRoot is one goroutine that may execute a given statement.
type gRoot struct {
	Kind      string // "golit", "gofn", "sync", "parser", "unknown"
	Lit       *ast.FuncLit
	Fn        *types.Func
	InSyncCmd bool     // the go statement stands in syncCommand, next to the parser's
	Loop      bool     // the statement, or a call on the chain leading to it, lies in a loop
	SyncNode  ast.Node // the statement of Sync through which the chain passes
}

// nodeHas reports whether root contains, itself or through module callees up
// to depth levels, a node accepted by pred.
func nodeHas(c *core.Ctx, info *types.Info, root ast.Node, depth int, pred func(*types.Info, ast.Node) bool) bool {
	found := false
	core.InspectAll(root, func(n ast.Node) bool {
		if found {
			return false
		}
		if pred(info, n) {
			found = true
		} else if call, ok := n.(*ast.CallExpr); ok && CalleeHas(c, info, call, depth, pred) {
			found = true
		}
		return !found
	})
	return found
}

// goroutinesOf finds the goroutines that may execute node (a statement of body b),
// following plain call sites and locally bound closures upwards.
func goroutinesOf(c *core.Ctx, b MBody, node ast.Node, depth int) []gRoot {
	syncFn := c.LookupFunc(DbSync, Syncer, "Sync")
	syncCmd := c.LookupFunc(DbSync, Syncer, "syncCommand")
	parse := c.LookupFunc(DbSync, Syncer, "parseSourceCommand")
	sites := GoSites(c)
	info := b.Pkg.TypesInfo
	loopHere := InLoop(b.Root(), node)
	mark := func(rs []gRoot) []gRoot {
		for i := range rs {
			rs[i].Loop = rs[i].Loop || loopHere
		}
		return rs
	}
	if depth == 0 {
		return []gRoot{{Kind: "unknown"}}
	}
	if b.Lit != nil {
		// innermost go-started literal around (or equal to) this literal
		var goLit *ast.FuncLit
		for _, pn := range core.PathTo(b.Decl.Body, b.Lit) {
			if fl, ok := pn.(*ast.FuncLit); ok {
				for _, g := range sites {
					if g.Lit == fl {
						goLit = fl
					}
				}
			}
		}
		if goLit != nil {
			return mark([]gRoot{{Kind: "golit", Lit: goLit, Loop: goLit != b.Lit && InLoop(goLit, b.Lit)}})
		}
		// a literal bound to a local and called in place runs where it is called
		var out []gRoot
		core.InspectAll(b.Decl.Body, func(m ast.Node) bool {
			as, ok := m.(*ast.AssignStmt)
			if !ok || len(as.Rhs) != 1 || len(as.Lhs) != 1 || ast.Unparen(as.Rhs[0]) != ast.Expr(b.Lit) {
				return true
			}
			id, ok := as.Lhs[0].(*ast.Ident)
			if !ok {
				return true
			}
			obj := core.ObjOf(info, id)
			for _, ob := range AllBodies(c) {
				if ob.Decl != b.Decl {
					continue
				}
				core.Inspect(ob.Root(), func(k ast.Node) bool {
					if call, ok := k.(*ast.CallExpr); ok {
						if cid, ok := ast.Unparen(call.Fun).(*ast.Ident); ok && core.ObjOf(info, cid) == obj {
							out = append(out, goroutinesOf(c, ob, call, depth-1)...)
						}
					}
					return true
				})
			}
			return true
		})
		if len(out) == 0 {
			return []gRoot{{Kind: "unknown"}}
		}
		return mark(out)
	}
	switch {
	case parse != nil && b.Decl == parse.Decl:
		return mark([]gRoot{{Kind: "parser"}})
	case syncFn != nil && b.Decl == syncFn.Decl:
		return mark([]gRoot{{Kind: "sync", SyncNode: node}})
	}
	declObj, _ := info.Defs[b.Decl.Name].(*types.Func)
	calls := CallsTo(c, declObj)
	if len(calls) == 0 {
		return []gRoot{{Kind: "unknown"}}
	}
	var out []gRoot
	for _, cs := range calls {
		if cs.IsGo {
			out = append(out, gRoot{Kind: "gofn", Fn: declObj, InSyncCmd: syncCmd != nil && cs.In.Lit == nil && cs.In.Decl == syncCmd.Decl})
			continue
		}
		out = append(out, goroutinesOf(c, cs.In, cs.Call, depth-1)...)
	}
	return mark(out)
}

// OffsetWriters classifies every write of ds.sourceOffset by the goroutine
// that executes it relative to the parser goroutine, which reads the field
// without synchronisation for every command it enqueues.
func OffsetWriters(c *core.Ctx) []OffWriter {
	syncFn := c.Func(DbSync, Syncer, "Sync")
	syncCmd := c.Func(DbSync, Syncer, "syncCommand")
	parse := c.Func(DbSync, Syncer, "parseSourceCommand")
	if syncFn == nil || syncCmd == nil || parse == nil {
		return nil
	}
	ack := c.LookupFunc(Common, "", "SendPSyncAck")
	gs := cfgq.Of(c.Program, syncFn)
	startCall := gs.HasCall(func(call *ast.CallExpr, callee types.Object) bool { return callee == types.Object(syncCmd.Obj) })
	// afterStart: node of Sync reachable after the call that starts the incremental goroutines
	afterStart := func(n ast.Node) bool {
		pt, ok := gs.Find(n)
		if !ok {
			return true
		}
		tn := pt.Node()
		for _, sp := range gs.Points(startCall) {
			if gs.Path(cfgq.Query{From: sp, After: true, Target: func(m ast.Node) bool { return m == tn }}) != nil {
				return true
			}
		}
		return false
	}
	sendsAck := func(info *types.Info, root ast.Node) bool {
		return ack != nil && nodeHas(c, info, root, 3, func(i *types.Info, m ast.Node) bool {
			call, ok := m.(*ast.CallExpr)
			return ok && core.CalleeFunc(i, call) == ack.Obj
		})
	}
	var out []OffWriter
	for _, w := range FieldWrites(c, Syncer, "sourceOffset") {
		ow := OffWriter{W: w, Class: "unknown", Name: w.In.Name}
		b := w.In
		info := b.Pkg.TypesInfo
		ow.InLoop = InLoop(b.Root(), w.Stmt)
		for _, pn := range core.PathTo(b.Root(), w.Stmt) {
			if cc, ok := pn.(*ast.CommClause); ok && cc.Comm != nil {
				ast.Inspect(cc.Comm, func(m ast.Node) bool {
					if u, ok := m.(*ast.UnaryExpr); ok && u.Op == token.ARROW && core.IsFieldNamed(info, u.X, Syncer, "WaitFull") {
						ow.Gated = true
					}
					return true
				})
			}
		}
		switch {
		case w.Tok == token.AND:
			ow.Why = "the address of the field is taken"
			out = append(out, ow)
			continue
		case hasMutex(b):
			ow.Why = "the body takes a lock; lock discipline of the field is not analysed"
			out = append(out, ow)
			continue
		}
		conc, unknown, okClass, okWhy := "", "", "", ""
		for _, r := range goroutinesOf(c, b, w.Stmt, 4) {
			switch r.Kind {
			case "parser":
				okClass, okWhy = "parser", "written by the goroutine that reads it"
			case "sync":
				if afterStart(r.SyncNode) {
					unknown = "written by Sync (or a function it calls) after syncCommand was called"
				} else if okClass == "" {
					okClass, okWhy = "before-start", "written by Sync, or a function Sync calls, before it starts the incremental goroutines"
				}
			case "golit", "gofn":
				what := "a goroutine started with `go func(){...}()`"
				var root ast.Node = r.Lit
				rinfo := info
				if r.Kind == "gofn" {
					what = "a function started with `go`"
					root = nil
					if fn := c.FnOf(r.Fn); fn != nil {
						root, rinfo = fn.Decl.Body, fn.Pkg.TypesInfo
					}
				}
				switch {
				case r.InSyncCmd:
					conc = "written by a goroutine that syncCommand starts next to the parser"
				case r.Loop || ow.Gated:
					conc = "written repeatedly by " + what
				default:
					unknown = "written once by a separately started goroutine"
				}
				if conc != "" && root != nil && sendsAck(rinfo, root) {
					ow.Name = "ack-goroutine"
				}
			default:
				unknown = "cannot tell which goroutine executes the write"
			}
		}
		switch {
		case conc != "":
			ow.Class, ow.Why = "concurrent", conc
		case unknown != "":
			ow.Why = unknown
		case okClass != "":
			ow.Class, ow.Why = okClass, okWhy
		default:
			ow.Why = "cannot tell which goroutine executes the write"
		}
		out = append(out, ow)
	}
	return out
}

// ReportWriters turns the classification into obligations under rule.
// It returns the number of sites reported.
func ReportWriters(c *core.Ctx, rule, prefix, consequence string) int {
	ws := OffsetWriters(c)
	for _, ow := range ws {
		key := prefix + ow.Name
		pos := ow.W.Stmt.Pos()
		switch ow.Class {
		case "parser", "before-start":
			c.Okf(rule, key, pos, "%s", ow.Why)
		case "concurrent":
			gate := ""
			if ow.Gated {
				gate = " The write sits under `case <-ds.WaitFull:`, i.e. it starts exactly when Sync closes WaitFull and launches parseSourceCommand."
			}
			c.Check(rule, key, pos, false, fmt.Sprintf("`%s`: ds.sourceOffset is %s while parseSourceCommand reads it unsynchronised as the base of every command's offset.%s %s",
				c.Src(ow.W.Stmt), ow.Why, gate, consequence))
		default:
			c.Undecidedf(rule, key, pos, "`%s`: %s", c.Src(ow.W.Stmt), ow.Why)
		}
	}
	return len(ws)
}

// ---------------------------------------------------------------------------

// PSyncContinue checks the callee contract of common.SendPSyncContinue: the
// PSYNC command carries inOffset+1 unless inOffset is -1, and on +CONTINUE the
// unincremented offset is returned.
func PSyncContinue(c *core.Ctx, rule string) {
	fn := c.Func(Common, "", "SendPSyncContinue")
	if fn == nil {
		return
	}
	info := fn.Pkg.TypesInfo
	g := cfgq.Of(c.Program, fn)
	fl := NewFlow(g).Inlining(c.Program, info, fn.Decl, fn.Pkg.PkgPath)
	var params []*ast.Ident
	for _, f := range fn.Decl.Type.Params.List {
		params = append(params, f.Names...)
	}
	// the PSYNC command: redis.NewCommand("psync", runid, off)
	var cmd *ast.CallExpr
	core.Inspect(fn.Decl.Body, func(n ast.Node) bool {
		if call, ok := n.(*ast.CallExpr); ok && core.IsFunc(core.CalleeFunc(info, call), "pkg/redis", "", "NewCommand") && len(call.Args) == 3 {
			if v, ok := core.StringConst(info, call.Args[0]); ok && strings.EqualFold(v, "psync") {
				cmd = call
			}
		}
		return true
	})
	if cmd == nil || len(params) != 4 {
		c.Undecidedf(rule, "SendPSyncContinue/shape", fn.Decl.Pos(), "no redis.NewCommand(\"psync\", runid, offset) in SendPSyncContinue, or unexpected parameters")
		return
	}
	inRun, inOff := info.Defs[params[2]], info.Defs[params[3]]
	c.Check(rule, "SendPSyncContinue/runid", cmd.Pos(), SameVar(info, fn.Decl, inRun)(cmd.Args[1]),
		"PSYNC must name the run id the caller passed in: with another id the source answers FULLRESYNC (or continues a foreign history)")
	offID, ok := ast.Unparen(cmd.Args[2]).(*ast.Ident)
	if !ok {
		c.Undecidedf(rule, "SendPSyncContinue/offset+1", cmd.Pos(), "the PSYNC offset argument `%s` is not a variable", c.Src(cmd.Args[2]))
		return
	}
	off := core.ObjOf(info, offID)
	isOff := IsObj(info, off)
	// the sent variable, the parameter, or a single-definition copy of the parameter
	alias := func(e ast.Expr) bool { return isOff(e) || SameVar(info, fn.Decl, inOff)(e) }
	minus1 := func(e ast.Expr) bool { v, ok := core.IntConst(info, e); return ok && v == -1 }
	// direct definitions of the sent variable, classified by the value they give it:
	//   id     the caller's offset (the parameter or a copy of it)
	//   inc    that offset + 1 (or the variable's own value + 1: self)
	//   reset  the constant -1
	type def struct {
		stmt ast.Node
		kind string
		self bool
	}
	var defs []def
	helperDef := false
	for _, o := range Origins1(info, fn.Decl, offID) {
		switch {
		case o.Zero || o.Param:
		case o.Op == token.INC:
			defs = append(defs, def{o.Stmt, "inc", true})
		case o.Op == token.ADD_ASSIGN:
			if v, ok := core.IntConst(info, o.Expr); ok && v == 1 {
				defs = append(defs, def{o.Stmt, "inc", true})
			} else {
				c.Failf(rule, "SendPSyncContinue/offset+1", o.Stmt.Pos(), "`%s`: the PSYNC offset must be the last received offset plus exactly 1", c.Src(o.Stmt))
				return
			}
		case o.Op != 0 || o.Range || o.Res >= 0 || o.Expr == nil:
			c.Undecidedf(rule, "SendPSyncContinue/offset+1", fn.Decl.Pos(), "unexpected definition `%s` of the PSYNC offset", c.Src(o.Stmt))
			return
		case SameVar(info, fn.Decl, inOff)(o.Expr):
			defs = append(defs, def{o.Stmt, "id", false})
		case minus1(o.Expr):
			defs = append(defs, def{o.Stmt, "reset", false})
		default:
			if be, ok := ast.Unparen(o.Expr).(*ast.BinaryExpr); ok && be.Op == token.ADD {
				x, y := be.X, be.Y
				if _, isC := core.IntConst(info, x); isC {
					x, y = y, x
				}
				if v, ok := core.IntConst(info, y); ok && alias(stripConvs(info, x)) {
					if v == 1 {
						defs = append(defs, def{o.Stmt, "inc", isOff(stripConvs(info, x))})
						continue
					}
					c.Failf(rule, "SendPSyncContinue/offset+1", o.Stmt.Pos(), "`%s`: the PSYNC offset must be the last received offset plus exactly 1", c.Src(o.Stmt))
					return
				}
			}
			// `offset = helper(inOffset)`: the helper computes "offset+1 unless -1"
			if hc, isCall := ast.Unparen(o.Expr).(*ast.CallExpr); isCall && len(hc.Args) == 1 && SameVar(info, fn.Decl, inOff)(hc.Args[0]) {
				if h := HelperOf(c.Program, info, fn.Decl, hc, fn.Pkg.PkgPath); h != nil {
					if psyncHelper(c, rule, h, cmd) {
						helperDef = true
						continue
					}
					return
				}
			}
			c.Undecidedf(rule, "SendPSyncContinue/offset+1", fn.Decl.Pos(), "unexpected definition `%s` of the PSYNC offset", c.Src(o.Expr))
			return
		}
	}
	if helperDef {
		if len(defs) > 0 {
			c.Undecidedf(rule, "SendPSyncContinue/offset+1", cmd.Pos(), "the PSYNC offset is computed by a helper and defined again elsewhere")
			return
		}
		continueReturn(c, rule, fn, g, info, isOff, off, inOff)
		return
	}
	hasID := off == inOff
	for _, d := range defs {
		hasID = hasID || d.kind == "id" || d.kind == "inc" && !d.self
	}
	if !hasID {
		c.Failf(rule, "SendPSyncContinue/offset+1", cmd.Pos(), "the offset sent with PSYNC does not derive from the caller's offset parameter")
		return
	}
	isDef := func(n ast.Node) bool {
		for _, d := range defs {
			if n == d.stmt {
				return true
			}
		}
		return false
	}
	isM1 := func(ft cfgq.Fact) bool { eq, ok := EqFact(ft, alias, minus1); return ok && eq }
	notM1 := func(ft cfgq.Fact) bool { eq, ok := EqFact(ft, alias, minus1); return ok && !eq }
	cp, _ := g.Find(cmd)
	cn := cp.Node()
	toCmd := func(n ast.Node) bool { return n == cn }
	// lastDef(d, assume): d can be the definition that reaches the PSYNC command on a path on which
	// no branch contradicts the assumption (edges establishing the opposite fact are not taken)
	lastDef := func(d *def, contra func(cfgq.Fact) bool) []string {
		avoid := fl.Edge(contra)
		if d == nil { // the parameter's own value at entry
			return g.Path(cfgq.Query{From: g.Entry(), Avoid: isDef, AvoidEdge: avoid, Target: toCmd})
		}
		dp, ok := g.Find(d.stmt)
		if !ok {
			return nil
		}
		dn := dp.Node()
		w1 := g.Path(cfgq.Query{From: g.Entry(), AvoidEdge: avoid, Target: func(n ast.Node) bool { return n == dn }})
		if w1 == nil {
			return nil
		}
		w2 := g.Path(cfgq.Query{From: dp, After: true, Avoid: isDef, AvoidEdge: avoid, Target: toCmd})
		if w2 == nil {
			return nil
		}
		return append(w1, w2...)
	}
	// with an offset other than -1 the command must carry offset+1
	var w []string
	if off == inOff {
		w = lastDef(nil, isM1)
	}
	for i := range defs {
		if d := &defs[i]; d.kind != "inc" && w == nil {
			w = lastDef(d, isM1)
		}
	}
	c.Check(rule, "SendPSyncContinue/offset+1", cmd.Pos(), w == nil,
		"unless the offset is -1, PSYNC must ask for offset+1 (the first byte not yet received): asking for `offset` itself makes the source resend the last byte, which the parser then sees twice / mid-command", w...)
	k := 0
	for i := range defs {
		d := &defs[i]
		if d.kind != "inc" {
			continue
		}
		k++
		// with offset -1 the command must carry -1
		w1 := lastDef(d, notM1)
		c.Check(rule, fmt.Sprintf("SendPSyncContinue/keep-minus-one#%d", k), d.stmt.Pos(), w1 == nil,
			"the +1 must be skipped for offset -1 (PSYNC ? -1 asks for a full resync; 0 would be a real offset)", w1...)
		var w2 []string
		if d.self {
			// a self-increment executed twice (or after another +1) skips a byte
			dp, _ := g.Find(d.stmt)
			w2 = g.Path(cfgq.Query{From: dp, After: true, Avoid: func(n ast.Node) bool {
				for _, e := range defs {
					if n == e.stmt && e.kind != "inc" {
						return true
					}
				}
				return false
			}, Target: func(n ast.Node) bool {
				for _, e := range defs {
					if n == e.stmt && e.kind == "inc" && e.self {
						return true
					}
				}
				return false
			}})
			if w2 == nil {
				// and it is applied to the caller's offset, not to an already incremented value
				for _, e := range defs {
					if e.kind == "inc" && e.stmt != d.stmt {
						ep, _ := g.Find(e.stmt)
						dn, _ := g.Find(d.stmt)
						tn := dn.Node()
						if p := g.Path(cfgq.Query{From: ep, After: true, Avoid: func(n ast.Node) bool {
							for _, f := range defs {
								if n == f.stmt && f.kind != "inc" {
									return true
								}
							}
							return false
						}, Target: func(n ast.Node) bool { return n == tn }}); p != nil {
							w2 = p
						}
					}
				}
			}
		}
		c.Check(rule, fmt.Sprintf("SendPSyncContinue/once#%d", k), d.stmt.Pos(), w2 == nil, "the offset is incremented at most once: +2 skips a byte of the stream", w2...)
	}
	if k == 0 {
		c.Failf(rule, "SendPSyncContinue/keep-minus-one", cmd.Pos(), "the PSYNC offset is never the received offset plus 1")
	}
	continueReturn(c, rule, fn, g, info, isOff, off, inOff)
}

// continueReturn: the +CONTINUE arm returns (runid, sent offset - 1, nil, nil).
func continueReturn(c *core.Ctx, rule string, fn *core.Fn, g *cfgq.Graph, info *types.Info, isOff func(ast.Expr) bool, off, inOff types.Object) {
	// the +CONTINUE return: (runid, off-1, nil, nil)
	n := 0
	for _, pt := range g.Points(func(n ast.Node) bool { _, ok := n.(*ast.ReturnStmt); return ok }) {
		ret := pt.Node().(*ast.ReturnStmt)
		if len(ret.Results) != 4 || !core.IsNil(info, ret.Results[2]) || !core.IsNil(info, ret.Results[3]) {
			continue
		}
		n++
		be, ok := ast.Unparen(ret.Results[1]).(*ast.BinaryExpr)
		good := ok && be.Op == token.SUB && isOff(be.X)
		if good {
			v, isC := core.IntConst(info, be.Y)
			good = isC && v == 1
		}
		if off != inOff && IsObj(info, inOff)(ret.Results[1]) {
			good = true // the untouched parameter is the last received offset
		}
		// the decrement is only right when the increment happened; -1 never gets +CONTINUE
		c.Check(rule, fmt.Sprintf("SendPSyncContinue/continue-returns-received#%d", n), ret.Pos(), good,
			fmt.Sprintf("on +CONTINUE the function must return the offset of the last byte already received (sent offset - 1), found `%s`: the caller stores it as the base of all later offsets, so ACKs and checkpoints would be off by one", c.Src(ret.Results[1])))
	}
	if n == 0 {
		// the results may be assembled in a result struct: `res := h(); return res.runid, res.offset, res.wait, res.err`
		// with h one of the closures of the function (possibly looked up in a table); every literal of that
		// struct type returned inside the function is then a result tuple
		for _, pt := range g.Points(func(n ast.Node) bool { _, ok := n.(*ast.ReturnStmt); return ok }) {
			ret := pt.Node().(*ast.ReturnStmt)
			if len(ret.Results) != 4 {
				continue
			}
			var st *types.Struct
			var stT types.Type
			var holder types.Object
			fields := make([]string, 4)
			for i, r := range ret.Results {
				sel, ok := ast.Unparen(r).(*ast.SelectorExpr)
				if !ok {
					fields = nil
					break
				}
				id, ok := ast.Unparen(sel.X).(*ast.Ident)
				if !ok || core.FieldOf(info, sel) == nil || holder != nil && core.ObjOf(info, id) != holder {
					fields = nil
					break
				}
				holder = core.ObjOf(info, id)
				fields[i] = sel.Sel.Name
			}
			if fields == nil || holder == nil {
				continue
			}
			stT = holder.Type()
			st, _ = stT.Underlying().(*types.Struct)
			if st == nil {
				continue
			}
			core.InspectAll(fn.Decl.Body, func(m ast.Node) bool {
				r2, ok := m.(*ast.ReturnStmt)
				if !ok || len(r2.Results) != 1 {
					return true
				}
				lit, ok := ast.Unparen(r2.Results[0]).(*ast.CompositeLit)
				if !ok || !types.Identical(info.TypeOf(lit), stT) {
					return true
				}
				val := map[string]ast.Expr{}
				for i, el := range lit.Elts {
					if kv, ok := el.(*ast.KeyValueExpr); ok {
						if id, ok := kv.Key.(*ast.Ident); ok {
							val[id.Name] = kv.Value
						}
					} else if i < st.NumFields() {
						val[st.Field(i).Name()] = el
					}
				}
				isNilField := func(name string) bool { e, ok := val[name]; return !ok || core.IsNil(info, e) }
				if !isNilField(fields[2]) || !isNilField(fields[3]) {
					return true // FULLRESYNC or an error
				}
				n++
				key := fmt.Sprintf("SendPSyncContinue/continue-returns-received#%d", n)
				offE, has := val[fields[1]]
				if !has {
					c.Undecidedf(rule, key, lit.Pos(), "result literal `%s` without wait channel and error leaves the offset at its zero value", c.Src(lit))
					return true
				}
				be, ok := ast.Unparen(offE).(*ast.BinaryExpr)
				good := ok && be.Op == token.SUB && isOff(be.X)
				if good {
					v, isC := core.IntConst(info, be.Y)
					good = isC && v == 1
				}
				if off != inOff && IsObj(info, inOff)(offE) {
					good = true
				}
				c.Check(rule, key, lit.Pos(), good,
					fmt.Sprintf("on +CONTINUE the function must return the offset of the last byte already received (sent offset - 1), found `%s`: the caller stores it as the base of all later offsets, so ACKs and checkpoints would be off by one", c.Src(offE)))
				return true
			})
		}
	}
	if n == 0 {
		c.Undecidedf(rule, "SendPSyncContinue/continue-returns-received", fn.Decl.Pos(), "no `return runid, offset-1, nil, nil` arm found")
	}
}

// psyncHelper judges a helper `f(last) int64` used as the PSYNC offset: every
// return is `last+1` reached only when last != -1, or `last` (or -1) reached
// only when last == -1. It reports the obligations and returns false when it
// already recorded a failure or an undecided shape.
func psyncHelper(c *core.Ctx, rule string, h *Helper, cmd *ast.CallExpr) bool {
	info := h.Info
	var param types.Object
	np := 0
	for _, f := range h.Type.Params.List {
		for _, nm := range f.Names {
			param = info.Defs[nm]
			np++
		}
	}
	if np != 1 || param == nil {
		c.Undecidedf(rule, "SendPSyncContinue/offset+1", cmd.Pos(), "the helper computing the PSYNC offset does not have one parameter")
		return false
	}
	g := h.Graph(c.Program)
	fl := NewFlow(g)
	isP := IsObj(info, param)
	minus1 := func(e ast.Expr) bool { v, ok := core.IntConst(info, e); return ok && v == -1 }
	isM1 := func(ft cfgq.Fact) bool { eq, ok := EqFact(ft, isP, minus1); return ok && eq }
	notM1 := func(ft cfgq.Fact) bool { eq, ok := EqFact(ft, isP, minus1); return ok && !eq }
	// the parameter is not modified
	mod := false
	core.InspectAll(h.Body, func(n ast.Node) bool {
		switch x := n.(type) {
		case *ast.AssignStmt:
			for _, l := range x.Lhs {
				mod = mod || isP(l)
			}
		case *ast.IncDecStmt:
			mod = mod || isP(x.X)
		}
		return true
	})
	rets := g.Points(func(n ast.Node) bool { _, ok := n.(*ast.ReturnStmt); return ok })
	if mod || len(rets) == 0 {
		c.Undecidedf(rule, "SendPSyncContinue/offset+1", cmd.Pos(), "the helper computing the PSYNC offset modifies its parameter or has no return")
		return false
	}
	incs := 0
	for i, rp := range rets {
		ret := rp.Node().(*ast.ReturnStmt)
		if len(ret.Results) != 1 {
			c.Undecidedf(rule, "SendPSyncContinue/offset+1", ret.Pos(), "unexpected return of the helper computing the PSYNC offset")
			return false
		}
		// k such that the result is param + k (or the constant -1)
		r := stripConvs(info, ret.Results[0])
		k, known, isConstM1 := int64(0), false, minus1(r)
		if isP(r) {
			k, known = 0, true
		} else if be, ok := r.(*ast.BinaryExpr); ok && be.Op == token.ADD {
			if v, isC := core.IntConst(info, be.Y); isC && isP(stripConvs(info, be.X)) {
				k, known = v, true
			} else if v, isC := core.IntConst(info, be.X); isC && isP(stripConvs(info, be.Y)) {
				k, known = v, true
			}
		}
		tn := rp.Node()
		to := func(n ast.Node) bool { return n == tn }
		switch {
		case known && k == 1:
			incs++
			w := g.Path(cfgq.Query{From: g.Entry(), AvoidEdge: fl.Edge(notM1), Target: to})
			c.Check(rule, fmt.Sprintf("SendPSyncContinue/keep-minus-one#%d", incs), ret.Pos(), w == nil,
				"the +1 must be skipped for offset -1 (PSYNC ? -1 asks for a full resync; 0 would be a real offset)", w...)
			c.Okf(rule, fmt.Sprintf("SendPSyncContinue/once#%d", incs), ret.Pos(), "the offset is incremented once")
		case known && k == 0 || isConstM1:
			w := g.Path(cfgq.Query{From: g.Entry(), AvoidEdge: fl.Edge(isM1), Target: to})
			if w != nil {
				c.Check(rule, "SendPSyncContinue/offset+1", ret.Pos(), false,
					"unless the offset is -1, PSYNC must ask for offset+1 (the first byte not yet received): asking for `offset` itself makes the source resend the last byte, which the parser then sees twice / mid-command", w...)
				return false
			}
		case known:
			c.Failf(rule, "SendPSyncContinue/offset+1", ret.Pos(), "`%s`: the PSYNC offset must be the last received offset plus exactly 1", c.Src(ret))
			return false
		default:
			c.Undecidedf(rule, "SendPSyncContinue/offset+1", ret.Pos(), "return #%d of the helper computing the PSYNC offset is not `last`, `last+1` or -1", i+1)
			return false
		}
	}
	if incs == 0 {
		c.Failf(rule, "SendPSyncContinue/offset+1", cmd.Pos(), "unless the offset is -1, PSYNC must ask for offset+1: the helper never adds 1")
		return false
	}
	c.Okf(rule, "SendPSyncContinue/offset+1", cmd.Pos(), "PSYNC asks for offset+1 unless the offset is -1 (computed by a helper)")
	return true
}

func stripConvs(info *types.Info, e ast.Expr) ast.Expr {
	for {
		e = ast.Unparen(e)
		call, ok := e.(*ast.CallExpr)
		if !ok || len(call.Args) != 1 {
			return e
		}
		if tv, ok := info.Types[call.Fun]; !ok || !tv.IsType() {
			return e
		}
		e = call.Args[0]
	}
}

// PSyncCalls checks every call of SendPSyncContinue in dbSync: the run id is
// the caller's run-id parameter and the offset is ds.sourceOffset itself.
func PSyncCalls(c *core.Ctx, rule string, only string) int {
	fn := c.LookupFunc(Common, "", "SendPSyncContinue")
	if fn == nil {
		return 0
	}
	n := 0
	var scope map[*types.Func]bool
	if only != "" {
		if root := c.LookupFunc(DbSync, Syncer, only); root != nil {
			scope = PlainCallees(c, root, 2) // the call may sit in a helper extracted from `only`
		}
	}
	for _, cs := range CallsTo(c, fn.Obj) {
		if only != "" {
			declObj, _ := cs.In.Pkg.TypesInfo.Defs[cs.In.Decl.Name].(*types.Func)
			if !scope[declObj] || only == "runIncrementalSync" && cs.In.Decl.Name.Name == "sendPSyncCmd" {
				continue
			}
		}
		n++
		info := cs.In.Pkg.TypesInfo
		// keyed by the declared function, also when the call sits in a closure of it
		inName := cs.In.Name
		if i := strings.Index(inName, "$"); i >= 0 {
			inName = inName[:i]
		}
		key := inName + "/offset-arg"
		if len(cs.Call.Args) != 4 {
			c.Undecidedf(rule, key, cs.Call.Pos(), "unexpected arity")
			continue
		}
		arg := cs.Call.Args[3]
		if _, isID := ast.Unparen(arg).(*ast.Ident); isID {
			if o, ok := SoleOrigin(info, cs.In.Decl, arg); ok && o.Expr != nil && o.Op == 0 && !o.Range && o.Res <= 0 {
				arg = o.Expr
			}
		}
		switch {
		case IsSourceOffset(info, arg):
			c.Okf(rule, key, cs.Call.Pos(), "PSYNC is issued with ds.sourceOffset (the callee adds 1)")
		case core.MentionsField(info, arg, Syncer, "sourceOffset"):
			c.Failf(rule, key, cs.Call.Pos(), "PSYNC is issued with `%s`: SendPSyncContinue already adds 1 to the last received offset, so the stream resumes at the wrong byte (bytes skipped or repeated)", c.Src(arg))
		default:
			if _, isConst := core.IntConst(info, arg); isConst {
				c.Failf(rule, key, cs.Call.Pos(), "PSYNC is issued with the constant `%s` instead of the remembered offset: the stream does not continue where it stopped", c.Src(arg))
			} else {
				c.Undecidedf(rule, key, cs.Call.Pos(), "cannot trace the offset argument `%s` to ds.sourceOffset", c.Src(arg))
			}
		}
		// run id: a parameter of the calling function
		rid, _ := ast.Unparen(cs.Call.Args[2]).(*ast.Ident)
		if rid != nil {
			// through single-definition copies (`runId := <parameter>`)
			if o, ok := SoleOrigin(info, cs.In.Decl, rid); ok && o.Expr != nil && o.Op == 0 && !o.Range && o.Res <= 0 {
				if id2, ok := ast.Unparen(o.Expr).(*ast.Ident); ok {
					rid = id2
				}
			}
		}
		isParam := false
		if rid != nil { // (a closure of the function sees the same parameter)
			for _, f := range cs.In.Decl.Type.Params.List {
				for _, nm := range f.Names {
					if info.Defs[nm] == core.ObjOf(info, rid) {
						isParam = true
					}
				}
			}
		}
		if isParam {
			c.Okf(rule, inName+"/runid-arg", cs.Call.Pos(), "PSYNC names the run id handed to %s", inName)
		} else {
			c.Undecidedf(rule, inName+"/runid-arg", cs.Call.Pos(), "run id argument `%s` is not a parameter of the caller", c.Src(cs.Call.Args[2]))
		}
	}
	return n
}

// SyncSpan is the stretch of DbSyncer.Sync between a successful sendPSyncCmd
// and the start of the incremental phase (the call of syncCommand).
type SyncSpan struct {
	Fn     *core.Fn
	G      *cfgq.Graph
	Info   *types.Info
	psync  []cfgq.Point
	isIncr func(ast.Node) bool
	Direct bool // syncCommand is called by Sync itself (not only through a helper)
}

// NewSyncSpan locates the span; nil when Sync, sendPSyncCmd or syncCommand are not found.
func NewSyncSpan(c *core.Ctx) *SyncSpan {
	syncFn := c.LookupFunc(DbSync, Syncer, "Sync")
	psync := c.LookupFunc(DbSync, Syncer, "sendPSyncCmd")
	incr := c.LookupFunc(DbSync, Syncer, "syncCommand")
	if syncFn == nil || psync == nil || incr == nil || syncFn.Decl.Body == nil {
		return nil
	}
	sp := &SyncSpan{Fn: syncFn, G: cfgq.Of(c.Program, syncFn), Info: syncFn.Pkg.TypesInfo}
	has := func(target *types.Func, direct *bool) func(ast.Node) bool {
		return func(n ast.Node) bool {
			for _, call := range cfgq.ExecCalls(n) {
				if core.CalleeFunc(sp.Info, call) == syncFn.Obj {
					continue // the restart `go ds.Sync()` of an error arm is another run
				}
				if core.CalleeFunc(sp.Info, call) == target {
					if direct != nil {
						*direct = true
					}
					return true
				}
				if CalleeHas(c, sp.Info, call, 2, func(i *types.Info, m ast.Node) bool {
					cl, ok := m.(*ast.CallExpr)
					return ok && core.CalleeFunc(i, cl) == target
				}) {
					return true
				}
			}
			return false
		}
	}
	sp.psync = sp.G.Points(has(psync.Obj, nil))
	sp.isIncr = has(incr.Obj, nil)
	for _, pt := range sp.G.Points(has(incr.Obj, &sp.Direct)) {
		_ = pt
	}
	if len(sp.psync) == 0 || len(sp.G.Points(sp.isIncr)) == 0 {
		return nil
	}
	return sp
}

// Skips returns a path from a sendPSyncCmd call to the start of the incremental
// phase on which no node satisfies must (nil: there is none).
func (sp *SyncSpan) Skips(must func(ast.Node) bool) []string {
	for _, pt := range sp.psync {
		// a statement that both does what is required and starts the incremental phase (a phase helper) is fine
		if w := sp.G.Path(cfgq.Query{From: pt, After: true, Avoid: must, Target: func(n ast.Node) bool { return sp.isIncr(n) && !must(n) }}); w != nil {
			return w
		}
	}
	return nil
}

// InCallee: the node n (of body with type info info) executes, directly or in a module helper it calls, a node accepted by pred.
func InCallee(c *core.Ctx, info *types.Info, n ast.Node, pred func(*types.Info, ast.Node) bool) bool {
	found := false
	ast.Inspect(n, func(m ast.Node) bool {
		if found || m == nil {
			return false
		}
		if _, isLit := m.(*ast.FuncLit); isLit {
			return false
		}
		if pred(info, m) {
			found = true
			return false
		}
		return true
	})
	if found {
		return true
	}
	for _, call := range cfgq.ExecCalls(n) {
		if CalleeHas(c, info, call, 2, pred) {
			return true
		}
	}
	return false
}
