package c03

// XGraph is an inlined view of one function body: path queries run over its
// control-flow graph with every call of a helper of the same package (or of a
// closure bound to a local) expanded into the helper's own graph, so that a
// rule about the order of events does not depend on which part of the
// mechanism was extracted into a helper. Contexts are per call site, hence a
// path always returns to the call it came from. Expressions of a helper frame
// are translated into the root's vocabulary with Resolve.

import (
	"fmt"
	"go/ast"
	"go/constant"
	"go/token"
	"go/types"
	"sort"
	"strings"

	"golang.org/x/tools/go/cfg"

	"rscheck/cfgq"
	"rscheck/core"
)

// XCtx is one frame of the expansion: the root body, or a helper entered from a call.
type XCtx struct {
	G      *cfgq.Graph
	Info   *types.Info
	Fl     *Flow
	Scope  ast.Node // enclosing declaration (for closures bound to locals)
	Parent *XCtx
	Call   *ast.CallExpr
	H      *Helper
	Bind   Binding
	retB   *cfg.Block
	retI   int
	retK   int
	depth  int
	kids   map[*ast.CallExpr]*XCtx
	calls  map[ast.Node][]*ast.CallExpr
}

// XNode is a cfg node in a frame.
type XNode struct {
	C *XCtx
	N ast.Node
}

// XPoint is a point in a frame.
type XPoint struct {
	C *XCtx
	P cfgq.Point
}

// Node returns the node at the point.
func (p XPoint) Node() XNode { return XNode{p.C, p.P.Node()} }

// Is builds a predicate: the node at point p.
func (p XPoint) Is() func(XNode) bool {
	n := p.P.Node()
	return func(x XNode) bool { return x.C == p.C && x.N == n }
}

// XGraph is the expansion of one root body.
type XGraph struct {
	P       *core.Program
	Root    *XCtx
	PkgPath string
}

// NewXGraph expands the body with graph g (declared in decl of package pkgPath).
func NewXGraph(p *core.Program, g *cfgq.Graph, info *types.Info, decl ast.Node, pkgPath string) *XGraph {
	root := &XCtx{G: g, Info: info, Fl: NewFlow(g).Inlining(p, info, decl, pkgPath), Scope: decl, kids: map[*ast.CallExpr]*XCtx{}, calls: map[ast.Node][]*ast.CallExpr{}}
	return &XGraph{P: p, Root: root, PkgPath: pkgPath}
}

// followable lists the calls of node n (in evaluation order) that are expanded.
func (x *XGraph) followable(c *XCtx, n ast.Node) []*ast.CallExpr {
	if cs, ok := c.calls[n]; ok {
		return cs
	}
	var out []*ast.CallExpr
	if c.depth < 3 {
		for _, call := range cfgq.ExecCalls(n) {
			if SendOf(c.Info, call) != nil {
				continue // a (wrapped) Send is one event
			}
			h := HelperOf(x.P, c.Info, c.Scope, call, x.PkgPath)
			if h == nil || call.Ellipsis.IsValid() {
				continue
			}
			rec := false
			for a := c; a != nil; a = a.Parent {
				if a.H != nil && a.H.Body == h.Body || a.G.Body == h.Body {
					rec = true
				}
			}
			if !rec {
				out = append(out, call)
			}
		}
		sort.SliceStable(out, func(i, j int) bool { return out[i].End() < out[j].End() })
	}
	c.calls[n] = out
	return out
}

func (x *XGraph) kid(c *XCtx, call *ast.CallExpr, b *cfg.Block, i, k int) *XCtx {
	if kc, ok := c.kids[call]; ok {
		return kc
	}
	h := HelperOf(x.P, c.Info, c.Scope, call, x.PkgPath)
	g := h.Graph(x.P)
	scope := c.Scope
	if h.Fn != nil {
		scope = h.Fn.Decl
	}
	kc := &XCtx{G: g, Info: h.Info, Fl: NewFlow(g).Inlining(x.P, h.Info, scope, x.PkgPath), Scope: scope, Parent: c, Call: call, H: h, Bind: BindCall(call, h.Type, h.Recv, h.Info),
		retB: b, retI: i, retK: k, depth: c.depth + 1, kids: map[*ast.CallExpr]*XCtx{}, calls: map[ast.Node][]*ast.CallExpr{}}
	c.kids[call] = kc
	return kc
}

// Resolve translates an expression of frame c into the root's vocabulary.
func (x *XGraph) Resolve(c *XCtx, e ast.Expr) ast.Expr {
	for ; c != nil && c.Parent != nil; c = c.Parent {
		e = Subst(c.Info, c.H.Body, e, c.Bind)
	}
	return ProjectLocal(x.Root.Info, x.Root.Scope, Project(e))
}

// Points lists the points of the whole expansion whose node satisfies pred.
func (x *XGraph) Points(pred func(XNode) bool) []XPoint {
	var out []XPoint
	var walk func(c *XCtx)
	walk = func(c *XCtx) {
		for _, b := range c.G.CFG.Blocks {
			if !b.Live {
				continue
			}
			for i, n := range b.Nodes {
				for k, call := range x.followable(c, n) {
					walk(x.kid(c, call, b, i, k+1))
				}
				if pred(XNode{c, n}) {
					out = append(out, XPoint{c, cfgq.Point{B: b, I: i}})
				}
			}
		}
	}
	walk(x.Root)
	return out
}

// XQuery is cfgq.Query over the expansion. TargetExit refers to the normal
// exits of the root body.
type XQuery struct {
	From       XPoint
	After      bool
	Avoid      func(XNode) bool
	AvoidEdge  func(c *XCtx, b *cfg.Block, succ int) bool
	Target     func(XNode) bool
	TargetExit bool
}

// Path searches a path and returns a witness, or nil.
func (x *XGraph) Path(q XQuery) []string {
	type state struct {
		c    *XCtx
		b    *cfg.Block
		i, k int
		prev *state
		env  xenv
	}
	type key struct {
		c    *XCtx
		b    *cfg.Block
		i, k int
		env  string
	}
	start := q.From
	if start.C == nil {
		start = XPoint{x.Root, x.Root.G.Entry()}
	}
	witness := func(s *state, last *XNode, tail string) []string {
		var chain []*state
		for t := s; t != nil; t = t.prev {
			chain = append([]*state{t}, chain...)
		}
		var out []string
		for _, t := range chain {
			d := fmt.Sprintf("%sblock %d (%s)", indent(t.c.depth), t.b.Index, t.b.Kind)
			if t.i < len(t.b.Nodes) {
				d += fmt.Sprintf(" L%d: %s", t.c.G.Fset.Position(t.b.Nodes[t.i].Pos()).Line, core.NodeString(t.c.G.Fset, t.b.Nodes[t.i]))
			}
			out = append(out, d)
		}
		if last != nil {
			out = append(out, fmt.Sprintf("reaches L%d: %s", last.C.G.Fset.Position(last.N.Pos()).Line, core.NodeString(last.C.G.Fset, last.N)))
		}
		if tail != "" {
			out = append(out, tail)
		}
		return out
	}
	visited := map[key]bool{}
	trk := &xtracker{addr: map[types.Object]bool{}}
	first := &state{c: start.C, b: start.P.B, i: start.P.I}
	skipFirst := q.After
	if q.After {
		first.k = 1 << 20 // the start node's own calls are behind us
	}
	queue := []*state{first}
	for len(queue) > 0 {
		s := queue[0]
		queue = queue[1:]
		c, b := s.c, s.b
		i, k := s.i, s.k
		env := s.env
		cut, entered := false, false
		for ; i < len(b.Nodes) && !cut && !entered; i, k = i+1, 0 {
			n := b.Nodes[i]
			calls := x.followable(c, n)
			if k < len(calls) {
				kc := x.kid(c, calls[k], b, i, k+1)
				kk := key{kc, kc.G.CFG.Blocks[0], 0, 0, env.key()}
				if !visited[kk] {
					visited[kk] = true
					queue = append(queue, &state{c: kc, b: kc.G.CFG.Blocks[0], prev: s, env: env})
				}
				// (a helper already entered from this call returns to the same continuation)
				entered = true
				break
			}
			if skipFirst && s == first && i == start.P.I {
				continue
			}
			xn := XNode{c, n}
			if q.Target != nil && q.Target(xn) {
				return witness(s, &xn, "")
			}
			if q.Avoid != nil && q.Avoid(xn) {
				cut = true
			}
			env = env.kill(c.Info, n).assign(trk, c, n)
		}
		if cut || entered {
			continue
		}
		if len(b.Succs) == 0 {
			switch c.G.Exit(b) {
			case cfgq.ExitRet, cfgq.ExitFall:
				if c.Parent == nil {
					if q.TargetExit {
						return witness(s, nil, "leaves through a normal exit")
					}
					continue
				}
				rk := key{c.Parent, c.retB, c.retI, c.retK, env.key()}
				if !visited[rk] {
					visited[rk] = true
					queue = append(queue, &state{c: c.Parent, b: c.retB, i: c.retI, k: c.retK, prev: s, env: env})
				}
			}
			continue
		}
		for si, t := range b.Succs {
			if q.AvoidEdge != nil && q.AvoidEdge(c, b, si) {
				continue
			}
			// what the branch establishes about error / bool locals must agree with what earlier
			// branches of this path established (the variable not having been written in between)
			env2, feasible := env.branch(trk, c, b, si)
			if !feasible {
				continue
			}
			tk := key{c, t, 0, 0, env2.key()}
			if !visited[tk] {
				visited[tk] = true
				queue = append(queue, &state{c: c, b: t, prev: s, env: env2})
			}
		}
	}
	return nil
}

func indent(n int) string {
	s := ""
	for i := 0; i < n; i++ {
		s += "  > "
	}
	return s
}

// XIsSend: the node executes a (wrapped) conn.Send.
func XIsSend(n XNode) bool {
	for _, call := range cfgq.ExecCalls(n.N) {
		if SendOf(n.C.Info, call) != nil {
			return true
		}
	}
	return false
}

// XIsFlush: the node executes conn.Flush().
func XIsFlush(n XNode) bool { return IsFlush(n.C.Info)(n.N) }

// XCmd returns the (wrapped) Send of command `name` executed by the node, with
// connection and arguments translated into the root's vocabulary.
func (x *XGraph) XCmd(n XNode, name string) *SendSite {
	s := ConnCmd(n.C.Info, n.N, name)
	if s == nil {
		// the command name may arrive through a parameter of the frame
		for _, call := range cfgq.ExecCalls(n.N) {
			if site := SendOf(n.C.Info, call); site != nil && len(site.Args) > 0 {
				if v, ok := core.StringConst(x.Root.Info, x.Resolve(n.C, site.Args[0])); ok && equalFold(v, name) {
					s = site
				}
			}
		}
	}
	if s == nil {
		return nil
	}
	r := *s
	r.Args = make([]ast.Expr, len(s.Args))
	for i, a := range s.Args {
		r.Args[i] = x.Resolve(n.C, a)
	}
	if s.Conn != nil {
		r.Conn = x.Resolve(n.C, s.Conn)
	}
	return &r
}

func equalFold(a, b string) bool {
	if len(a) != len(b) {
		return false
	}
	for i := 0; i < len(a); i++ {
		x, y := a[i], b[i]
		if 'A' <= x && x <= 'Z' {
			x += 'a' - 'A'
		}
		if 'A' <= y && y <= 'Z' {
			y += 'a' - 'A'
		}
		if x != y {
			return false
		}
	}
	return true
}

// xenv: what the branches taken so far established about locals: an error (or
// other nil-able) local is nil / non-nil, a bool local is true / false. A
// fact dies when the variable is written; variables whose address is taken
// are not tracked. At most four facts are kept.
type xfact struct {
	obj types.Object
	val bool // bool: the value; otherwise: "is nil"
}

type xenv []xfact

type xtracker struct{ addr map[types.Object]bool }

func (e xenv) key() string {
	if len(e) == 0 {
		return ""
	}
	parts := make([]string, len(e))
	for i, f := range e {
		parts[i] = fmt.Sprintf("%p=%v", f.obj, f.val)
	}
	sort.Strings(parts)
	return strings.Join(parts, ";")
}

func (e xenv) kill(info *types.Info, n ast.Node) xenv {
	if len(e) == 0 {
		return e
	}
	dead := map[types.Object]bool{}
	mark := func(x ast.Expr) {
		if id, ok := ast.Unparen(x).(*ast.Ident); ok {
			if o := core.ObjOf(info, id); o != nil {
				dead[o] = true
			}
		}
	}
	ast.Inspect(n, func(m ast.Node) bool {
		switch y := m.(type) {
		case *ast.FuncLit:
			return false
		case *ast.AssignStmt:
			for _, l := range y.Lhs {
				mark(l)
			}
		case *ast.IncDecStmt:
			mark(y.X)
		case *ast.ValueSpec:
			for _, nm := range y.Names {
				if o := info.Defs[nm]; o != nil {
					dead[o] = true
				}
			}
		case *ast.RangeStmt:
			if y.Key != nil {
				mark(y.Key)
			}
			if y.Value != nil {
				mark(y.Value)
			}
		}
		return true
	})
	if len(dead) == 0 {
		return e
	}
	var out xenv
	for _, f := range e {
		if !dead[f.obj] {
			out = append(out, f)
		}
	}
	return out
}

// tracked: obj is a local (not a field, not package level) whose address is never taken in its scope.
func (t *xtracker) tracked(c *XCtx, obj types.Object) bool {
	v, isVar := obj.(*types.Var)
	if !isVar || v.IsField() || v.Pkg() == nil || v.Parent() == v.Pkg().Scope() {
		return false
	}
	taken, known := t.addr[obj]
	if !known {
		if c.Scope != nil {
			core.InspectAll(c.Scope, func(m ast.Node) bool {
				if u, ok := m.(*ast.UnaryExpr); ok && u.Op == token.AND && IsObj(c.Info, obj)(u.X) {
					taken = true
				}
				// written inside a function literal that does not declare it: the write may happen at
				// any time the literal runs
				if fl, ok := m.(*ast.FuncLit); ok && !(fl.Pos() <= obj.Pos() && obj.Pos() < fl.End()) {
					ast.Inspect(fl.Body, func(k ast.Node) bool {
						switch y := k.(type) {
						case *ast.AssignStmt:
							for _, l := range y.Lhs {
								if IsObj(c.Info, obj)(l) {
									taken = true
								}
							}
						case *ast.IncDecStmt:
							if IsObj(c.Info, obj)(y.X) {
								taken = true
							}
						}
						return true
					})
				}
				return true
			})
		}
		t.addr[obj] = taken
	}
	return !taken
}

// assign records the constants the statement n gives to bool / nil-able locals:
// `v = true`, `v := false`, `err = nil`, `var v bool` (false), `var err error` (nil).
func (e xenv) assign(t *xtracker, c *XCtx, n ast.Node) xenv {
	out := e
	set := func(obj types.Object, val bool) {
		if obj == nil || !t.tracked(c, obj) || len(out) >= 4 {
			return
		}
		out = append(append(xenv{}, out...), xfact{obj, val})
	}
	value := func(obj types.Object, rhs ast.Expr) {
		if obj == nil {
			return
		}
		isBool := false
		if b, ok := obj.Type().Underlying().(*types.Basic); ok && b.Kind() == types.Bool {
			isBool = true
		}
		switch {
		case rhs == nil && isBool:
			set(obj, false)
		case rhs == nil:
			switch obj.Type().Underlying().(type) {
			case *types.Interface, *types.Pointer, *types.Map, *types.Slice, *types.Chan, *types.Signature:
				set(obj, true) // zero value: nil
			}
		case isBool:
			if tv, ok := c.Info.Types[rhs]; ok && tv.Value != nil && tv.Value.Kind() == constant.Bool {
				set(obj, constant.BoolVal(tv.Value))
			}
		default:
			if core.IsNil(c.Info, rhs) {
				set(obj, true)
			}
		}
	}
	switch x := n.(type) {
	case *ast.AssignStmt:
		if len(x.Lhs) == len(x.Rhs) && (x.Tok == token.ASSIGN || x.Tok == token.DEFINE) {
			for i, l := range x.Lhs {
				if id, ok := ast.Unparen(l).(*ast.Ident); ok && id.Name != "_" {
					value(core.ObjOf(c.Info, id), x.Rhs[i])
				}
			}
		}
	case *ast.ValueSpec:
		for i, nm := range x.Names {
			if i < len(x.Values) {
				value(c.Info.Defs[nm], x.Values[i])
			} else if len(x.Values) == 0 {
				value(c.Info.Defs[nm], nil)
			}
		}
	case *ast.DeclStmt:
		if gd, ok := x.Decl.(*ast.GenDecl); ok {
			for _, sp := range gd.Specs {
				if vs, ok := sp.(*ast.ValueSpec); ok {
					out = out.assign(t, c, vs)
				}
			}
		}
	}
	return out
}

func (e xenv) branch(t *xtracker, c *XCtx, b *cfg.Block, si int) (xenv, bool) {
	if len(b.Succs) != 2 || c.Fl == nil || cfgq.CondOf(b) == nil {
		return e, true
	}
	out := e
	for _, ft := range c.Fl.Facts(b, si) {
		var obj types.Object
		var val bool
		if o, v := BoolFact(c.Info, ft); o != nil {
			obj, val = o, v
		} else {
			var id *ast.Ident
			eq, ok := EqFact(ft, func(x ast.Expr) bool {
				i2, isID := ast.Unparen(x).(*ast.Ident)
				if isID && !core.IsNil(c.Info, x) {
					id = i2
				}
				return isID && !core.IsNil(c.Info, x)
			}, func(x ast.Expr) bool { return core.IsNil(c.Info, x) })
			if !ok || id == nil {
				continue
			}
			obj, val = core.ObjOf(c.Info, id), eq
		}
		if !t.tracked(c, obj) {
			continue
		}
		found := false
		for _, f := range out {
			if f.obj == obj {
				found = true
				if f.val != val {
					return e, false
				}
			}
		}
		if !found && len(out) < 4 {
			out = append(append(xenv{}, out...), xfact{obj, val})
		}
	}
	return out, true
}
