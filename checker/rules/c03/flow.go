package c03

// Helpers shared by the C03, C04 and C08 rule sets: branch facts that also
// understand switch-case tests, block reachability, value origins of locals,
// module-wide body enumeration and goroutine-start sites.

import (
	"go/ast"
	"go/constant"
	"go/token"
	"go/types"
	"strings"

	"golang.org/x/tools/go/cfg"
	"golang.org/x/tools/go/packages"

	"rscheck/cfgq"
	"rscheck/core"
	"rscheck/rules/ring"
)

// Flow wraps a graph with switch-aware edge facts.
type Flow struct {
	G  *cfgq.Graph
	sw map[*ast.CaseClause]*ast.SwitchStmt
	// Expand, when set, rewrites a branch condition before it is split into
	// atoms (used to inline one-line predicate helpers).
	Expand func(ast.Expr) ast.Expr
	memo   map[ast.Expr]ast.Expr
}

// Inlining makes the flow see through one-line predicate helpers of package
// pkgPath (and closures bound to locals of scope) in branch conditions.
func (f *Flow) Inlining(p *core.Program, info *types.Info, scope ast.Node, pkgPath string) *Flow {
	f.Expand = func(e ast.Expr) ast.Expr { return InlineOneLiners(p, info, scope, e, pkgPath, 0) }
	return f
}

// both returns the facts of the condition as written and, when the condition
// can be seen through (predicate helper, hoisted bool local), those of the expansion too.
func (f *Flow) both(e ast.Expr, val bool) []cfgq.Fact {
	out := cfgq.Facts(e, val)
	if x := f.expand(e); x != e {
		out = append(out, cfgq.Facts(x, val)...)
	}
	return out
}

func (f *Flow) expand(e ast.Expr) ast.Expr {
	if f.Expand == nil {
		return e
	}
	if f.memo == nil {
		f.memo = map[ast.Expr]ast.Expr{}
	}
	if r, ok := f.memo[e]; ok {
		return r
	}
	r := f.Expand(e)
	f.memo[e] = r
	return r
}

// NewFlow indexes the switch statements of the graph's body.
func NewFlow(g *cfgq.Graph) *Flow {
	f := &Flow{G: g, sw: map[*ast.CaseClause]*ast.SwitchStmt{}}
	ast.Inspect(g.Body, func(n ast.Node) bool {
		if s, ok := n.(*ast.SwitchStmt); ok {
			for _, cl := range s.Body.List {
				f.sw[cl.(*ast.CaseClause)] = s
			}
		}
		return true
	})
	return f
}

// Facts returns the atoms known on the edge b -> b.Succs[succ]. `if`/`for`
// conditions are split by cfgq.Facts; a case test of `switch tag {case v:}` is
// the atom `tag == v`; a case of a tagless switch is the condition itself.
func (f *Flow) Facts(b *cfg.Block, succ int) []cfgq.Fact {
	if len(b.Succs) != 2 || len(b.Nodes) == 0 {
		return nil
	}
	e, ok := b.Nodes[len(b.Nodes)-1].(ast.Expr)
	if !ok {
		return nil
	}
	if b.Succs[0].Kind == cfg.KindSwitchCaseBody {
		cl, _ := b.Succs[0].Stmt.(*ast.CaseClause)
		s := f.sw[cl]
		if s == nil {
			return nil
		}
		if s.Tag == nil {
			return f.both(e, succ == 0)
		}
		return []cfgq.Fact{{Expr: &ast.BinaryExpr{X: s.Tag, Op: token.EQL, Y: e}, Val: succ == 0}}
	}
	switch b.Succs[0].Kind {
	case cfg.KindSelectCaseBody, cfg.KindRangeBody:
		return nil
	}
	return f.both(e, succ == 0)
}

// Alts returns atoms of which at least one holds when cond evaluates to val
// (the dual of cfgq.Facts: disjuncts on the true edge, negated conjuncts on
// the false edge).
func Alts(cond ast.Expr, val bool) []cfgq.Fact {
	cond = ast.Unparen(cond)
	switch c := cond.(type) {
	case *ast.UnaryExpr:
		if c.Op == token.NOT {
			return Alts(c.X, !val)
		}
	case *ast.BinaryExpr:
		if c.Op == token.LOR && val || c.Op == token.LAND && !val {
			return append(Alts(c.X, val), Alts(c.Y, val)...)
		}
		if c.Op == token.LOR || c.Op == token.LAND {
			return nil // a conjunction of facts: see cfgq.Facts
		}
	}
	return []cfgq.Fact{{Expr: cond, Val: val}}
}

// alts is Alts for the edge b -> b.Succs[succ] (if/for conditions and tagless switch cases).
func (f *Flow) alts(b *cfg.Block, succ int) []cfgq.Fact {
	if len(b.Succs) != 2 || len(b.Nodes) == 0 {
		return nil
	}
	e, ok := b.Nodes[len(b.Nodes)-1].(ast.Expr)
	if !ok {
		return nil
	}
	switch b.Succs[0].Kind {
	case cfg.KindSelectCaseBody, cfg.KindRangeBody:
		return nil
	case cfg.KindSwitchCaseBody:
		cl, _ := b.Succs[0].Stmt.(*ast.CaseClause)
		if s := f.sw[cl]; s == nil || s.Tag != nil {
			return nil
		}
	}
	return Alts(e, succ == 0)
}

// AltsOf returns the alternatives (at least one holds) known on the edge, as
// written and, when different, seen through helpers/hoisted locals.
func (f *Flow) AltsOf(b *cfg.Block, succ int) [][]cfgq.Fact {
	var out [][]cfgq.Fact
	if al := f.alts(b, succ); len(al) > 0 {
		out = append(out, al)
		if e, ok := b.Nodes[len(b.Nodes)-1].(ast.Expr); ok {
			if x := f.expand(e); x != e {
				out = append(out, Alts(x, succ == 0))
			}
		}
	}
	return out
}

// Edge builds an AvoidEdge predicate: the edge establishes a fact accepted by
// match, or a disjunction of facts all of which are accepted by match.
func (f *Flow) Edge(match func(cfgq.Fact) bool) func(*cfg.Block, int) bool {
	return func(b *cfg.Block, s int) bool {
		for _, ft := range f.Facts(b, s) {
			if match(ft) {
				return true
			}
		}
		all := func(al []cfgq.Fact) bool {
			for _, ft := range al {
				if !match(ft) {
					return false
				}
			}
			return len(al) > 0
		}
		al := f.alts(b, s)
		if all(al) {
			return true
		}
		// the same edge seen through predicate helpers / hoisted locals
		if len(b.Nodes) > 0 && len(al) > 0 {
			if e, ok := b.Nodes[len(b.Nodes)-1].(ast.Expr); ok {
				if x := f.expand(e); x != e {
					return all(Alts(x, s == 0))
				}
			}
		}
		return false
	}
}

// EqFact classifies a fact as `x == k` (eq=true) or `x != k` (eq=false) for
// the operand pair accepted by isX / isK (in either order).
func EqFact(ft cfgq.Fact, isX, isK func(ast.Expr) bool) (eq, ok bool) {
	be, isBin := ast.Unparen(ft.Expr).(*ast.BinaryExpr)
	if !isBin || be.Op != token.EQL && be.Op != token.NEQ {
		return false, false
	}
	if !(isX(be.X) && isK(be.Y) || isX(be.Y) && isK(be.X)) {
		return false, false
	}
	return (be.Op == token.EQL) == ft.Val, true
}

// BoolFact classifies a fact about a bare boolean variable: obj is true/false.
func BoolFact(info *types.Info, ft cfgq.Fact) (types.Object, bool) {
	id, ok := ast.Unparen(ft.Expr).(*ast.Ident)
	if !ok {
		return nil, false
	}
	o := core.ObjOf(info, id)
	if v, isVar := o.(*types.Var); isVar && types.Identical(v.Type().Underlying(), types.Typ[types.Bool]) {
		return o, ft.Val
	}
	return nil, false
}

// IsObj builds an expression predicate: e is an identifier denoting obj.
func IsObj(info *types.Info, obj types.Object) func(ast.Expr) bool {
	return func(e ast.Expr) bool {
		id, ok := ast.Unparen(e).(*ast.Ident)
		return ok && obj != nil && core.ObjOf(info, id) == obj
	}
}

// IsConstVal builds an expression predicate: e is a constant expression with
// the same value as the named package-level constant k.
func IsConstVal(info *types.Info, k *types.Const) func(ast.Expr) bool {
	return func(e ast.Expr) bool {
		tv, ok := info.Types[e]
		if !ok || tv.Value == nil || k == nil {
			return false
		}
		return tv.Value.ExactString() == k.Val().ExactString() && tv.Value.Kind() == k.Val().Kind()
	}
}

// BlocksFrom returns the blocks reachable from `from` (the rest of from's
// block first) without executing a node accepted by avoid and without
// continuing through a block listed in stop (stop blocks are reported as
// reached, but not expanded).
func BlocksFrom(from cfgq.Point, after bool, avoid func(ast.Node) bool, stop ...*cfg.Block) map[*cfg.Block]bool {
	seen := map[*cfg.Block]bool{}
	isStop := func(b *cfg.Block) bool {
		for _, s := range stop {
			if s == b {
				return true
			}
		}
		return false
	}
	var walk func(b *cfg.Block, i int)
	walk = func(b *cfg.Block, i int) {
		for ; i < len(b.Nodes); i++ {
			if avoid != nil && avoid(b.Nodes[i]) {
				return
			}
		}
		for _, s := range b.Succs {
			if !seen[s] {
				seen[s] = true
				if !isStop(s) {
					walk(s, 0)
				}
			}
		}
	}
	i := from.I
	if after {
		i++
	}
	walk(from.B, i)
	return seen
}

// CalleeHas reports whether the module function called by call contains,
// itself or through module callees up to depth levels, a node accepted by pred.
func CalleeHas(c *core.Ctx, info *types.Info, call *ast.CallExpr, depth int, pred func(*types.Info, ast.Node) bool) bool {
	if depth == 0 {
		return false
	}
	fn := c.FnOf(core.CalleeFunc(info, call))
	if fn == nil || fn.Decl.Body == nil || !strings.HasPrefix(fn.Pkg.PkgPath, core.Module) {
		return false
	}
	found := false
	core.InspectAll(fn.Decl.Body, func(n ast.Node) bool {
		if found {
			return false
		}
		if pred(fn.Pkg.TypesInfo, n) {
			found = true
		} else if cl, ok := n.(*ast.CallExpr); ok && CalleeHas(c, fn.Pkg.TypesInfo, cl, depth-1, pred) {
			found = true
		}
		return !found
	})
	return found
}

// ---------------------------------------------------------------------------
// origins of a value

// Origin is one definition that may reach an expression.
type Origin struct {
	Expr  ast.Expr    // defining expression (the call for tuple results, the ranged expression for range variables)
	Res   int         // result index for tuple / comma-ok / range definitions, -1 otherwise
	Range bool        // defined as key (Res 0) or value (Res 1) of a range statement
	Zero  bool        // declared without initial value
	Op    token.Token // compound assignment or ++/-- (Expr is the operand, nil for ++/--)
	Stmt  ast.Node    // the defining statement
	Param bool        // Expr is a parameter of the enclosing function
}

// Origins chases identifiers of local variables through every assignment
// found under scope (closures included) and through type conversions.
func Origins(info *types.Info, scope ast.Node, e ast.Expr) []Origin {
	var out []Origin
	seen := map[types.Object]bool{}
	var chase func(e ast.Expr)
	chase = func(e ast.Expr) {
		e = ast.Unparen(e)
		if call, ok := e.(*ast.CallExpr); ok && len(call.Args) == 1 {
			if tv, ok := info.Types[call.Fun]; ok && tv.IsType() {
				chase(call.Args[0])
				return
			}
		}
		if sel, ok := e.(*ast.SelectorExpr); ok {
			// a field of a local struct variable that is only used field by field
			if defs, ok := localFieldDefs(info, scope, sel); ok {
				for _, d := range defs {
					if d.Zero {
						out = append(out, d)
						continue
					}
					k := len(out)
					chase(d.Expr)
					for j := k; j < len(out); j++ {
						if out[j].Stmt == nil {
							out[j].Stmt = d.Stmt
						}
					}
				}
				return
			}
		}
		id, ok := e.(*ast.Ident)
		if !ok {
			out = append(out, Origin{Expr: e, Res: -1})
			return
		}
		obj, _ := core.ObjOf(info, id).(*types.Var)
		if obj == nil || obj.IsField() || !(scope.Pos() <= obj.Pos() && obj.Pos() < scope.End()) {
			out = append(out, Origin{Expr: e, Res: -1})
			return
		}
		if seen[obj] {
			return
		}
		seen[obj] = true
		n0 := len(out)
		ast.Inspect(scope, func(n ast.Node) bool {
			switch s := n.(type) {
			case *ast.AssignStmt:
				for i, l := range s.Lhs {
					lid, ok := ast.Unparen(l).(*ast.Ident)
					if !ok || core.ObjOf(info, lid) != obj {
						continue
					}
					switch {
					case s.Tok != token.ASSIGN && s.Tok != token.DEFINE:
						out = append(out, Origin{Expr: s.Rhs[0], Res: -1, Op: s.Tok, Stmt: s})
					case len(s.Lhs) == len(s.Rhs):
						k := len(out)
						chase(s.Rhs[i])
						for j := k; j < len(out); j++ {
							if out[j].Stmt == nil {
								out[j].Stmt = s
							}
						}
					default:
						out = append(out, Origin{Expr: s.Rhs[0], Res: i, Stmt: s})
					}
				}
			case *ast.IncDecStmt:
				if lid, ok := ast.Unparen(s.X).(*ast.Ident); ok && core.ObjOf(info, lid) == obj {
					out = append(out, Origin{Res: -1, Op: s.Tok, Stmt: s})
				}
			case *ast.RangeStmt:
				for i, l := range []ast.Expr{s.Key, s.Value} {
					if lid, ok := l.(*ast.Ident); ok && core.ObjOf(info, lid) == obj {
						out = append(out, Origin{Expr: s.X, Res: i, Range: true, Stmt: s})
					}
				}
			case *ast.ValueSpec:
				for i, nm := range s.Names {
					if info.Defs[nm] != obj {
						continue
					}
					switch {
					case len(s.Values) == 0:
						out = append(out, Origin{Res: -1, Zero: true, Stmt: s})
					case len(s.Values) == len(s.Names):
						k := len(out)
						chase(s.Values[i])
						for j := k; j < len(out); j++ {
							if out[j].Stmt == nil {
								out[j].Stmt = s
							}
						}
					default:
						out = append(out, Origin{Expr: s.Values[0], Res: i, Stmt: s})
					}
				}
			case *ast.UnaryExpr:
				if lid, ok := ast.Unparen(s.X).(*ast.Ident); ok && s.Op == token.AND && core.ObjOf(info, lid) == obj {
					out = append(out, Origin{Expr: s, Res: -1, Stmt: s})
				}
			}
			return true
		})
		if len(out) == n0 { // parameter or captured variable without assignment
			out = append(out, Origin{Expr: e, Res: -1, Param: true})
		}
	}
	chase(e)
	return out
}

// localFieldDefs lists the definitions of v.f for a local (non-pointer) struct
// variable v: assignments `v.f = e`, the field's value in composite literals
// assigned to v, and the zero value of `var v T`. ok is false when v is a
// pointer, has its address taken, or is assigned from anything else.
func localFieldDefs(info *types.Info, scope ast.Node, sel *ast.SelectorExpr) ([]Origin, bool) {
	id, ok := ast.Unparen(sel.X).(*ast.Ident)
	if !ok {
		return nil, false
	}
	v, ok := core.ObjOf(info, id).(*types.Var)
	if !ok || v.IsField() || !(scope.Pos() <= v.Pos() && v.Pos() < scope.End()) {
		return nil, false
	}
	if _, isStruct := v.Type().Underlying().(*types.Struct); !isStruct {
		return nil, false
	}
	var out []Origin
	good := true
	fieldOf := func(lit *ast.CompositeLit, st ast.Node) {
		for _, el := range lit.Elts {
			kv, ok := el.(*ast.KeyValueExpr)
			if !ok {
				good = false
				return
			}
			if k, ok := kv.Key.(*ast.Ident); ok && k.Name == sel.Sel.Name {
				out = append(out, Origin{Expr: kv.Value, Res: -1, Stmt: st})
				return
			}
		}
		out = append(out, Origin{Res: -1, Zero: true, Stmt: st})
	}
	ast.Inspect(scope, func(n ast.Node) bool {
		switch x := n.(type) {
		case *ast.AssignStmt:
			for i, l := range x.Lhs {
				if ls, ok := ast.Unparen(l).(*ast.SelectorExpr); ok && IsObj(info, v)(ls.X) && ls.Sel.Name == sel.Sel.Name {
					if len(x.Lhs) == len(x.Rhs) && (x.Tok == token.ASSIGN) {
						out = append(out, Origin{Expr: x.Rhs[i], Res: -1, Stmt: x})
					} else {
						good = false
					}
				}
				if IsObj(info, v)(l) {
					if len(x.Lhs) == len(x.Rhs) {
						if lit, ok := ast.Unparen(x.Rhs[i]).(*ast.CompositeLit); ok {
							fieldOf(lit, x)
							continue
						}
					}
					good = false
				}
			}
		case *ast.ValueSpec:
			for i, nm := range x.Names {
				if info.Defs[nm] != types.Object(v) {
					continue
				}
				switch {
				case len(x.Values) == 0:
					out = append(out, Origin{Res: -1, Zero: true, Stmt: x})
				case len(x.Values) == len(x.Names):
					if lit, ok := ast.Unparen(x.Values[i]).(*ast.CompositeLit); ok {
						fieldOf(lit, x)
					} else {
						good = false
					}
				default:
					good = false
				}
			}
		case *ast.UnaryExpr:
			if x.Op == token.AND && IsObj(info, v)(x.X) {
				good = false
			}
		case *ast.CallExpr:
			// passed by value is fine; a method with pointer receiver takes the address
			if ms, ok := ast.Unparen(x.Fun).(*ast.SelectorExpr); ok && IsObj(info, v)(ms.X) {
				if _, isField := info.Selections[ms]; isField && info.Selections[ms].Kind() != types.FieldVal {
					good = false
				}
			}
		}
		return true
	})
	return out, good && len(out) > 0
}

// SoleOrigin returns the single non-zero origin of e, if there is exactly one.
func SoleOrigin(info *types.Info, scope ast.Node, e ast.Expr) (Origin, bool) {
	var hit []Origin
	for _, o := range Origins(info, scope, e) {
		if !o.Zero {
			hit = append(hit, o)
		}
	}
	if len(hit) == 1 {
		return hit[0], true
	}
	return Origin{}, false
}

// CallOrigin reports whether o is result `res` of a call to pkgPath.name.
func CallOrigin(info *types.Info, o Origin, pkgPath, recv, name string, res int) (*ast.CallExpr, bool) {
	if o.Expr == nil || o.Range || o.Op != 0 {
		return nil, false
	}
	call, ok := ast.Unparen(o.Expr).(*ast.CallExpr)
	if !ok || !core.IsFunc(core.CalleeFunc(info, call), pkgPath, recv, name) {
		return nil, false
	}
	got := o.Res
	if got < 0 {
		got = 0
	}
	return call, got == res
}

// ---------------------------------------------------------------------------
// module-wide bodies and goroutine starts

// MBody is a function body (declared or literal) of a module package.
type MBody struct {
	ring.Body
	Pkg *packages.Package
}

// Root returns the AST root of the body (its own statements only when walked
// with core.Inspect).
func (b MBody) Root() ast.Node {
	if b.Lit != nil {
		return b.Lit
	}
	return b.Decl.Body
}

// Obj returns the declared function object (nil for literals).
func (b MBody) Obj() *types.Func {
	if b.Lit != nil {
		return nil
	}
	f, _ := b.Pkg.TypesInfo.Defs[b.Decl.Name].(*types.Func)
	return f
}

// AllBodies enumerates the bodies of every well-typed, non-test module package (memoised).
func AllBodies(c *core.Ctx) []MBody {
	if v, ok := c.Shared["c03.bodies"]; ok {
		return v.([]MBody)
	}
	var out []MBody
	// unexported functions that nothing refers to any more (their calls were
	// expanded in place by the loader's helper normalisation) are not code that runs
	used := map[types.Object]bool{}
	for _, pk := range c.Pkgs {
		if pk.TypesInfo == nil {
			continue
		}
		for _, o := range pk.TypesInfo.Uses {
			if f, ok := o.(*types.Func); ok {
				used[f.Origin()] = true
			}
		}
	}
	for _, pk := range c.Pkgs {
		if pk.ID != pk.PkgPath || pk.TypesInfo == nil || pk.PkgPath == core.MainPkg {
			continue
		}
		for _, b := range ring.Bodies(c, pk.PkgPath) {
			if strings.HasSuffix(c.Fset.Position(b.Decl.Pos()).Filename, "_test.go") {
				continue
			}
			if fo, ok := pk.TypesInfo.Defs[b.Decl.Name].(*types.Func); ok && !fo.Exported() && !used[fo] && fo.Name() != "init" && fo.Name() != "main" {
				continue
			}
			out = append(out, MBody{b, pk})
		}
	}
	c.Shared["c03.bodies"] = out
	return out
}

// GoSite is one `go` statement.
type GoSite struct {
	In   MBody
	Stmt *ast.GoStmt
	Fn   *types.Func  // started declared function (nil when a literal is started)
	Lit  *ast.FuncLit // started literal
}

// GoSites lists every go statement of the module.
func GoSites(c *core.Ctx) []GoSite {
	var out []GoSite
	for _, b := range AllBodies(c) {
		b := b
		core.Inspect(b.Root(), func(n ast.Node) bool {
			if g, ok := n.(*ast.GoStmt); ok {
				s := GoSite{In: b, Stmt: g, Fn: core.CalleeFunc(b.Pkg.TypesInfo, g.Call)}
				if fl, ok := ast.Unparen(g.Call.Fun).(*ast.FuncLit); ok {
					s.Lit = fl
				}
				out = append(out, s)
			}
			return true
		})
	}
	return out
}

// StartedByGo reports whether body b is the literal of a go statement or a
// declared function that some go statement starts.
func StartedByGo(sites []GoSite, b MBody) bool {
	for _, s := range sites {
		if b.Lit != nil && s.Lit == b.Lit {
			return true
		}
		if b.Lit == nil && s.Fn != nil && s.Fn == b.Obj() {
			return true
		}
	}
	return false
}

// RunsOnce recognises a `L: for { ...; break L }` block without a `continue`
// of its own: syntactically a loop, but its body executes once (the shape the
// loader's helper normalisation produces, and an idiom for early exit).
func RunsOnce(path []ast.Node, i int) bool {
	fs, ok := path[i].(*ast.ForStmt)
	if !ok || fs.Init != nil || fs.Cond != nil || fs.Post != nil || len(fs.Body.List) == 0 || i == 0 {
		return false
	}
	lab, ok := path[i-1].(*ast.LabeledStmt)
	if !ok {
		return false
	}
	last, ok := fs.Body.List[len(fs.Body.List)-1].(*ast.BranchStmt)
	if !ok || last.Tok != token.BREAK || last.Label == nil || last.Label.Name != lab.Label.Name {
		return false
	}
	once := true
	var walk func(n ast.Node, nested bool)
	walk = func(n ast.Node, nested bool) {
		ast.Inspect(n, func(m ast.Node) bool {
			switch x := m.(type) {
			case *ast.FuncLit:
				return false
			case *ast.ForStmt, *ast.RangeStmt:
				if m != n {
					walk(m, true)
					return false
				}
			case *ast.BranchStmt:
				if x.Tok == token.CONTINUE && (x.Label == nil && !nested || x.Label != nil && x.Label.Name == lab.Label.Name) {
					once = false
				}
			}
			return true
		})
	}
	walk(fs.Body, false)
	return once
}

// InLoop reports whether n lies inside a for/range statement of root (blocks
// of the form `L: for { ...; break L }` are not loops).
func InLoop(root, n ast.Node) bool {
	path := core.PathTo(root, n)
	for i, p := range path {
		switch p.(type) {
		case *ast.ForStmt, *ast.RangeStmt:
			if p != n && !RunsOnce(path, i) {
				return true
			}
		}
	}
	return false
}

// SameVar builds an expression predicate: e denotes the variable obj, directly
// or through a chain of single-definition copies (`t := obj`) in scope.
func SameVar(info *types.Info, scope ast.Node, obj types.Object) func(ast.Expr) bool {
	return func(e ast.Expr) bool {
		if obj == nil || e == nil {
			return false
		}
		if IsObj(info, obj)(e) {
			return true
		}
		if _, isID := ast.Unparen(e).(*ast.Ident); !isID || scope == nil {
			return false
		}
		// step through `t := u` copies one definition at a time
		cur := ast.Unparen(e)
		for step := 0; step < 8; step++ {
			id, ok := cur.(*ast.Ident)
			if !ok {
				return false
			}
			if IsObj(info, obj)(id) {
				return true
			}
			var def *Origin
			n := 0
			for _, o := range Origins1(info, scope, id) {
				if o.Zero {
					continue
				}
				n++
				oc := o
				def = &oc
			}
			if n != 1 || def.Expr == nil || def.Op != 0 || def.Range || def.Res >= 0 || def.Param {
				return false
			}
			cur = ast.Unparen(def.Expr)
		}
		return false
	}
}

// FieldWrite describes a statement that writes a struct field.
type FieldWrite struct {
	In   MBody
	Stmt ast.Node
	Tok  token.Token // ASSIGN, DEFINE, ADD_ASSIGN..., INC/DEC, AND (address taken)
	Rhs  ast.Expr    // value for 1:1 / compound assignments; the call for tuple assignments
	Res  int         // tuple position, -1 otherwise
}

// FieldWrites finds every write to field typ.field in the module.
func FieldWrites(c *core.Ctx, typ, field string) []FieldWrite {
	var out []FieldWrite
	for _, b := range AllBodies(c) {
		b := b
		info := b.Pkg.TypesInfo
		core.Inspect(b.Root(), func(n ast.Node) bool {
			switch s := n.(type) {
			case *ast.AssignStmt:
				for i, l := range s.Lhs {
					if !core.IsFieldNamed(info, l, typ, field) {
						continue
					}
					w := FieldWrite{In: b, Stmt: s, Tok: s.Tok, Res: -1}
					if len(s.Lhs) == len(s.Rhs) {
						w.Rhs = s.Rhs[i]
					} else {
						w.Rhs, w.Res = s.Rhs[0], i
					}
					out = append(out, w)
				}
			case *ast.IncDecStmt:
				if core.IsFieldNamed(info, s.X, typ, field) {
					out = append(out, FieldWrite{In: b, Stmt: s, Tok: s.Tok, Res: -1})
				}
			case *ast.UnaryExpr:
				if s.Op == token.AND && core.IsFieldNamed(info, s.X, typ, field) {
					if ws, ok := derefWrites(b, s); ok {
						out = append(out, ws...)
					} else {
						out = append(out, FieldWrite{In: b, Stmt: s, Tok: token.AND, Res: -1})
					}
				}
			}
			return true
		})
	}
	return out
}

// derefWrites: addr (`&x.f`) only initialises a pointer local `p := &x.f` of
// body b whose every use is a dereference `*p` in b's own statements; the
// writes `*p = v`, `*p op= v`, `(*p)++` are then writes of the field.
func derefWrites(b MBody, addr *ast.UnaryExpr) ([]FieldWrite, bool) {
	info := b.Pkg.TypesInfo
	var def *ast.AssignStmt
	for _, pn := range core.PathTo(b.Root(), addr) {
		if as, ok := pn.(*ast.AssignStmt); ok {
			def = as
		}
	}
	if def == nil || def.Tok != token.DEFINE || len(def.Lhs) != 1 || len(def.Rhs) != 1 || ast.Unparen(def.Rhs[0]) != ast.Expr(addr) {
		return nil, false
	}
	pid, ok := def.Lhs[0].(*ast.Ident)
	if !ok || pid.Name == "_" {
		return nil, false
	}
	p := info.Defs[pid]
	if p == nil {
		return nil, false
	}
	uses, derefs := 0, 0
	core.InspectAll(b.Decl.Body, func(n ast.Node) bool {
		if id, ok := n.(*ast.Ident); ok && info.Uses[id] == p {
			uses++
		}
		return true
	})
	var out []FieldWrite
	isDeref := func(e ast.Expr) bool {
		st, ok := ast.Unparen(e).(*ast.StarExpr)
		return ok && IsObj(info, p)(st.X)
	}
	core.Inspect(b.Root(), func(n ast.Node) bool {
		switch x := n.(type) {
		case *ast.StarExpr:
			if IsObj(info, p)(x.X) {
				derefs++
			}
		case *ast.AssignStmt:
			for i, l := range x.Lhs {
				if !isDeref(l) {
					continue
				}
				w := FieldWrite{In: b, Stmt: x, Tok: x.Tok, Res: -1}
				if len(x.Lhs) == len(x.Rhs) {
					w.Rhs = x.Rhs[i]
				} else {
					w.Rhs, w.Res = x.Rhs[0], i
				}
				out = append(out, w)
			}
		case *ast.IncDecStmt:
			if isDeref(x.X) {
				out = append(out, FieldWrite{In: b, Stmt: x, Tok: x.Tok, Res: -1})
			}
		}
		return true
	})
	if uses != derefs {
		return nil, false
	}
	return out, true
}

// CallsTo lists (body, call) pairs of static calls to fn in the module; go
// statements are reported with isGo.
type CallSite struct {
	In   MBody
	Call *ast.CallExpr
	IsGo bool
}

func CallsTo(c *core.Ctx, fn *types.Func) []CallSite {
	var out []CallSite
	for _, b := range AllBodies(c) {
		b := b
		info := b.Pkg.TypesInfo
		goCalls := map[*ast.CallExpr]bool{}
		core.Inspect(b.Root(), func(n ast.Node) bool {
			if g, ok := n.(*ast.GoStmt); ok {
				goCalls[g.Call] = true
			}
			if call, ok := n.(*ast.CallExpr); ok && fn != nil && core.CalleeFunc(info, call) == fn {
				out = append(out, CallSite{In: b, Call: call, IsGo: goCalls[call]})
			}
			return true
		})
	}
	return out
}

// Transitively reports whether executing call may execute a call accepted by
// pred, looking into module callees up to depth levels.
func Transitively(c *core.Ctx, info *types.Info, call *ast.CallExpr, depth int, pred func(*types.Info, *ast.CallExpr) bool) bool {
	if pred(info, call) {
		return true
	}
	if depth == 0 {
		return false
	}
	fn := c.FnOf(core.CalleeFunc(info, call))
	if fn == nil || fn.Decl.Body == nil || !strings.HasPrefix(fn.Pkg.PkgPath, core.Module) {
		return false
	}
	found := false
	core.InspectAll(fn.Decl.Body, func(n ast.Node) bool {
		if cl, ok := n.(*ast.CallExpr); ok && !found && Transitively(c, fn.Pkg.TypesInfo, cl, depth-1, pred) {
			found = true
		}
		return !found
	})
	return found
}

// PlainCallees returns fn and the module functions it reaches through plain
// (non-go) static calls, up to depth levels.
func PlainCallees(c *core.Ctx, fn *core.Fn, depth int) map[*types.Func]bool {
	out := map[*types.Func]bool{}
	var walk func(f *core.Fn, d int)
	walk = func(f *core.Fn, d int) {
		if f == nil || f.Decl.Body == nil || out[f.Obj] {
			return
		}
		out[f.Obj] = true
		if d == 0 {
			return
		}
		goCalls := map[*ast.CallExpr]bool{}
		core.InspectAll(f.Decl.Body, func(n ast.Node) bool {
			if g, ok := n.(*ast.GoStmt); ok {
				goCalls[g.Call] = true
			}
			if call, ok := n.(*ast.CallExpr); ok && !goCalls[call] {
				if callee := core.CalleeFunc(f.Pkg.TypesInfo, call); callee != nil && callee.Pkg() != nil && strings.HasPrefix(callee.Pkg().Path(), core.Module) {
					walk(c.FnOf(callee), d-1)
				}
			}
			return true
		})
	}
	walk(fn, depth)
	return out
}

// SumTerms returns the summands of e as it is evaluated in the statement use:
// `a + b` splits, and a local built up in straight-line code -- one plain
// definition followed by `v += t` statements, all in the basic block of use and
// before it -- contributes the summands of its definition and of every t.
// Anything else is a summand by itself.
func SumTerms(info *types.Info, g *cfgq.Graph, scope ast.Node, e ast.Expr, use ast.Node) []ast.Expr {
	var out []ast.Expr
	var walk func(e ast.Expr, use ast.Node, depth int)
	walk = func(e ast.Expr, use ast.Node, depth int) {
		e = ast.Unparen(e)
		if be, ok := e.(*ast.BinaryExpr); ok && be.Op == token.ADD {
			walk(be.X, use, depth)
			walk(be.Y, use, depth)
			return
		}
		id, ok := e.(*ast.Ident)
		if v, isVar := core.ObjOf(info, id).(*types.Var); !ok || !isVar || v.IsField() || depth == 0 || use == nil {
			out = append(out, e)
			return
		}
		var plain *Origin
		var adds []Origin
		for _, o := range Origins1(info, scope, id) {
			o := o
			switch {
			case o.Zero:
			case o.Op == 0 && !o.Range && o.Res < 0 && o.Expr != nil && !o.Param && plain == nil && ast.Unparen(o.Expr) != ast.Expr(id):
				plain = &o
			case o.Op == token.ADD_ASSIGN && o.Expr != nil:
				adds = append(adds, o)
			default:
				out = append(out, e)
				return
			}
		}
		if plain != nil && len(adds) == 0 {
			// a single-definition temporary
			walk(plain.Expr, plain.Stmt, depth-1)
			return
		}
		if plain == nil || plain.Stmt == nil || !SameBlock(g, plain.Stmt, use) || plain.Stmt.Pos() >= use.Pos() {
			out = append(out, e)
			return
		}
		for _, a := range adds {
			if a.Stmt == nil || !SameBlock(g, a.Stmt, use) || a.Stmt.Pos() <= plain.Stmt.Pos() || a.Stmt.Pos() >= use.Pos() {
				out = append(out, e)
				return
			}
		}
		walk(plain.Expr, plain.Stmt, depth-1)
		for _, a := range adds {
			walk(a.Expr, a.Stmt, depth-1)
		}
	}
	walk(e, use, 4)
	return out
}

// SameBlock: the statements a and b lie in the same basic block of g (straight-line code).
func SameBlock(g *cfgq.Graph, a, b ast.Node) bool { return sameBlock(g, a, b) }

// TableRead resolves a read `m[K]` of a local map that is used as a constant
// table: m is defined once (make or a literal) in scope, every other use of m
// is an element write `m[k] = v` or an element read, every write is an
// unconditional statement of the function body -- directly, or in a range over
// a composite literal of constants whose value variable is the key -- that
// precedes the read, the keys are constants, and exactly one write has the key
// K. It returns the value written under K (with the range variable replaced by
// the matching element), or nil.
func TableRead(info *types.Info, scope ast.Node, e ast.Expr) ast.Expr {
	ix, ok := ast.Unparen(e).(*ast.IndexExpr)
	if !ok {
		return nil
	}
	mid, ok := ast.Unparen(ix.X).(*ast.Ident)
	if !ok {
		return nil
	}
	m, ok := core.ObjOf(info, mid).(*types.Var)
	if !ok || m.IsField() {
		return nil
	}
	if _, isMap := m.Type().Underlying().(*types.Map); !isMap {
		return nil
	}
	ktv, ok := info.Types[ix.Index]
	if !ok || ktv.Value == nil {
		return nil
	}
	var body *ast.BlockStmt
	switch x := scope.(type) {
	case *ast.FuncDecl:
		body = x.Body
	case *ast.FuncLit:
		body = x.Body
	case *ast.BlockStmt:
		body = x
	}
	if body == nil || !(body.Pos() <= m.Pos() && m.Pos() < body.End()) {
		return nil
	}
	sameKey := func(k ast.Expr) (same, isConst bool) {
		tv, ok := info.Types[k]
		if !ok || tv.Value == nil {
			return false, false
		}
		return constant.Compare(tv.Value, token.EQL, ktv.Value), true
	}
	accounted := map[*ast.Ident]bool{}
	var hits []ast.Expr
	bad := false
	// the definition
	for _, o := range Origins1(info, scope, mid) {
		if o.Zero {
			continue
		}
		if o.Op != 0 || o.Range || o.Res >= 0 || o.Expr == nil || o.Param {
			return nil
		}
		switch d := ast.Unparen(o.Expr).(type) {
		case *ast.CallExpr:
			if bi, ok := core.Callee(info, d).(*types.Builtin); !ok || bi.Name() != "make" {
				return nil
			}
		case *ast.CompositeLit:
			for _, el := range d.Elts {
				kv, ok := el.(*ast.KeyValueExpr)
				if !ok {
					return nil
				}
				same, isC := sameKey(kv.Key)
				if !isC {
					return nil
				}
				if same {
					hits = append(hits, kv.Value)
				}
			}
		default:
			return nil
		}
		if o.Stmt == nil || o.Stmt.Pos() >= ix.Pos() {
			return nil
		}
	}
	// writes: top-level statements, or top-level statements of a top-level range over a literal of constants
	var visit func(list []ast.Stmt, rs *ast.RangeStmt)
	visit = func(list []ast.Stmt, rs *ast.RangeStmt) {
		for _, st := range list {
			switch x := st.(type) {
			case *ast.AssignStmt:
				for i, l := range x.Lhs {
					lx, ok := ast.Unparen(l).(*ast.IndexExpr)
					if !ok || !IsObj(info, m)(lx.X) {
						continue
					}
					accounted[ast.Unparen(lx.X).(*ast.Ident)] = true
					if x.Tok != token.ASSIGN || len(x.Lhs) != len(x.Rhs) || x.Pos() >= ix.Pos() {
						bad = true
						continue
					}
					if same, isC := sameKey(lx.Index); isC {
						if same {
							hits = append(hits, x.Rhs[i])
						}
						continue
					}
					// key = the value variable of the enclosing range over a literal of constants
					if rs == nil || rs.Value == nil || !IsObj(info, core.ObjOf(info, rs.Value.(*ast.Ident)))(lx.Index) {
						bad = true
						continue
					}
					lit := ast.Unparen(rs.X).(*ast.CompositeLit)
					for _, el := range lit.Elts {
						same, isC := sameKey(el)
						if !isC {
							bad = true
							break
						}
						if same {
							hits = append(hits, Subst(info, nil, x.Rhs[i], Binding{core.ObjOf(info, rs.Value.(*ast.Ident)): el}))
						}
					}
				}
			case *ast.RangeStmt:
				if rs != nil {
					continue
				}
				if lit, ok := ast.Unparen(x.X).(*ast.CompositeLit); ok {
					if _, isID := x.Value.(*ast.Ident); isID || x.Value == nil {
						_ = lit
						visit(x.Body.List, x)
					}
				}
			case *ast.BlockStmt:
				if rs == nil {
					visit(x.List, nil)
				}
			}
		}
	}
	visit(body.List, nil)
	// every other use of m is an element read
	core.InspectAll(body, func(n ast.Node) bool {
		if rx, ok := n.(*ast.IndexExpr); ok && IsObj(info, m)(rx.X) {
			if id, ok := ast.Unparen(rx.X).(*ast.Ident); ok && !accounted[id] {
				// a read, unless it is the target of an assignment the walk above did not reach
				accounted[id] = true
				for _, pn := range core.PathTo(body, rx) {
					if as, ok := pn.(*ast.AssignStmt); ok {
						for _, l := range as.Lhs {
							if ast.Unparen(l) == ast.Expr(rx) {
								bad = true // conditional / nested write
							}
						}
					}
					if inc, ok := pn.(*ast.IncDecStmt); ok && ast.Unparen(inc.X) == ast.Expr(rx) {
						bad = true
					}
				}
			}
		}
		return true
	})
	core.InspectAll(body, func(n ast.Node) bool {
		if id, ok := n.(*ast.Ident); ok && info.Uses[id] == types.Object(m) && !accounted[id] {
			// the definition `m = make(..)` writes the variable itself
			isDef := false
			for _, pn := range core.PathTo(body, id) {
				if as, ok := pn.(*ast.AssignStmt); ok {
					for _, l := range as.Lhs {
						if ast.Unparen(l) == ast.Expr(id) {
							isDef = true
						}
					}
				}
			}
			if !isDef {
				bad = true
			}
		}
		return true
	})
	if bad || len(hits) != 1 {
		return nil
	}
	return hits[0]
}

// Expect is core.Ctx.Expect, except that a rule which already reports a
// violation is not additionally reported for matching fewer sites: the missing
// sites are the consequence of the construct the violation names (a statement
// that is gone cannot be matched), and the run is not silent anyway.
func Expect(c *core.Ctx, rule string, min int) {
	for _, o := range c.Obs {
		if o.Rule == rule && o.Status == core.Fail.String() && !knownDefect[o.Rule+"/"+o.Key] {
			return
		}
	}
	c.Expect(rule, min)
}

// knownDefect: the keys of the recorded defect of the pinned tree (the ACK goroutine adding the
// cumulative counter to ds.sourceOffset); they fail on every tree and say nothing about missing sites.
var knownDefect = map[string]bool{
	"R1.double-count/sourceOffset+=cumulative-counter": true,
	"R4.single-writer/sourceOffset/ack-goroutine":      true,
	"R2.offset/base-writer/ack-goroutine":              true,
}
