// Package c09 decides the structural clauses of property C09 (pipe).
//
// The wake-up, wait, ordering and close rules (R2..R5, parts of R6) are stated
// over the traces of the anchored functions produced by the path engine of
// package ring (ring.RunSym): every path through the function with its
// same-package helpers inlined, each with the facts established on it and the
// events it performs (calls on p.store, Signal/Wait on a condition, field
// reads and stores, the returned values). A rule therefore reads like the
// clause it checks ("on every trace that sleeps, the store was tried before,
// returned nothing, and the peer's error was nil") and does not depend on how
// the code spells it: guard clauses, if/else, switch, helpers (also with
// pointer parameters), named results, boolean locals, defer.
package c09

import (
	"fmt"
	"go/ast"
	"go/token"
	"go/types"
	"sort"

	"rscheck/core"
	"rscheck/driver"
	"rscheck/rules/ring"
)

const pkg = "pkg/libs/io/pipe"

var Def = driver.PropDef{
	ID: "C09",
	Explanation: "Structural necessary conditions of the pipe's FIFO/close/wake-up behaviour, checked on every path of pkg/libs/io/pipe: " +
		"R1 lock guard table (rerr, werr, store, both conds only under pipe.mu; conds built over &mu; readSome only under rl, writeSome only under wl); " +
		"R2 wake on progress (every path on which the store made progress or failed signals the peer's condition before returning); " +
		"R3 wake on close (RClose/WClose keep the first error, default to ErrClosedPipe/EOF, signal both conditions and close the store on every path); " +
		"R4 wait shape (Wait only as the no-progress tail of readSome/writeSome, only when the peer's error is unset, followed by return (0,nil); callers loop); " +
		"R5 close ordering (reader-closed test first; the writer's error is returned only after the store was found empty; writes test werr then rerr before touching the store); " +
		"R6 mem/file sibling skeleton (roffset/woffset arguments in parameter order, position updates, reset when positions meet, buffered/available formulas, nil backing store); " +
		"R7 ring index clamp form (offset = own position % size; maxlen only lowered, to exactly the ring bounds).",
	NotDecided: "byte-for-byte FIFO equality, arithmetic correctness of the ring bounds for every position beyond the clamp-term comparison, absence of deadlock for every interleaving (R2-R4 are its standard necessary conditions, not a proof).",
	Trusted:    []string{"go/parser, go/types, go/cfg (x/tools v0.29.0)", "sync.Mutex / sync.Cond semantics", "copy, os.File.ReadAt/WriteAt semantics", "io count contract: an operation handed a byte slice first and returning (int, error) reports 0 <= n <= len(slice) (used to decide `n > 0` / `n != 0` alike)", "package-level error values (io.EOF, io.ErrClosedPipe, Err*) are never nil"},
	Run:        Run,
}

func Run(c *core.Ctx) {
	pk := c.Pkg(pkg)
	if pk == nil {
		c.Undecidedf("anchor", pkg, token.NoPos, "package not loaded")
		return
	}

	// ---- R1 guard table
	guarded := []string{"rerr", "werr", "store", "rwait", "wwait"}
	n, perField, immutable := ring.GuardTable(c, "R1.guard", pkg, "pipe", "mu", guarded)
	ring.GuardOnTraces(c, "R1.trace", pkg, "pipe", "mu", guarded, immutable)
	for _, f := range guarded {
		if perField[f] < 2 {
			c.Undecidedf("instances", "R1.guard", token.NoPos, "only %d guarded accesses to pipe.%s found (%d in total): every guarded field is read and written by the pipe's operations", perField[f], f, n)
		}
	}
	ring.CondOver(c, "R1.cond", pkg, "pipe", "rwait", "mu")
	ring.CondOver(c, "R1.cond", pkg, "pipe", "wwait", "mu")
	sideLock(c, "Read", "readSome", "rl")
	sideLock(c, "Write", "writeSome", "wl")

	readSome := c.Func(pkg, "pipe", "readSome")
	writeSome := c.Func(pkg, "pipe", "writeSome")
	if readSome == nil || writeSome == nil {
		return
	}
	rs := ring.RunSym(c, readSome, &ring.Sym{AllowCuts: true})
	ws := ring.RunSym(c, writeSome, &ring.Sym{AllowCuts: true})
	// which condition does each side wait on?
	rw := waitCond(c, readSome, rs)
	ww := waitCond(c, writeSome, ws)
	if rw == "" || ww == "" {
		return
	}
	c.Check("R4.wait", "distinct-conds", readSome.Decl.Pos(), rw != ww,
		fmt.Sprintf("reader waits on %q, writer waits on %q: the two sides must sleep on different conditions", rw, ww))

	// ---- R2 wake on progress / R4 wait shape / R5 ordering
	side(c, readSome, rs, "readSome", rw, ww, "werr")
	side(c, writeSome, ws, "writeSome", ww, rw, "rerr")
	r5read(c, readSome, rs)
	r5write(c, writeSome, ws)
	r5api(c)

	// ---- R3 close
	closeRule(c, "RClose", "rerr", "rclose", "ErrClosedPipe", rw, ww)
	closeRule(c, "WClose", "werr", "wclose", "EOF", rw, ww)

	// Wait sites that are not part of readSome / writeSome (helpers they call count as theirs)
	extraWaits(c, rs, ws)

	// ---- R6 siblings, R7 ring index
	siblings(c)
	ring.ClampFlow(c, "R7.ring", c.Func(pkg, "", "roffset"), ring.ClampSpec{
		Params: []string{"blen", "size", "rpos", "wpos"}, Offset: "rpos",
		Clamps: []string{"_wpos - _rpos", "_size - _offset"},
	})
	ring.ClampFlow(c, "R7.ring", c.Func(pkg, "", "woffset"), ring.ClampSpec{
		Params: []string{"blen", "size", "rpos", "wpos"}, Offset: "wpos",
		Clamps: []string{"_size + _rpos - _wpos", "_size - _offset"},
	})
}

// fieldVar finds field `name` of struct type typ of the package.
func fieldVar(c *core.Ctx, typ, name string) *types.Var {
	return ring.FieldVar(c, pkg, typ, name)
}

// waitCond: the single condition a side sleeps on.
func waitCond(c *core.Ctx, fn *core.Fn, res *ring.SymResult) string {
	name := fn.Decl.Name.Name
	if ok, why := res.Usable(); !ok {
		c.Undecidedf("R4.wait", name+"/one-wait", fn.Decl.Pos(), "%s: %s", name, why)
		return ""
	}
	sites := map[token.Pos]string{}
	unknown := false
	for _, t := range res.Traces {
		for _, e := range t.Events {
			if f, m, ok := ring.CondOp(e); m == "Wait" {
				if !ok {
					unknown = true
					continue
				}
				sites[e.Pos] = f
			}
		}
	}
	if unknown {
		c.Undecidedf("R4.wait", name+"/one-wait", fn.Decl.Pos(), "%s waits on a condition that is not a field of the pipe", name)
		return ""
	}
	if len(sites) != 1 {
		c.Check("R4.wait", name+"/one-wait", fn.Decl.Pos(), false,
			fmt.Sprintf("%s must contain exactly one Wait (its no-progress tail); found %d: a side that never sleeps spins, one that sleeps in two places can miss the wake-up", name, len(sites)))
		return ""
	}
	for _, f := range sites {
		c.Okf("R4.wait", name+"/one-wait", fn.Decl.Pos(), "exactly one Wait, on %s", f)
		return f
	}
	return ""
}

// verdict collects the first failing trace of one obligation.
type verdict struct {
	seen bool
	bad  *ring.Trace
	pos  token.Pos
}

func (v *verdict) add(t *ring.Trace, pos token.Pos, ok bool) {
	if !v.seen {
		v.pos = pos
	}
	v.seen = true
	if !ok && v.bad == nil {
		v.bad = t
		v.pos = pos
	}
}

func (v *verdict) report(c *core.Ctx, rule, key string, def token.Pos, msg string) {
	pos := v.pos
	if !pos.IsValid() {
		pos = def
	}
	var w []string
	if v.bad != nil {
		w = v.bad.Witness(c)
	}
	c.Check(rule, key, pos, v.bad == nil, msg, w...)
}

// isSyncField: the read only fetches a mutex / condition variable (to unlock or signal).
func isSyncField(e *ring.Event) bool {
	if e.Field == nil {
		return false
	}
	tp := core.NamedTypePath(e.Field.Type())
	return tp == "sync.Mutex" || tp == "sync.RWMutex" || tp == "sync.Cond"
}

func isUnlock(e *ring.Event) bool {
	return e.Kind == ring.EvCall && e.Callee != nil && e.Callee.Pkg() != nil && e.Callee.Pkg().Path() == "sync" && (e.Callee.Name() == "Unlock" || e.Callee.Name() == "RUnlock")
}

// side checks R2 and R4 for readSome / writeSome.
// own: the condition this side waits on; peer: the condition the other side
// waits on; peerErr: the other side's error field.
func side(c *core.Ctx, fn *core.Fn, res *ring.SymResult, name, own, peer, peerErr string) {
	if ok, why := res.Usable(); !ok {
		c.Undecidedf("R2.wake", name+"/store-call", fn.Decl.Pos(), "%s: %s", name, why)
		return
	}
	storeOp := func(e *ring.Event) bool { return ring.IsFieldCall(e, "store", name) }
	peerVar := fieldVar(c, "pipe", peerErr)
	var signal, onlyNoProg, afterStore, peerOpen, retZero verdict
	anyStore := false
	for _, t := range res.Traces {
		stores := t.Find(storeOp)
		for _, s := range stores {
			anyStore = true
			// R2: a normal exit on which a store attempt may have made progress or failed has signalled the peer after it
			if t.Normal() && ring.MayProgress(t.Facts, s) {
				s := s
				sig := t.First(func(e *ring.Event) bool {
					return e.Index > s.Index && ring.IsCondOp(e, peer, "Signal", "Broadcast")
				})
				signal.add(t, s.Pos, sig != nil)
			} else {
				signal.add(t, s.Pos, true)
			}
		}
		// R4: every Wait on the path (one when the caller loops, several when the
		// function itself re-examines the state in a loop): the store was tried
		// since the previous wake-up, returned nothing, and the peer is open
		waits := t.Find(func(e *ring.Event) bool { return ring.IsCondOp(e, own, "Wait") })
		prev := -1
		for _, w := range waits {
			var s *ring.Event
			for _, x := range stores {
				if x.Index < w.Index {
					s = x
				}
			}
			before := s != nil && s.Index > prev
			afterStore.add(t, w.Pos, before)
			onlyNoProg.add(t, w.Pos, before && ring.NoProgress(t.FactsAt(w), s))
			peerOpen.add(t, w.Pos, peerVar != nil && t.FactsAt(w).IsNil(w.FieldNow(res.Recv, peerVar)))
			prev = w.Index
		}
		if len(waits) == 0 {
			continue
		}
		// after the last Wait: either the state is examined again (another store
		// attempt follows), or the function returns (0, nil) for the caller to do so
		w := waits[len(waits)-1]
		again := false
		for _, x := range stores {
			if x.Index > w.Index {
				again = true
			}
		}
		if again || t.Exit == ring.ExitCut {
			continue
		}
		// nothing but the return of (0, nil) - or the shared state is read again
		// (then the other rules, which look at the field versions current at each
		// step, judge what follows: nothing read before the Wait counts any more)
		okRet := t.Normal() && len(t.Results) == 2 && t.Facts.IsZero(t.Results[0]) && t.Facts.IsNil(t.Results[1])
		reexamined := false
		for _, e := range t.Events[w.Index+1:] {
			switch e.Kind {
			case ring.EvRead:
				if e.Base != nil && res.Recv != nil && e.Base.Key() == res.Recv.Key() && !isSyncField(e) {
					reexamined = true
				}
			case ring.EvStore:
				okRet = false
			case ring.EvCall:
				if !e.Deferred && !isUnlock(e) {
					okRet = false
				}
			}
		}
		retZero.add(t, w.Pos, okRet || reexamined)
	}
	if !anyStore {
		c.Undecidedf("R2.wake", name+"/store-call", fn.Decl.Pos(), "no path of %s calls p.store.%s", name, name)
		return
	}
	signal.report(c, "R2.wake", name+"/signal-on-progress", fn.Decl.Pos(),
		fmt.Sprintf("every path on which the store made progress or failed (n != 0 || err != nil) must call %s.Signal() before returning, or the blocked peer is never woken", peer))
	onlyNoProg.report(c, "R4.wait", name+"/only-without-progress", fn.Decl.Pos(),
		"Wait must be reachable only when the store call made no progress and returned no error (otherwise bytes are held back / the side sleeps with work to do)")
	afterStore.report(c, "R4.wait", name+"/after-store-attempt", fn.Decl.Pos(), "the store operation must be attempted before sleeping")
	peerOpen.report(c, "R4.wait", name+"/peer-open", fn.Decl.Pos(),
		fmt.Sprintf("Wait must be reachable only when %s is nil: sleeping after the other side closed can never be woken", peerErr))
	retZero.report(c, "R4.wait", name+"/return-after-wait", fn.Decl.Pos(),
		"after Wait the function must return (0, nil) so that the caller's loop re-examines the state under the lock")

	// callers retry after a wake-up (needed only if the operation can come back
	// empty-handed for a non-empty buffer, i.e. does not re-examine the state itself)
	if !ring.MayReturnIdle(res) {
		for _, f := range ring.CallsIn(c, pkg).Callers[fn.Obj.Origin()] {
			c.Okf("R4.wait", name+"/caller-loops/"+ring.BodyName(f), f.Pos(), "%s never returns (0, nil) for a non-empty buffer: it re-examines the state itself after a wake-up", name)
		}
		return
	}
	vs := ring.RetriesOnWake(c, pkg, fn.Obj)
	for _, v := range vs {
		key := name + "/caller-loops/" + ring.BodyName(v.Fn.Obj)
		msg := fmt.Sprintf("%s returns (0,nil) after a wake-up; its caller must call it again (unless the buffer is empty) instead of returning no progress to its own caller", name)
		switch v.Status {
		case 1:
			c.Okf("R4.wait", key, v.Fn.Decl.Pos(), "%s", msg)
		case 0:
			c.Check("R4.wait", key, v.Fn.Decl.Pos(), false, msg, v.Witness...)
		default:
			c.Undecidedf("R4.wait", key, v.Fn.Decl.Pos(), "%s: %s", msg, v.Why)
		}
	}
	if len(vs) == 0 {
		c.Undecidedf("R4.wait", name+"/caller-loops", fn.Decl.Pos(), "no caller of %s found", name)
	}
}

// sideLock: every call of inner (readSome / writeSome) happens with the side
// lock held. The call may sit in outer itself or in a helper / closure that is
// only ever invoked with the lock held.
func sideLock(c *core.Ctx, outer, inner, lock string) {
	fn := c.Func(pkg, "pipe", outer)
	in := c.Func(pkg, "pipe", inner)
	if fn == nil || in == nil {
		return
	}
	info := fn.Pkg.TypesInfo
	ls := ring.LockHeld(c, pkg, "pipe", lock)
	pc := ring.CallsIn(c, pkg)
	total := 0
	for i, b := range ls.Bodies {
		var root ast.Node = b.Decl.Body
		if b.Lit != nil {
			root = b.Lit.Body
		}
		i, b := i, b
		if fo, _ := info.Defs[b.Decl.Name].(*types.Func); fo != nil && !pc.Referenced(fo) {
			continue // dead code
		}
		core.Inspect(root, func(m ast.Node) bool {
			call, ok := m.(*ast.CallExpr)
			if !ok || core.CalleeFunc(info, call) != in.Obj {
				return true
			}
			total++
			held := ls.HeldAt(i, call)
			msg := fmt.Sprintf("%s must be called with %s held for the whole transfer (one %s at a time inside the ring)", inner, lock, outer)
			switch {
			case b.Decl == fn.Decl:
				c.Check("R1.side", outer+"/"+lock, call.Pos(), held, msg)
			case held:
				c.Okf("R1.side", inner+"/caller/"+b.Name, call.Pos(), "%s", msg)
			default:
				c.Failf("R1.side", inner+"/foreign-caller/"+b.Name, call.Pos(), "%s is called outside %s without %s", inner, outer, lock)
			}
			return true
		})
	}
	if total == 0 {
		c.Undecidedf("R1.side", outer+"/"+lock, fn.Decl.Pos(), "no call of %s found", inner)
	}
}

func r5read(c *core.Ctx, fn *core.Fn, res *ring.SymResult) {
	if ok, why := res.Usable(); !ok {
		c.Undecidedf("R5.order", "readSome/reader-closed-first", fn.Decl.Pos(), "%s", why)
		return
	}
	rerr := fieldVar(c, "pipe", "rerr")
	// (a) every look at the store or at the writer's error happens with rerr found nil
	sites := map[token.Pos]*verdict{}
	for _, t := range res.Traces {
		for _, e := range t.Events {
			if !ring.IsReadOf(e, "store") && !ring.IsReadOf(e, "werr") {
				continue
			}
			v := sites[e.Pos]
			if v == nil {
				v = &verdict{}
				sites[e.Pos] = v
			}
			v.add(t, e.Pos, rerr != nil && t.FactsAt(e).IsNil(e.FieldNow(res.Recv, rerr)))
		}
	}
	for k, p := range sortedPos(sites) {
		sites[p].report(c, "R5.order", fmt.Sprintf("readSome/reader-closed-first#%d", k+1), p,
			"after the reader closed, readSome must fail with the closed-pipe error before looking at the store or the writer's error")
	}
	if len(sites) == 0 {
		c.Undecidedf("R5.order", "readSome/reader-closed-first", fn.Decl.Pos(), "no store/werr access found")
	}
	// (b) the writer's error is returned only after the store was found empty
	rets := map[token.Pos]*verdict{}
	for _, t := range res.Traces {
		if !t.Normal() || len(t.Results) != 2 {
			continue
		}
		v := t.Results[1].Unwrap()
		if !v.IsFieldLeaf("werr") || t.Facts.IsNil(v) {
			continue
		}
		// evidence gathered before a Wait is stale: the lock was released
		lastWait := t.Last(func(e *ring.Event) bool { _, m, _ := ring.CondOp(e); return m == "Wait" })
		drained := t.First(func(e *ring.Event) bool {
			if lastWait != nil && e.Index < lastWait.Index {
				return false
			}
			if ring.IsFieldCall(e, "store", "readSome") && ring.NoProgress(t.Facts, e) {
				return true
			}
			return ring.IsFieldCall(e, "store", "buffered") && len(e.Results) == 1 && t.Facts.IsZero(e.Results[0])
		}) != nil
		vd := rets[t.RetPos]
		if vd == nil {
			vd = &verdict{}
			rets[t.RetPos] = vd
		}
		vd.add(t, t.RetPos, drained)
	}
	for k, p := range sortedPos(rets) {
		rets[p].report(c, "R5.order", fmt.Sprintf("readSome/drain-before-werr#%d", k+1), p,
			"the writer's error (EOF) may be returned only after the store was found empty: buffered bytes are drained first")
	}
	if len(rets) == 0 {
		c.Failf("R5.order", "readSome/returns-werr", fn.Decl.Pos(), "readSome never returns the writer's error: a reader of a closed, drained pipe would block forever")
	}
}

func sortedPos(m map[token.Pos]*verdict) []token.Pos {
	var ps []token.Pos
	for p := range m {
		ps = append(ps, p)
	}
	sort.Slice(ps, func(i, j int) bool { return ps[i] < ps[j] })
	return ps
}

func r5write(c *core.Ctx, fn *core.Fn, res *ring.SymResult) {
	if ok, why := res.Usable(); !ok {
		c.Undecidedf("R5.order", "writeSome/test-werr-before-store", fn.Decl.Pos(), "%s", why)
		return
	}
	werr, rerr := fieldVar(c, "pipe", "werr"), fieldVar(c, "pipe", "rerr")
	if werr == nil || rerr == nil || res.Recv == nil {
		c.Undecidedf("R5.order", "writeSome/test-werr-before-store", fn.Decl.Pos(), "fields werr/rerr not found")
		return
	}
	storeOp := func(e *ring.Event) bool { return ring.IsFieldCall(e, "store", "writeSome") }
	var tw, tr, order, cw, cr verdict
	sawW, sawR := false, false
	for _, t := range res.Traces {
		s := t.First(storeOp)
		for _, so := range t.Find(storeOp) {
			tw.add(t, so.Pos, t.FactsAt(so).IsNil(so.FieldNow(res.Recv, werr)))
			tr.add(t, so.Pos, t.FactsAt(so).IsNil(so.FieldNow(res.Recv, rerr)))
		}
		if !t.Normal() || len(t.Results) != 2 {
			continue
		}
		// what the trace says about the close state at entry
		w0 := ring.FieldAtEntry(res.Recv, werr)
		r0 := ring.FieldAtEntry(res.Recv, rerr)
		got := t.Results[1].Unwrap()
		failed := s == nil && t.Facts.IsZero(t.Results[0])
		switch {
		case !t.Facts.IsNil(w0):
			// the writer may have closed: io.ErrClosedPipe, whatever the reader did
			okW := failed && got.IsGlobal("io", "ErrClosedPipe")
			if okW {
				sawW = true
			}
			if !okW && got.IsFieldLeaf("rerr") {
				order.add(t, t.RetPos, false)
			} else {
				cw.add(t, t.RetPos, okW)
			}
		case !t.Facts.IsNil(r0):
			// writer open, the reader may have closed: the reader's close error
			okR := failed && got.IsFieldLeaf("rerr")
			if okR {
				sawR = true
			}
			cr.add(t, t.RetPos, okR)
		}
	}
	if !tw.seen {
		c.Undecidedf("R5.order", "writeSome/test-werr-before-store", fn.Decl.Pos(), "no path of writeSome calls p.store.writeSome")
		return
	}
	tw.report(c, "R5.order", "writeSome/test-werr-before-store", fn.Decl.Pos(),
		"the store write must be reachable only after werr was tested and found nil (a write after a close must fail, not buffer)")
	tr.report(c, "R5.order", "writeSome/test-rerr-before-store", fn.Decl.Pos(),
		"the store write must be reachable only after rerr was tested and found nil (a write after a close must fail, not buffer)")
	order.seen = true
	order.report(c, "R5.order", "writeSome/werr-before-rerr", fn.Decl.Pos(), "a write after the writer's own close reports the closed-pipe error, whatever the reader did")
	if cw.bad == nil && !sawW {
		c.Failf("R5.order", "writeSome/closed-writer-error", fn.Decl.Pos(), "writeSome returns io.ErrClosedPipe (wrapped) once the writer is closed; no path does")
	} else {
		cw.report(c, "R5.order", "writeSome/closed-writer-error", fn.Decl.Pos(), "writeSome returns (0, io.ErrClosedPipe (wrapped)) without touching the store once the writer is closed")
	}
	if cr.bad == nil && !sawR {
		c.Failf("R5.order", "writeSome/closed-reader-error", fn.Decl.Pos(), "writeSome returns the reader's close error once the reader is closed; no path does")
	} else {
		cr.report(c, "R5.order", "writeSome/closed-reader-error", fn.Decl.Pos(), "writeSome returns (0, rerr) without touching the store once the reader is closed")
	}
}

// r5api: the close rules as seen through Buffered() and Available(), which
// are in the quantified operation set. Buffered: once the reader closed it
// fails with rerr; the writer's error is reported only on a path that found
// the store empty (bytes still buffered are reported first, as Read drains
// them first); otherwise the store's count is reported. Available: fails with
// the close error of a closed side, otherwise reports the store's free space.
func r5api(c *core.Ctx) {
	werr, rerr := fieldVar(c, "pipe", "werr"), fieldVar(c, "pipe", "rerr")
	if fn := c.Func(pkg, "pipe", "Buffered"); fn != nil && werr != nil && rerr != nil {
		res := ring.RunSym(c, fn, &ring.Sym{})
		if ok, why := res.Usable(); !ok || res.Recv == nil {
			c.Undecidedf("R5.order", "Buffered/drain-before-werr", fn.Decl.Pos(), "%s", why)
		} else {
			r0 := ring.FieldAtEntry(res.Recv, rerr)
			var closed, drain, count verdict
			for _, t := range res.Traces {
				if !t.Normal() || len(t.Results) != 2 {
					continue
				}
				n, e := t.Results[0], t.Results[1].Unwrap()
				bc := t.Last(func(ev *ring.Event) bool { return ring.IsFieldCall(ev, "store", "buffered") && len(ev.Results) == 1 })
				switch {
				case !t.Facts.IsNil(r0):
					closed.add(t, t.RetPos, t.Facts.IsZero(n) && e.IsFieldLeaf("rerr") && t.Facts.NonNil(e))
				case e.IsFieldLeaf("werr") && !t.Facts.IsNil(e):
					drain.add(t, t.RetPos, bc != nil && t.Facts.IsZero(bc.Results[0]) && t.Facts.IsZero(n))
				case t.Facts.IsNil(e):
					count.add(t, t.RetPos, bc != nil && ring.LinEqual(n, bc.Results[0]))
				default:
					count.add(t, t.RetPos, false)
				}
			}
			closed.report(c, "R5.order", "Buffered/reader-closed-error", fn.Decl.Pos(), "Buffered fails with the reader's close error once the reader is closed")
			if !drain.seen {
				c.Failf("R5.order", "Buffered/drain-before-werr", fn.Decl.Pos(), "Buffered never reports the writer's error: a consumer polling Buffered would not see the end of the stream")
			} else {
				drain.report(c, "R5.order", "Buffered/drain-before-werr", fn.Decl.Pos(),
					"Buffered may report the writer's error (EOF) only on a path that found the store empty: bytes still buffered are reported first, as Read drains them first")
			}
			count.report(c, "R5.order", "Buffered/reports-count", fn.Decl.Pos(), "while the reader is open and no error is reported Buffered returns the store's count")
		}
	}
	if fn := c.Func(pkg, "pipe", "Available"); fn != nil && werr != nil && rerr != nil {
		res := ring.RunSym(c, fn, &ring.Sym{})
		if ok, why := res.Usable(); !ok || res.Recv == nil {
			c.Undecidedf("R5.order", "Available/closed-error", fn.Decl.Pos(), "%s", why)
		} else {
			w0, r0 := ring.FieldAtEntry(res.Recv, werr), ring.FieldAtEntry(res.Recv, rerr)
			var closed, free verdict
			for _, t := range res.Traces {
				if !t.Normal() || len(t.Results) != 2 {
					continue
				}
				n, e := t.Results[0], t.Results[1].Unwrap()
				if t.Facts.IsNil(w0) && t.Facts.IsNil(r0) {
					av := t.Last(func(ev *ring.Event) bool { return ring.IsFieldCall(ev, "store", "available") && len(ev.Results) == 1 })
					free.add(t, t.RetPos, av != nil && ring.LinEqual(n, av.Results[0]) && t.Facts.IsNil(e))
				} else {
					closed.add(t, t.RetPos, t.Facts.IsZero(n) && (e.IsFieldLeaf("werr") || e.IsFieldLeaf("rerr")) && t.Facts.NonNil(e))
				}
			}
			closed.report(c, "R5.order", "Available/closed-error", fn.Decl.Pos(), "Available fails with the close error of a closed side (a writer must not be told there is room in a closed pipe)")
			free.report(c, "R5.order", "Available/reports-free", fn.Decl.Pos(), "with both sides open Available returns the store's free space")
		}
	}
}

func closeRule(c *core.Ctx, method, errField, storeClose, defErr, rw, ww string) {
	fn := c.Func(pkg, "pipe", method)
	if fn == nil {
		return
	}
	res := ring.RunSym(c, fn, &ring.Sym{})
	if ok, why := res.Usable(); !ok {
		c.Undecidedf("R3.close", method+"/default-error", fn.Decl.Pos(), "%s: %s", method, why)
		return
	}
	if len(res.Params) != 1 || res.Recv == nil {
		c.Undecidedf("R3.close", method+"/param", fn.Decl.Pos(), "%s must take one error parameter", method)
		return
	}
	param := res.Params[0]
	fv := fieldVar(c, "pipe", errField)
	if fv == nil {
		c.Undecidedf("R3.close", method+"/sets-"+errField, fn.Decl.Pos(), "field %s not found", errField)
		return
	}
	var def, first, stores, always, closes, published verdict
	sig := map[string]*verdict{rw: {}, ww: {}}
	anyStore, unknownVal := false, ""
	for _, t := range res.Traces {
		for _, s := range t.Find(func(e *ring.Event) bool { return ring.IsStoreTo(e, errField) }) {
			anyStore = true
			fs := t.FactsAt(s)
			first.add(t, s.Pos, fs.IsNil(s.Old))
			v := s.Val.Unwrap()
			switch {
			case v.Key() == param.Key():
				// the caller's error: only where it is known not to be nil
				def.add(t, s.Pos, fs.NonNil(param))
				stores.add(t, s.Pos, true)
			case v.IsGlobal("io", defErr):
				// the default: only where the caller passed nil
				def.add(t, s.Pos, true)
				stores.add(t, s.Pos, fs.IsNil(param))
			case v.IsLeafKind(ring.LGlobal):
				def.add(t, s.Pos, false) // another default error
				stores.add(t, s.Pos, true)
			default:
				unknownVal = v.Key()
			}
		}
		if !t.Normal() {
			continue
		}
		always.add(t, fn.Decl.Pos(), t.Facts.NonNil(t.End.FieldNow(res.Recv, fv)))
		for cond, v := range sig {
			cond := cond
			v.add(t, fn.Decl.Pos(), t.First(func(e *ring.Event) bool { return ring.IsCondOp(e, cond, "Signal", "Broadcast") }) != nil)
		}
		closes.add(t, fn.Decl.Pos(), t.First(func(e *ring.Event) bool { return ring.IsFieldCall(e, "store", storeClose) }) != nil)
		// the close becomes visible under the lock, with a wake-up of each side in the same critical section or later
		for _, cond := range []string{rw, ww} {
			cond := cond
			v := ring.PublishedUnderLock(t, res.Recv, "mu",
				func(e *ring.Event) bool {
					return ring.IsStoreTo(e, errField) || ring.IsFieldCall(e, "store", storeClose)
				},
				func(e *ring.Event) bool { return ring.IsCondOp(e, cond, "Signal", "Broadcast") })
			if v >= 0 {
				published.add(t, fn.Decl.Pos(), v == 1)
			}
		}
	}
	if !anyStore {
		c.Failf("R3.close", method+"/sets-"+errField, fn.Decl.Pos(), "%s never sets %s: the other side is not told about the close", method, errField)
	} else if unknownVal != "" {
		c.Undecidedf("R3.close", method+"/stores-error", fn.Decl.Pos(), "%s stores `%s` in %s, which is neither its parameter nor io.%s", method, unknownVal, errField, defErr)
	} else {
		def.report(c, "R3.close", method+"/default-error", fn.Decl.Pos(), fmt.Sprintf("%s(nil) must default the error to io.%s (a nil close error would leave the side open)", method, defErr))
		first.report(c, "R3.close", method+"/first-close-wins", fn.Decl.Pos(), fmt.Sprintf("%s is assigned only while it is nil (first close wins)", errField))
		stores.report(c, "R3.close", method+"/stores-error", fn.Decl.Pos(), fmt.Sprintf("%s stores the (defaulted) close error in %s", method, errField))
	}
	always.report(c, "R3.close", method+"/always-sets", fn.Decl.Pos(), fmt.Sprintf("every path of %s leaves %s non-nil", method, errField))
	for _, cond := range []string{rw, ww} {
		sig[cond].report(c, "R3.close", method+"/signals-"+cond, fn.Decl.Pos(), fmt.Sprintf("%s must wake sleepers on %s on every path (a blocked side is always woken by a close)", method, cond))
		if rw == ww {
			break
		}
	}
	closes.report(c, "R3.close", method+"/closes-store", fn.Decl.Pos(), fmt.Sprintf("%s calls store.%s() on every path", method, storeClose))
	published.report(c, "R3.close", method+"/published-under-lock", fn.Decl.Pos(), fmt.Sprintf("%s records the close error and closes the store with mu held, and signals each side in the same critical section or later: a sleeper woken earlier could re-check, find the pipe open and sleep for ever", method))
}

// extraWaits: a sync.Cond.Wait that is not one of the events of readSome /
// writeSome (helpers they call are inlined there) is a sleeper the progress
// and close wake-ups do not cover.
func extraWaits(c *core.Ctx, results ...*ring.SymResult) {
	covered := map[token.Pos]bool{}
	for _, r := range results {
		for _, t := range r.Traces {
			for _, e := range t.Events {
				if _, m, _ := ring.CondOp(e); m == "Wait" && e.Call != nil {
					covered[e.Call.Pos()] = true
				}
			}
		}
	}
	info := c.Pkg(pkg).TypesInfo
	pc := ring.CallsIn(c, pkg)
	const waitRule = "R4.wait"
	anchors := map[*types.Func]bool{}
	for _, r := range results {
		anchors[r.Fn.Obj.Origin()] = true
	}
	for _, b := range ring.Bodies(c, pkg) {
		var root ast.Node = b.Decl.Body
		if b.Lit != nil {
			root = b.Lit
		}
		b := b
		core.Inspect(root, func(m ast.Node) bool {
			call, ok := m.(*ast.CallExpr)
			if !ok {
				return true
			}
			f := core.CalleeFunc(info, call)
			if f == nil || f.Name() != "Wait" || core.NamedTypePath(recvType(f)) != "sync.Cond" {
				return true
			}
			if covered[call.Pos()] {
				// the site is part of an anchored operation; it must not be reachable around it
				if encl, _ := info.Defs[b.Decl.Name].(*types.Func); encl != nil {
					if ok, entry := pc.OnlyVia(encl, anchors); !ok {
						c.Failf(waitRule, "extra-wait/"+ring.BodyName(entry), call.Pos(), "%s reaches a sync.Cond.Wait without going through the anchored wait operation: a sleeper the wake-ups are not designed for", ring.BodyName(entry))
					}
				}
				return true
			}
			fo, _ := info.Defs[b.Decl.Name].(*types.Func)
			if fo != nil && !pc.Referenced(fo) {
				return true // dead code
			}
			c.Failf("R4.wait", "extra-wait/"+b.Name, call.Pos(), "sync.Cond.Wait outside readSome/writeSome: a sleeper that the progress/close wake-ups do not cover")
			return true
		})
	}
}

func recvType(f *types.Func) types.Type {
	sig, _ := f.Type().(*types.Signature)
	if sig == nil || sig.Recv() == nil {
		return nil
	}
	return sig.Recv().Type()
}

// siblings checks the position skeleton of every implementation of `buffer`.
func siblings(c *core.Ctx) {
	impls := ring.ImplementersOf(c, pkg, "buffer")
	if len(impls) < 2 {
		c.Undecidedf("R6.sibling", "implementations", token.NoPos, "expected the memory and file implementations of buffer, found %d", len(impls))
		return
	}
	for _, t := range impls {
		tn := t.Obj().Name()
		backing := ring.BackingField(t)
		for _, m := range []string{"readSome", "writeSome", "buffered", "available", "rclose"} {
			fn := c.Func(pkg, tn, m)
			if fn == nil {
				continue
			}
			m := m
			chk := func(what string, ok bool, msg string) {
				c.Check("R6.sibling", tn+"."+m+"/"+what, fn.Decl.Pos(), ok, msg)
			}
			tri := func(what string, v int, why, msg string) {
				switch v {
				case 1:
					chk(what, true, msg)
				case 0:
					chk(what, false, msg+"; "+why)
				default:
					c.Undecidedf("R6.sibling", tn+"."+m+"/"+what, fn.Decl.Pos(), "%s: %s", msg, why)
				}
			}
			switch m {
			case "readSome", "writeSome":
				xs := ring.XferSpec{Args: []string{"len:0", "field:size", "field:rpos", "field:wpos"}}
				var advKey, advMsg, argsKey, argsMsg, winMsg string
				if m == "readSome" {
					xs.OffsetFn, xs.Read = "roffset", true
					argsKey, argsMsg, advKey = "roffset-args", "calls roffset(len(b), p.size, p.rpos, p.wpos) with the arguments in parameter order", "advance-rpos"
					winMsg = "the bytes are taken from exactly [offset, offset+maxlen) of the backing store into the caller's buffer"
					advMsg = "rpos advances by exactly the number of bytes transferred"
				} else {
					xs.OffsetFn, xs.Read = "woffset", false
					argsKey, argsMsg, advKey = "woffset-args", "calls woffset(len(b), p.size, p.rpos, p.wpos) with the arguments in parameter order", "advance-wpos"
					winMsg = "the bytes are put into exactly [offset, offset+maxlen) of the backing store from the front of the caller's buffer"
					advMsg = "wpos advances by exactly the number of bytes transferred"
				}
				// one walk with the offset helper opaque (maxlen / offset are one value per path)
				sres := ring.RunSym(c, fn, &ring.Sym{Opaque: ring.OpaqueOffsets})
				av0, awhy0, wv, wwhy := ring.TransferOnTraces(sres, xs, backing)
				tri(argsKey, av0, awhy0, argsMsg)
				tri("transfer-window", wv, wwhy, winMsg)
				sp := struct{ AdvKey, AdvMsg, OffsetFn string }{advKey, advMsg, xs.OffsetFn}
				// the positions at the end of every path (values, not statements)
				if m == "readSome" {
					av, awhy, rv, rwhy := ring.ReadEndState(sres, "rpos", "wpos")
					tri(sp.AdvKey, av, awhy, sp.AdvMsg)
					tri("reset-when-empty", rv, rwhy, "when rpos meets wpos both positions are reset to 0 together (and only then)")
				} else {
					av, awhy := ring.WriteEndState(sres, "wpos")
					tri(sp.AdvKey, av, awhy, sp.AdvMsg)
					nv, nwhy := ring.NeverStores(sres, "rpos")
					tri("no-rpos-write", nv, nwhy, "the write side never moves rpos")
				}
				zk, zmsg := "empty-returns-zero", "an empty ring yields (0, nil) so that the caller waits"
				if m == "writeSome" {
					zk, zmsg = "full-returns-zero", "a full ring yields (0, nil) so that the caller waits"
				}
				zv, zwhy := ring.ZeroWindow(sres, sp.OffsetFn)
				tri(zk, zv, zwhy, zmsg)
				v, why := ring.ClosedGuard(sres, backing, "io", "ErrClosedPipe")
				tri("closed-store", v, why, "a nil backing store yields io.ErrClosedPipe before anything is touched")
			case "buffered":
				sres := ring.RunSym(c, fn, &ring.Sym{})
				v, why := ring.ReturnsFormula(sres, backing, map[string]int64{"wpos": 1, "rpos": -1})
				tri("formula", v, why, "buffered() = wpos - rpos")
			case "available":
				sres := ring.RunSym(c, fn, &ring.Sym{})
				v, why := ring.ReturnsFormula(sres, backing, map[string]int64{"size": 1, "rpos": 1, "wpos": -1})
				tri("formula", v, why, "available() = size + rpos - wpos")
			case "rclose":
				sres := ring.RunSym(c, fn, &ring.Sym{})
				v, why := ring.DropsBacking(sres, backing)
				tri("drops-store", v, why, "rclose drops the backing store so that later store operations fail with the closed-pipe error")
			}
		}
	}
}
