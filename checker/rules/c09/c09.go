// Package c09 decides the structural clauses of property C09 (pipe).
package c09

import (
	"fmt"
	"go/ast"
	"go/token"
	"go/types"

	"golang.org/x/tools/go/cfg"

	"rscheck/cfgq"
	"rscheck/core"
	"rscheck/driver"
	"rscheck/pat"
	"rscheck/rules/ring"
)

const pkg = "pkg/libs/io/pipe"

var Def = driver.PropDef{
	ID: "C09",
	Explanation: "Structural necessary conditions of the pipe's FIFO/close/wake-up behaviour, checked on every path of pkg/libs/io/pipe: " +
		"R1 lock guard table (rerr, werr, store, both conds only under pipe.mu; conds built over &mu; readSome only under rl, writeSome only under wl); " +
		"R2 wake on progress (every path on which the store made progress or failed signals the peer's condition before returning); " +
		"R3 wake on close (RClose/WClose keep the first error, default to ErrClosedPipe/EOF, signal both conditions and close the store on every path); " +
		"R4 wait shape (Wait only as the no-progress tail of readSome/writeSome, only when the peer's error is unset, followed by return (0,nil); callers loop); " +
		"R5 close ordering (reader-closed test first; the writer's error is returned only after the store was found empty; writes test werr then rerr before touching the store); " +
		"R6 mem/file sibling skeleton (roffset/woffset arguments in parameter order, position updates, reset when positions meet, buffered/available formulas, nil backing store); " +
		"R7 ring index clamp form (offset = own position % size; maxlen only lowered, to exactly the ring bounds).",
	NotDecided: "byte-for-byte FIFO equality, arithmetic correctness of the ring bounds for every position beyond the clamp-term comparison, absence of deadlock for every interleaving (R2-R4 are its standard necessary conditions, not a proof).",
	Trusted:    []string{"go/parser, go/types, go/cfg (x/tools v0.29.0)", "sync.Mutex / sync.Cond semantics", "copy, os.File.ReadAt/WriteAt semantics"},
	Run:        Run,
}

var theCtx *core.Ctx

func Run(c *core.Ctx) {
	theCtx = c
	pk := c.Pkg(pkg)
	if pk == nil {
		c.Undecidedf("anchor", pkg, token.NoPos, "package not loaded")
		return
	}
	info := pk.TypesInfo

	// ---- R1 guard table
	n := ring.GuardTable(c, "R1.guard", pkg, "pipe", "mu", []string{"rerr", "werr", "store", "rwait", "wwait"})
	if n < 30 {
		c.Undecidedf("instances", "R1.guard", token.NoPos, "only %d guarded accesses found, 30+ confirmed by hand", n)
	}
	ring.CondOver(c, "R1.cond", pkg, "pipe", "rwait", "mu")
	ring.CondOver(c, "R1.cond", pkg, "pipe", "wwait", "mu")
	sideLock(c, "Read", "readSome", "rl")
	sideLock(c, "Write", "writeSome", "wl")

	readSome := c.Func(pkg, "pipe", "readSome")
	writeSome := c.Func(pkg, "pipe", "writeSome")
	if readSome == nil || writeSome == nil {
		return
	}
	// which condition does each side wait on?
	rw := waitCond(c, readSome)
	ww := waitCond(c, writeSome)
	if rw == "" || ww == "" {
		return
	}
	c.Check("R4.wait", "distinct-conds", readSome.Decl.Pos(), rw != ww,
		fmt.Sprintf("reader waits on %q, writer waits on %q: the two sides must sleep on different conditions", rw, ww))

	// ---- R2 wake on progress / R4 wait shape / R5 ordering
	side(c, readSome, "readSome", rw, ww, "werr")
	side(c, writeSome, "writeSome", ww, rw, "rerr")

	// R5 reader: rerr test dominates everything; werr is returned only after the store was seen empty
	r5read(c, readSome)
	r5write(c, writeSome)

	// ---- R3 close
	closeRule(c, "RClose", "rerr", "rclose", "ErrClosedPipe", rw, ww)
	closeRule(c, "WClose", "werr", "wclose", "EOF", rw, ww)

	// Wait sites anywhere else in the package
	for _, b := range ring.Bodies(c, pkg) {
		if b.Lit == nil && (b.Decl == readSome.Decl || b.Decl == writeSome.Decl) {
			continue
		}
		var root ast.Node = b.Decl.Body
		if b.Lit != nil {
			root = b.Lit
		} else {
			// literals are visited on their own
		}
		core.Inspect(root, func(m ast.Node) bool {
			if call, ok := m.(*ast.CallExpr); ok {
				if f := core.CalleeFunc(info, call); f != nil && f.Name() == "Wait" && core.NamedTypePath(recvType(f)) == "sync.Cond" {
					c.Failf("R4.wait", "extra-wait/"+b.Name, call.Pos(), "sync.Cond.Wait outside readSome/writeSome: a sleeper that the progress/close wake-ups do not cover")
				}
			}
			return true
		})
	}

	// ---- R6 siblings, R7 ring index
	siblings(c)
	ring.ClampFlow(c, "R7.ring", c.Func(pkg, "", "roffset"), ring.ClampSpec{
		Params: []string{"blen", "size", "rpos", "wpos"}, Offset: "rpos",
		Clamps: []string{"_wpos - _rpos", "_size - _offset"},
	})
	ring.ClampFlow(c, "R7.ring", c.Func(pkg, "", "woffset"), ring.ClampSpec{
		Params: []string{"blen", "size", "rpos", "wpos"}, Offset: "wpos",
		Clamps: []string{"_size + _rpos - _wpos", "_size - _offset"},
	})
}

func recvType(f *types.Func) types.Type {
	sig, _ := f.Type().(*types.Signature)
	if sig == nil || sig.Recv() == nil {
		return nil
	}
	return sig.Recv().Type()
}

// condCall: node executes <base>.<cond>.<method>() on a sync.Cond field of pipe; returns the field name.
func condCalls(info *types.Info, n ast.Node, methods ...string) []string {
	return ring.CondOps(theCtx, info, n, methods...)
}

func has(list []string, s string) bool {
	for _, x := range list {
		if x == s {
			return true
		}
	}
	return false
}

func waitCond(c *core.Ctx, fn *core.Fn) string {
	info := fn.Pkg.TypesInfo
	g := cfgq.Of(c.Program, fn)
	var conds []string
	for _, p := range g.Points(func(n ast.Node) bool { return len(condCalls(info, n, "Wait")) > 0 }) {
		conds = append(conds, condCalls(info, p.Node(), "Wait")...)
	}
	if len(conds) != 1 {
		c.Check("R4.wait", fn.Decl.Name.Name+"/one-wait", fn.Decl.Pos(), false,
			fmt.Sprintf("%s must contain exactly one Wait (its no-progress tail); found %d: a side that never sleeps spins, one that sleeps twice can miss the wake-up", fn.Decl.Name.Name, len(conds)))
		return ""
	}
	c.Okf("R4.wait", fn.Decl.Name.Name+"/one-wait", fn.Decl.Pos(), "exactly one Wait, on %s", conds[0])
	return conds[0]
}

// storeCall finds the assignment `n, err := <p>.store.<method>(b)` in fn.
func storeCall(c *core.Ctx, fn *core.Fn, method string) (*ast.AssignStmt, pat.Binds) {
	info := fn.Pkg.TypesInfo
	p := pat.Stmt("_n, _err = _p.store." + method + "(_b)")
	n, b := p.Find(info, fn.Decl.Body, nil)
	if n == nil {
		return nil, nil
	}
	return n.(*ast.AssignStmt), b
}

// progressFact matches the atoms `n != 0` / `err != nil` with value false
// (i.e. no progress and no error), given bindings for n and err.
func noProgressEdge(g *cfgq.Graph, info *types.Info, b *cfg.Block, succ int, binds pat.Binds) bool {
	gotN, gotErr := false, false
	for _, f := range g.EdgeFacts(b, succ) {
		if pat.Expr("_n != 0").Match(info, f.Expr, binds) != nil && !f.Val || pat.Expr("_n == 0").Match(info, f.Expr, binds) != nil && f.Val {
			gotN = true
		}
		if pat.Expr("_err != nil").Match(info, f.Expr, binds) != nil && !f.Val || pat.Expr("_err == nil").Match(info, f.Expr, binds) != nil && f.Val {
			gotErr = true
		}
	}
	return gotN && gotErr
}

// side checks R2 and R4 for readSome / writeSome.
// own: the condition this side waits on; peer: the condition the other side
// waits on; peerErr: the other side's error field.
func side(c *core.Ctx, fn *core.Fn, name, own, peer, peerErr string) {
	info := fn.Pkg.TypesInfo
	g := cfgq.Of(c.Program, fn)
	as, binds := storeCall(c, fn, name)
	if as == nil {
		c.Undecidedf("R2.wake", name+"/store-call", fn.Decl.Pos(), "cannot find `n, err := p.store.%s(b)` in %s", name, name)
		return
	}
	sp, ok := g.Find(as)
	if !ok {
		c.Undecidedf("R2.wake", name+"/store-call", as.Pos(), "store call not in the control-flow graph")
		return
	}
	// R2: from the store call, a normal exit reached without passing through
	// the no-progress edge must have signalled the peer.
	signalPeer := func(n ast.Node) bool { return has(condCalls(info, n, "Signal", "Broadcast"), peer) }
	w := g.Path(cfgq.Query{From: sp, After: true, Avoid: signalPeer, TargetExit: cfgq.NormalExit,
		AvoidEdge: func(b *cfg.Block, s int) bool { return noProgressEdge(g, info, b, s, binds) }})
	c.Check("R2.wake", name+"/signal-on-progress", as.Pos(), w == nil,
		fmt.Sprintf("every path on which the store made progress or failed (n != 0 || err != nil) must call %s.Signal() before returning, or the blocked peer is never woken", peer), w...)

	// R4: the Wait is reachable only through the no-progress edge and with the peer's error unset
	waits := g.Points(func(n ast.Node) bool { return has(condCalls(info, n, "Wait"), own) })
	for _, wp := range waits {
		wn := wp.Node()
		w1 := g.Path(cfgq.Query{From: g.Entry(), Target: func(n ast.Node) bool { return n == wn },
			AvoidEdge: func(b *cfg.Block, s int) bool { return noProgressEdge(g, info, b, s, binds) }})
		c.Check("R4.wait", name+"/only-without-progress", wn.Pos(), w1 == nil,
			"Wait must be reachable only when the store call made no progress and returned no error (otherwise bytes are held back / the side sleeps with work to do)", w1...)
		dom, w2 := g.Dominated(wp, func(n ast.Node) bool { return n == ast.Node(as) })
		c.Check("R4.wait", name+"/after-store-attempt", wn.Pos(), dom, "the store operation must be attempted before sleeping", w2...)
		okPeer, w3 := g.OnlyViaFact(wp, func(f cfgq.Fact) bool {
			return pat.Expr("_p."+peerErr+" != nil").Match(info, f.Expr, nil) != nil && !f.Val ||
				pat.Expr("_p."+peerErr+" == nil").Match(info, f.Expr, nil) != nil && f.Val
		})
		c.Check("R4.wait", name+"/peer-open", wn.Pos(), okPeer,
			fmt.Sprintf("Wait must be reachable only when %s is nil: sleeping after the other side closed can never be woken", peerErr), w3...)
		okRet := ring.AfterWaitReturnsZero(info, wp, binds)
		c.Check("R4.wait", name+"/return-after-wait", wn.Pos(), okRet, "after Wait the function must return (0, nil) so that the caller's loop re-examines the state under the lock")
	}
	// callers retry after a wake-up
	callers := 0
	for _, b := range ring.Bodies(c, pkg) {
		if b.Lit == nil && b.Decl == fn.Decl {
			continue
		}
		cg := b.G
		var bufObj types.Object
		params := b.Decl.Type.Params
		if b.Lit != nil {
			params = b.Lit.Type.Params
		}
		if params != nil && len(params.List) > 0 && len(params.List[0].Names) > 0 {
			bufObj = info.Defs[params.List[0].Names[0]]
		}
		n, w := ring.RetriesOnWake(cg, fn.Obj, bufObj)
		if n == 0 {
			continue
		}
		callers += n
		c.Check("R4.wait", name+"/caller-loops/"+b.Name, b.Decl.Pos(), w == nil,
			fmt.Sprintf("%s returns (0,nil) after a wake-up; its caller must call it again (unless the buffer is empty) instead of returning no progress to its own caller", name), w...)
	}
	if callers == 0 {
		c.Undecidedf("R4.wait", name+"/caller-loops", fn.Decl.Pos(), "no caller of %s found", name)
	}
}

func sideLock(c *core.Ctx, outer, inner, lock string) {
	fn := c.Func(pkg, "pipe", outer)
	in := c.Func(pkg, "pipe", inner)
	if fn == nil || in == nil {
		return
	}
	info := fn.Pkg.TypesInfo
	g := cfgq.Of(c.Program, fn)
	isCall := func(method string, deferred bool) func(ast.Node) bool {
		return func(n ast.Node) bool {
			var calls []*ast.CallExpr
			if d, ok := n.(*ast.DeferStmt); ok {
				if !deferred {
					return false
				}
				calls = []*ast.CallExpr{d.Call}
			} else if deferred {
				return false
			} else {
				calls = cfgq.ExecCalls(n)
			}
			for _, call := range calls {
				if sel, ok := ast.Unparen(call.Fun).(*ast.SelectorExpr); ok && sel.Sel.Name == method && core.IsFieldNamed(info, sel.X, "pipe", lock) {
					return true
				}
			}
			return false
		}
	}
	held := g.Held(isCall("Lock", false), isCall("Unlock", false))
	n := 0
	for _, p := range g.Points(g.HasCall(func(call *ast.CallExpr, callee types.Object) bool { return callee == in.Obj })) {
		n++
		c.Check("R1.side", outer+"/"+lock, p.Node().Pos(), held[p.Node()],
			fmt.Sprintf("%s must call %s with %s held for the whole transfer (one %s at a time inside the ring)", outer, inner, lock, outer))
	}
	if n == 0 {
		c.Undecidedf("R1.side", outer+"/"+lock, fn.Decl.Pos(), "%s does not call %s", outer, inner)
	}
	// all callers of inner are outer
	for _, b := range ring.Bodies(c, pkg) {
		if b.Decl == fn.Decl {
			continue
		}
		var root ast.Node = b.Decl.Body
		if b.Lit != nil {
			root = b.Lit
		}
		core.Inspect(root, func(m ast.Node) bool {
			if call, ok := m.(*ast.CallExpr); ok && core.CalleeFunc(info, call) == in.Obj {
				c.Failf("R1.side", inner+"/foreign-caller/"+b.Name, call.Pos(), "%s is called outside %s, i.e. without %s", inner, outer, lock)
			}
			return true
		})
	}
}

func r5read(c *core.Ctx, fn *core.Fn) {
	info := fn.Pkg.TypesInfo
	g := cfgq.Of(c.Program, fn)
	// (a) every store access and every werr read is reachable only with rerr == nil established
	rerrNil := func(f cfgq.Fact) bool {
		return pat.Expr("_p.rerr != nil").Match(info, f.Expr, nil) != nil && !f.Val || pat.Expr("_p.rerr == nil").Match(info, f.Expr, nil) != nil && f.Val
	}
	k := 0
	for _, p := range g.Points(func(n ast.Node) bool {
		return core.MentionsField(info, n, "pipe", "store") || core.MentionsField(info, n, "pipe", "werr")
	}) {
		k++
		ok, w := g.OnlyViaFact(p, rerrNil)
		c.Check("R5.order", fmt.Sprintf("readSome/reader-closed-first#%d", k), p.Node().Pos(), ok,
			"after the reader closed, readSome must fail with the closed-pipe error before looking at the store or the writer's error", w...)
	}
	if k == 0 {
		c.Undecidedf("R5.order", "readSome/reader-closed-first", fn.Decl.Pos(), "no store/werr access found")
	}
	// (b) returning werr only after the store was found empty: dominated by the
	// store read with no progress, or by `buffered() != 0` being false
	as, binds := storeCall(c, fn, "readSome")
	emptyEdge := func(b *cfg.Block, s int) bool {
		if as != nil && noProgressEdge(g, info, b, s, binds) {
			return true
		}
		return g.Establishes(b, s, func(f cfgq.Fact) bool {
			return pat.Expr("_p.store.buffered() != 0").Match(info, f.Expr, nil) != nil && !f.Val ||
				pat.Expr("_p.store.buffered() == 0").Match(info, f.Expr, nil) != nil && f.Val
		})
	}
	k = 0
	for _, p := range g.Points(func(n ast.Node) bool {
		r, ok := n.(*ast.ReturnStmt)
		return ok && core.MentionsField(info, r, "pipe", "werr")
	}) {
		k++
		tn := p.Node()
		w := g.Path(cfgq.Query{From: g.Entry(), Target: func(n ast.Node) bool { return n == tn }, AvoidEdge: emptyEdge})
		c.Check("R5.order", fmt.Sprintf("readSome/drain-before-werr#%d", k), tn.Pos(), w == nil,
			"the writer's error (EOF) may be returned only after the store was found empty: buffered bytes are drained first", w...)
	}
	if k == 0 {
		c.Failf("R5.order", "readSome/returns-werr", fn.Decl.Pos(), "readSome never returns the writer's error: a reader of a closed, drained pipe would block forever")
	}
}

func r5write(c *core.Ctx, fn *core.Fn) {
	info := fn.Pkg.TypesInfo
	g := cfgq.Of(c.Program, fn)
	as, _ := storeCall(c, fn, "writeSome")
	if as == nil {
		return
	}
	sp, _ := g.Find(as)
	for _, fld := range []string{"werr", "rerr"} {
		fld := fld
		ok, w := g.OnlyViaFact(sp, func(f cfgq.Fact) bool {
			return pat.Expr("_p."+fld+" != nil").Match(info, f.Expr, nil) != nil && !f.Val || pat.Expr("_p."+fld+" == nil").Match(info, f.Expr, nil) != nil && f.Val
		})
		c.Check("R5.order", "writeSome/test-"+fld+"-before-store", as.Pos(), ok,
			fmt.Sprintf("the store write must be reachable only after %s was tested and found nil (a write after a close must fail, not buffer)", fld), w...)
	}
	// the werr test comes first: the rerr test is itself reachable only with werr == nil
	for _, p := range g.Points(func(n ast.Node) bool {
		e, ok := n.(ast.Expr)
		return ok && core.MentionsField(info, e, "pipe", "rerr")
	}) {
		ok, w := g.OnlyViaFact(p, func(f cfgq.Fact) bool {
			return pat.Expr("_p.werr != nil").Match(info, f.Expr, nil) != nil && !f.Val || pat.Expr("_p.werr == nil").Match(info, f.Expr, nil) != nil && f.Val
		})
		c.Check("R5.order", "writeSome/werr-before-rerr", p.Node().Pos(), ok, "a write after the writer's own close reports the closed-pipe error, whatever the reader did", w...)
	}
	// error returned for closed writer is ErrClosedPipe, for closed reader it is rerr
	n1, _ := pat.Stmt("return 0, _f(io.ErrClosedPipe)").Find(info, fn.Decl.Body, nil)
	c.Check("R5.order", "writeSome/closed-writer-error", fn.Decl.Pos(), n1 != nil, "writeSome returns io.ErrClosedPipe (wrapped) once the writer is closed")
	n2, _ := pat.Stmt("return 0, _p.rerr").Find(info, fn.Decl.Body, nil)
	c.Check("R5.order", "writeSome/closed-reader-error", fn.Decl.Pos(), n2 != nil, "writeSome returns the reader's close error once the reader is closed")
}

func closeRule(c *core.Ctx, method, errField, storeClose, defErr, rw, ww string) {
	fn := c.Func(pkg, "pipe", method)
	if fn == nil {
		return
	}
	info := fn.Pkg.TypesInfo
	g := cfgq.Of(c.Program, fn)
	// default error
	var param *ast.Ident
	if ps := fn.Decl.Type.Params.List; len(ps) == 1 && len(ps[0].Names) == 1 {
		param = ps[0].Names[0]
	}
	if param == nil {
		c.Undecidedf("R3.close", method+"/param", fn.Decl.Pos(), "%s must take one error parameter", method)
		return
	}
	b := pat.Binds{"_e": param}
	okDef := false
	ast.Inspect(fn.Decl.Body, func(n ast.Node) bool {
		ifs, ok := n.(*ast.IfStmt)
		if !ok {
			return true
		}
		if pat.Expr("_e == nil").Match(info, ifs.Cond, b) == nil {
			return true
		}
		for _, s := range ifs.Body.List {
			if pat.Stmt("_e = _f(io."+defErr+")").Match(info, s, b) != nil || pat.Stmt("_e = io."+defErr).Match(info, s, b) != nil {
				okDef = true
			}
		}
		return true
	})
	c.Check("R3.close", method+"/default-error", fn.Decl.Pos(), okDef, fmt.Sprintf("%s(nil) must default the error to io.%s", method, defErr))
	// first close wins: assignment to p.<errField> only where p.<errField> == nil is established
	k := 0
	for _, p := range g.Points(func(n ast.Node) bool {
		as, ok := n.(*ast.AssignStmt)
		if !ok {
			return false
		}
		for _, l := range as.Lhs {
			if core.IsFieldNamed(info, l, "pipe", errField) {
				return true
			}
		}
		return false
	}) {
		k++
		ok, w := g.OnlyViaFact(p, func(f cfgq.Fact) bool {
			return pat.Expr("_p."+errField+" == nil").Match(info, f.Expr, nil) != nil && f.Val || pat.Expr("_p."+errField+" != nil").Match(info, f.Expr, nil) != nil && !f.Val
		})
		c.Check("R3.close", method+"/first-close-wins", p.Node().Pos(), ok, fmt.Sprintf("%s is assigned only while it is nil (first close wins)", errField), w...)
		as := p.Node().(*ast.AssignStmt)
		c.Check("R3.close", method+"/stores-error", as.Pos(), len(as.Rhs) == 1 && pat.Same(info, as.Rhs[0], param), fmt.Sprintf("%s stores the (defaulted) close error in %s", method, errField))
	}
	if k == 0 {
		c.Failf("R3.close", method+"/sets-"+errField, fn.Decl.Pos(), "%s never sets %s: the other side is not told about the close", method, errField)
	}
	// and it is set on every path where it was nil: every normal exit passes either the assignment or the edge "already set"
	setOrAlready := func(n ast.Node) bool {
		as, ok := n.(*ast.AssignStmt)
		if !ok {
			return false
		}
		for _, l := range as.Lhs {
			if core.IsFieldNamed(info, l, "pipe", errField) {
				return true
			}
		}
		return false
	}
	w := g.Path(cfgq.Query{From: g.Entry(), Avoid: setOrAlready, TargetExit: cfgq.NormalExit,
		AvoidEdge: func(bk *cfg.Block, s int) bool {
			return g.Establishes(bk, s, func(f cfgq.Fact) bool {
				return pat.Expr("_p."+errField+" == nil").Match(info, f.Expr, nil) != nil && !f.Val || pat.Expr("_p."+errField+" != nil").Match(info, f.Expr, nil) != nil && f.Val
			})
		}})
	c.Check("R3.close", method+"/always-sets", fn.Decl.Pos(), w == nil, fmt.Sprintf("every path of %s leaves %s non-nil", method, errField), w...)
	// both conditions signalled on every path, store closed
	for _, cond := range []string{rw, ww} {
		cond := cond
		ok, w := g.MustPassToExit(g.Entry(), false, func(n ast.Node) bool { return has(condCalls(info, n, "Signal", "Broadcast"), cond) })
		c.Check("R3.close", method+"/signals-"+cond, fn.Decl.Pos(), ok, fmt.Sprintf("%s must wake sleepers on %s on every path (a blocked side is always woken by a close)", method, cond), w...)
	}
	ok, w2 := g.MustPassToExit(g.Entry(), false, g.HasCall(func(call *ast.CallExpr, callee types.Object) bool {
		return pat.Expr("_p.store."+storeClose+"()").Match(info, call, nil) != nil
	}))
	c.Check("R3.close", method+"/closes-store", fn.Decl.Pos(), ok, fmt.Sprintf("%s calls store.%s() on every path", method, storeClose), w2...)
}

// siblings checks the position skeleton of every implementation of `buffer`.
func siblings(c *core.Ctx) {
	impls := ring.ImplementersOf(c, pkg, "buffer")
	if len(impls) < 2 {
		c.Undecidedf("R6.sibling", "implementations", token.NoPos, "expected the memory and file implementations of buffer, found %d", len(impls))
		return
	}
	for _, t := range impls {
		tn := t.Obj().Name()
		for _, m := range []string{"readSome", "writeSome", "buffered", "available", "rclose"} {
			fn := c.Func(pkg, tn, m)
			if fn == nil {
				continue
			}
			info := fn.Pkg.TypesInfo
			body := fn.Decl.Body
			chk := func(what string, ok bool, msg string) {
				c.Check("R6.sibling", tn+"."+m+"/"+what, fn.Decl.Pos(), ok, msg)
			}
			find := func(p *pat.Pattern, b pat.Binds) (ast.Node, pat.Binds) { return p.Find(info, body, b) }
			switch m {
			case "readSome", "writeSome":
				sp := ring.TransferSpec{Rule: "R6.sibling", Key: tn + "." + m, Args: []string{"len(_b)", "_p.size", "_p.rpos", "_p.wpos"}}
				if m == "readSome" {
					sp.OffsetFn, sp.ArgsDesc, sp.Read, sp.Advance = "roffset", "roffset(len(b), p.size, p.rpos, p.wpos)", true, "rpos"
					sp.ArgsKey, sp.WindowKey, sp.AdvKey = "roffset-args", "transfer-window", "advance-rpos"
					sp.WindowMsg = "the bytes are taken from exactly [offset, offset+maxlen) of the backing store into the caller's buffer"
					sp.AdvMsg = "rpos advances by exactly the number of bytes transferred"
				} else {
					sp.OffsetFn, sp.ArgsDesc, sp.Read, sp.Advance = "woffset", "woffset(len(b), p.size, p.rpos, p.wpos)", false, "wpos"
					sp.ArgsKey, sp.WindowKey, sp.AdvKey = "woffset-args", "transfer-window", "advance-wpos"
					sp.WindowMsg = "the bytes are put into exactly [offset, offset+maxlen) of the backing store from the front of the caller's buffer"
					sp.AdvMsg = "wpos advances by exactly the number of bytes transferred"
				}
				res := ring.Transfer(c, fn, sp)
				if res == nil || res.Transfer == nil {
					continue
				}
				if m == "readSome" {
					switch resetWhenEmpty(c, fn) {
					case 1:
						chk("reset-when-empty", true, "when rpos meets wpos both positions are reset to 0 together")
					case 0:
						chk("reset-when-empty", false, "when rpos meets wpos both positions are reset to 0 together (and only then)")
					default:
						c.Undecidedf("R6.sibling", tn+"."+m+"/reset-when-empty", fn.Decl.Pos(), "cannot see where the positions are reset")
					}
				} else {
					st := ring.FrozenField(c, fn, "rpos")
					chk("no-rpos-write", len(st) == 0, "the write side never moves rpos")
				}
				zk, zmsg := "empty-returns-zero", "an empty ring yields (0, nil) so that the caller waits"
				if m == "writeSome" {
					zk, zmsg = "full-returns-zero", "a full ring yields (0, nil) so that the caller waits"
				}
				switch v, why := ring.ZeroGuard(c, res); v {
				case 1:
					chk(zk, true, zmsg)
				case 0:
					chk(zk, false, zmsg+"; "+why)
				default:
					c.Undecidedf("R6.sibling", tn+"."+m+"/"+zk, fn.Decl.Pos(), "%s: %s", zmsg, why)
				}
				chk("closed-store", closedGuard(info, body), "a nil backing store yields io.ErrClosedPipe")
			case "buffered":
				n, _ := find(pat.Stmt("return int(_p.wpos - _p.rpos)"), nil)
				chk("formula", n != nil, "buffered() = wpos - rpos")
			case "available":
				n, _ := find(pat.Stmt("return int(_p.size + _p.rpos - _p.wpos)"), nil)
				n2, _ := find(pat.Stmt("return int(_p.size - (_p.wpos - _p.rpos))"), nil)
				chk("formula", n != nil || n2 != nil, "available() = size + rpos - wpos")
			case "rclose":
				n, _ := find(pat.Stmt("_p._store = nil"), nil)
				chk("drops-store", n != nil, "rclose drops the backing store so that later store operations fail with the closed-pipe error")
			}
		}
	}
}

// resetWhenEmpty: 1 = both positions are set to 0 exactly where rpos == wpos is
// established (in fn or in a method it calls on the same receiver), 0 = they are
// reset under another condition or only one of them is, -1 = not found.
func resetWhenEmpty(c *core.Ctx, fn *core.Fn) int {
	info := fn.Pkg.TypesInfo
	cands := []*core.Fn{fn}
	core.Inspect(fn.Decl.Body, func(n ast.Node) bool {
		if call, ok := n.(*ast.CallExpr); ok {
			if f := core.CalleeFunc(info, call); f != nil && f.Pkg() != nil && f.Pkg().Path() == fn.Pkg.PkgPath {
				if h := c.FnOf(f); h != nil && h.Decl.Recv != nil && h.Decl.Body != nil {
					cands = append(cands, h)
				}
			}
		}
		return true
	})
	zeroes := func(n ast.Node, field string) bool {
		as, ok := n.(*ast.AssignStmt)
		if !ok || len(as.Lhs) != len(as.Rhs) {
			return false
		}
		for i, l := range as.Lhs {
			if sel, ok := ast.Unparen(l).(*ast.SelectorExpr); ok && sel.Sel.Name == field {
				if v, ok := core.IntConst(info, as.Rhs[i]); ok && v == 0 {
					return true
				}
			}
		}
		return false
	}
	for _, cand := range cands {
		g := cfgq.Of(c.Program, cand)
		rp := g.Points(func(n ast.Node) bool { return zeroes(n, "rpos") })
		wp := g.Points(func(n ast.Node) bool { return zeroes(n, "wpos") })
		if len(rp) == 0 && len(wp) == 0 {
			continue
		}
		if len(rp) == 0 || len(wp) == 0 {
			return 0
		}
		for _, p := range append(rp, wp...) {
			ok, _ := g.OnlyViaFact(p, func(f cfgq.Fact) bool {
				return pat.Expr("_p.rpos == _p.wpos").Match(info, f.Expr, nil) != nil && f.Val || pat.Expr("_p.rpos != _p.wpos").Match(info, f.Expr, nil) != nil && !f.Val
			})
			if !ok {
				return 0
			}
		}
		return 1
	}
	return -1
}

func findIf(info *types.Info, root ast.Node, cond *pat.Pattern, b pat.Binds) (*ast.IfStmt, bool) {
	var hit *ast.IfStmt
	core.Inspect(root, func(n ast.Node) bool {
		if ifs, ok := n.(*ast.IfStmt); ok && hit == nil && cond.Match(info, ifs.Cond, b) != nil {
			hit = ifs
		}
		return hit == nil
	})
	return hit, hit != nil
}

// closedGuard: first statement is `if p.<store> == nil { return 0, <f>(io.ErrClosedPipe) }`.
func closedGuard(info *types.Info, body *ast.BlockStmt) bool {
	if len(body.List) == 0 {
		return false
	}
	ifs, ok := body.List[0].(*ast.IfStmt)
	if !ok || pat.Expr("_p._s == nil").Match(info, ifs.Cond, nil) == nil {
		return false
	}
	r, _ := pat.Stmt("return 0, _f(io.ErrClosedPipe)").Find(info, ifs.Body, nil)
	return r != nil
}
