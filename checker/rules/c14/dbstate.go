package c14

import (
	"fmt"
	"go/ast"
	"go/token"
	"go/types"

	"rscheck/cfgq"
	"rscheck/core"
	"rscheck/rules/c06/tt"
)

// ---------------------------------------------------------------------------
// R7.selected-db: the selected database of the one target connection
//
// LoadCheckpoint visits every database of the keyspace on ONE connection, so which database a
// keyed command reads is decided by the last SELECT sent on that connection - state that lives
// in the connection and is carried from one call of fetchCheckpoint to the next. fetchCheckpoint
// itself keeps no record of it. Necessary condition: every keyed command fetchCheckpoint sends is
// preceded, on every path from the entry of the function, by a SELECT of the function's own
// database parameter on the same connection (or the caller sends that SELECT in the same
// iteration, before the call).

// hasDoMethod: values of type t have a method Do (a redigo connection).
func hasDoMethod(t types.Type) bool {
	if t == nil {
		return false
	}
	return types.NewMethodSet(t).Lookup(nil, "Do") != nil
}

func isInteger(t types.Type) bool {
	b, ok := t.Underlying().(*types.Basic)
	return ok && b.Info()&types.IsInteger != 0
}

// declParams lists the parameter objects of fn in order (nil for unnamed ones).
func declParams(info *types.Info, fn *core.Fn) []types.Object {
	var out []types.Object
	for _, fl := range fn.Decl.Type.Params.List {
		for _, n := range fl.Names {
			out = append(out, info.Defs[n])
		}
		if len(fl.Names) == 0 {
			out = append(out, nil)
		}
	}
	return out
}

// doReceiver: the expression a `<x>.Do(...)` call is made on.
func doReceiver(call *ast.CallExpr) ast.Expr {
	if sel, ok := ast.Unparen(call.Fun).(*ast.SelectorExpr); ok {
		return sel.X
	}
	return nil
}

// onlyOver: every variable the condition reads is the variable o (seen through conversions and
// single-assignment copies); no call other than a conversion, no field, no package variable.
func onlyOver(info *types.Info, root ast.Node, cond ast.Expr, o types.Object) bool {
	ok, mentions := true, false
	ast.Inspect(cond, func(n ast.Node) bool {
		if !ok {
			return false
		}
		switch v := n.(type) {
		case *ast.CallExpr:
			if tv, isT := info.Types[v.Fun]; !isT || !tv.IsType() {
				ok = false
			}
		case *ast.SelectorExpr:
			if tv, known := info.Types[v]; !known || tv.Value == nil {
				ok = false // anything but a qualified constant
			}
			return false
		case *ast.Ident:
			switch core.ObjOf(info, v).(type) {
			case *types.Var:
				if denotes(info, root, v, o) {
					mentions = true
				} else {
					ok = false
				}
			case *types.Func:
				ok = false
			}
		case *ast.FuncLit, *ast.IndexExpr, *ast.StarExpr, *ast.TypeAssertExpr:
			ok = false
		}
		return ok
	})
	return ok && mentions
}

func (st *state) selected(fetch, load *core.Fn) {
	const rule = "R7.selected-db"
	c := st.c
	info := fetch.Pkg.TypesInfo
	view := tt.ViewOf(c.Program, fetch, "c14", st.opaque)
	body, g := view.Body, view.G
	x := view.X(c.Program)

	// the connection and the database handed in
	var conn, db types.Object
	connIdx, dbIdx, nConn, nDb := -1, -1, 0, 0
	for i, p := range declParams(info, fetch) {
		if p == nil {
			continue
		}
		switch {
		case hasDoMethod(p.Type()):
			conn, connIdx = p, i
			nConn++
		case isInteger(p.Type()):
			db, dbIdx = p, i
			nDb++
		}
	}
	if nConn != 1 || nDb != 1 {
		c.Undecidedf(rule, "fetchCheckpoint/parameters", fetch.Decl.Pos(), "expected one connection and one database number among the parameters of fetchCheckpoint, found %d and %d", nConn, nDb)
		return
	}
	onConn := func(call *ast.CallExpr) bool {
		r := doReceiver(call)
		return r != nil && denotes(info, body, r, conn)
	}
	anySelect := func(call *ast.CallExpr) bool { return isDo(info, call, "select") && onConn(call) }
	isSelect := func(call *ast.CallExpr) bool {
		return anySelect(call) && len(call.Args) == 2 && denotes(info, body, call.Args[1], db)
	}
	selNode := g.HasCall(func(call *ast.CallExpr, _ types.Object) bool { return isSelect(call) })
	reads := g.Points(g.HasCall(func(call *ast.CallExpr, _ types.Object) bool {
		return isDo(info, call, "") && !isDo(info, call, "select") && onConn(call)
	}))
	selects := g.Points(selNode)
	otherSelects := g.Points(g.HasCall(func(call *ast.CallExpr, _ types.Object) bool { return anySelect(call) && !isSelect(call) }))

	// the caller may select the database of the iteration itself, before the call
	callerSelects, callerKnown := false, false
	if len(selects) == 0 && len(otherSelects) == 0 && load != nil {
		callerSelects, callerKnown = st.callerSelects(fetch, load, connIdx, dbIdx)
	}

	for _, p := range reads {
		var call *ast.CallExpr
		for _, cl := range cfgq.ExecCalls(p.Node()) {
			if isDo(info, cl, "") && !isDo(info, cl, "select") && onConn(cl) {
				call = cl
			}
		}
		cmd, isConst := core.StringConst(info, call.Args[0])
		if !isConst {
			cmd = "command"
		}
		key := "fetchCheckpoint/select-before-" + cmd
		dom, w := g.Dominated(p, selNode)
		if dom {
			c.Okf(rule, key, call.Pos(), "on every path `%s` is preceded by a SELECT of the database handed to fetchCheckpoint, on the same connection", cmd)
			continue
		}
		if len(selects) == 0 {
			switch {
			case len(otherSelects) > 0:
				c.Undecidedf(rule, key, call.Pos(), "the connection is switched with `%s`, whose argument cannot be related to the database parameter `%s`", c.Src(otherSelects[0].Node()), db.Name())
			case callerSelects:
				c.Okf(rule, key, call.Pos(), "the caller selects the database of the iteration on this connection before it calls fetchCheckpoint")
			case callerKnown || !hiddenSelect(c, info, fetch):
				c.Failf(rule, key, call.Pos(), "`%s` is sent without any SELECT of database `%s` on this connection: fetchCheckpoint is called once per database of the keyspace on one connection, so every call reads whatever database the connection happens to have selected (the same one every time) and the checkpoints of the other databases are never looked at", cmd, db.Name())
			default:
				c.Undecidedf(rule, key, call.Pos(), "a SELECT is sent from a function value or a helper that is not followed; whether it precedes `%s` is not analysed", cmd)
			}
			continue
		}
		// which decisions let a path reach the command without the SELECT?
		var guards []ast.Expr
		foreign := false
		isRead := func(n ast.Node) bool { return n == p.Node() }
		for _, b := range g.CFG.Blocks {
			if !b.Live || len(b.Succs) < 2 {
				continue
			}
			skip, taken := -1, -1
			for si, s := range b.Succs {
				if g.Path(cfgq.Query{From: cfgq.Point{B: s}, Avoid: selNode, Target: isRead}) != nil {
					skip = si
				}
			}
			for si, s := range b.Succs {
				if si != skip && g.Path(cfgq.Query{From: cfgq.Point{B: s}, Target: selNode}) != nil {
					taken = si
				}
			}
			if skip < 0 || taken < 0 {
				continue
			}
			// reachable from the entry without the SELECT at all?
			if len(b.Nodes) > 0 {
				last := b.Nodes[len(b.Nodes)-1]
				if g.Path(cfgq.Query{From: g.Entry(), Avoid: selNode, Target: func(n ast.Node) bool { return n == last }}) == nil {
					continue
				}
			}
			cond := x.Cond(b)
			if cond == nil {
				foreign = true // a range head, a type switch, a select statement
				continue
			}
			guards = append(guards, cond)
			if !onlyOver(info, body, cond, db) {
				foreign = true
			}
		}
		switch {
		case len(guards) == 0 && !foreign:
			c.Check(rule, key, call.Pos(), false, fmt.Sprintf("`%s` can be reached before the SELECT of database `%s` has been sent: it reads the database the previous call of fetchCheckpoint left selected on the shared connection", cmd, db.Name()), w...)
		case !foreign:
			c.Check(rule, key, call.Pos(), false, fmt.Sprintf("whether fetchCheckpoint sends SELECT depends only on the number of the database (`%s`), not on what the connection has selected: fetchCheckpoint is called once per database of the keyspace on ONE connection, in map order, so when the SELECT is skipped `%s` reads the database selected by the previous call - that database's checkpoint is reported (and later cleared or resumed) as this database's, and this database's own checkpoint is never seen", c.Src(guards[0]), cmd), w...)
		default:
			what := "a decision that is not a plain condition"
			if len(guards) > 0 {
				what = "`" + c.Src(guards[len(guards)-1]) + "`"
			}
			c.Undecidedf(rule, key, call.Pos(), "the SELECT before `%s` is skipped under %s, which depends on state other than the database parameter; whether that state tracks what the connection has selected is not analysed", cmd, what)
		}
	}
}

// hiddenSelect: some function literal in fetchCheckpoint, or some function of its package it
// refers to, sends a `select` (a form the path analysis does not follow).
func hiddenSelect(c *core.Ctx, info *types.Info, fetch *core.Fn) bool {
	found := false
	seen := map[*core.Fn]bool{fetch: true}
	var visit func(body ast.Node, depth int)
	visit = func(body ast.Node, depth int) {
		ast.Inspect(body, func(n ast.Node) bool {
			if found {
				return false
			}
			switch v := n.(type) {
			case *ast.CallExpr:
				if isDo(info, v, "select") {
					found = true
				}
			case *ast.Ident:
				if f, ok := core.ObjOf(info, v).(*types.Func); ok && depth > 0 {
					if h := c.FnOf(f); h != nil && h.Decl.Body != nil && h.Pkg.TypesInfo == info && !seen[h] {
						seen[h] = true
						visit(h.Decl.Body, depth-1)
					}
				}
			case *ast.SelectorExpr:
				if f, ok := core.ObjOf(info, v).(*types.Func); ok && depth > 0 {
					if h := c.FnOf(f); h != nil && h.Decl.Body != nil && h.Pkg.TypesInfo == info && !seen[h] {
						seen[h] = true
						visit(h.Decl.Body, depth-1)
					}
				}
			}
			return true
		})
	}
	visit(fetch.Decl.Body, 3)
	return found
}

// callerSelects: in LoadCheckpoint the call of fetchCheckpoint is preceded, inside the same
// iteration of the scan, by a SELECT on the connection it hands down with the database it hands
// down. known=false when the call cannot be located.
func (st *state) callerSelects(fetch, load *core.Fn, connIdx, dbIdx int) (selects, known bool) {
	c := st.c
	info := load.Pkg.TypesInfo
	view := tt.ViewOf(c.Program, load, "c14", st.opaque)
	body, g := view.Body, view.G
	x := view.X(c.Program)
	calls := core.Calls(body, info, func(_ *ast.CallExpr, callee types.Object) bool { return callee == types.Object(fetch.Obj) })
	if len(calls) != 1 || connIdx >= len(calls[0].Args) || dbIdx >= len(calls[0].Args) {
		return false, false
	}
	fp, ok := tt.Find(g, calls[0])
	if !ok {
		return false, false
	}
	connObj := localObj(info, tt.Resolve(info, body, calls[0].Args[connIdx], 4))
	dbObj := localObj(info, rootExpr(info, tt.Resolve(info, body, rootExpr(info, calls[0].Args[dbIdx]), 4)))
	if connObj == nil || dbObj == nil {
		return false, false
	}
	loop := x.LoopOf(fp.Node())
	dom, _ := g.Dominated(fp, g.HasCall(func(call *ast.CallExpr, _ types.Object) bool {
		r := doReceiver(call)
		return isDo(info, call, "select") && len(call.Args) == 2 && r != nil && denotes(info, body, r, connObj) &&
			denotes(info, body, call.Args[1], dbObj) && loop != nil && x.LoopOf(call) == loop
	}))
	return dom, true
}

// ---------------------------------------------------------------------------
// R8.db-tag: the database tag of the forwarded commands
//
// parseSourceCommand puts a database tag (cmdDetail.Db) on every command it queues; the sender
// uses the tag of the last command of a batch as the key of "this database already holds the
// run id and the version of this session" and writes those two checkpoint fields only for a tag
// it has not seen. The loader refuses / degrades a checkpoint that has an offset but no version
// or run id. The tag is a claim about the database the target connection is on. Before the first
// SELECT of the stream nothing is known about it except the database the resume starts in: a
// variable that carries the tag may therefore only start as a value that is no database at all
// (negative) or as that start database - a constant >= 0 names a real database the commands may
// not run in.

func (st *state) dbTag() {
	const rule = "R8.db-tag"
	c := st.c
	fn := c.Func(pkgSync, "DbSyncer", "parseSourceCommand")
	if fn == nil {
		return
	}
	info := fn.Pkg.TypesInfo
	// the tag: field Db of cmdDetail
	var tagField *types.Var
	var tagIndex int
	var cmdType types.Type
	if tn, ok := fn.Pkg.Types.Scope().Lookup("cmdDetail").(*types.TypeName); ok {
		if s, ok := tn.Type().Underlying().(*types.Struct); ok {
			for i := 0; i < s.NumFields(); i++ {
				if s.Field(i).Name() == "Db" && isInteger(s.Field(i).Type()) {
					tagField, tagIndex, cmdType = s.Field(i), i, tn.Type()
				}
			}
		}
	}
	if tagField == nil {
		c.Undecidedf(rule, "cmdDetail/Db", fn.Decl.Pos(), "the queued command type has no integer field Db")
		return
	}
	// is the tag consumed at all?
	consumed := false
	for _, file := range fn.Pkg.Syntax {
		written := map[ast.Expr]bool{}
		ast.Inspect(file, func(n ast.Node) bool {
			switch v := n.(type) {
			case *ast.AssignStmt:
				for _, l := range v.Lhs {
					written[ast.Unparen(l)] = true
				}
			case *ast.SelectorExpr:
				if core.FieldOf(info, v) == tagField && !written[v] {
					consumed = true
				}
			}
			return !consumed
		})
	}
	if !consumed {
		c.Okf(rule, "cmdDetail/Db", tagField.Pos(), "the database tag of the queued commands is never read")
		return
	}

	view := tt.ViewOf(c.Program, fn, "c14tag", nil)
	body, g := view.Body, view.G
	x := view.X(c.Program)

	isCmdLit := func(lit *ast.CompositeLit) bool {
		t := info.TypeOf(lit)
		if t == nil && lit.Type != nil {
			t = info.TypeOf(lit.Type)
		}
		if t == nil {
			return false
		}
		if p, ok := t.(*types.Pointer); ok {
			t = p.Elem()
		}
		return types.Identical(t, cmdType)
	}
	tagOf := func(lit *ast.CompositeLit) ast.Expr {
		for i, el := range lit.Elts {
			if kv, ok := el.(*ast.KeyValueExpr); ok {
				if id, ok := kv.Key.(*ast.Ident); ok && id.Name == tagField.Name() {
					return kv.Value
				}
			} else if i == tagIndex {
				return el
			}
		}
		return nil
	}
	// tagPositions: the parameters of a function of the package (or of a local closure) whose value
	// becomes the tag of a command queued in its body
	var tagPositions func(params []types.Object, hbody ast.Node, fr *frame, depth int) map[int]bool
	tagArgs := func(call *ast.CallExpr, fr *frame, depth int) []ast.Expr {
		if depth <= 0 {
			return nil
		}
		params, _, hbody, _ := funcBody(c, info, fr, call)
		if hbody == nil || call.Ellipsis.IsValid() {
			return nil
		}
		objs, variadic := paramObjs(info, params)
		if variadic || len(objs) != len(call.Args) {
			return nil
		}
		var out []ast.Expr
		for i := range tagPositions(objs, hbody, &frame{root: hbody}, depth-1) {
			out = append(out, call.Args[i])
		}
		return out
	}
	onStack := map[ast.Node]bool{}
	tagPositions = func(params []types.Object, hbody ast.Node, fr *frame, depth int) map[int]bool {
		out := map[int]bool{}
		if onStack[hbody] {
			return out
		}
		onStack[hbody] = true
		defer delete(onStack, hbody)
		note := func(e ast.Expr) {
			o := localObj(info, e)
			for i, p := range params {
				if p != nil && o == p {
					out[i] = true
				}
			}
		}
		ast.Inspect(hbody, func(n ast.Node) bool {
			switch v := n.(type) {
			case *ast.CompositeLit:
				if isCmdLit(v) {
					if e := tagOf(v); e != nil {
						note(e)
					}
				}
			case *ast.CallExpr:
				for _, a := range tagArgs(v, fr, depth) {
					note(a)
				}
			}
			return true
		})
		return out
	}

	// the places where a value becomes a tag, in the view of parseSourceCommand
	type use struct {
		e    ast.Expr
		node ast.Node // the control-flow node that evaluates it (nil: inside a function literal)
	}
	var uses []use
	top := &frame{root: body}
	addUse := func(e ast.Expr) {
		u := use{e: e}
		if p, ok := tt.Find(g, e); ok {
			u.node = p.Node()
			// not inside a function literal of that node
			for _, lit := range allFuncLits(u.node) {
				if lit.Pos() <= e.Pos() && e.End() <= lit.End() {
					u.node = nil
				}
			}
		}
		uses = append(uses, u)
	}
	ast.Inspect(body, func(n ast.Node) bool {
		switch v := n.(type) {
		case *ast.CompositeLit:
			if isCmdLit(v) {
				if e := tagOf(v); e != nil {
					addUse(e)
				} else {
					c.Undecidedf(rule, "parseSourceCommand/untagged-command", v.Pos(), "a command is queued without a database tag: it carries the zero value, database 0")
				}
			}
		case *ast.CallExpr:
			for _, a := range tagArgs(v, top, 3) {
				addUse(a)
			}
		}
		return true
	})
	if len(uses) == 0 {
		c.Undecidedf(rule, "parseSourceCommand/db-tag", fn.Decl.Pos(), "no queued command with a database tag found in parseSourceCommand")
		return
	}

	// the variables that carry the tag
	type carrier struct {
		v      types.Object
		direct bool // read by a queued command itself (not only copied into another carrier)
		at     map[ast.Node]bool
		hidden bool
	}
	var carriers []*carrier
	byObj := map[types.Object]*carrier{}
	get := func(o types.Object, direct bool) *carrier {
		cr := byObj[o]
		if cr == nil {
			cr = &carrier{v: o, at: map[ast.Node]bool{}}
			byObj[o] = cr
			carriers = append(carriers, cr)
		}
		cr.direct = cr.direct || direct
		return cr
	}
	isParam := map[types.Object]bool{}
	for _, p := range declParams(info, fn) {
		if p != nil {
			isParam[p] = true
		}
	}
	for _, u := range uses {
		r := rootExpr(info, u.e)
		if k, isConst := core.IntConst(info, r); isConst {
			if k >= 0 {
				c.Undecidedf(rule, "parseSourceCommand/constant-tag", u.e.Pos(), "a command is queued under the fixed database tag %d; whether the target connection is on that database there is not analysed", k)
			}
			continue
		}
		o := localObj(info, r)
		if o == nil || isParam[o] {
			continue // a field (the start database, the fixed target database), a call: other rules trace those
		}
		cr := get(o, true)
		if u.node != nil {
			cr.at[u.node] = true
		} else {
			cr.hidden = true
		}
	}
	for i := 0; i < len(carriers) && i < 16; i++ {
		cr := carriers[i]
		for _, d := range tt.DefsOf(info, body, cr.v) {
			if d.Rhs == nil || d.Index != -1 || d.Range != nil {
				continue
			}
			r := rootExpr(info, d.Rhs)
			if _, isConst := core.IntConst(info, r); isConst {
				continue
			}
			if o := localObj(info, r); o != nil && o != cr.v && !isParam[o] {
				if _, isId := ast.Unparen(r).(*ast.Ident); isId {
					src := get(o, false)
					if p, ok := tt.Find(g, d.Stmt); ok {
						src.at[p.Node()] = true
					} else {
						src.hidden = true
					}
				}
			}
		}
	}

	startIs := func(k int64) func(cfgq.Fact) bool {
		return func(f cfgq.Fact) bool {
			be, ok := ast.Unparen(f.Expr).(*ast.BinaryExpr)
			if !ok || be.Op != token.EQL && be.Op != token.NEQ || (be.Op == token.EQL) != f.Val {
				return false
			}
			for _, pair := range [][2]ast.Expr{{be.X, be.Y}, {be.Y, be.X}} {
				if v, isConst := core.IntConst(info, pair[1]); isConst && v == k && core.IsFieldNamed(info, rootExpr(info, pair[0]), "DbSyncer", "startDbId") {
					return true
				}
			}
			return false
		}
	}

	for _, cr := range carriers {
		key := "parseSourceCommand/initial-db-tag"
		defs := tt.DefsOf(info, body, cr.v)
		defNode := map[ast.Node]bool{}
		for _, d := range defs {
			defNode[d.Stmt] = true
		}
		var pos token.Pos = cr.v.Pos()
		verdict := core.Pass
		detail := ""
		var witness []string
		nConst := 0
		worse := func(s core.Status, p token.Pos, w []string, format string, a ...interface{}) {
			if s == core.Fail && verdict != core.Fail || s == core.Undecided && verdict == core.Pass {
				verdict, pos, witness, detail = s, p, w, fmt.Sprintf(format, a...)
			}
		}
		for _, d := range defs {
			var k int64
			switch {
			case d.Range != nil || d.Index != -1:
				continue
			case d.Rhs == nil:
				if _, isDecl := d.Stmt.(*ast.ValueSpec); !isDecl || !isInteger(cr.v.Type()) {
					continue // `x += ..`, `x++`
				}
				k = 0 // `var lastDb int`: the zero value
			default:
				v, isConst := core.IntConst(info, rootExpr(info, tt.Resolve(info, body, rootExpr(info, d.Rhs), 3)))
				if !isConst {
					continue
				}
				k = v
			}
			nConst++
			if k < 0 {
				continue // no database: cannot collide with one
			}
			dp, ok := tt.Find(g, d.Stmt)
			if !ok || dp.Node() != d.Stmt {
				worse(core.Undecided, d.Stmt.Pos(), nil, "the tag variable `%s` is set to database %d at a place the path analysis does not cover", cr.v.Name(), k)
				continue
			}
			self := d.Stmt
			w := g.Path(cfgq.Query{From: dp, After: true,
				Target: func(n ast.Node) bool { return cr.at[n] },
				Avoid:  func(n ast.Node) bool { return defNode[n] && n != self }})
			if w == nil {
				if cr.hidden {
					worse(core.Undecided, d.Stmt.Pos(), nil, "the tag variable `%s` is set to database %d and is read inside a function literal; whether that value reaches a queued command is not analysed", cr.v.Name(), k)
				}
				continue // overwritten before any command is queued
			}
			if dom, _ := x.OnlyVia(cfgq.Point{}, d.Stmt, startIs(k)); dom {
				continue // the database the resume starts in
			}
			switch {
			case x.LoopOf(d.Stmt) != nil:
				worse(core.Undecided, d.Stmt.Pos(), nil, "the tag variable `%s` is set to the fixed database %d inside a loop; whether the target connection is on that database there is not analysed", cr.v.Name(), k)
			case !cr.direct:
				worse(core.Undecided, d.Stmt.Pos(), nil, "`%s` starts as database %d and is copied into the variable that tags the queued commands; the copy is not followed further", cr.v.Name(), k)
			default:
				worse(core.Fail, d.Stmt.Pos(), w, "the database tag of the forwarded commands (`%s`, the key under which sendTargetCommand remembers that a database already holds this session's run id and version) starts as database %d although no SELECT has been seen or sent: after a resume into another database the source sends no SELECT, the commands that run there are booked on database %d, and when the source later selects database %d the sender stores only the offset there - no run id, no version; the next start refuses that checkpoint as written by an older version or falls back to a full sync. Before the first SELECT the tag may only be a value that is no database (negative) or the database the resume starts in",
					cr.v.Name(), k, k, k)
			}
		}
		if !cr.direct && verdict == core.Pass {
			continue // a plain source of a copy with nothing to report
		}
		switch verdict {
		case core.Pass:
			if nConst == 0 {
				detail = fmt.Sprintf("the tag variable `%s` is never set to a fixed database", cr.v.Name())
			} else {
				detail = fmt.Sprintf("every fixed value the tag variable `%s` holds when a command is queued is negative (no database)", cr.v.Name())
			}
			c.Okf(rule, key, pos, "%s", detail)
		case core.Fail:
			c.Check(rule, key, pos, false, detail, witness...)
		default:
			c.Undecidedf(rule, key, pos, "%s", detail)
		}
	}
	if len(carriers) == 0 {
		c.Okf(rule, "parseSourceCommand/initial-db-tag", fn.Decl.Pos(), "no local variable carries the database tag: every queued command takes it from a field or a call")
	}
}

// allFuncLits lists every function literal under n.
func allFuncLits(n ast.Node) []*ast.FuncLit {
	var out []*ast.FuncLit
	ast.Inspect(n, func(m ast.Node) bool {
		if l, ok := m.(*ast.FuncLit); ok {
			out = append(out, l)
		}
		return true
	})
	return out
}
