package c14

import (
	"go/ast"
	"go/token"
	"go/types"

	"rscheck/core"
	"rscheck/rules/c06/tt"
)

// keyspace: utils.ParseKeyspace turns the INFO keyspace payload into the list of databases that
// LoadCheckpoint scans and ClearCheckpoint cleans. Every byte of the payload must belong to a line
// that is parsed: a splitter of the whole text (bytes.Split, Fields, a bufio.Scanner, ...) does
// that by construction; a loop that cuts lines off at each separator it finds (Index/IndexByte)
// leaves the text after the last separator in its remainder variable, which must be parsed after
// the loop as well - otherwise a last line without a line break (a database!) is dropped, its
// checkpoint neither read nor cleaned.
func (st *state) keyspace(fn *core.Fn) {
	c := st.c
	info := fn.Pkg.TypesInfo
	body := fn.Decl.Body
	key := "ParseKeyspace/every-line"
	if fn.Decl.Type.Params == nil || len(fn.Decl.Type.Params.List) != 1 || len(fn.Decl.Type.Params.List[0].Names) != 1 {
		c.Undecidedf("R2.newest", key, fn.Decl.Pos(), "expected one payload parameter")
		return
	}
	content := info.Defs[fn.Decl.Type.Params.List[0].Names[0]]
	// values derived from the payload by conversions, trimming and re-slicing
	derived := map[types.Object]bool{content: true}
	mentionsDerived := func(e ast.Node) bool {
		hit := false
		ast.Inspect(e, func(n ast.Node) bool {
			if id, ok := n.(*ast.Ident); ok && derived[core.ObjOf(info, id)] {
				hit = true
			}
			return !hit
		})
		return hit
	}
	for changed := true; changed; {
		changed = false
		ast.Inspect(body, func(n ast.Node) bool {
			as, ok := n.(*ast.AssignStmt)
			if !ok || len(as.Lhs) != len(as.Rhs) {
				return true
			}
			for i, l := range as.Lhs {
				if o := localObj(info, l); o != nil && !derived[o] && mentionsDerived(as.Rhs[i]) {
					if _, isSlice := o.Type().Underlying().(*types.Slice); isSlice || isStringType(o.Type()) {
						derived[o] = true
						changed = true
					}
				}
			}
			return true
		})
	}
	fromContent := func(e ast.Expr) bool { return mentionsDerived(e) || tt.MentionsResolved(info, body, e, content, 3) }
	var loops []ast.Stmt
	ast.Inspect(body, func(n ast.Node) bool {
		switch n.(type) {
		case *ast.FuncLit:
			return false
		case *ast.ForStmt, *ast.RangeStmt:
			loops = append(loops, n.(ast.Stmt))
			return false
		}
		return true
	})
	if len(loops) != 1 {
		c.Undecidedf("R2.newest", key, fn.Decl.Pos(), "expected one scanning loop in ParseKeyspace, found %d", len(loops))
		return
	}
	pkgFunc := func(call *ast.CallExpr) (string, string) {
		if f := core.CalleeFunc(info, call); f != nil && f.Pkg() != nil {
			return f.Pkg().Path(), f.Name()
		}
		return "", ""
	}
	totalSplit := func(e ast.Expr) bool {
		call, ok := ast.Unparen(tt.Resolve(info, body, e, 3)).(*ast.CallExpr)
		if !ok || len(call.Args) == 0 || !fromContent(call.Args[0]) {
			return false
		}
		pk, name := pkgFunc(call)
		if pk != "bytes" && pk != "strings" {
			return false
		}
		switch name {
		case "Split", "SplitAfter", "Fields", "FieldsFunc", "Lines":
			return true
		case "SplitN", "SplitAfterN":
			if len(call.Args) == 3 {
				if n, isConst := core.IntConst(info, call.Args[2]); isConst && n < 0 {
					return true
				}
			}
		}
		return false
	}
	switch lp := loops[0].(type) {
	case *ast.RangeStmt:
		if totalSplit(lp.X) {
			c.Okf("R2.newest", key, lp.Pos(), "the lines are the parts of a splitter of the whole payload: the text after the last line break is a part too")
			return
		}
		c.Undecidedf("R2.newest", key, lp.Pos(), "the scanned sequence `%s` is not recognised as a split of the whole payload", c.Src(lp.X))
	case *ast.ForStmt:
		// for i := 0; i < len(lines); i++ over a split of the payload
		if list, _ := tt.LoopElem(info, lp); list != nil && totalSplit(list) {
			c.Okf("R2.newest", key, lp.Pos(), "the loop visits every part of a splitter of the whole payload")
			return
		}
		// for sc.Scan() { .. } over the payload
		if call, ok := ast.Unparen(lp.Cond).(*ast.CallExpr); ok && lp.Init == nil && lp.Post == nil {
			if sel, ok := ast.Unparen(call.Fun).(*ast.SelectorExpr); ok && sel.Sel.Name == "Scan" {
				if t := info.TypeOf(sel.X); t != nil && core.NamedTypePath(t) == "bufio.Scanner" && fromContent(sel.X) {
					c.Okf("R2.newest", key, lp.Pos(), "a bufio.Scanner over the payload yields the unterminated last line too")
					return
				}
			}
		}
		// for len(rest) > 0 { if idx := Index*(rest, sep); idx >= 0 { line, rest = rest[:idx], rest[idx+1:] } else { line, rest = rest, nil } .. }
		if tailAsLine(info, lp, fromContent, pkgFunc) {
			c.Okf("R2.newest", key, lp.Pos(), "when no further separator is found the remainder is taken as the last line")
			return
		}
		// cut-at-separator loop: idx := Index*(rest, sep); idx >= 0; ... rest = rest[idx+1:]
		var idx, rest types.Object
		ast.Inspect(lp, func(n ast.Node) bool {
			as, ok := n.(*ast.AssignStmt)
			if !ok || len(as.Lhs) != 1 || len(as.Rhs) != 1 {
				return true
			}
			call, ok := ast.Unparen(as.Rhs[0]).(*ast.CallExpr)
			if !ok || len(call.Args) != 2 {
				return true
			}
			if pk, name := pkgFunc(call); (pk == "bytes" || pk == "strings") && (name == "IndexByte" || name == "Index" || name == "IndexRune" || name == "IndexAny") {
				if r := localObj(info, call.Args[0]); r != nil && (r == content || fromContent(call.Args[0])) {
					idx, rest = localObj(info, as.Lhs[0]), r
				}
			}
			return true
		})
		condOnIdx := false
		if be, ok := ast.Unparen(lp.Cond).(*ast.BinaryExpr); ok && idx != nil {
			for _, pair := range [][2]ast.Expr{{be.X, be.Y}, {be.Y, be.X}} {
				if localObj(info, pair[0]) == idx {
					if k, isConst := core.IntConst(info, pair[1]); isConst && (k == 0 || k == -1) {
						condOnIdx = true
					}
				}
			}
		}
		if idx == nil || rest == nil || !condOnIdx {
			c.Undecidedf("R2.newest", key, lp.Pos(), "the scanning loop is neither a range over a split of the payload nor a cut-at-separator loop")
			return
		}
		// the remainder after the last separator must be used after the loop
		tailUsed := false
		after := false
		for _, s := range body.List {
			if s == ast.Stmt(lp) {
				after = true
				continue
			}
			if after && core.Mentions(info, s, rest) {
				tailUsed = true
			}
		}
		// or inside the loop on the "no further separator" side (`if idx < 0 { line = rest; last = true }`)
		ast.Inspect(lp.Body, func(n ast.Node) bool {
			if is, ok := n.(*ast.IfStmt); ok && core.Mentions(info, is.Cond, idx) && core.Mentions(info, is.Body, rest) {
				tailUsed = true
			}
			return true
		})
		if tailUsed {
			c.Undecidedf("R2.newest", key, lp.Pos(), "the remainder `%s` of the cut-at-separator loop is used after the last separator: whether it is parsed like a line is not analysed", rest.Name())
			return
		}
		pos := lp.Pos()
		if lp.Cond != nil {
			pos = lp.Cond.Pos()
		}
		c.Failf("R2.newest", key, pos, "the loop parses only the text in front of each separator it finds (`%s`); what follows the last separator stays in `%s` and is never parsed: a payload whose last line `dbN:keys=..` is not terminated by a line break loses that database, LoadCheckpoint neither reads nor cleans its checkpoint", c.Src(lp.Cond), rest.Name())
	}
	_ = token.NoPos
}

func isStringType(t types.Type) bool {
	b, ok := t.Underlying().(*types.Basic)
	return ok && b.Info()&types.IsString != 0
}

// tailAsLine recognises the tokenizer loop that runs while the remainder is non-empty and, when
// no separator is left, takes the whole remainder as the line.
func tailAsLine(info *types.Info, lp *ast.ForStmt, fromContent func(ast.Expr) bool, pkgFunc func(*ast.CallExpr) (string, string)) bool {
	be, ok := ast.Unparen(lp.Cond).(*ast.BinaryExpr)
	if !ok || lp.Init != nil || lp.Post != nil {
		return false
	}
	var rest types.Object
	for _, pair := range [][2]ast.Expr{{be.X, be.Y}, {be.Y, be.X}} {
		call, ok := ast.Unparen(pair[0]).(*ast.CallExpr)
		if !ok || len(call.Args) != 1 {
			continue
		}
		if id, ok := call.Fun.(*ast.Ident); !ok || id.Name != "len" {
			continue
		}
		k, isConst := core.IntConst(info, pair[1])
		okOp := isConst && k == 0 && (be.Op == token.NEQ || be.Op == token.GTR && pair[0] == be.X || be.Op == token.LSS && pair[0] == be.Y)
		if okOp && fromContent(call.Args[0]) {
			rest = localObj(info, call.Args[0])
		}
	}
	if rest == nil {
		return false
	}
	for _, st := range lp.Body.List {
		is, ok := st.(*ast.IfStmt)
		if !ok || is.Else == nil {
			continue
		}
		init, ok := is.Init.(*ast.AssignStmt)
		if !ok || len(init.Lhs) != 1 || len(init.Rhs) != 1 {
			continue
		}
		call, ok := ast.Unparen(init.Rhs[0]).(*ast.CallExpr)
		if !ok || len(call.Args) != 2 || localObj(info, call.Args[0]) != rest {
			continue
		}
		if pk, name := pkgFunc(call); pk != "bytes" && pk != "strings" || name != "IndexByte" && name != "Index" && name != "IndexRune" {
			continue
		}
		idx := localObj(info, init.Lhs[0])
		cond, ok := ast.Unparen(is.Cond).(*ast.BinaryExpr)
		if !ok || idx == nil {
			continue
		}
		found := ast.Stmt(is.Body) // the branch taken when a separator was found
		var none ast.Stmt = is.Else
		switch {
		case localObj(info, cond.X) == idx && cond.Op == token.GEQ && isInt(info, cond.Y, 0), localObj(info, cond.X) == idx && cond.Op == token.NEQ && isInt(info, cond.Y, -1), localObj(info, cond.X) == idx && cond.Op == token.GTR && isInt(info, cond.Y, -1):
		case localObj(info, cond.X) == idx && cond.Op == token.LSS && isInt(info, cond.Y, 0), localObj(info, cond.X) == idx && cond.Op == token.EQL && isInt(info, cond.Y, -1):
			found, none = is.Else, is.Body
		default:
			continue
		}
		// the line variable: assigned rest[:idx] when found, the whole rest otherwise; rest emptied
		var lineFound, lineNone types.Object
		emptied := false
		ast.Inspect(found, func(n ast.Node) bool {
			if as, ok := n.(*ast.AssignStmt); ok && len(as.Lhs) == len(as.Rhs) {
				for i, r := range as.Rhs {
					if sl, ok := ast.Unparen(r).(*ast.SliceExpr); ok && sl.Low == nil && localObj(info, sl.X) == rest && localObj(info, sl.High) == idx {
						lineFound = localObj(info, as.Lhs[i])
					}
				}
			}
			return true
		})
		ast.Inspect(none, func(n ast.Node) bool {
			if as, ok := n.(*ast.AssignStmt); ok && len(as.Lhs) == len(as.Rhs) {
				for i, r := range as.Rhs {
					if id, ok := ast.Unparen(r).(*ast.Ident); ok && core.ObjOf(info, id) == rest && localObj(info, as.Lhs[i]) != rest {
						lineNone = localObj(info, as.Lhs[i])
					}
					if localObj(info, as.Lhs[i]) == rest {
						if core.IsNil(info, r) {
							emptied = true
						}
						if sl, ok := ast.Unparen(r).(*ast.SliceExpr); ok && localObj(info, sl.X) == rest && sl.High == nil && sl.Low != nil {
							if call, ok := ast.Unparen(sl.Low).(*ast.CallExpr); ok && len(call.Args) == 1 && localObj(info, call.Args[0]) == rest {
								emptied = true // rest[len(rest):]
							}
						}
					}
				}
			}
			return true
		})
		if lineFound != nil && lineFound == lineNone && emptied {
			return true
		}
	}
	return false
}

func isInt(info *types.Info, e ast.Expr, want int64) bool {
	k, ok := core.IntConst(info, e)
	return ok && k == want
}
