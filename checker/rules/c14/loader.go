package c14

import (
	"fmt"
	"go/ast"
	"go/token"
	"go/types"
	"strings"

	"golang.org/x/tools/go/cfg"

	"rscheck/cfgq"
	"rscheck/core"
	"rscheck/pat"
	"rscheck/rules/c06/tt"
)

// ---------------------------------------------------------------------------
// R2 / R3: LoadCheckpoint

func (st *state) loader(load, fetch, clear *core.Fn) {
	c := st.c
	fn := load // the function that scans the databases: LoadCheckpoint or a helper it calls
	info := fn.Pkg.TypesInfo
	isFetch := func(_ *ast.CallExpr, callee types.Object) bool { return callee == types.Object(fetch.Obj) }
	// the rules work on views in which same-package helpers are part of the body; the anchored
	// functions themselves stay calls
	opaque := st.opaque
	loadView := tt.ViewOf(c.Program, load, "c14", opaque)
	var viaCall *ast.CallExpr // the call of the helper in LoadCheckpoint
	if len(core.Calls(loadView.Body, info, isFetch)) == 0 {
		for _, call := range core.Calls(loadView.Body, info, func(*ast.CallExpr, types.Object) bool { return true }) {
			if h := c.FnOf(core.CalleeFunc(info, call)); h != nil && h.Decl.Body != nil && h.Pkg.TypesInfo == info && h.Obj != fetch.Obj && len(core.Calls(h.Decl.Body, info, isFetch)) > 0 {
				fn, viaCall = h, call
			}
		}
	}
	// lift: an expression of the helper in the terms of LoadCheckpoint (parameters -> arguments)
	lift := func(e ast.Expr) ast.Expr {
		if viaCall == nil {
			return e
		}
		if j := paramIndex(info, fn, e); j >= 0 && j < len(viaCall.Args) {
			return viaCall.Args[j]
		}
		return nil
	}
	view := tt.ViewOf(c.Program, fn, "c14", opaque)
	body := view.Body
	g := view.G
	x := view.X(c.Program)
	calls := core.Calls(body, info, isFetch)
	if len(calls) != 1 {
		c.Undecidedf("R2.newest", "LoadCheckpoint/fetch", fn.Decl.Pos(), "expected one call of fetchCheckpoint, found %d", len(calls))
		return
	}
	fp, _ := tt.Find(g, calls[0])
	fas, ok := fp.Node().(*ast.AssignStmt)
	if !ok || len(fas.Lhs) != 4 {
		c.Undecidedf("R2.newest", "LoadCheckpoint/fetch", calls[0].Pos(), "the results of fetchCheckpoint are not bound to four variables")
		return
	}
	var fr [3]types.Object
	for k := range fr {
		fr[k] = localObj(info, fas.Lhs[k])
	}
	loop, _ := x.LoopOf(fas).(*ast.RangeStmt)
	if loop == nil || fr[0] == nil || fr[1] == nil || fr[2] == nil {
		c.Undecidedf("R2.newest", "LoadCheckpoint/fetch", fas.Pos(), "fetchCheckpoint is not called in a range loop with named results")
		return
	}
	// the loop ranges over the result of ParseKeyspace (the map itself, or a slice filled with its
	// keys) and looks at every database
	fromKeyspace := func(e ast.Expr) bool {
		if e == nil {
			return false
		}
		r := tt.Resolve(info, loadView.Body, e, 6)
		if d, ok := tt.SingleDef(info, loadView.Body, r); ok && d.Index == 0 {
			if call, ok := ast.Unparen(d.Rhs).(*ast.CallExpr); ok && core.IsFunc(core.CalleeFunc(info, call), pkgUtils, "", "ParseKeyspace") {
				return true
			}
		}
		// several definitions (the exits of an inlined helper): each is the result of ParseKeyspace, or
		// nil handed back together with an error value (`mp, err = nil, err1`)
		o := localObj(info, r)
		if o == nil {
			return false
		}
		parsed := false
		for _, d := range tt.DefsOf(info, loadView.Body, o) {
			if _, isDecl := d.Stmt.(*ast.ValueSpec); isDecl && d.Rhs == nil {
				continue
			}
			if d.Rhs == nil || d.Range != nil {
				return false
			}
			if call, ok := ast.Unparen(d.Rhs).(*ast.CallExpr); ok && d.Index == 0 && core.IsFunc(core.CalleeFunc(info, call), pkgUtils, "", "ParseKeyspace") {
				parsed = true
				continue
			}
			as, isAs := d.Stmt.(*ast.AssignStmt)
			if !isAs || d.Index != -1 || !core.IsNil(info, d.Rhs) || len(as.Lhs) != len(as.Rhs) {
				return false
			}
			withErr := false
			for _, rhs := range as.Rhs {
				if id, isId := ast.Unparen(rhs).(*ast.Ident); isId && !core.IsNil(info, id) {
					if v, isVar := core.ObjOf(info, id).(*types.Var); isVar && cfgq.IsErrorType(v.Type()) {
						withErr = true
					}
				}
			}
			if !withErr {
				return false
			}
		}
		return parsed
	}
	mpExpr := lift(loop.X)
	okList := fromKeyspace(mpExpr)
	dbElem := loop.Key
	if _, isMap := info.TypeOf(loop.X).Underlying().(*types.Map); !isMap {
		dbElem = loop.Value
		// a slice of the keys: every definition of it is empty / make / append(list, key of a range over the map)
		if lo := localObj(info, tt.Resolve(info, body, loop.X, 3)); lo != nil {
			filled := false
			okDefs := true
			for _, d := range tt.DefsOf(info, body, lo) {
				switch {
				case d.Rhs == nil:
				case d.Index != -1:
					okDefs = false
				default:
					rhs := ast.Unparen(d.Rhs)
					if call, ok := rhs.(*ast.CallExpr); ok {
						if id, ok := call.Fun.(*ast.Ident); ok && id.Name == "make" {
							continue
						}
						if id, ok := call.Fun.(*ast.Ident); ok && id.Name == "append" && len(call.Args) == 2 && localObj(info, call.Args[0]) == lo {
							if kd, ok := tt.SingleDef(info, body, call.Args[1]); ok && kd.Range != nil && kd.IsKey && fromKeyspace(lift(kd.Range.X)) {
								filled = true
								mpExpr = lift(kd.Range.X)
								continue
							}
						}
					}
					if cl, ok := rhs.(*ast.CompositeLit); ok && len(cl.Elts) == 0 {
						continue
					}
					okDefs = false
				}
			}
			okList = okDefs && filled
		}
	}
	dbKey := localObj(info, dbElem)
	okDb := dbKey != nil && len(calls[0].Args) == 4 && tt.MentionsResolved(info, body, calls[0].Args[2], dbKey, 3)
	// the argument may carry the database in a way that is not followed (a local assigned several
	// times, a call): only an argument built from constants and fields alone is provably not the database
	opaqueArg := false
	if len(calls[0].Args) == 4 {
		ast.Inspect(calls[0].Args[2], func(n ast.Node) bool {
			switch v := n.(type) {
			case *ast.Ident:
				if o, isVar := core.ObjOf(info, v).(*types.Var); isVar && !o.IsField() && o.Pkg() != nil && o.Parent() != o.Pkg().Scope() {
					opaqueArg = true
				}
			case *ast.CallExpr:
				if tv, ok := info.Types[v.Fun]; !ok || !tv.IsType() {
					opaqueArg = true
				}
			}
			return true
		})
	}
	switch {
	case okList && okDb:
		c.Okf("R2.newest", "LoadCheckpoint/every-database", loop.Pos(), "fetchCheckpoint is called for every database listed by ParseKeyspace(info keyspace), with that database")
	case !okDb && dbKey != nil && !opaqueArg:
		c.Failf("R2.newest", "LoadCheckpoint/every-database", loop.Pos(), "fetchCheckpoint is not called with the database of the iteration (`%s`): the checkpoints of the other databases are never looked at", c.Src(calls[0].Args[2]))
	default:
		c.Undecidedf("R2.newest", "LoadCheckpoint/every-database", loop.Pos(), "cannot relate the list of databases `%s` to ParseKeyspace(info keyspace)", c.Src(loop.X))
	}
	early := ""
	core.Inspect(loop.Body, func(n ast.Node) bool {
		switch s := n.(type) {
		case *ast.BranchStmt:
			if s.Tok == token.GOTO {
				// the exit of an inlined helper: harmless when it stays inside the loop body or hands
				// back a non-nil error
				inside := false
				core.Inspect(loop.Body, func(m ast.Node) bool {
					if ls, ok := m.(*ast.LabeledStmt); ok && s.Label != nil && ls.Label.Name == s.Label.Name {
						inside = true
					}
					return true
				})
				if !inside && !view.IsErrorExit(x, s) {
					early = c.Src(s)
				}
			} else if s.Tok == token.BREAK && tt.BreaksLoop(loop.Body, s) {
				early = c.Src(s)
			}
		case *ast.ReturnStmt:
			if cfgq.ClassifyReturn(info, body, s) != cfgq.RetErr {
				early = c.Src(s)
			}
		}
		return true
	})
	c.Check("R2.newest", "LoadCheckpoint/no-early-exit", loop.Pos(), early == "", "the scan over the databases must not stop early (break / non-error return `"+early+"`): a newer checkpoint in a database visited later would be missed")

	// a recorded value lives in a local variable or in a field of a local record (`best.offset`)
	type car struct {
		obj   types.Object
		field string
	}
	carOf := func(e ast.Expr) car {
		if o := localObj(info, e); o != nil {
			return car{obj: o}
		}
		if sel, ok := ast.Unparen(e).(*ast.SelectorExpr); ok && core.FieldOf(info, sel) != nil {
			if o := localObj(info, sel.X); o != nil {
				return car{obj: o, field: sel.Sel.Name}
			}
		}
		return car{}
	}
	// a variable that only lives inside one iteration (the parameter binding of an inlined method,
	// a renamed local) is another name of the fetched value, not the record
	perIteration := func(o types.Object) bool {
		defs := tt.DefsOf(info, body, o)
		if len(defs) == 0 {
			return false
		}
		for _, d := range defs {
			st, isStmt := d.Stmt.(ast.Stmt)
			if !isStmt || x.LoopOf(st) != ast.Stmt(loop) {
				return false
			}
		}
		return true
	}
	alias := map[types.Object]int{}
	for k, o := range []types.Object{fr[0], fr[1], fr[2], dbKey} {
		if o != nil {
			alias[o] = k
		}
	}
	for changed := true; changed; {
		changed = false
		core.Inspect(loop.Body, func(n ast.Node) bool {
			as, ok := n.(*ast.AssignStmt)
			if !ok || len(as.Lhs) != len(as.Rhs) {
				return true
			}
			for i := range as.Lhs {
				l, r := localObj(info, as.Lhs[i]), localObj(info, as.Rhs[i])
				if l == nil || r == nil || l == r {
					continue
				}
				if _, isId := ast.Unparen(as.Rhs[i]).(*ast.Ident); !isId {
					continue
				}
				if k, isAlias := alias[r]; isAlias {
					if _, known := alias[l]; !known && perIteration(l) && len(tt.DefsOf(info, body, l)) == 1 {
						alias[l] = k
						changed = true
					}
				}
			}
			return true
		})
	}
	// the comparison fetched-offset REL newest
	var cmp *ast.BinaryExpr
	var newest car
	rel := token.ILLEGAL
	mirror := map[token.Token]token.Token{token.LSS: token.GTR, token.GTR: token.LSS, token.LEQ: token.GEQ, token.GEQ: token.LEQ}
	core.Inspect(loop.Body, func(n ast.Node) bool {
		be, ok := n.(*ast.BinaryExpr)
		if !ok || mirror[be.Op] == 0 {
			return true
		}
		l, r := carOf(be.X), carOf(be.Y)
		isOffset := func(cr car) bool { // the fetched offset or another name of it inside the iteration
			k, ok := alias[cr.obj]
			return cr.obj != nil && cr.field == "" && ok && k == 1
		}
		switch {
		case isOffset(l) && r.obj != nil && !isOffset(r):
			cmp, newest, rel = be, r, be.Op
		case isOffset(r) && l.obj != nil && !isOffset(l):
			cmp, newest, rel = be, l, mirror[be.Op]
		}
		return true
	})
	if cmp == nil {
		c.Undecidedf("R2.newest", "LoadCheckpoint/comparison", loop.Pos(), "no comparison of the fetched offset with a running maximum found")
		return
	}
	gval := true // the truth value of the comparison under which the checkpoint is recorded
	guard := func(f cfgq.Fact) bool { return f.Expr == ast.Expr(cmp) && f.Val == gval }
	// the four recorded variables
	recName := []string{"run id", "offset", "version", "db"}
	src := []types.Object{fr[0], fr[1], fr[2], dbKey}
	rec := make([]types.Object, 4)
	recCar := make([]car, 4)
	recAssign := make([]ast.Node, 4)
	recCar[1] = newest
	for _, p := range g.Points(func(n ast.Node) bool { _, ok := n.(*ast.AssignStmt); return ok }) {
		as := p.Node().(*ast.AssignStmt)
		if len(as.Lhs) != len(as.Rhs) || x.LoopOf(as) != ast.Stmt(loop) {
			continue
		}
		for i := range as.Lhs { // also a tuple assignment `a, b, c, d = w, x, y, z`
			note := func(l car, rhs ast.Expr) {
				r := localObj(info, rhs)
				if l.obj != nil && l.field == "" {
					if _, isAlias := alias[l.obj]; isAlias {
						return
					}
				}
				for k := range src {
					if ak, isAlias := alias[r]; r != nil && isAlias && ak == k && l.obj != nil && (k != 1 || l == newest) {
						recCar[k], recAssign[k] = l, as
					}
				}
			}
			note(carOf(as.Lhs[i]), as.Rhs[i])
			// a record assigned as a whole: best = candidate{runId: runId, offset: offset, ...}
			if lit, ok := ast.Unparen(as.Rhs[i]).(*ast.CompositeLit); ok {
				if lo := localObj(info, as.Lhs[i]); lo != nil {
					for _, el := range lit.Elts {
						if kv, ok := el.(*ast.KeyValueExpr); ok {
							if id, ok := kv.Key.(*ast.Ident); ok {
								note(car{obj: lo, field: id.Name}, kv.Value)
							}
						}
					}
				}
			}
		}
	}
	for k := range recCar {
		if recCar[k].field == "" {
			rec[k] = recCar[k].obj
		}
	}
	// guard clause form: `if offset <= newest { continue }` records under the negated comparison
	if recAssign[1] != nil {
		if okT, _ := x.OnlyVia(cfgq.Point{}, recAssign[1], guard); !okT {
			gval = false
			if okF, _ := x.OnlyVia(cfgq.Point{}, recAssign[1], guard); okF {
				rel = map[token.Token]token.Token{token.LSS: token.GEQ, token.LEQ: token.GTR, token.GTR: token.LEQ, token.GEQ: token.LSS}[rel]
			} else {
				gval = true
			}
		}
	}
	switch rel {
	case token.GTR:
		c.Okf("R2.newest", "LoadCheckpoint/comparison", cmp.Pos(), "a database's checkpoint is recorded only when its offset is strictly greater than the newest so far")
	case token.GEQ:
		c.Failf("R2.newest", "LoadCheckpoint/comparison", cmp.Pos(), "`>=`: a database without a checkpoint of this source (offset -1, run id \"\" or \"?\", version 0/-1) is recorded while newest is still -1; e.g. a target database that holds only another source's checkpoint hash makes LoadCheckpoint fail the version gate (version 0) or report that database instead of 'no checkpoint'")
	default:
		c.Failf("R2.newest", "LoadCheckpoint/comparison", cmp.Pos(), "the comparison `%s` records a checkpoint whose offset is not greater than the newest: with checkpoints at offsets 100 (db0) and 500 (db1) the older one at 100 is resumed and 400 bytes are replayed", c.Src(cmp))
	}
	var cb *cfg.Block // successor block entered when the guard holds
	for _, b := range g.CFG.Blocks {
		for si := range b.Succs {
			if b.Live && x.Establishes(b, si, guard) {
				cb = b.Succs[si]
			}
		}
	}
	for k := range src {
		key := "LoadCheckpoint/records-" + strings.ReplaceAll(recName[k], " ", "")
		if recAssign[k] == nil {
			// absence: nothing anywhere in the loop (nested loops and closures included) hands the
			// fetched value on
			handed := false
			ast.Inspect(loop.Body, func(n ast.Node) bool {
				switch st := n.(type) {
				case *ast.AssignStmt:
					for i, r := range st.Rhs {
						if len(st.Lhs) == len(st.Rhs) {
							if id, ok := st.Lhs[i].(*ast.Ident); ok && id.Name == "_" {
								continue // discarded
							}
							if lo := localObj(info, st.Lhs[i]); lo != nil {
								if _, isAlias := alias[lo]; isAlias {
									continue // another name of the fetched value inside the iteration
								}
							}
						}
						if ast.Unparen(r) == ast.Expr(calls[0]) {
							continue // the fetch itself (the database is its argument)
						}
						for ao, ak := range alias {
							if ak == k && core.Mentions(info, r, ao) {
								handed = true
							}
						}
					}
				case *ast.ValueSpec:
					for _, r := range st.Values {
						if src[k] != nil && core.Mentions(info, r, src[k]) {
							handed = true
						}
					}
				case *ast.CallExpr:
					if _, isLit := ast.Unparen(st.Fun).(*ast.FuncLit); isLit || core.CalleeFunc(info, st) == nil {
						for _, a := range st.Args {
							if src[k] != nil && core.Mentions(info, a, src[k]) {
								handed = true // handed to a function value
							}
						}
					}
				}
				return !handed
			})
			if handed {
				c.Undecidedf("R2.newest", key, cmp.Pos(), "the %s is handed on inside the scan in a form that is not analysed", recName[k])
				continue
			}
			c.Failf("R2.newest", key, cmp.Pos(), "the %s of the newest checkpoint is never recorded: LoadCheckpoint returns the newest offset together with the %s of a different (or no) checkpoint", recName[k], recName[k])
			continue
		}
		ok, w := x.OnlyVia(cfgq.Point{}, recAssign[k], guard)
		together := true
		if cb != nil {
			traces, err := x.Traces(cb, 0, func(b *cfg.Block) bool { return b.Kind == cfg.KindRangeLoop }, 200)
			if err != nil {
				together = false
			}
			for _, t := range traces {
				if t.End == tt.EndAbort {
					continue
				}
				has := false
				for _, n := range t.Nodes() {
					if n == recAssign[k] {
						has = true
					}
				}
				together = together && has
			}
		}
		c.Check("R2.newest", key, recAssign[k].Pos(), ok && together, fmt.Sprintf("the %s must be recorded exactly when a greater offset is found (together with the offset): otherwise the returned %s belongs to a different checkpoint than the returned offset", recName[k], recName[k]), w...)
	}
	if newest.obj != nil {
		init := int64(0)
		found := false
		for _, d := range tt.DefsOf(info, body, newest.obj) {
			// the definition before the loop: `var newest = -1`, `newest := -1`, `offset, version = -1, -1`,
			// `best := candidate{offset: -1}`
			if st, isStmt := d.Stmt.(ast.Stmt); isStmt && x.LoopOf(st) == ast.Stmt(loop) {
				continue
			}
			if d.Rhs == nil || d.Index != -1 {
				continue
			}
			if newest.field == "" {
				if v, isConst := core.IntConst(info, d.Rhs); isConst {
					init, found = v, true
				}
			} else if lit, ok := ast.Unparen(d.Rhs).(*ast.CompositeLit); ok {
				for _, el := range lit.Elts {
					if kv, ok := el.(*ast.KeyValueExpr); ok {
						if id, ok := kv.Key.(*ast.Ident); ok && id.Name == newest.field {
							if v, isConst := core.IntConst(info, kv.Value); isConst {
								init, found = v, true
							}
						}
					}
				}
			}
		}
		if found {
			c.Check("R2.newest", "LoadCheckpoint/newest-starts-at--1", fn.Decl.Pos(), init == -1, fmt.Sprintf("the running maximum starts at %d: when no checkpoint exists LoadCheckpoint must report offset -1 so that a full sync follows", init))
		} else {
			c.Undecidedf("R2.newest", "LoadCheckpoint/newest-starts-at--1", fn.Decl.Pos(), "no constant initial value of the running maximum")
		}
	}
	if recCar[0].obj == nil || recCar[2].obj == nil || recCar[3].obj == nil {
		return
	}

	// the recorded values may be handed on through copies after the loop (results of an inlined
	// helper, renamed locals): follow `a, b, c, d := runId, offset, recDb, version`
	for pass := 0; pass < 3; pass++ {
		core.Inspect(body, func(n ast.Node) bool {
			as, ok := n.(*ast.AssignStmt)
			if !ok || len(as.Lhs) != len(as.Rhs) || x.LoopOf(as) == ast.Stmt(loop) {
				return true
			}
			plain := func(e ast.Expr) car { // the carrier itself, not an expression over it
				if id := rootIdent(info, e); id != nil && ast.Expr(id) != ast.Unparen(e) {
					return car{}
				}
				return carOf(e)
			}
			matched := 0
			for i := range as.Rhs {
				for k := range recCar {
					if r := plain(as.Rhs[i]); r.obj != nil && r == recCar[k] {
						matched++
					}
				}
				// the record copied as a whole: `best = found`, `newest, err = r0, r1`
				if ro, lo := plain(as.Rhs[i]), plain(as.Lhs[i]); ro.obj != nil && lo.obj != nil && ro.field == "" && lo.field == "" && ro.obj != lo.obj {
					if _, isId := ast.Unparen(as.Rhs[i]).(*ast.Ident); isId {
						for k := range recCar {
							if recCar[k].field != "" && recCar[k].obj == ro.obj {
								recCar[k].obj = lo.obj
							}
						}
					}
				}
			}
			if matched < 2 {
				return true // a copy of the whole record, not a single use
			}
			for i := range as.Rhs {
				for k := range recCar {
					if r := plain(as.Rhs[i]); r.obj != nil && r == recCar[k] {
						if l := carOf(as.Lhs[i]); l.obj != nil {
							recCar[k] = l
						}
					}
				}
			}
			return true
		})
	}
	rc := recCar // the carriers of the recorded run id, offset, version, db from here on
	if rc[1].obj == nil {
		c.Undecidedf("R3.gate", "LoadCheckpoint/result", fn.Decl.Pos(), "the carrier of the recorded offset is unknown")
		return
	}
	// e denotes the recorded value k (through conversions and single-assignment copies)
	// dbOut: the database may be reported through a local derived from the recorded one, assigned
	// either the recorded database or -1 (`out := rec; if unknown { out = -1 }`, an if/else, the result
	// of an inlined `recordDb()`); found below, once the body of LoadCheckpoint is the one analysed
	var dbOut car
	isRec := func(e ast.Expr, k int) bool {
		cur := rootExpr(info, e)
		for i := 0; i < 6; i++ {
			if cr := carOf(cur); cr.obj != nil && k == 4 {
				// k == 4: the database as it is reported (after the 'unknown run id' adjustment)
				if dbOut.obj != nil && cr == dbOut || dbOut.obj == nil && cr == rc[3] {
					return true
				}
				if dbOut.obj != nil && cr == rc[3] {
					return false // the recorded database itself: the adjustment is bypassed
				}
			} else if cr.obj != nil && k < 4 && cr == rc[k] {
				return true
			}
			next := rootExpr(info, tt.Resolve(info, body, cur, 1))
			if next == cur {
				return false
			}
			cur = next
		}
		return false
	}
	srcExpr, nameExpr := ast.Expr(nil), ast.Expr(nil)
	if len(calls[0].Args) == 4 {
		srcExpr, nameExpr = lift(calls[0].Args[0]), lift(calls[0].Args[3])
	}
	// ---- R3 (in LoadCheckpoint: the recorded values come back from the helper)
	if viaCall != nil {
		var hret *ast.ReturnStmt
		core.Inspect(body, func(n ast.Node) bool {
			if r, ok := n.(*ast.ReturnStmt); ok && len(r.Results) > 1 && core.IsNil(info, r.Results[len(r.Results)-1]) {
				if _, isConst := core.IntConst(info, r.Results[1]); !isConst {
					hret = r
				}
			}
			return true
		})
		lp, _ := tt.Find(loadView.G, viaCall)
		las, ok := lp.Node().(*ast.AssignStmt)
		if hret == nil || !ok || len(las.Rhs) != 1 || len(las.Lhs) != len(hret.Results) {
			c.Undecidedf("R3.gate", "LoadCheckpoint/result", viaCall.Pos(), "cannot relate the results of %s to the variables of LoadCheckpoint", fn.Decl.Name.Name)
			return
		}
		lrec := make([]car, 4)
		for k := range rc {
			for i, r := range hret.Results {
				if _, isId := ast.Unparen(r).(*ast.Ident); isId && localObj(info, r) == rc[k].obj {
					// the value itself, or the record that holds it returned as a whole
					lrec[k] = car{obj: localObj(info, las.Lhs[i]), field: rc[k].field}
				}
			}
			if lrec[k].obj == nil {
				c.Undecidedf("R3.gate", "LoadCheckpoint/result", viaCall.Pos(), "%s does not return the recorded %s", fn.Decl.Name.Name, recName[k])
				return
			}
		}
		rc = lrec
		body = loadView.Body
		g = loadView.G
		x = loadView.X(c.Program)
		view = loadView
		fn = load
	}
	rets := successReturns(info, body)
	if len(rets) == 0 {
		c.Undecidedf("R3.gate", "LoadCheckpoint/result", fn.Decl.Pos(), "no success return")
		return
	}
	{
		cands := map[types.Object]bool{}
		note := func(l, r ast.Expr) {
			if lc := carOf(l); lc.obj != nil && lc.field == "" && lc != rc[3] && isRec(r, 3) {
				cands[lc.obj] = true
			}
		}
		core.Inspect(body, func(n ast.Node) bool {
			switch st := n.(type) {
			case *ast.AssignStmt:
				if len(st.Lhs) == len(st.Rhs) && x.LoopOf(st) != ast.Stmt(loop) {
					for i := range st.Lhs {
						note(st.Lhs[i], st.Rhs[i])
					}
				}
			case *ast.ValueSpec:
				if len(st.Names) == len(st.Values) {
					for i := range st.Names {
						note(st.Names[i], st.Values[i])
					}
				}
			}
			return true
		})
		var found []types.Object
		for o := range cands {
			okDefs := true
			adjusted := false // some definition is the 'unknown run id' value -1: a plain copy is just another name
			for _, d := range tt.DefsOf(info, body, o) {
				if _, isDecl := d.Stmt.(*ast.ValueSpec); isDecl && d.Rhs == nil {
					continue
				}
				if d.Rhs == nil || d.Index != -1 || d.Range != nil {
					okDefs = false
					continue
				}
				if v, isConst := core.IntConst(info, d.Rhs); isConst && v == -1 {
					adjusted = true
					continue
				}
				if !isRec(d.Rhs, 3) {
					okDefs = false
				}
			}
			if okDefs && adjusted {
				found = append(found, o)
			}
		}
		if len(found) == 1 {
			dbOut = car{obj: found[0]}
		}
	}
	// derivedFrom: e is a local some definition of which mentions the carrier of recorded value k
	derivedFrom := func(e ast.Expr, k int) bool {
		o := carOf(rootExpr(info, e)).obj
		if k == 4 {
			k = 3
			if dbOut.obj != nil && o == dbOut.obj {
				return false
			}
		}
		if o == nil || rc[k].obj == nil || o == rc[k].obj {
			return false
		}
		for _, d := range tt.DefsOf(info, body, o) {
			if d.Rhs != nil && core.Mentions(info, d.Rhs, rc[k].obj) {
				return true
			}
		}
		return false
	}
	for _, r := range rets {
		res := func(i int) types.Object {
			return carOf(tt.Resolve(info, body, rootExpr(info, r.Results[i]), 4)).obj
		}
		ok := isRec(r.Results[0], 0) && isRec(r.Results[1], 1) && isRec(r.Results[2], 4)
		if !ok {
			// a result computed from the recorded value in a way that is not followed
			shaped := false
			for i, k := range []int{0, 1, 4} {
				if !isRec(r.Results[i], k) && derivedFrom(r.Results[i], k) {
					shaped = true
				}
			}
			if shaped {
				c.Undecidedf("R3.gate", "LoadCheckpoint/result", r.Pos(), "a returned value is computed from the recorded checkpoint in a form that is not analysed (`%s`)", c.Src(r))
				continue
			}
		}
		if !ok && (res(0) == nil || res(1) == nil || res(2) == nil) {
			if _, isConst := core.IntConst(info, r.Results[2]); !isConst {
				c.Undecidedf("R3.gate", "LoadCheckpoint/result", r.Pos(), "cannot relate the returned values `%s` to the recorded checkpoint", c.Src(r))
				continue
			}
		}
		c.Check("R3.gate", "LoadCheckpoint/result", r.Pos(), ok, "LoadCheckpoint must return (run id, offset, db) of the newest checkpoint it recorded; `"+c.Src(r)+"` returns something else")
	}
	isRet := func(n ast.Node) bool {
		for _, r := range rets {
			if n == ast.Node(r) {
				return true
			}
		}
		return false
	}
	// version gate
	// the field utils.Checkpoint.FeatureCompatibleVersion, identified by its object (the selector may
	// be a copy made when a helper's facts were translated: no type is recorded for it)
	var fcField types.Object
	if pk := c.Pkg(pkgUtils); pk != nil {
		if tn, ok := pk.Types.Scope().Lookup("Checkpoint").(*types.TypeName); ok {
			if st, ok := tn.Type().Underlying().(*types.Struct); ok {
				for i := 0; i < st.NumFields(); i++ {
					if st.Field(i).Name() == "FeatureCompatibleVersion" {
						fcField = st.Field(i)
					}
				}
			}
		}
	}
	isFC := func(e ast.Expr) bool {
		s, ok := ast.Unparen(e).(*ast.SelectorExpr)
		return ok && fcField != nil && info.Uses[s.Sel] == fcField
	}
	relOf := func(f cfgq.Fact) (string, bool) { // relation version ? FC established by the fact
		be, ok := ast.Unparen(f.Expr).(*ast.BinaryExpr)
		if !ok {
			return "", false
		}
		op := be.Op
		rx, ry := tt.Resolve(info, body, be.X, 6), tt.Resolve(info, body, be.Y, 6)
		switch {
		case isRec(be.X, 2) && isFC(ry):
		case isRec(be.Y, 2) && isFC(rx):
			if m, ok := mirror[op]; ok {
				op = m
			}
		default:
			return "", false
		}
		set := map[token.Token]string{token.LSS: "<", token.LEQ: "<=", token.GTR: ">", token.GEQ: ">=", token.EQL: "=", token.NEQ: "<>"}[op]
		if set == "" {
			return "", false
		}
		if !f.Val {
			set = map[string]string{"<": ">=", "<=": ">", ">": "<=", ">=": "<", "=": "<>", "<>": "="}[set]
		}
		return set, true
	}
	notAbsent := func(f cfgq.Fact) bool {
		for _, t := range []struct {
			p   string
			val bool
		}{{"_v != -1", true}, {"_v == -1", false}, {"_v >= 0", true}, {"_v < 0", false}} {
			if b := pat.Expr(t.p).Match(info, f.Expr, nil); b != nil && f.Val == t.val && isRec(b["_v"].(ast.Expr), 2) {
				return true
			}
		}
		return false
	}
	gates, refused := 0, 0
	for _, b := range g.CFG.Blocks {
		if !b.Live {
			continue
		}
		for si := range b.Succs {
			// an edge that requires a constant to have the other value is never taken: no gate
			dead := false
			for _, f := range x.EdgeFacts(b, si) {
				if bv, isConst := tt.BoolConst(info, f.Expr); isConst && bv != f.Val {
					dead = true
				}
			}
			if dead {
				continue
			}
			for _, f := range x.EdgeFacts(b, si) {
				r, ok := relOf(f)
				if !ok {
					continue
				}
				gates++
				// flag- and nil-tracking search: `err = Errorf(..)` on this edge and `if err != nil { return }` later
				accepts := x.Reach(tt.ReachQuery{From: cfgq.Point{B: b}, FromSucc: si, Env: tt.Env{}, Target: isRet})
				switch {
				case r == "<" && accepts != nil && x.Shaky:
					c.Undecidedf("R3.gate", "LoadCheckpoint/version-gate", f.Expr.Pos(), "whether a checkpoint below FeatureCompatibleVersion is accepted depends on a call that is not evaluated")
				case r == "<" && accepts != nil:
					c.Check("R3.gate", "LoadCheckpoint/version-gate", f.Expr.Pos(), false, "a checkpoint whose version is below FeatureCompatibleVersion (written by an incompatible older release) is accepted and resumed", accepts...)
				case r == "<":
					refused++
					okAbsent := x.Establishes(b, si, notAbsent)
					if !okAbsent { // tested on an earlier branch
						okAbsent, _ = x.OnlyVia(cfgq.Point{}, b.Nodes[len(b.Nodes)-1], notAbsent)
					}
					c.Check("R3.gate", "LoadCheckpoint/version-gate", f.Expr.Pos(), okAbsent, "the refusal must not apply when no checkpoint was found (recorded version -1): otherwise a target without any checkpoint makes the start fail instead of reporting offset -1")
				case accepts == nil && (r == "<=" || r == ">=" || r == ">" || r == "="):
					c.Failf("R3.gate", "LoadCheckpoint/version-gate", f.Expr.Pos(), "a checkpoint with version %s FeatureCompatibleVersion is refused: the version this build writes itself (CurrentVersion=%d, FeatureCompatibleVersion=%d) cannot be resumed", r, st.cur, st.fc)
				}
			}
		}
	}
	if gates == 0 || refused == 0 && gates > 0 && !anyFailed(c, "LoadCheckpoint/version-gate") {
		mention := false // in a branch condition (the error text may mention it as well)
		for _, b := range g.CFG.Blocks {
			if cond := x.Cond(b); cond != nil && b.Live {
				// the condition with its boolean locals written out (whatever assigns them)
				var deep func(e ast.Expr, depth int)
				deep = func(e ast.Expr, depth int) {
					ast.Inspect(e, func(n ast.Node) bool {
						if ex, ok := n.(ast.Expr); ok && (isFC(ex) || isSel(ex, "IsCompatible")) {
							mention = true
						}
						if id, ok := n.(*ast.Ident); ok && depth > 0 {
							if o, isVar := core.ObjOf(info, id).(*types.Var); isVar && !o.IsField() {
								for _, d := range tt.DefsOf(info, body, o) {
									if d.Rhs != nil {
										deep(d.Rhs, depth-1)
									}
								}
							}
						}
						return !mention
					})
				}
				deep(cond, 3)
				ast.Inspect(cond, func(n ast.Node) bool {
					if e, ok := n.(ast.Expr); ok && (isFC(e) || isSel(e, "IsCompatible")) {
						mention = true
					}
					// a helper called in the condition may hold the comparison
					if call, ok := n.(*ast.CallExpr); ok {
						if h := c.FnOf(core.CalleeFunc(info, call)); h != nil && h.Decl.Body != nil && strings.HasPrefix(h.Obj.Pkg().Path(), core.Module) {
							ast.Inspect(h.Decl.Body, func(m ast.Node) bool {
								if s, ok := m.(*ast.SelectorExpr); ok && s.Sel.Name == "FeatureCompatibleVersion" {
									mention = true
								}
								return true
							})
						}
					}
					return true
				})
			}
		}
		if mention {
			c.Undecidedf("R3.gate", "LoadCheckpoint/version-gate", fn.Decl.Pos(), "the version test has an unrecognised form")
		} else {
			c.Failf("R3.gate", "LoadCheckpoint/version-gate", fn.Decl.Pos(), "LoadCheckpoint never compares the recorded version with FeatureCompatibleVersion: a checkpoint written by an incompatible older release (version 0 / no version field) is resumed")
		}
	}
	// run id "?" forces db -1
	marks := 0
	for _, b := range g.CFG.Blocks {
		if !b.Live {
			continue
		}
		for si := range b.Succs {
			for _, f := range x.EdgeFacts(b, si) {
				be, ok := ast.Unparen(f.Expr).(*ast.BinaryExpr)
				if !ok || (be.Op == token.EQL) != f.Val || be.Op != token.EQL && be.Op != token.NEQ {
					continue
				}
				var lit string
				var isStr bool
				if cr := carOf(be.X); cr.obj != nil && cr == rc[0] {
					lit, isStr = core.StringConst(info, be.Y)
				} else if cr := carOf(be.Y); cr.obj != nil && cr == rc[0] {
					lit, isStr = core.StringConst(info, be.X)
				}
				if !isStr {
					continue
				}
				marks++
				w := g.Path(cfgq.Query{From: cfgq.Point{B: b.Succs[si]}, Target: isRet, Avoid: func(n ast.Node) bool {
					if pat.Stmt("_d = -1").Match(info, n, nil) == nil && pat.Stmt("_d := -1").Match(info, n, nil) == nil {
						return false
					}
					lc := carOf(n.(*ast.AssignStmt).Lhs[0])
					return lc.obj != nil && (lc == rc[3] || lc == dbOut)
				}})
				c.Check("R3.gate", "LoadCheckpoint/unknown-runid", f.Expr.Pos(), w == nil && (st.unknown == "" || lit == st.unknown),
					fmt.Sprintf("when the newest checkpoint lacks a run id (fetchCheckpoint's marker %q, tested here as %q) the db must be reported as -1 so that every checkpoint is cleared and a full sync follows", st.unknown, lit), w...)
			}
		}
	}
	if marks == 0 {
		c.Undecidedf("R3.gate", "LoadCheckpoint/unknown-runid", fn.Decl.Pos(), "no test of the recorded run id against the 'unknown' marker found")
	}

	// ---- R5 (call side)
	if clear != nil {
		n := 0
		for _, call := range core.Calls(body, info, func(_ *ast.CallExpr, callee types.Object) bool { return callee == types.Object(clear.Obj) }) {
			n++
			same := func(a, b ast.Expr) bool { // the same value, seen through single-assignment copies
				return pat.Same(info, tt.Resolve(info, body, a, 6), tt.Resolve(info, body, b, 6))
			}
			okDb := len(call.Args) == 6 && isRec(call.Args[2], 4)
			if len(call.Args) == 6 && !okDb && derivedFrom(call.Args[2], 4) {
				c.Undecidedf("R5.clear", "LoadCheckpoint/call", call.Pos(), "the database handed to ClearCheckpoint is computed from the recorded one in a form that is not analysed")
				continue
			}
			okArgs := okDb && mpExpr != nil && same(call.Args[3], mpExpr)
			okSrc := false
			if srcExpr != nil && nameExpr != nil && len(call.Args) == 6 {
				okSrc = same(call.Args[4], srcExpr) && same(call.Args[5], nameExpr)
			}
			cp, _ := tt.Find(g, call)
			dom := g.Path(cfgq.Query{From: g.Entry(), Target: isRet, Avoid: func(nd ast.Node) bool { return nd == cp.Node() }}) == nil
			c.Check("R5.clear", "LoadCheckpoint/call", call.Pos(), okArgs && okSrc && dom, "before returning, ClearCheckpoint must be called with the chosen db as the exception, the same database list, source address and checkpoint name: otherwise stale checkpoints of this source survive or the chosen one is deleted")
		}
		if n == 0 {
			if tt.ReachesFunc(c.Program, info, body, clear.Obj, 3) {
				c.Undecidedf("R5.clear", "LoadCheckpoint/call", fn.Decl.Pos(), "ClearCheckpoint is used through a helper or a function value: the call is not analysed in that form")
			} else {
				c.Failf("R5.clear", "LoadCheckpoint/call", fn.Decl.Pos(), "LoadCheckpoint never calls ClearCheckpoint: stale checkpoints of this source are not removed")
			}
		}
	}
}

// denotes: e is the variable o, seen through conversions and single-assignment copies.
func denotes(info *types.Info, root ast.Node, e ast.Expr, o types.Object) bool {
	if o == nil {
		return false
	}
	cur := rootExpr(info, e)
	for i := 0; i < 6; i++ {
		if localObj(info, cur) == o {
			return true
		}
		next := rootExpr(info, tt.Resolve(info, root, cur, 1))
		if next == cur {
			return false
		}
		cur = next
	}
	return false
}

// rootExpr strips conversions.
func rootExpr(info *types.Info, e ast.Expr) ast.Expr {
	for {
		e = ast.Unparen(e)
		call, ok := e.(*ast.CallExpr)
		if !ok || len(call.Args) != 1 {
			return e
		}
		if tv, ok := info.Types[call.Fun]; !ok || !tv.IsType() {
			return e
		}
		e = call.Args[0]
	}
}

func anyFailed(c *core.Ctx, key string) bool {
	for _, o := range c.Obs {
		if o.Key == key && o.Status == "FAIL" {
			return true
		}
	}
	return false
}

// ---------------------------------------------------------------------------
// R5: ClearCheckpoint

func isDo(info *types.Info, call *ast.CallExpr, cmd string) bool {
	sel, ok := ast.Unparen(call.Fun).(*ast.SelectorExpr)
	if !ok || sel.Sel.Name != "Do" || len(call.Args) == 0 {
		return false
	}
	if cmd == "" {
		return true
	}
	s, ok := core.StringConst(info, call.Args[0])
	return ok && strings.EqualFold(s, cmd)
}

func (st *state) clearer(fn *core.Fn) {
	c := st.c
	info := fn.Pkg.TypesInfo
	view := tt.ViewOf(c.Program, fn, "c14", st.opaque)
	body := view.Body
	g := view.G
	x := view.X(c.Program)
	hdels := g.Points(g.HasCall(func(call *ast.CallExpr, _ types.Object) bool { return isDo(info, call, "hdel") }))
	if len(hdels) != 1 {
		c.Undecidedf("R5.clear", "ClearCheckpoint/hdel", fn.Decl.Pos(), "expected one `c.Do(\"hdel\", ...)`, found %d", len(hdels))
		return
	}
	hp := hdels[0]
	var hdel *ast.CallExpr
	for _, call := range cfgq.ExecCalls(hp.Node()) {
		if isDo(info, call, "hdel") {
			hdel = call
		}
	}
	// names
	okNames, hasOffset, detail := len(hdel.Args) > 2, false, ""
	opaqueNames := hdel.Ellipsis.IsValid() // `hdel key fields...`: the names are in a slice
	for _, a := range hdel.Args[2:] {
		f := evalName(info, body, a, 3)
		if len(f) == 1 && f[0].hole != nil {
			opaqueNames = true // the expression cannot be evaluated to a name at all
		}
		role := ""
		for r, w := range st.writer {
			if sameShape(f, w) {
				role = r
			}
		}
		hs := f.holes()
		if role == "" || len(hs) != 1 || paramIndex(info, fn, hs[0]) < 0 {
			okNames = false
			detail += fmt.Sprintf(" %q is not a field the sender writes for this source;", f)
		}
		if role == "offset" {
			hasOffset = true
		}
	}
	if len(st.writer) < 3 {
		c.Undecidedf("R5.clear", "ClearCheckpoint/names", hdel.Pos(), "the sender's field names are unknown")
	} else if opaqueNames || len(hdel.Args) <= 2 {
		c.Undecidedf("R5.clear", "ClearCheckpoint/names", hdel.Pos(), "the field names handed to hdel cannot be evaluated")
	} else {
		c.Check("R5.clear", "ClearCheckpoint/names", hdel.Pos(), okNames && hasOffset, "ClearCheckpoint must delete the fields the sender writes for this source, the offset among them:"+detail+" otherwise a stale, possibly larger offset of this source survives in another database and is resumed later")
	}
	loop, _ := x.LoopOf(hdel).(*ast.RangeStmt)
	if loop == nil {
		// a counting loop: the databases it visits are the numbers its counter runs through, not the
		// keys of the keyspace map (unless it indexes a list of those keys)
		if fs, isFor := x.LoopOf(hdel).(*ast.ForStmt); isFor {
			if list, _ := tt.LoopElem(info, fs); list == nil {
				var counter types.Object
				switch post := fs.Post.(type) {
				case *ast.IncDecStmt:
					counter = localObj(info, post.X)
				case *ast.AssignStmt:
					if len(post.Lhs) == 1 {
						counter = localObj(info, post.Lhs[0])
					}
				}
				usedAsDb := false
				if counter != nil {
					ast.Inspect(fs.Body, func(n ast.Node) bool {
						if call, ok := n.(*ast.CallExpr); ok && isDo(info, call, "select") && len(call.Args) == 2 && tt.MentionsResolved(info, body, call.Args[1], counter, 2) {
							usedAsDb = true
						}
						return true
					})
				}
				numeric := false
				if counter != nil {
					if b, ok := counter.Type().Underlying().(*types.Basic); ok && b.Info()&types.IsInteger != 0 {
						numeric = true
					}
				}
				if usedAsDb && numeric {
					c.Failf("R5.clear", "ClearCheckpoint/loop", fs.Pos(), "the databases that are cleaned are the numbers the counter `%s` runs through (`%s`), not the databases listed in the keyspace map: with data in db0 and db3 only, the loop visits db0 and db1 and a stale checkpoint of this source in db3 survives and is resumed later", counter.Name(), c.Src(fs.Cond))
					return
				}
			}
		}
		c.Undecidedf("R5.clear", "ClearCheckpoint/loop", hdel.Pos(), "hdel is not inside a range loop over the databases")
		return
	}
	// the loop ranges over the keyspace map handed in (the databases that exist on the target)
	{
		rx := tt.Resolve(info, body, loop.X, 4)
		_, isMap := info.TypeOf(loop.X).Underlying().(*types.Map)
		switch {
		case isMap && paramIndex(info, fn, rx) >= 0 && loop.Key != nil:
			c.Okf("R5.clear", "ClearCheckpoint/loop", loop.Pos(), "the databases cleaned are the keys of the keyspace map")
		case isMap && loop.Key != nil:
			c.Undecidedf("R5.clear", "ClearCheckpoint/loop", loop.Pos(), "the map `%s` that is ranged over is not the keyspace map parameter", c.Src(loop.X))
		default:
			c.Undecidedf("R5.clear", "ClearCheckpoint/loop", loop.Pos(), "the sequence `%s` that is ranged over is not recognised as the databases of the keyspace map", c.Src(loop.X))
		}
	}
	if loop.Key == nil {
		return
	}
	db := localObj(info, loop.Key)
	// skip exactly exceptDb
	skip := func(f cfgq.Fact) bool {
		be, ok := ast.Unparen(f.Expr).(*ast.BinaryExpr)
		if !ok || be.Op != token.EQL && be.Op != token.NEQ || (be.Op == token.EQL) == f.Val {
			return false
		}
		l, r := localObj(info, be.X), localObj(info, be.Y)
		return l == db && paramIndex(info, fn, be.Y) >= 0 || r == db && paramIndex(info, fn, be.X) >= 0
	}
	ok, w := x.OnlyVia(cfgq.Point{}, hp.Node(), skip)
	c.Check("R5.clear", "ClearCheckpoint/skips-chosen-db", hp.Node().Pos(), ok, "hdel must be reachable only for db != exceptDb: otherwise the checkpoint that was just chosen for the resume is deleted", w...)
	// every other db is cleared: from the skip-false edge the hdel is reached unless an error is returned
	var w2 []string
	for _, b := range g.CFG.Blocks {
		for si := range b.Succs {
			if b.Live && x.Establishes(b, si, skip) {
				w2 = g.Path(cfgq.Query{From: cfgq.Point{B: b.Succs[si]}, Avoid: func(n ast.Node) bool { return n == hp.Node() },
					Target: func(n ast.Node) bool { return false },
					TargetExit: func(bk *cfg.Block, k cfgq.ExitKind) bool {
						if k != cfgq.ExitRet {
							return k == cfgq.ExitFall
						}
						return cfgq.ClassifyReturn(info, body, bk.Nodes[len(bk.Nodes)-1].(*ast.ReturnStmt)) != cfgq.RetErr
					}})
			}
		}
	}
	c.Check("R5.clear", "ClearCheckpoint/clears-others", hp.Node().Pos(), w2 == nil, "every database other than the chosen one is cleared (unless an error is returned): stale checkpoints of this source are removed", w2...)
	// select before hdel with the loop's db
	dom, w3 := g.Dominated(hp, g.HasCall(func(call *ast.CallExpr, _ types.Object) bool {
		return isDo(info, call, "select") && len(call.Args) == 2 && localObj(info, call.Args[1]) == db && x.LoopOf(call) == ast.Stmt(loop)
	}))
	c.Check("R5.clear", "ClearCheckpoint/select-before-hdel", hp.Node().Pos(), dom, "each database is selected before its checkpoint fields are deleted: otherwise the fields are deleted in the wrong database (possibly the chosen one)", w3...)
}

// ---------------------------------------------------------------------------
// R6: error discipline of c.Do

func (st *state) errors(fn *core.Fn) {
	c := st.c
	info := fn.Pkg.TypesInfo
	view := tt.ViewOf(c.Program, fn, "c14", st.opaque)
	body := view.Body
	g := view.G
	x := view.X(c.Program)
	for _, p := range g.Points(g.HasCall(func(call *ast.CallExpr, _ types.Object) bool { return isDo(info, call, "") })) {
		var call *ast.CallExpr
		for _, cl := range cfgq.ExecCalls(p.Node()) {
			if isDo(info, cl, "") {
				call = cl
			}
		}
		cmd, _ := core.StringConst(info, call.Args[0])
		key := fn.Decl.Name.Name + "/" + cmd
		as, ok := p.Node().(*ast.AssignStmt)
		var errObj types.Object
		if ok && len(as.Lhs) == 2 && len(as.Rhs) == 1 && ast.Unparen(as.Rhs[0]) == ast.Expr(call) {
			if id, ok := as.Lhs[1].(*ast.Ident); ok && id.Name != "_" {
				errObj = core.ObjOf(info, id)
			}
		}
		if errObj == nil {
			c.Failf("R6.errors", key, call.Pos(), "the error of c.Do(%q) is discarded: a failed command is taken for 'no checkpoint' / 'cleared'", cmd)
			continue
		}
		// the error may be handed on through copies (the result of an inlined helper: `err = err1`)
		alias := map[types.Object]bool{errObj: true}
		for changed := true; changed; {
			changed = false
			core.Inspect(body, func(n ast.Node) bool {
				if as, ok := n.(*ast.AssignStmt); ok && len(as.Lhs) == len(as.Rhs) {
					for i := range as.Rhs {
						if r, l := core.ObjOf(info, ast.Unparen(as.Rhs[i])), core.ObjOf(info, ast.Unparen(as.Lhs[i])); r != nil && l != nil && alias[r] && !alias[l] {
							if _, isId := ast.Unparen(as.Rhs[i]).(*ast.Ident); isId && cfgq.IsErrorType(l.Type()) {
								alias[l] = true
								changed = true
							}
						}
					}
				}
				return true
			})
		}
		isAliasCopy := func(as *ast.AssignStmt) bool { // `err = err1` between aliases is not an overwrite
			if len(as.Lhs) != len(as.Rhs) {
				return false
			}
			for i := range as.Lhs {
				if l := core.ObjOf(info, ast.Unparen(as.Lhs[i])); l != nil && alias[l] {
					if r := core.ObjOf(info, ast.Unparen(as.Rhs[i])); r == nil || !alias[r] {
						return false
					}
				}
			}
			return true
		}
		isErrFact := func(f cfgq.Fact) bool {
			be, ok := ast.Unparen(f.Expr).(*ast.BinaryExpr)
			return ok && (be.Op == token.NEQ || be.Op == token.EQL) && (core.IsNil(info, be.Y) && alias[core.ObjOf(info, be.X)] || core.IsNil(info, be.X) && alias[core.ObjOf(info, be.Y)])
		}
		// tested before it is overwritten or the function returns normally
		w := g.Path(cfgq.Query{From: p, After: true,
			AvoidEdge: func(b *cfg.Block, si int) bool { return x.Establishes(b, si, isErrFact) },
			Target: func(n ast.Node) bool {
				as, ok := n.(*ast.AssignStmt)
				if !ok {
					return false
				}
				if isAliasCopy(as) {
					return false
				}
				for _, l := range as.Lhs {
					if id, ok := l.(*ast.Ident); ok && alias[core.ObjOf(info, id)] {
						return true
					}
				}
				return false
			},
			TargetExit: cfgq.NormalExit})
		// the non-nil edge leads to error returns only
		var w2 []string
		shaky := false
		for _, b := range g.CFG.Blocks {
			for si := range b.Succs {
				if !b.Live || w2 != nil || !x.Establishes(b, si, func(f cfgq.Fact) bool {
					be, ok := ast.Unparen(f.Expr).(*ast.BinaryExpr)
					return ok && isErrFact(f) && (be.Op == token.NEQ) == f.Val
				}) {
					continue
				}
				if ok, _ := g.Dominated(cfgq.Point{B: b, I: len(b.Nodes) - 1}, func(n ast.Node) bool { return n == p.Node() }); !ok {
					continue
				}
				w2 = g.Path(cfgq.Query{From: cfgq.Point{B: b.Succs[si]}, TargetExit: func(bk *cfg.Block, k cfgq.ExitKind) bool {
					if k == cfgq.ExitRet {
						return cfgq.ClassifyReturn(info, body, bk.Nodes[len(bk.Nodes)-1].(*ast.ReturnStmt)) != cfgq.RetErr
					}
					return k == cfgq.ExitFall
				}})
				if w2 != nil {
					// the error may travel through copies (`err := err1` at the exit of an inlined helper)
					// before it is tested again: the nil-tracking search follows them
					fall := g.Path(cfgq.Query{From: cfgq.Point{B: b.Succs[si]}, TargetExit: func(_ *cfg.Block, k cfgq.ExitKind) bool { return k == cfgq.ExitFall }})
					if fall == nil {
						w2 = x.Reach(tt.ReachQuery{From: cfgq.Point{B: b}, FromSucc: si, Env: tt.Env{}, Target: func(n ast.Node) bool {
							r, isRet := n.(*ast.ReturnStmt)
							return isRet && cfgq.ClassifyReturn(info, body, r) != cfgq.RetErr
						}})
						if w2 != nil && x.Shaky {
							w2 = nil
							shaky = true
						}
					}
				}
			}
		}
		if shaky && w == nil && w2 == nil {
			c.Undecidedf("R6.errors", key, call.Pos(), "whether a failed c.Do(%q) ends in an error return depends on a call that is not evaluated", cmd)
			continue
		}
		c.Check("R6.errors", key, call.Pos(), w == nil && w2 == nil, fmt.Sprintf("the error of c.Do(%q) must be tested and a failure must end in an error return: otherwise a failed command is taken for 'no checkpoint' / 'cleared'", cmd), append(w, w2...)...)
	}
}
