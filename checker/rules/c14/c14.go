// Package c14 decides the structural clauses of property C14 (checkpoint
// resume: own source, newest offset, version gate, writer/reader agreement).
package c14

import (
	"golang.org/x/tools/go/packages"

	"fmt"
	"go/ast"
	"go/token"
	"go/types"
	"strings"

	"rscheck/cfgq"
	"rscheck/core"
	"rscheck/driver"
	"rscheck/pat"
	"rscheck/rules/c06/tt"
)

const (
	pkgCk    = "redis-shake/checkpoint"
	pkgSync  = "redis-shake/dbSync"
	pkgUtils = "redis-shake/common"
)

var Def = driver.PropDef{
	ID: "C14",
	Explanation: "Structural necessary conditions of checkpoint resume: " +
		"R1 writer/reader name agreement (the three hash fields the sender writes with `hset` are evaluated symbolically to '<source>-<constant>'; fetchCheckpoint must select each value by equality with the same name built from its own source address; ClearCheckpoint deletes names the sender writes); " +
		"R2 newest wins (the four rec* variables are assigned together, only under `offset > newest`, newest starts at -1, every database of ParseKeyspace is visited); " +
		"R3 gates (a version below FeatureCompatibleVersion leads to an error unless no checkpoint was found; run id '?' forces db -1; the results are the recorded run id, offset and db; CurrentVersion >= FeatureCompatibleVersion); " +
		"R4 defaults of fetchCheckpoint ('?', -1, version below the compatible one; absent key reports -1; stride 2); " +
		"R5 clearing (skips exactly the chosen db, selects before hdel, called with the chosen db and the same source); " +
		"R6 every c.Do error is tested and leads to an error return; " +
		"R7 selected database (the scan uses one connection for all databases: every keyed command of fetchCheckpoint is preceded on every path by a SELECT of the database handed in, on that connection - a SELECT skipped on a condition over the database number alone reads the database the previous call left selected); " +
		"R8 database tag (the tag parseSourceCommand puts on queued commands is the key under which the sender remembers that a database holds this session's run id and version: before the first SELECT a variable carrying it may only hold a value that is no database, or the start database of the resume).",
	NotDecided: "the statement over all target histories (which fields exist at run time); accuracy of `info keyspace` on proxies; parsing inside ParseKeyspace beyond its use as the database list.",
	Trusted:    []string{"go/parser, go/types, go/cfg (x/tools v0.29.0)", "fmt.Sprintf %s/%v/%d rendering", "redigo Conn.Do/Send semantics (HGETALL returns field,value pairs)"},
	Run:        Run,
}

var roles = []string{"runid", "offset", "version"}

// ---------------------------------------------------------------------------
// symbolic evaluation of field-name expressions

type seg struct {
	lit  string
	hole ast.Expr
}
type form []seg

func (f form) String() string {
	var b strings.Builder
	for _, s := range f {
		if s.hole != nil {
			b.WriteString("<addr>")
		} else {
			b.WriteString(s.lit)
		}
	}
	return b.String()
}

func (f form) holes() []ast.Expr {
	var out []ast.Expr
	for _, s := range f {
		if s.hole != nil {
			out = append(out, s.hole)
		}
	}
	return out
}

func norm(f form) form {
	var out form
	for _, s := range f {
		if s.hole == nil && len(out) > 0 && out[len(out)-1].hole == nil {
			out[len(out)-1].lit += s.lit
			continue
		}
		if s.hole == nil && s.lit == "" {
			continue
		}
		out = append(out, s)
	}
	return out
}

// frame is one function body on a (static) helper call chain: the body in which locals are
// looked up, the binding of its parameters to the caller's arguments and the caller's frame.
type frame struct {
	root    ast.Node
	bind    map[types.Object]ast.Expr
	up      *frame
	closure bool   // a function literal: the frames above it are its lexical scope
	iter    string // the row of an unrolled table loop this frame stands for
}

// resolveF follows e through parameter bindings, single-assignment locals and the fields of
// struct literals, and returns the defining expression with the frame it belongs to.
func resolveF(info *types.Info, fr *frame, e ast.Expr, depth int) (ast.Expr, *frame) {
	for ; depth > 0 && fr != nil; depth-- {
		e = ast.Unparen(e)
		switch v := e.(type) {
		case *ast.Ident:
			o := core.ObjOf(info, v)
			bound := false
			for f := fr; f != nil && o != nil; f = f.up {
				if b, ok := f.bind[o]; ok && f.up != nil {
					e, fr, bound = b, f.up, true
					break
				}
				if !f.closure {
					break
				}
			}
			if bound {
				continue
			}
			if d, ok := tt.SingleDef(info, fr.root, v); ok && d.Rhs != nil && d.Index == -1 && d.Range == nil {
				e = d.Rhs
				continue
			}
		case *ast.SelectorExpr:
			if core.FieldOf(info, v) == nil {
				return e, fr
			}
			base, bfr := resolveF(info, fr, v.X, depth-1)
			if u, ok := ast.Unparen(base).(*ast.UnaryExpr); ok && u.Op == token.AND {
				base = u.X
			}
			lit, ok := ast.Unparen(base).(*ast.CompositeLit)
			if !ok {
				return e, fr
			}
			var val ast.Expr
			for k, el := range lit.Elts {
				if kv, ok := el.(*ast.KeyValueExpr); ok {
					if id, ok := kv.Key.(*ast.Ident); ok && id.Name == v.Sel.Name {
						val = kv.Value
					}
				} else if st, ok := info.TypeOf(lit).Underlying().(*types.Struct); ok && k < st.NumFields() && st.Field(k).Name() == v.Sel.Name {
					val = el
				}
			}
			if val == nil {
				return e, fr
			}
			e, fr = val, bfr
			continue
		case *ast.IndexExpr:
			// a local map (or slice) used as a table: written only as `t[<constant>] = v`, directly or
			// in a loop over a literal of constants, and read back with a constant key
			if val, vfr := tableRead(info, fr, v); val != nil {
				e, fr = val, vfr
				continue
			}
			return e, fr
		case *ast.CallExpr:
			// a constructor of the same package: `func newFields(src string) T { return T{..} }`
			if calleeBody == nil {
				return e, fr
			}
			params, body := calleeBody(v)
			closure := false
			if id, isId := ast.Unparen(v.Fun).(*ast.Ident); isId && body == nil {
				// a closure bound once to a local: fieldOf := func(suffix string) string { return source + "-" + suffix }
				if r, _ := resolveF(info, fr, id, 3); r != ast.Expr(id) {
					if lit, isLit := ast.Unparen(r).(*ast.FuncLit); isLit {
						body, closure = lit.Body, true
						params = nil
						for _, fl := range lit.Type.Params.List {
							for _, n := range fl.Names {
								params = append(params, info.Defs[n])
							}
						}
					}
				}
			}
			if body == nil || len(body.List) != 1 || len(params) != len(v.Args) || v.Ellipsis.IsValid() {
				return e, fr
			}
			ret, ok := body.List[0].(*ast.ReturnStmt)
			if !ok || len(ret.Results) != 1 {
				return e, fr
			}
			bind := map[types.Object]ast.Expr{}
			for i, p := range params {
				if p != nil {
					bind[p] = v.Args[i]
				}
			}
			nf := &frame{root: body, bind: bind, up: fr, closure: closure}
			if closure {
				nf.root = fr.root
			}
			e, fr = ret.Results[0], nf
			continue
		}
		return e, fr
	}
	return e, fr
}

// calleeBody (set by Run) returns the parameters and the body of a same-package function.
var calleeBody func(call *ast.CallExpr) ([]types.Object, *ast.BlockStmt)

// evalName evaluates a string expression to literal text with holes.
func evalName(info *types.Info, root ast.Node, e ast.Expr, depth int) form {
	return evalNameF(info, &frame{root: root}, e, depth)
}

func evalNameF(info *types.Info, fr *frame, e ast.Expr, depth int) form {
	e = ast.Unparen(e)
	if s, ok := core.StringConst(info, e); ok {
		return form{{lit: s}}
	}
	// string(x), []byte(x): the same text
	if call, ok := e.(*ast.CallExpr); ok && len(call.Args) == 1 {
		if tv, ok := info.Types[call.Fun]; ok && tv.IsType() {
			if b, ok := tv.Type.Underlying().(*types.Basic); ok && b.Info()&types.IsString != 0 {
				return evalNameF(info, fr, call.Args[0], depth)
			}
			if sl, ok := tv.Type.Underlying().(*types.Slice); ok {
				if b, ok := sl.Elem().Underlying().(*types.Basic); ok && b.Kind() == types.Byte {
					return evalNameF(info, fr, call.Args[0], depth)
				}
			}
		}
	}
	switch v := e.(type) {
	case *ast.Ident, *ast.SelectorExpr:
		if r, rfr := resolveF(info, fr, e, 6); r != e && depth > 0 {
			return evalNameF(info, rfr, r, depth-1)
		}
	case *ast.BinaryExpr:
		if v.Op == token.ADD {
			return norm(append(evalNameF(info, fr, v.X, depth), evalNameF(info, fr, v.Y, depth)...))
		}
	case *ast.CallExpr:
		// strings.Join([]string{a, b, c}, sep) is a + sep + b + sep + c
		if f := core.CalleeFunc(info, v); f != nil && f.Pkg() != nil && f.Pkg().Path() == "strings" && f.Name() == "Join" && len(v.Args) == 2 {
			if sep, ok := core.StringConst(info, v.Args[1]); ok {
				parts, pfr := resolveF(info, fr, v.Args[0], 4)
				if lit, ok := ast.Unparen(parts).(*ast.CompositeLit); ok {
					var out form
					okParts := true
					for i, el := range lit.Elts {
						if _, keyed := el.(*ast.KeyValueExpr); keyed {
							okParts = false
							break
						}
						if i > 0 {
							out = append(out, seg{lit: sep})
						}
						out = append(out, evalNameF(info, pfr, el, depth)...)
					}
					if okParts {
						return norm(out)
					}
				}
			}
		}
		if f := core.CalleeFunc(info, v); f != nil && f.Pkg() != nil && f.Pkg().Path() == "fmt" && f.Name() == "Sprintf" && len(v.Args) >= 1 {
			if fs, ok := core.StringConst(info, v.Args[0]); ok {
				var out form
				arg := 1
				for i := 0; i < len(fs); i++ {
					if fs[i] != '%' {
						out = append(out, seg{lit: string(fs[i])})
						continue
					}
					i++
					if i >= len(fs) {
						return form{{hole: e}}
					}
					switch fs[i] {
					case '%':
						out = append(out, seg{lit: "%"})
					case 's', 'v', 'd':
						if arg >= len(v.Args) {
							return form{{hole: e}}
						}
						out = append(out, evalNameF(info, fr, v.Args[arg], depth)...)
						arg++
					default:
						return form{{hole: e}}
					}
				}
				return norm(out)
			}
		}
	}
	return form{{hole: e}}
}

// sameShape: equal literal parts and holes at the same positions.
func sameShape(a, b form) bool {
	if len(a) != len(b) {
		return false
	}
	for i := range a {
		if (a[i].hole == nil) != (b[i].hole == nil) || a[i].lit != b[i].lit {
			return false
		}
	}
	return true
}

// ---------------------------------------------------------------------------

type state struct {
	c       *core.Ctx
	writer  map[string]form // role -> name the sender writes
	fc, cur int64           // FcvCheckpoint constants
	okFcv   bool
	unknown string                 // default run id of fetchCheckpoint
	opaque  func(*types.Func) bool // the anchored functions stay calls in every view
}

func Run(c *core.Ctx) {
	st := &state{c: c, writer: map[string]form{}}
	calleeBody = func(call *ast.CallExpr) ([]types.Object, *ast.BlockStmt) {
		for _, pk := range c.Pkgs {
			if pk.TypesInfo == nil {
				continue
			}
			f := core.CalleeFunc(pk.TypesInfo, call)
			if f == nil {
				continue
			}
			h := c.FnOf(f)
			if h == nil || h.Decl.Body == nil || h.Pkg.TypesInfo != pk.TypesInfo || h.Obj.Type().(*types.Signature).Variadic() {
				return nil, nil
			}
			var params []types.Object
			for _, fl := range h.Decl.Type.Params.List {
				for _, n := range fl.Names {
					params = append(params, pk.TypesInfo.Defs[n])
				}
				if len(fl.Names) == 0 {
					params = append(params, nil)
				}
			}
			return params, h.Decl.Body
		}
		return nil, nil
	}
	st.fcv()
	st.sender()
	st.dbTag()
	fetch := c.Func(pkgCk, "", "fetchCheckpoint")
	load := c.Func(pkgCk, "", "LoadCheckpoint")
	clear := c.Func(pkgCk, "", "ClearCheckpoint")
	st.opaque = func(f *types.Func) bool {
		for _, a := range []*core.Fn{fetch, load, clear} {
			if a != nil && a.Obj == f {
				return true
			}
		}
		return false
	}
	if pk := c.Func(pkgUtils, "", "ParseKeyspace"); pk != nil && pk.Decl.Body != nil {
		st.keyspace(pk)
	}
	if fetch != nil {
		st.reader(fetch, 1)
		st.selected(fetch, load)
	}
	if load != nil && fetch != nil {
		st.loader(load, fetch, clear)
	}
	if clear != nil {
		st.clearer(clear)
	}
	for _, fn := range []*core.Fn{load, fetch, clear} {
		if fn != nil {
			st.errors(fn)
		}
	}
	c.Expect("R1.writer", 3)
	c.Expect("R1.reader", 3)
	c.Expect("R2.newest", 8)
	c.Expect("R3.gate", 4)
	c.Expect("R4.defaults", 5)
	c.Expect("R5.clear", 4)
	c.Expect("R6.errors", 6)
	c.Expect("R7.selected-db", 2)
	c.Expect("R8.db-tag", 1)
}

// fcv reads the FcvCheckpoint composite literal.
func (st *state) fcv() {
	c := st.c
	pk := c.Pkg(pkgUtils)
	if pk == nil {
		c.Undecidedf("anchor", pkgUtils, token.NoPos, "package not loaded")
		return
	}
	got := map[string]int64{}
	var pos token.Pos
	for _, f := range pk.Syntax {
		ast.Inspect(f, func(n ast.Node) bool {
			vs, ok := n.(*ast.ValueSpec)
			if !ok {
				return true
			}
			for i, name := range vs.Names {
				if name.Name != "FcvCheckpoint" || i >= len(vs.Values) {
					continue
				}
				pos = name.Pos()
				if lit, ok := vs.Values[i].(*ast.CompositeLit); ok {
					for _, el := range lit.Elts {
						if kv, ok := el.(*ast.KeyValueExpr); ok {
							if k, ok := kv.Key.(*ast.Ident); ok {
								if v, ok := core.IntConst(pk.TypesInfo, kv.Value); ok {
									got[k.Name] = v
								}
							}
						}
					}
				}
			}
			return true
		})
	}
	cur, ok1 := got["CurrentVersion"]
	fc, ok2 := got["FeatureCompatibleVersion"]
	if !ok1 || !ok2 {
		c.Undecidedf("R3.gate", "FcvCheckpoint/constants", pos, "cannot read CurrentVersion/FeatureCompatibleVersion of utils.FcvCheckpoint")
		return
	}
	st.fc, st.cur, st.okFcv = fc, cur, true
	c.Check("R3.gate", "FcvCheckpoint/constants", pos, cur >= fc && fc >= 0,
		fmt.Sprintf("the version the sender writes (CurrentVersion=%d) must satisfy the loader's gate (FeatureCompatibleVersion=%d): otherwise every checkpoint this build writes is refused by this build", cur, fc))
}

func isSourceField(info *types.Info, e ast.Expr) bool {
	f := core.FieldOf(info, e)
	return f != nil && f.Name() == "Source" && f.Pkg() != nil && strings.HasSuffix(f.Pkg().Path(), "/dbSync/slot")
}

// sender: the `hset` sends of sendTargetCommand.
func isSel(e ast.Expr, name string) bool {
	s, ok := e.(*ast.SelectorExpr)
	return ok && s.Sel.Name == name
}

func paramIndex(info *types.Info, fn *core.Fn, e ast.Expr) int {
	id, ok := ast.Unparen(e).(*ast.Ident)
	if !ok {
		return -1
	}
	o := core.ObjOf(info, id)
	i := 0
	for _, f := range fn.Decl.Type.Params.List {
		for _, n := range f.Names {
			if info.Defs[n] == o {
				return i
			}
			i++
		}
	}
	return -1
}

// strip conversions.
func rootIdent(info *types.Info, e ast.Expr) *ast.Ident {
	for {
		switch v := ast.Unparen(e).(type) {
		case *ast.Ident:
			return v
		case *ast.CallExpr:
			if tv, ok := info.Types[v.Fun]; ok && tv.IsType() && len(v.Args) == 1 {
				e = v.Args[0]
				continue
			}
		}
		return nil
	}
}

func localObj(info *types.Info, e ast.Expr) types.Object {
	if e == nil {
		return nil
	}
	id := rootIdent(info, e)
	if id == nil {
		return nil
	}
	if v, ok := core.ObjOf(info, id).(*types.Var); ok && !v.IsField() {
		return v
	}
	return nil
}

func successReturns(info *types.Info, body *ast.BlockStmt) []*ast.ReturnStmt {
	var out []*ast.ReturnStmt
	core.Inspect(body, func(n ast.Node) bool {
		if r, ok := n.(*ast.ReturnStmt); ok && len(r.Results) == 4 && core.IsNil(info, r.Results[3]) {
			out = append(out, r)
		}
		return true
	})
	return out
}

// ---------------------------------------------------------------------------
// R1 reader + R4 defaults: fetchCheckpoint

func (st *state) reader(fn *core.Fn, depth int) {
	c := st.c
	info := fn.Pkg.TypesInfo
	view := tt.ViewOf(c.Program, fn, "c14", st.opaque)
	body := view.Body
	g := view.G
	x := view.X(c.Program)

	// the scanning return: results are variables
	var scan *ast.ReturnStmt
	for _, r := range successReturns(info, body) {
		if _, isConst := core.IntConst(info, r.Results[1]); isConst {
			v, _ := core.IntConst(info, r.Results[1])
			c.Check("R4.defaults", "fetchCheckpoint/absent-offset", r.Pos(), v == -1, "a database without the checkpoint key must report offset -1 (so that it is never the newest and a full sync follows when no checkpoint exists)")
			continue
		}
		if scan != nil {
			c.Undecidedf("R1.reader", "fetchCheckpoint/return", r.Pos(), "more than one non-constant success return")
			return
		}
		scan = r
	}
	if scan == nil {
		// the reply is scanned by a helper of the same package: `return parse(sourceAddr, reply)`
		var helper *core.Fn
		core.Inspect(body, func(n ast.Node) bool {
			if r, ok := n.(*ast.ReturnStmt); ok && len(r.Results) == 1 {
				if call, ok := ast.Unparen(r.Results[0]).(*ast.CallExpr); ok {
					if h := c.FnOf(core.CalleeFunc(info, call)); h != nil && h.Decl.Body != nil && h.Pkg.TypesInfo == info && h.Obj != fn.Obj {
						helper = h
					}
				}
			}
			return true
		})
		if helper != nil && depth > 0 {
			st.reader(helper, depth-1)
			return
		}
		c.Undecidedf("R1.reader", "fetchCheckpoint/return", fn.Decl.Pos(), "no `return runId, offset, version, nil` found")
		return
	}
	var vars [3]types.Object
	for k := 0; k < 3; k++ {
		vars[k] = localObj(info, scan.Results[k])
		if vars[k] == nil {
			c.Undecidedf("R1.reader", "fetchCheckpoint/return", scan.Pos(), "result %d is not a local variable", k)
			return
		}
	}
	// defaults
	zeroDecl := func(o types.Object) bool { // `var version int64`: the zero value
		for _, d := range tt.DefsOf(info, body, o) {
			if _, isDecl := d.Stmt.(*ast.ValueSpec); isDecl && d.Rhs == nil && d.Index == -1 {
				return true
			}
		}
		return false
	}
	initOf := func(o types.Object) ast.Expr {
		var e ast.Expr
		for _, d := range tt.DefsOf(info, body, o) {
			if d.Rhs != nil && d.Index == -1 {
				if tv, ok := info.Types[d.Rhs]; ok && tv.Value != nil {
					e = d.Rhs
				}
			}
		}
		return e
	}
	if e := initOf(vars[0]); e != nil {
		st.unknown, _ = core.StringConst(info, e)
		c.Check("R4.defaults", "fetchCheckpoint/default-runid", e.Pos(), st.unknown != "", "the run id starts as a non-empty 'unknown' marker")
	} else {
		c.Undecidedf("R4.defaults", "fetchCheckpoint/default-runid", scan.Pos(), "no constant initial value of the run id")
	}
	if e := initOf(vars[1]); e != nil {
		v, _ := core.IntConst(info, e)
		c.Check("R4.defaults", "fetchCheckpoint/default-offset", e.Pos(), v == -1, fmt.Sprintf("the offset starts at -1, found %d: a checkpoint hash without this source's offset field would be taken for a checkpoint at offset %d", v, v))
	} else {
		c.Undecidedf("R4.defaults", "fetchCheckpoint/default-offset", scan.Pos(), "no constant initial value of the offset")
	}
	if e := initOf(vars[2]); e == nil && zeroDecl(vars[2]) && st.okFcv {
		c.Check("R4.defaults", "fetchCheckpoint/default-version", scan.Pos(), 0 < st.fc, fmt.Sprintf("a checkpoint without a version field was written by an older release: its version must default to a value in [0, FeatureCompatibleVersion=%d) so that it is refused; found the zero value", st.fc))
	} else if e != nil && st.okFcv {
		v, _ := core.IntConst(info, e)
		c.Check("R4.defaults", "fetchCheckpoint/default-version", e.Pos(), v >= 0 && v < st.fc, fmt.Sprintf("a checkpoint without a version field was written by an older release: its version must default to a value in [0, FeatureCompatibleVersion=%d) so that it is refused; found %d", st.fc, v))
	} else {
		c.Undecidedf("R4.defaults", "fetchCheckpoint/default-version", scan.Pos(), "no constant initial value of the version")
	}

	// name / value reads of the HGETALL reply
	isValueIdx := func(e ast.Expr) bool { return pat.Expr("_l[_i + 1]").Match(info, e, nil) != nil }
	isNameIdx := func(e ast.Expr) bool {
		ix, ok := ast.Unparen(e).(*ast.IndexExpr)
		if !ok || isValueIdx(e) {
			return false
		}
		_, isIdent := ast.Unparen(ix.Index).(*ast.Ident)
		_, isSlice := info.TypeOf(ix.X).Underlying().(*types.Slice)
		return isIdent && isSlice
	}
	derived := func(seed func(ast.Expr) bool) (map[types.Object]bool, func(ast.Node) bool) {
		set := map[types.Object]bool{}
		mentions := func(n ast.Node) bool {
			hit := false
			ast.Inspect(n, func(m ast.Node) bool {
				if e, ok := m.(ast.Expr); ok && !hit {
					if seed(e) {
						hit = true
					}
					if id, ok := e.(*ast.Ident); ok && set[core.ObjOf(info, id)] {
						hit = true
					}
				}
				return !hit
			})
			return hit
		}
		for changed := true; changed; {
			changed = false
			core.Inspect(body, func(n ast.Node) bool {
				as, ok := n.(*ast.AssignStmt)
				if !ok {
					return true
				}
				for i, l := range as.Lhs {
					o := localObj(info, l)
					if o == nil || set[o] {
						continue
					}
					r := as.Rhs[0]
					if len(as.Lhs) == len(as.Rhs) {
						r = as.Rhs[i]
					} else if i != 0 {
						continue // err of a multi-value call
					}
					if mentions(r) {
						set[o] = true
						changed = true
					}
				}
				return true
			})
		}
		return set, mentions
	}
	_, mentionsName := derived(isNameIdx)
	_, mentionsValue := derived(isValueIdx)

	// stride
	nStride := 0
	core.Inspect(body, func(n ast.Node) bool {
		fs, ok := n.(*ast.ForStmt)
		if !ok || fs.Post == nil || !mentionsValue(fs.Body) {
			return true
		}
		nStride++
		// the step: a constant, possibly hoisted into a local or written the other way round
		step, known := int64(0), false
		if inc, ok := fs.Post.(*ast.IncDecStmt); ok && inc.Tok == token.INC {
			step, known = 1, true
		}
		for _, ps := range []string{"_i += _k", "_i = _i + _k", "_i = _k + _i"} {
			if b := pat.Stmt(ps).Match(info, fs.Post, nil); b != nil {
				if ps != "_i += _k" {
					as := fs.Post.(*ast.AssignStmt)
					be, _ := ast.Unparen(as.Rhs[0]).(*ast.BinaryExpr)
					if be == nil || localObj(info, as.Lhs[0]) == nil || localObj(info, b["_i"].(ast.Expr)) != localObj(info, as.Lhs[0]) {
						continue
					}
				}
				if k, isConst := core.IntConst(info, tt.Resolve(info, body, b["_k"].(ast.Expr), 3)); isConst {
					step, known = k, true
				} else if k, isConst := core.IntConst(info, b["_k"].(ast.Expr)); isConst {
					step, known = k, true
				}
			}
		}
		if !known {
			c.Undecidedf("R4.defaults", "fetchCheckpoint/stride", fs.Pos(), "the step `%s` of the scan is not a constant", c.Src(fs.Post))
			return true
		}
		c.Check("R4.defaults", "fetchCheckpoint/stride", fs.Pos(), step == 2, "HGETALL returns field,value pairs: the scan must advance by 2, otherwise stored values are tested as field names")
		return true
	})
	// `for i := range reply { if i%2 != 0 { continue } ... }` visits the same indices
	core.Inspect(body, func(n ast.Node) bool {
		rs, ok := n.(*ast.RangeStmt)
		if !ok || rs.Key == nil || rs.Value != nil || !mentionsValue(rs.Body) || len(rs.Body.List) == 0 {
			return true
		}
		idx := localObj(info, rs.Key)
		first, ok := rs.Body.List[0].(*ast.IfStmt)
		if idx == nil || !ok || first.Init != nil || first.Else != nil || len(first.Body.List) != 1 {
			return true
		}
		if br, ok := first.Body.List[0].(*ast.BranchStmt); !ok || br.Tok != token.CONTINUE || br.Label != nil {
			return true
		}
		odd := false
		for _, ps := range []string{"_i%2 != 0", "_i%2 == 1", "_i&1 != 0", "_i&1 == 1"} {
			if b := pat.Expr(ps).Match(info, first.Cond, nil); b != nil && localObj(info, b["_i"].(ast.Expr)) == idx {
				odd = true
			}
		}
		if odd {
			nStride++
			c.Okf("R4.defaults", "fetchCheckpoint/stride", rs.Pos(), "the scan skips the odd positions: it visits the field names only")
		}
		return true
	})
	if nStride == 0 {
		c.Undecidedf("R4.defaults", "fetchCheckpoint/stride", fn.Decl.Pos(), "no pair-wise scan loop found")
	}
	// every pair of the reply is looked at: the order of the fields in the HGETALL reply is not
	// fixed, so the scan may only end at the end of the reply or with an error. An exit from the scan
	// loop (break, goto out of it, a return that is not an error return) that is guarded by nothing
	// but tests of the field name and of errors ends the scan after some field was seen and loses the
	// fields behind it.
	core.Inspect(body, func(n ast.Node) bool {
		var lbody *ast.BlockStmt
		var loopStmt ast.Stmt
		switch lp := n.(type) {
		case *ast.ForStmt:
			lbody, loopStmt = lp.Body, lp
		case *ast.RangeStmt:
			lbody, loopStmt = lp.Body, lp
		default:
			return true
		}
		if !mentionsValue(lbody) || !mentionsName(lbody) {
			return true
		}
		label := ""
		for _, anc := range core.PathTo(body, loopStmt) {
			if ls, ok := anc.(*ast.LabeledStmt); ok && ls.Stmt == loopStmt {
				label = ls.Label.Name
			}
		}
		labelsInside := map[string]bool{}
		ast.Inspect(lbody, func(m ast.Node) bool {
			if ls, ok := m.(*ast.LabeledStmt); ok {
				labelsInside[ls.Label.Name] = true
			}
			return true
		})
		type exitAt struct {
			stmt   ast.Stmt
			guards []ast.Expr
		}
		var exits []exitAt
		var walk func(m ast.Node, guards []ast.Expr, brk bool)
		walk = func(m ast.Node, guards []ast.Expr, brk bool) {
			switch v := m.(type) {
			case nil:
			case *ast.BlockStmt:
				for _, st := range v.List {
					walk(st, guards, brk)
				}
			case *ast.IfStmt:
				g2 := append(append([]ast.Expr(nil), guards...), v.Cond)
				walk(v.Body, g2, brk)
				if v.Else != nil {
					walk(v.Else, g2, brk)
				}
			case *ast.SwitchStmt:
				for _, cl := range v.Body.List {
					cc := cl.(*ast.CaseClause)
					g2 := append([]ast.Expr(nil), guards...)
					if v.Tag != nil {
						g2 = append(g2, v.Tag)
					}
					g2 = append(g2, cc.List...)
					for _, st := range cc.Body {
						walk(st, g2, false) // an unlabelled break leaves the switch only
					}
				}
			case *ast.TypeSwitchStmt, *ast.SelectStmt:
				// exits inside are not followed: treated as guarded by something unknown
				ast.Inspect(v, func(k ast.Node) bool {
					if r, ok := k.(*ast.ReturnStmt); ok {
						exits = append(exits, exitAt{r, append(append([]ast.Expr(nil), guards...), nil)})
					}
					return true
				})
			case *ast.ForStmt:
				walk(v.Body, append(append([]ast.Expr(nil), guards...), v.Cond), false)
			case *ast.RangeStmt:
				walk(v.Body, append(append([]ast.Expr(nil), guards...), v.X), false)
			case *ast.LabeledStmt:
				walk(v.Stmt, guards, brk)
			case *ast.BranchStmt:
				switch {
				case v.Tok == token.BREAK && (v.Label == nil && brk || v.Label != nil && v.Label.Name == label && label != ""):
					exits = append(exits, exitAt{v, guards})
				case v.Tok == token.GOTO && v.Label != nil && !labelsInside[v.Label.Name] && !strings.HasPrefix(v.Label.Name, "inl$") && !strings.HasPrefix(v.Label.Name, "end$"):
					exits = append(exits, exitAt{v, guards})
				}
			case *ast.ReturnStmt:
				if cfgq.ClassifyReturn(info, body, v) != cfgq.RetErr {
					exits = append(exits, exitAt{v, guards})
				}
			}
		}
		walk(lbody, nil, true)
		plain := func(e ast.Expr) bool { // a test of the field name or of an error
			if e == nil {
				return false
			}
			if mentionsName(e) {
				return true
			}
			okErr := false
			ast.Inspect(e, func(k ast.Node) bool {
				if be, ok := k.(*ast.BinaryExpr); ok && (be.Op == token.NEQ || be.Op == token.EQL) && (core.IsNil(info, be.X) || core.IsNil(info, be.Y)) {
					okErr = true
				}
				return true
			})
			return okErr
		}
		bad, unsure := ast.Stmt(nil), ast.Stmt(nil)
		for _, ex := range exits {
			allPlain := true
			for _, gd := range ex.guards {
				if !plain(gd) {
					allPlain = false
				}
			}
			if allPlain {
				bad = ex.stmt
			} else if unsure == nil {
				unsure = ex.stmt
			}
		}
		switch {
		case bad != nil:
			c.Failf("R4.defaults", "fetchCheckpoint/every-pair", bad.Pos(), "the scan over the HGETALL reply ends at `%s` as soon as one field of this source has been handled: the fields are not returned in a fixed order (hashtable encoding, proxies), a run id or version that follows is not read and the checkpoint is taken for one without run id ('?', full sync) or of version 0 (refused)", c.Src(bad))
		case unsure != nil:
			c.Undecidedf("R4.defaults", "fetchCheckpoint/every-pair", unsure.Pos(), "the scan over the reply can end early at `%s`; whether every field of this source has been read by then is not analysed", c.Src(unsure))
		default:
			c.Okf("R4.defaults", "fetchCheckpoint/every-pair", loopStmt.Pos(), "the scan ends only at the end of the reply or with an error")
		}
		return false
	})

	// every test on the field name, with both polarities
	type test struct {
		expr ast.Expr
		val  bool
	}
	var tests []test
	seen := map[string]bool{}
	for _, b := range g.CFG.Blocks {
		if !b.Live {
			continue
		}
		for si := range b.Succs {
			for _, f := range x.EdgeFacts(b, si) {
				k := fmt.Sprintf("%p/%v", f.Expr, f.Val)
				if !seen[k] && mentionsName(f.Expr) {
					seen[k] = true
					tests = append(tests, test{f.Expr, f.Val})
				}
			}
		}
	}
	srcParam := -1
	for k, role := range roles {
		key := "fetchCheckpoint/" + role
		// consumers: assignments of a value-derived expression to the returned variable
		var consumers []ast.Node
		for _, p := range g.Points(func(n ast.Node) bool {
			as, ok := n.(*ast.AssignStmt)
			if !ok {
				return false
			}
			for i, l := range as.Lhs {
				if localObj(info, l) != vars[k] || rootIdent(info, l) == nil {
					continue
				}
				r := as.Rhs[0]
				if len(as.Lhs) == len(as.Rhs) {
					r = as.Rhs[i]
				}
				if mentionsValue(r) {
					return true
				}
			}
			return false
		}) {
			consumers = append(consumers, p.Node())
		}
		if len(consumers) == 0 {
			c.Undecidedf("R1.reader", key, scan.Pos(), "cannot find where the %s is taken from the HGETALL reply", role)
			continue
		}
		want, haveWriter := st.writer[role]
		for _, cons := range consumers {
			var eq []form
			var weak []string
			unknown := false
			var whole func(e ast.Expr) bool
			whole = func(e ast.Expr) bool { // the complete field name, not a part of it
				if rootIdent(info, e) != nil {
					return true
				}
				switch v := ast.Unparen(e).(type) {
				case *ast.IndexExpr, *ast.TypeAssertExpr:
					return true
				case *ast.CallExpr:
					// a one-argument conversion helper (utils.Bytes2String, string(..), []byte(..))
					if len(v.Args) == 1 && whole(v.Args[0]) {
						if t := info.TypeOf(v); t != nil {
							if b, ok := t.Underlying().(*types.Basic); ok && b.Info()&types.IsString != 0 {
								return true
							}
							if sl, ok := t.Underlying().(*types.Slice); ok {
								if b, ok := sl.Elem().Underlying().(*types.Basic); ok && b.Kind() == types.Byte {
									return true
								}
							}
						}
					}
				}
				return false
			}
			for _, t := range tests {
				t := t
				dom, _ := x.OnlyVia(cfgq.Point{}, cons, func(f cfgq.Fact) bool { return f.Expr == t.expr && f.Val == t.val })
				if !dom {
					continue
				}
				switch e := ast.Unparen(t.expr).(type) {
				case *ast.BinaryExpr:
					// strings.Compare(a, b) == 0 / bytes.Compare(a, b) == 0 is a == b
					if e.Op == token.EQL || e.Op == token.NEQ {
						var cmp *ast.CallExpr
						for _, pair := range [][2]ast.Expr{{e.X, e.Y}, {e.Y, e.X}} {
							if z, isInt := core.IntConst(info, pair[1]); isInt && z == 0 {
								if call, ok := ast.Unparen(pair[0]).(*ast.CallExpr); ok && len(call.Args) == 2 {
									if f := core.CalleeFunc(info, call); f != nil && f.Pkg() != nil && (f.Pkg().Path() == "strings" || f.Pkg().Path() == "bytes") && f.Name() == "Compare" {
										cmp = call
									}
								}
							}
						}
						if cmp != nil {
							if (e.Op == token.EQL) != t.val {
								continue
							}
							other, name := cmp.Args[1], cmp.Args[0]
							if mentionsName(cmp.Args[1]) {
								other, name = cmp.Args[0], cmp.Args[1]
							}
							if !whole(name) {
								unknown = true
								continue
							}
							eq = append(eq, evalName(info, body, other, 3))
							continue
						}
					}
					if (e.Op == token.EQL || e.Op == token.NEQ) && (e.Op == token.EQL) != t.val {
						continue // "is not this name": an earlier case of a switch / else-if chain, not a selection
					}
					if (e.Op == token.EQL) == t.val && (e.Op == token.EQL || e.Op == token.NEQ) {
						other, name := e.Y, e.X
						if mentionsName(e.Y) {
							other, name = e.X, e.Y
						}
						if !whole(name) {
							unknown = true
							continue
						}
						eq = append(eq, evalName(info, body, other, 3))
						continue
					}
				case *ast.CallExpr:
					if f := core.CalleeFunc(info, e); f != nil && f.Pkg() != nil && (f.Pkg().Path() == "strings" || f.Pkg().Path() == "bytes") {
						if (f.Name() == "Equal") && t.val && len(e.Args) == 2 {
							other := e.Args[1]
							if mentionsName(e.Args[1]) {
								other = e.Args[0]
							}
							eq = append(eq, evalName(info, body, other, 3))
							continue
						}
						if t.val {
							weak = append(weak, c.Src(e))
						}
						continue
					}
				}
				unknown = true
			}
			switch {
			case len(eq) > 0:
				f := eq[0]
				hs := f.holes()
				okShape := haveWriter && sameShape(f, want)
				okHole := len(hs) == 1 && paramIndex(info, fn, hs[0]) >= 0
				onlyHoles := true
				for _, sg := range f {
					if sg.hole == nil {
						onlyHoles = false
					}
				}
				if !okShape && onlyHoles {
					c.Undecidedf("R1.reader", key, cons.Pos(), "the name the %s field is compared with (`%s`) cannot be evaluated", role, c.Src(hs[0]))
				} else if !haveWriter {
					c.Undecidedf("R1.reader", key, cons.Pos(), "the sender's name for the %s is unknown", role)
				} else if okShape && !okHole {
					c.Undecidedf("R1.reader", key, cons.Pos(), "the address in the compared name is not a parameter of fetchCheckpoint")
				} else {
					if okShape {
						srcParam = paramIndex(info, fn, hs[0])
					}
					c.Check("R1.reader", key, cons.Pos(), okShape,
						fmt.Sprintf("the %s must be read from the field the sender writes (%q); fetchCheckpoint compares the field name with %q, so what the sender stored is not read back", role, want, f))
				}
			case unknown:
				c.Undecidedf("R1.reader", key, cons.Pos(), "the read of the %s is guarded by a test on the field name that is neither an equality nor a strings/bytes predicate", role)
			case len(weak) > 0:
				c.Failf("R1.reader", key, cons.Pos(), "the %s is taken from every field that satisfies %s instead of the field equal to %q: with sources h:6379 and h:63791 checkpointing into the same target database, resuming h:6379 reads h:63791-%s (a foreign, possibly larger offset / foreign run id); a source address containing the word %q matches every field",
					role, strings.Join(weak, " && "), orDash(want), constPart(want), constPart(want))
			default:
				c.Undecidedf("R1.reader", key, cons.Pos(), "no test on the field name guards the read of the %s", role)
			}
		}
	}
	// the source address handed down is the syncer's source
	if srcParam >= 0 {
		ok, known, pos := sourceChain(c, fn, srcParam, 4)
		if !known {
			c.Undecidedf("R1.reader", "fetchCheckpoint/own-source", pos, "cannot follow the source address of fetchCheckpoint back to the syncer")
		} else {
			c.Check("R1.reader", "fetchCheckpoint/own-source", pos, ok, "the address fetchCheckpoint builds its field names from must be the syncer's own source (ds.node.Source, the address the sender uses): otherwise another source's checkpoint is resumed")
		}
	}
}

// sourceChain follows parameter idx of fn through all its callers in the checkpoint and dbSync
// packages: ok when every chain ends in the Source field of a slot.SyncNode; known=false when a
// chain cannot be followed (no caller found, argument neither a parameter nor a field).
func sourceChain(c *core.Ctx, fn *core.Fn, idx int, depth int) (ok, known bool, pos token.Pos) {
	pos = fn.Decl.Pos()
	if depth == 0 {
		return false, false, pos
	}
	ok, known = true, true
	sites := 0
	for _, pk := range c.Pkgs {
		if pk.ID != pk.PkgPath || pk.TypesInfo == nil || !(strings.HasSuffix(pk.PkgPath, "/"+pkgCk) || strings.HasSuffix(pk.PkgPath, "/"+pkgSync)) {
			continue
		}
		info := pk.TypesInfo
		for _, file := range pk.Syntax {
			for _, d := range file.Decls {
				fd, isFn := d.(*ast.FuncDecl)
				if !isFn || fd.Body == nil {
					continue
				}
				for _, call := range core.CallsAll(fd.Body, info, func(_ *ast.CallExpr, callee types.Object) bool { return callee == types.Object(fn.Obj) }) {
					sites++
					if idx >= len(call.Args) {
						return false, false, call.Pos()
					}
					arg := tt.Resolve(info, fd.Body, call.Args[idx], 6)
					if isSourceField(info, arg) {
						continue
					}
					encl := c.FnOf(asFunc(info.Defs[fd.Name]))
					if j := -1; encl != nil {
						if j = paramIndex(info, encl, arg); j >= 0 {
							o, k, p := sourceChain(c, encl, j, depth-1)
							if !k && callSites(c, encl) == 0 {
								continue // a helper nobody calls (its calls were expanded in place): dead code
							}
							if !k {
								return false, false, p
							}
							if !o {
								ok, pos = false, p
							}
							continue
						}
					}
					// a field of a small state-owning type of these packages (`p.sourceAddr` of a picker built
					// by a constructor): every value stored in that field is followed
					if f := core.FieldOf(info, arg); f != nil && f.Pkg() == pk.Types {
						o, k, p := fieldSources(c, pk, f, depth-1)
						if !k {
							return false, false, p
						}
						if !o {
							ok, pos = false, p
						}
						continue
					}
					if f := core.FieldOf(info, arg); f != nil && f.Pkg() != nil && strings.HasSuffix(f.Pkg().Path(), "/dbSync/slot") || isConstString(info, arg) {
						ok, pos = false, call.Pos() // some other field / a constant: recognisably not the syncer's source
						continue
					}
					return false, false, call.Pos()
				}
			}
		}
	}
	if sites == 0 {
		return false, false, pos
	}
	return ok, known, pos
}

// callSites counts the calls of fn in the checkpoint and dbSync packages.
func callSites(c *core.Ctx, fn *core.Fn) int {
	n := 0
	for _, pk := range c.Pkgs {
		if pk.ID != pk.PkgPath || pk.TypesInfo == nil || !(strings.HasSuffix(pk.PkgPath, "/"+pkgCk) || strings.HasSuffix(pk.PkgPath, "/"+pkgSync)) {
			continue
		}
		for _, file := range pk.Syntax {
			n += len(core.CallsAll(file, pk.TypesInfo, func(_ *ast.CallExpr, callee types.Object) bool { return callee == types.Object(fn.Obj) }))
		}
	}
	return n
}

func asFunc(o types.Object) *types.Func {
	f, _ := o.(*types.Func)
	return f
}

func isConstString(info *types.Info, e ast.Expr) bool {
	_, ok := core.StringConst(info, e)
	return ok
}

func orDash(f form) string {
	if f == nil {
		return "<addr>-<name>"
	}
	return f.String()
}

func constPart(f form) string {
	for _, s := range f {
		if s.hole == nil {
			return strings.TrimPrefix(s.lit, "-")
		}
	}
	return "offset"
}

// tableRead resolves t[k] for a local table t of the frame: every write to t is `t[c] = v` with c a
// constant, or `t[x] = v` inside `for _, x := range <literal of constants>`; t is otherwise only
// read by index. It returns the value written under the constant k, in the frame that binds x.
func tableRead(info *types.Info, fr *frame, ix *ast.IndexExpr) (ast.Expr, *frame) {
	base := localObj(info, ix.X)
	if base == nil || fr == nil || fr.root == nil {
		return nil, nil
	}
	constOf := func(e ast.Expr, f *frame) (string, bool) {
		r, _ := resolveF(info, f, e, 4)
		if tv, ok := info.Types[ast.Unparen(r)]; ok && tv.Value != nil {
			return tv.Value.ExactString(), true
		}
		return "", false
	}
	key, ok := constOf(ix.Index, fr)
	if !ok {
		return nil, nil
	}
	var val ast.Expr
	var vfr *frame
	n := 0
	okUses := true
	var stack []ast.Node
	ast.Inspect(fr.root, func(m ast.Node) bool {
		if m == nil {
			stack = stack[:len(stack)-1]
			return true
		}
		stack = append(stack, m)
		id, isId := m.(*ast.Ident)
		if !isId || core.ObjOf(info, id) != base || len(stack) < 2 {
			return true
		}
		switch par := stack[len(stack)-2].(type) {
		case *ast.IndexExpr:
			if par.X != ast.Expr(id) {
				okUses = false
				return true
			}
			// a write?
			if len(stack) >= 3 {
				if as, isAs := stack[len(stack)-3].(*ast.AssignStmt); isAs {
					for i, l := range as.Lhs {
						if l != ast.Expr(par) {
							continue
						}
						if len(as.Lhs) != len(as.Rhs) || as.Tok != token.ASSIGN {
							okUses = false
							return true
						}
						if k, isConst := constOf(par.Index, fr); isConst {
							if k == key {
								val, vfr = as.Rhs[i], fr
								n++
							}
							return true
						}
						// t[x] = v in a loop over a literal
						var rng *ast.RangeStmt
						for j := len(stack) - 4; j >= 0; j-- {
							if r, isRange := stack[j].(*ast.RangeStmt); isRange {
								rng = r
								break
							}
						}
						if rng == nil {
							okUses = false
							return true
						}
						rows, v := literalRows(info, fr, rng)
						if rows == nil || localObj(info, par.Index) != v {
							okUses = false
							return true
						}
						for k, row := range rows {
							if rk, isConst := constOf(row, fr); isConst && rk == key {
								val = as.Rhs[i]
								vfr = &frame{root: fr.root, bind: map[types.Object]ast.Expr{v: row}, up: fr, closure: true, iter: fmt.Sprintf("#%d", k)}
								n++
							} else if !isConst {
								okUses = false
							}
						}
					}
				}
				if u, isU := stack[len(stack)-3].(*ast.UnaryExpr); isU && u.Op == token.AND {
					okUses = false
				}
			}
		case *ast.AssignStmt, *ast.ValueSpec:
			// the definition of the table itself
			if as, isAs := par.(*ast.AssignStmt); isAs {
				for i, l := range as.Lhs {
					if l == ast.Expr(id) && len(as.Lhs) == len(as.Rhs) {
						switch r := ast.Unparen(as.Rhs[i]).(type) {
						case *ast.CompositeLit:
							if len(r.Elts) != 0 {
								okUses = false
							}
						case *ast.CallExpr:
							if f, isId := r.Fun.(*ast.Ident); !isId || f.Name != "make" {
								okUses = false
							}
						default:
							okUses = false
						}
					}
				}
				for _, r := range as.Rhs {
					if r == ast.Expr(id) {
						okUses = false
					}
				}
			}
		case *ast.RangeStmt, *ast.CallExpr:
			if c, isCall := par.(*ast.CallExpr); isCall {
				if f, isId := c.Fun.(*ast.Ident); isId && (f.Name == "len" || f.Name == "cap") {
					return true
				}
			}
			okUses = false
		default:
			okUses = false
		}
		return true
	})
	if !okUses || n != 1 {
		return nil, nil
	}
	return val, vfr
}

// fieldSources follows every value stored in field f (composite literals and assignments in package
// pk) back to the syncer's source address, like sourceChain does for a parameter.
func fieldSources(c *core.Ctx, pk *packages.Package, f *types.Var, depth int) (ok, known bool, pos token.Pos) {
	info := pk.TypesInfo
	ok, known = true, true
	stores := 0
	if depth <= 0 {
		return false, false, f.Pos()
	}
	for _, file := range pk.Syntax {
		for _, d := range file.Decls {
			fd, isFn := d.(*ast.FuncDecl)
			if !isFn || fd.Body == nil {
				continue
			}
			var vals []ast.Expr
			ast.Inspect(fd.Body, func(n ast.Node) bool {
				switch v := n.(type) {
				case *ast.CompositeLit:
					st, isStruct := info.TypeOf(v).Underlying().(*types.Struct)
					if !isStruct {
						return true
					}
					for i, el := range v.Elts {
						if kv, isKV := el.(*ast.KeyValueExpr); isKV {
							if id, isId := kv.Key.(*ast.Ident); isId && info.Uses[id] == types.Object(f) {
								vals = append(vals, kv.Value)
							}
						} else if i < st.NumFields() && st.Field(i) == f {
							vals = append(vals, el)
						}
					}
				case *ast.AssignStmt:
					for i, l := range v.Lhs {
						if sel, isSel := ast.Unparen(l).(*ast.SelectorExpr); isSel && info.Uses[sel.Sel] == types.Object(f) {
							if len(v.Lhs) == len(v.Rhs) {
								vals = append(vals, v.Rhs[i])
							} else {
								vals = append(vals, nil)
							}
						}
					}
				}
				return true
			})
			for _, val := range vals {
				stores++
				if val == nil {
					return false, false, fd.Pos()
				}
				arg := tt.Resolve(info, fd.Body, val, 6)
				if isSourceField(info, arg) {
					continue
				}
				encl := c.FnOf(asFunc(info.Defs[fd.Name]))
				if encl != nil {
					if j := paramIndex(info, encl, arg); j >= 0 {
						o, k, p := sourceChain(c, encl, j, depth)
						if !k {
							return false, false, p
						}
						if !o {
							ok, pos = false, p
						}
						continue
					}
				}
				if isConstString(info, arg) {
					ok, pos = false, val.Pos()
					continue
				}
				return false, false, val.Pos()
			}
		}
	}
	if stores == 0 {
		return false, false, f.Pos()
	}
	return ok, known, pos
}
