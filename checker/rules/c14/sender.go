package c14

import (
	"fmt"
	"go/ast"
	"go/token"
	"go/types"
	"strings"

	"rscheck/core"
	"rscheck/rules/c06/tt"
)

// sender: the `hset` sends of sendTargetCommand.
func (st *state) sender() {
	c := st.c
	fn := c.Func(pkgSync, "DbSyncer", "sendTargetCommand")
	if fn == nil {
		return
	}
	info := fn.Pkg.TypesInfo
	// every command queued on the target connection by sendTargetCommand, its closures and the
	// same-package helpers it calls (arguments in the vocabulary of the frame that supplies them)
	seen := map[string]bool{}
	collectSends(c, info, fn.Decl.Body, &frame{root: fn.Decl.Body}, 3, map[ast.Node]bool{}, func(pos token.Pos, args []ast.Expr, fr *frame) {
		key := fmt.Sprint(pos)
		for f := fr; f != nil; f = f.up {
			key += f.iter
		}
		if len(args) != 4 || seen[key] {
			return
		}
		seen[key] = true
		cmd, _ := resolveF(info, fr, args[0], 4)
		if s, ok := core.StringConst(info, cmd); !ok || !strings.EqualFold(s, "hset") {
			return
		}
		role := ""
		val, vfr := resolveF(info, fr, args[3], 6)
		val = ast.Unparen(val)
		switch {
		case core.IsFieldNamed(info, val, "DbSyncer", "runId"):
			role = "runid"
		case isSel(val, "CurrentVersion") && strings.HasSuffix(core.NamedTypePath(info.TypeOf(val.(*ast.SelectorExpr).X)), pkgUtils+".Checkpoint"):
			role = "version"
		case isSel(val, "Offset"):
			role = "offset"
		default:
			for _, d := range tt.DefsOf(info, vfr.root, core.ObjOf(info, val)) {
				if d.Rhs != nil && isSel(ast.Unparen(d.Rhs), "Offset") {
					role = "offset"
				}
			}
		}
		if role == "" {
			c.Undecidedf("R1.writer", "sendTargetCommand/"+c.Src(args[2]), pos, "cannot tell which checkpoint value `%s` is", c.Src(val))
			return
		}
		f := evalNameF(info, fr, args[2], 4)
		hs := f.holes()
		if len(hs) != 1 || len(f) != 2 || f[0].hole == nil {
			c.Undecidedf("R1.writer", "sendTargetCommand/"+role, pos, "field name `%s` does not evaluate to '<source>-<constant>'", c.Src(args[2]))
			return
		}
		st.writer[role] = f
		c.Check("R1.writer", "sendTargetCommand/"+role, pos, isSourceField(info, hs[0]),
			fmt.Sprintf("the %s is stored under %q with <addr> = the syncer's source address (%s)", role, f, c.Src(hs[0])))
	})
	// distinct names
	names := map[string]string{}
	for _, r := range roles {
		if f, ok := st.writer[r]; ok {
			if other, dup := names[f.String()]; dup {
				c.Failf("R1.writer", "sendTargetCommand/distinct", fn.Decl.Pos(), "%s and %s are stored under the same field %q: one overwrites the other and is read back as the other", other, r, f)
			}
			names[f.String()] = r
		}
	}
}

// funcBody returns parameters and body of the function a call invokes when that is a
// same-package function/method or a function literal bound once to a local of the frame.
func funcBody(c *core.Ctx, info *types.Info, fr *frame, call *ast.CallExpr) (params *ast.FieldList, recv *ast.FieldList, body *ast.BlockStmt, closure bool) {
	if lit, ok := ast.Unparen(call.Fun).(*ast.FuncLit); ok {
		return lit.Type.Params, nil, lit.Body, true
	}
	if id, ok := ast.Unparen(call.Fun).(*ast.Ident); ok {
		if r, _ := resolveF(info, fr, id, 3); r != ast.Expr(id) {
			if lit, ok := ast.Unparen(r).(*ast.FuncLit); ok {
				return lit.Type.Params, nil, lit.Body, true
			}
		}
	}
	if h := c.FnOf(core.CalleeFunc(info, call)); h != nil && h.Decl.Body != nil && h.Pkg.TypesInfo == info {
		return h.Decl.Type.Params, h.Decl.Recv, h.Decl.Body, false
	}
	return nil, nil, nil, false
}

func paramObjs(info *types.Info, params *ast.FieldList) (objs []types.Object, variadic bool) {
	for _, fl := range params.List {
		if _, v := fl.Type.(*ast.Ellipsis); v {
			variadic = true
		}
		for _, n := range fl.Names {
			objs = append(objs, info.Defs[n])
		}
		if len(fl.Names) == 0 {
			objs = append(objs, nil)
		}
	}
	return
}

// collectSends reports every <conn>.Send(cmd, args...) executed in region: direct calls, calls of
// a forwarder (function, method or local closure whose body hands its own `cmd, args...`
// parameters to Send) and, through parameter binding, the sends of same-package helpers.
func collectSends(c *core.Ctx, info *types.Info, region ast.Node, fr *frame, depth int, onStack map[ast.Node]bool, emit func(token.Pos, []ast.Expr, *frame)) {
	ast.Inspect(region, func(n ast.Node) bool {
		if _, isLit := n.(*ast.FuncLit); isLit {
			return false // a closure is followed where it is called
		}
		if rng, isRange := n.(*ast.RangeStmt); isRange {
			// a loop over a table written as a literal is the sequence of its rows
			if rows, v := literalRows(info, fr, rng); rows != nil {
				for k, row := range rows {
					it := &frame{root: fr.root, bind: map[types.Object]ast.Expr{v: row}, up: fr, closure: true, iter: fmt.Sprintf("#%d", k)}
					collectSends(c, info, rng.Body, it, depth, onStack, emit)
				}
				return false
			}
			return true
		}
		call, ok := n.(*ast.CallExpr)
		if !ok {
			return true
		}
		if callee := core.Callee(info, call); callee != nil && callee.Name() == "Send" {
			if _, isFunc := callee.(*types.Func); isFunc && !call.Ellipsis.IsValid() {
				emit(call.Pos(), call.Args, fr)
			}
			return true
		}
		params, recv, body, closure := funcBody(c, info, fr, call)
		if body == nil || onStack[body] || depth == 0 {
			return true
		}
		objs, variadic := paramObjs(info, params)
		if variadic {
			// a forwarder: its body sends exactly its own (cmd, rest...) parameters
			if k := forwards(info, objs, body); k >= 0 && !call.Ellipsis.IsValid() && k < len(call.Args) {
				emit(call.Pos(), call.Args[k:], fr)
			}
			return true
		}
		if len(objs) != len(call.Args) || call.Ellipsis.IsValid() {
			return true
		}
		bind := map[types.Object]ast.Expr{}
		for i, o := range objs {
			if o != nil {
				bind[o] = call.Args[i]
			}
		}
		if recv != nil && len(recv.List) == 1 && len(recv.List[0].Names) == 1 {
			if sel, ok := ast.Unparen(call.Fun).(*ast.SelectorExpr); ok {
				bind[info.Defs[recv.List[0].Names[0]]] = sel.X
			}
		}
		onStack[body] = true
		root := ast.Node(body)
		if closure {
			root = fr.root // free variables of a closure are locals of the frame that defines it
		}
		collectSends(c, info, body, &frame{root: root, bind: bind, up: fr, closure: closure}, depth-1, onStack, emit)
		delete(onStack, body)
		return true
	})
}

// literalRows: `for _, v := range <array or slice literal>` (the literal written in place or held
// in a single-assignment local of the same frame) with an unused or blank key: the rows and v.
func literalRows(info *types.Info, fr *frame, rng *ast.RangeStmt) ([]ast.Expr, types.Object) {
	val, ok := rng.Value.(*ast.Ident)
	if !ok || rng.Tok != token.DEFINE {
		return nil, nil
	}
	if k, ok := rng.Key.(*ast.Ident); !ok || k.Name != "_" {
		return nil, nil
	}
	x, xfr := resolveF(info, fr, rng.X, 3)
	lit, ok := ast.Unparen(x).(*ast.CompositeLit)
	if !ok || xfr != fr {
		return nil, nil
	}
	switch info.TypeOf(lit).Underlying().(type) {
	case *types.Array, *types.Slice:
	default:
		return nil, nil
	}
	var rows []ast.Expr
	for _, el := range lit.Elts {
		if _, keyed := el.(*ast.KeyValueExpr); keyed {
			return nil, nil
		}
		rows = append(rows, el)
	}
	v := info.Defs[val]
	if v == nil || len(rows) == 0 {
		return nil, nil
	}
	// the loop variable is only read in the body
	assigned := false
	ast.Inspect(rng.Body, func(n ast.Node) bool {
		switch s := n.(type) {
		case *ast.AssignStmt:
			for _, l := range s.Lhs {
				if baseObj(info, l) == v {
					assigned = true
				}
			}
		case *ast.UnaryExpr:
			if s.Op == token.AND && baseObj(info, s.X) == v {
				assigned = true
			}
		}
		return true
	})
	if assigned {
		return nil, nil
	}
	return rows, v
}

// forwards: body contains `<conn>.Send(p_k, p_last...)` with p_k the parameter just before the
// variadic one; returns k.
func forwards(info *types.Info, params []types.Object, body *ast.BlockStmt) int {
	idx := -1
	ast.Inspect(body, func(n ast.Node) bool {
		call, ok := n.(*ast.CallExpr)
		if !ok {
			return true
		}
		if callee := core.Callee(info, call); callee == nil || callee.Name() != "Send" {
			return true
		}
		if len(call.Args) != 2 || !call.Ellipsis.IsValid() || len(params) < 2 {
			idx = -2
			return true
		}
		a, b := core.ObjOf(info, call.Args[0]), core.ObjOf(info, call.Args[1])
		if a != nil && a == params[len(params)-2] && b == params[len(params)-1] && idx != -2 {
			idx = len(params) - 2
		} else {
			idx = -2
		}
		return true
	})
	if idx < 0 {
		return -1
	}
	return idx
}

// baseObj: the variable at the base of x, x.f, x[i], *x.
func baseObj(info *types.Info, e ast.Expr) types.Object {
	for {
		switch v := ast.Unparen(e).(type) {
		case *ast.Ident:
			return core.ObjOf(info, v)
		case *ast.SelectorExpr:
			e = v.X
		case *ast.IndexExpr:
			e = v.X
		case *ast.StarExpr:
			e = v.X
		default:
			return nil
		}
	}
}
