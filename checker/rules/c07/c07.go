// Package c07 decides the structural clauses of property C07 (parallel full
// sync / restore worker pools). It also exports the small helpers shared with
// the C16/C17 rule sets (error discipline E7, wait-loop shape, loop reachability).
package c07

import (
	"go/ast"
	"go/token"
	"go/types"
	"rscheck/rules/reent"

	"golang.org/x/tools/go/cfg"

	"rscheck/cfgq"
	"rscheck/core"
	"rscheck/driver"
	"rscheck/pat"
	"rscheck/rules/c07/inl"
)

const (
	pkgSync   = "redis-shake/dbSync"
	pkgRun    = "redis-shake"
	pkgCommon = "redis-shake/common"
)

var Def = driver.PropDef{
	ID: "C07",
	Explanation: "Structural necessary conditions of the parallel full-sync/restore worker pools (syncRDBFile, restoreRDBFile, NewRDBLoader), on every path: " +
		"R1 the entry channel is consumed only by `range` in the worker literals; each worker's connection and its selected-db tracker are declared inside the worker literal, outside the entry loop; " +
		"R2 SELECT tracking: tracker starts at 0, every SelectDB is accompanied by recording the same value in the tracker, the restore call is reachable only after a SelectDB or a comparison that found the tracker equal to the wanted db, the wanted db is TargetDB iff TargetDB != -1 and the entry's DB otherwise, select and restore use the worker's own connection; " +
		"R3 completion: wg.Add bound = spawn bound, every worker path signals Done, the wait channel is closed on every path and only after wg.Wait, the reporting loop is left only through the <-wait arm and dominates every return; " +
		"R4 (E7) the error of OpenRedisConn and RestoreRdbEntry is bound, tested, and its non-nil edge reaches a failure the caller observes (childErrors[..] = err returned by the function, or a no-return logger); " +
		"R5 loader: the channel is closed on every exit of the loader goroutine, the goroutine returns only after NextBinEntry yielded nil and Footer was checked, every parsed entry is sent exactly once, parse errors are no-return.",
	NotDecided: "exactly-once for hashes delivered in several chunks to different workers (needs a schedule argument), the target's reaction to the commands, filter semantics (C06), RestoreRdbEntry itself (C02).",
	Trusted:    []string{"go/parser, go/types, go/cfg (x/tools v0.29.0)", "sync.WaitGroup and channel close/range semantics", "a method call on a nil interface value panics"},
	Run:        Run,
}

func reentrant(c *core.Ctx) {
	var roots []*core.Fn
	if f := c.FuncOpt("redis-shake/common", "", "RestoreRdbEntry"); f != nil {
		roots = append(roots, f)
	}
	reent.Check(c, "R6.reentrant", roots, []string{"redis-shake/common", "pkg/rdb", "redis-shake/filter"}, "the parallel full-sync / restore workers")
}

// Specs names the anchored functions of C07 for the helper inliner.
var keep = []string{"SelectDB", "RestoreRdbEntry", "OpenRedisConn", "NewRDBLoader", "NextBinEntry", "Header", "Footer"}

var Specs = []inl.Spec{
	{Pkg: pkgSync, Roots: []string{"DbSyncer.syncRDBFile"}, Keep: keep, KeepTypes: []string{"BinEntry"}, KeepFields: []string{"TargetDB"}},
	{Pkg: pkgRun, Roots: []string{"dbRestorer.restoreRDBFile"}, Keep: keep, KeepTypes: []string{"BinEntry"}, KeepFields: []string{"TargetDB"}},
	{Pkg: pkgCommon, Roots: []string{"NewRDBLoader"}, Exclude: []string{"RestoreRdbEntry", "SelectDB", "OpenRedisConn", "OpenRedisConnWithTimeout"}, Keep: keep},
}

func Run(c *core.Ctx) {
	defer reentrant(c)
	Dual(c, Specs, run)
}

func run(c *core.Ctx) {
	if f := c.Func(pkgSync, "DbSyncer", "syncRDBFile"); f != nil {
		pool(c, f, "syncRDBFile")
	}
	if f := c.Func(pkgRun, "dbRestorer", "restoreRDBFile"); f != nil {
		pool(c, f, "restoreRDBFile")
	}
	LoaderRules(c)
	KeyExistsRules(c)
	FirstPieceRules(c)
	c.Expect("R7.key-exists", 2)
	c.Expect("R7.first-piece", 1)
	c.Expect("R1.private", 4)
	c.Expect("R2.pair", 2)
	c.Expect("R2.every-entry", 4)
	c.Expect("R2.reach", 2)
	c.Expect("R3.done", 2)
	c.Expect("R3.close-after-wait", 2)
	c.Expect("R3.report-loop", 2)
	c.Expect("R4.error", 4)
	c.Expect("R5.close", 1)
}

func isCommon(f *types.Func, name string) bool { return core.IsFunc(f, pkgCommon, "", name) }

// pool checks one worker-pool function.
func pool(c *core.Ctx, fn *core.Fn, short string) {
	info := fn.Pkg.TypesInfo
	body := fn.Decl.Body
	// ---- the entry channel
	var pipe types.Object
	core.InspectAll(body, func(n ast.Node) bool {
		as, ok := n.(*ast.AssignStmt)
		if ok && len(as.Rhs) == 1 && len(as.Lhs) == 1 {
			if call, ok := ast.Unparen(as.Rhs[0]).(*ast.CallExpr); ok && isCommon(CalleeF(info, call), "NewRDBLoader") {
				pipe = Obj(info, as.Lhs[0])
			}
		}
		return true
	})
	if pipe == nil {
		c.Undecidedf("R1.queue", short, fn.Decl.Pos(), "no `pipe := NewRDBLoader(...)` found in %s", short)
		return
	}
	workers, other := RangeConsumers(info, body, pipe)
	if len(other) > 0 || len(workers) == 0 {
		c.Undecidedf("R1.queue", short, fn.Decl.Pos(), "the entry channel is used outside `for e := range pipe` in a worker literal (%d other uses, %d workers): consumer set not recognised", len(other), len(workers))
		return
	}
	c.Okf("R1.queue", short, fn.Decl.Pos(), "the entry channel is consumed only by range loops in %d worker literal(s); its only sender is the loader goroutine (R5)", len(workers))
	for _, w := range workers {
		if deadClosure(info, body, w.Lit) {
			continue // a closure whose every call was expanded in place (its variable is only kept alive by `_ = v`)
		}
		worker(c, fn, short, w.Lit, w.Range)
	}
}

// deadClosure: lit is bound to a local variable that is never called or passed on (only `_ = v` remains).
func deadClosure(info *types.Info, body ast.Node, lit *ast.FuncLit) bool {
	var v types.Object
	core.InspectAll(body, func(n ast.Node) bool {
		if as, ok := n.(*ast.AssignStmt); ok && len(as.Lhs) == len(as.Rhs) {
			for i, r := range as.Rhs {
				if ast.Unparen(r) == ast.Expr(lit) {
					v = Obj(info, as.Lhs[i])
				}
			}
		}
		return true
	})
	if v == nil {
		return false
	}
	dead := true
	var stack []ast.Node
	ast.Inspect(body, func(n ast.Node) bool {
		if n == nil {
			stack = stack[:len(stack)-1]
			return false
		}
		stack = append(stack, n)
		if id, ok := n.(*ast.Ident); ok && info.Uses[id] == v && len(stack) >= 2 {
			as, ok := stack[len(stack)-2].(*ast.AssignStmt)
			blank := ok && len(as.Lhs) == 1 && len(as.Rhs) == 1 && as.Rhs[0] == ast.Expr(id)
			if blank {
				l, isID := as.Lhs[0].(*ast.Ident)
				blank = isID && l.Name == "_"
			}
			if !blank {
				dead = false
			}
		}
		return true
	})
	return dead
}

// through looks through conversions and through locals that are defined once and never re-assigned
// (`fixedDB := conf.Options.TargetDB`).
func Through(info *types.Info, e ast.Expr) ast.Expr {
	for i := 0; i < 6; i++ {
		e = Strip(info, e)
		if d := LitField(info, e); d != nil {
			e = d
			continue
		}
		d := pat.DefOf(info, e)
		if d == nil {
			break
		}
		e = d
	}
	return e
}

// LitField: e is `v.f` with v a local defined once by a struct literal (`v := T{f: x}`, `v := &T{f: x}`), f
// never stored into afterwards and v never handed to a call: the expression x the literal gives the field (nil
// otherwise). This is what a context struct that only carries values between phases leaves behind.
func LitField(info *types.Info, e ast.Expr) ast.Expr {
	sel, ok := ast.Unparen(e).(*ast.SelectorExpr)
	if !ok {
		return nil
	}
	id, ok := ast.Unparen(sel.X).(*ast.Ident)
	if !ok {
		return nil
	}
	v, ok := info.Uses[id].(*types.Var)
	if !ok || v.IsField() || handedOver[v] || reassigned[v] || fieldStored[v][sel.Sel.Name] {
		return nil
	}
	d := ast.Unparen(pat.DefOf(info, id))
	if u, isAddr := d.(*ast.UnaryExpr); isAddr && u.Op == token.AND {
		d = ast.Unparen(u.X)
	}
	cl, ok := d.(*ast.CompositeLit)
	if !ok {
		return nil
	}
	if _, isStruct := info.TypeOf(cl).Underlying().(*types.Struct); !isStruct {
		return nil
	}
	for _, el := range cl.Elts {
		if kv, isKV := el.(*ast.KeyValueExpr); isKV {
			if k, isID := kv.Key.(*ast.Ident); isID && k.Name == sel.Sel.Name {
				return kv.Value
			}
		}
	}
	return nil
}

func isTargetDB(info *types.Info, e ast.Expr) bool {
	return core.IsFieldNamed(info, Through(info, e), "Configuration", "TargetDB")
}

// TargetDBSet matches the fact `TargetDB != -1` with the given truth value.
func TargetDBSet(info *types.Info, f cfgq.Fact, set bool) bool {
	be, ok := ast.Unparen(f.Expr).(*ast.BinaryExpr)
	if !ok || be.Op != token.NEQ && be.Op != token.EQL {
		return false
	}
	x, y := be.X, be.Y
	if !isTargetDB(info, x) {
		x, y = y, x
	}
	v, isConst := core.IntConst(info, y)
	if !isTargetDB(info, x) || !isConst || v != -1 {
		return false
	}
	return (be.Op == token.NEQ) == (f.Val == set)
}

func isEntryDB(info *types.Info, e ast.Expr, entry types.Object) bool {
	e = Through(info, e)
	sel, ok := e.(*ast.SelectorExpr)
	return ok && core.IsFieldNamed(info, e, "BinEntry", "DB") && entry != nil && Obj(info, sel.X) == entry
}

func worker(c *core.Ctx, fn *core.Fn, short string, w *ast.FuncLit, rs *ast.RangeStmt) {
	info := fn.Pkg.TypesInfo
	g := cfgq.OfLit(c.Program, info, w)
	head, bodyBlk := RangeBlocks(g, rs)
	if head == nil || bodyBlk == nil {
		c.Undecidedf("R2.pair", short, rs.Pos(), "range loop not found in the worker's control-flow graph")
		return
	}
	entry := Obj(info, rs.Key) // `for e := range ch`: the element is the Key position
	// ---- spawn site
	var goStmt *ast.GoStmt
	core.InspectAll(fn.Decl.Body, func(n ast.Node) bool {
		if gs, ok := n.(*ast.GoStmt); ok && ast.Unparen(gs.Call.Fun) == ast.Expr(w) {
			goStmt = gs
		}
		return true
	})
	if goStmt == nil {
		c.Undecidedf("R3.add", short, w.Pos(), "the worker literal is not started by a go statement")
		return
	}
	path := core.PathTo(fn.Decl.Body, goStmt)
	var spawnLoop ast.Stmt
	var encl ast.Node = fn.Decl
	for _, p := range path {
		switch x := p.(type) {
		case *ast.ForStmt:
			if !OnceLoop(x) {
				spawnLoop = x
			}
		case *ast.RangeStmt:
			spawnLoop = x
		case *ast.FuncLit:
			encl, spawnLoop = x, nil
		}
	}
	parallel := spawnLoop != nil
	// ---- connection and restore calls
	opens := core.Calls(w, info, func(_ *ast.CallExpr, o types.Object) bool {
		f, _ := o.(*types.Func)
		return isCommon(f, "OpenRedisConn")
	})
	restores := core.Calls(w, info, func(_ *ast.CallExpr, o types.Object) bool {
		f, _ := o.(*types.Func)
		return isCommon(f, "RestoreRdbEntry")
	})
	if len(opens) != 1 || len(restores) == 0 {
		c.Undecidedf("R1.private", short+"/conn", w.Pos(), "expected one OpenRedisConn and at least one RestoreRdbEntry call inside the worker literal, found %d and %d", len(opens), len(restores))
		return
	}
	var conn types.Object
	var openAs *ast.AssignStmt
	for _, p := range core.PathTo(w, opens[0]) {
		if as, ok := p.(*ast.AssignStmt); ok && len(as.Rhs) == 1 && ast.Unparen(as.Rhs[0]) == ast.Expr(opens[0]) && len(as.Lhs) == 2 {
			openAs, conn = as, Obj(info, as.Lhs[0])
		}
	}
	if conn == nil {
		c.Undecidedf("R1.private", short+"/conn", opens[0].Pos(), "the result of OpenRedisConn is not bound by `c, err := ...`")
		return
	}
	c.Check("R1.private", short+"/conn", openAs.Pos(), !parallel || within(conn, w),
		"the connection variable must be declared inside the worker literal: workers sharing one connection interleave SELECT/RESTORE, so a key is restored into the database another worker selected")
	selectTracking(c, fn, short, w, rs, g, conn, entry, restores, parallel)
	completion(c, fn, short, w, g, goStmt, spawnLoop, encl)
	everyEntry(c, short, info, g, rs, head, bodyBlk, entry)
	// ---- R4
	var marks []types.Object
	spec := ErrSpec{Rule: "R4.error", Mark: func(n ast.Node, err types.Object) bool {
		as, ok := n.(*ast.AssignStmt)
		if !ok || len(as.Lhs) != 1 || len(as.Rhs) != 1 || Obj(info, as.Rhs[0]) != err {
			return false
		}
		ix, ok := ast.Unparen(as.Lhs[0]).(*ast.IndexExpr)
		if !ok {
			return false
		}
		v, _ := Obj(info, ix.X).(*types.Var)
		if v == nil || within(v, w) {
			return false
		}
		if sl, ok := v.Type().Underlying().(*types.Slice); !ok || !cfgq.IsErrorType(sl.Elem()) {
			return false
		}
		marks = append(marks, v)
		return true
	}}
	spec.Key = short + "/OpenRedisConn"
	spec.Consequence = "a worker that cannot connect leaves its share of the entries unrestored while the run is reported as done"
	spec.BlankOK = func(as *ast.AssignStmt) string { return nilDeref(c, g, info, as, opens[0]) }
	ErrCheck(c, g, info, w, opens[0], spec)
	spec.BlankOK = nil
	for _, call := range restores {
		spec.Key = short + "/RestoreRdbEntry"
		spec.Consequence = "witness: restore of key k fails (e.g. target already holds k and key_exists=none => BUSYKEY error returned by RestoreRdbEntry); the worker goes on, logs `restore key ok`, and the run ends with `rdb done` / nil instead of reporting the failure"
		ErrCheck(c, g, info, w, call, spec)
	}
	seen := map[types.Object]bool{}
	for _, m := range marks {
		if !seen[m] {
			seen[m] = true
			propagate(c, fn, short, m)
		}
	}
}

// initConst finds the declaration of v and returns its constant initial value.
func initConst(info *types.Info, body ast.Node, v types.Object) (int64, bool) {
	var val int64
	found := false
	core.InspectAll(body, func(n ast.Node) bool {
		switch x := n.(type) {
		case *ast.ValueSpec:
			for i, id := range x.Names {
				if info.Defs[id] == v {
					if len(x.Values) == 0 {
						val, found = 0, true
					} else if i < len(x.Values) {
						val, found = core.IntConst(info, x.Values[i])
					}
				}
			}
		case *ast.AssignStmt:
			for i, l := range x.Lhs {
				if id, ok := l.(*ast.Ident); ok && info.Defs[id] == v && len(x.Lhs) == len(x.Rhs) {
					val, found = core.IntConst(info, x.Rhs[i])
				}
			}
		}
		return true
	})
	return val, found
}

// completion checks R3 for one worker literal.
func completion(c *core.Ctx, fn *core.Fn, short string, w *ast.FuncLit, g *cfgq.Graph, goStmt *ast.GoStmt, spawnLoop ast.Stmt, encl ast.Node) {
	info := fn.Pkg.TypesInfo
	var wg, wgParam types.Object
	for _, call := range core.CallsAll(w, info, func(_ *ast.CallExpr, o types.Object) bool {
		f, _ := o.(*types.Func)
		return core.IsFunc(f, "sync", "WaitGroup", "Done")
	}) {
		wg = Obj(info, call.Fun.(*ast.SelectorExpr).X)
	}
	if wg != nil { // `go func(wg *sync.WaitGroup) {...}(&wg)`: the parameter stands for the argument
		idx := 0
		for _, f := range w.Type.Params.List {
			for _, nm := range f.Names {
				if info.Defs[nm] == wg && idx < len(goStmt.Call.Args) {
					a := ast.Unparen(goStmt.Call.Args[idx])
					if u, ok := a.(*ast.UnaryExpr); ok && u.Op == token.AND {
						a = u.X
					}
					if o := Obj(info, a); o != nil {
						wgParam, wg = wg, o
					}
				}
				idx++
			}
		}
	}
	lit, _ := encl.(*ast.FuncLit)
	if lit == nil {
		c.Undecidedf("R3.done", short, w.Pos(), "workers are not spawned from a supervising goroutine literal: completion idiom not recognised")
		return
	}
	ge := cfgq.OfLit(c.Program, info, lit)
	if wg == nil {
		waits := core.Calls(lit, info, func(_ *ast.CallExpr, o types.Object) bool {
			f, _ := o.(*types.Func)
			return core.IsFunc(f, "sync", "WaitGroup", "Wait")
		})
		if len(waits) > 0 {
			c.Failf("R3.done", short, w.Pos(), "the worker never calls Done on the WaitGroup its spawner waits on: wg.Wait() blocks forever, the wait channel is never closed and %s never returns although every entry was processed", short)
		} else {
			c.Undecidedf("R3.done", short, w.Pos(), "no WaitGroup completion idiom found")
		}
		return
	}
	done := func(n ast.Node) bool {
		return MethodCallOn(info, n, wg, "Done") || wgParam != nil && MethodCallOn(info, n, wgParam, "Done")
	}
	ok, wp := MustPass(g, g.Entry(), false, done)
	c.Check("R3.done", short, w.Pos(), ok,
		"every path through the worker must signal wg.Done() (normally by defer): otherwise wg.Wait() blocks forever and "+short+" never returns although all entries were processed", wp...)
	// Add bound
	adds := core.Calls(lit, info, func(call *ast.CallExpr, o types.Object) bool {
		f, _ := o.(*types.Func)
		return core.IsFunc(f, "sync", "WaitGroup", "Add") && Obj(info, call.Fun.(*ast.SelectorExpr).X) == wg
	})
	switch {
	case len(adds) != 1 || spawnLoop == nil:
		c.Undecidedf("R3.add", short, goStmt.Pos(), "expected one wg.Add and a counted spawn loop, found %d Add call(s)", len(adds))
	case Within(adds[0], loopBody(spawnLoop)):
		v, isC := core.IntConst(info, adds[0].Args[0])
		c.Check("R3.add", short, adds[0].Pos(), isC && v == 1, "wg.Add inside the spawn loop must add exactly 1 per worker")
	default:
		bound := LoopCount(info, spawnLoop)
		if bound == nil {
			c.Undecidedf("R3.add", short, spawnLoop.Pos(), "the number of iterations of the spawn loop is not in a recognised form (`i := 0; i < n; i++`, range over a slice made with length n, range n)")
			break
		}
		arg := adds[0].Args[0]
		if SameCount(info, arg, bound) {
			c.Okf("R3.add", short, adds[0].Pos(), "wg.Add(%s) equals the spawn bound", c.Src(arg))
		} else if stable(info, Through(info, arg)) && stable(info, Through(info, bound)) || DiffCount(info, arg, bound) {
			c.Failf("R3.add", short, adds[0].Pos(), "wg.Add(%s) differs from the number of workers spawned (%s): with fewer, wg.Wait() returns while workers are still restoring (the function returns before every entry is processed, or Done panics on a negative counter); with more it never returns", c.Src(arg), c.Src(bound))
		} else {
			c.Undecidedf("R3.add", short, adds[0].Pos(), "cannot compare wg.Add(%s) with spawn bound %s", c.Src(arg), c.Src(bound))
		}
	}
	// wait channel
	var wait types.Object
	nclose := 0
	core.InspectAll(lit, func(n ast.Node) bool {
		if call, ok := n.(*ast.CallExpr); ok {
			if b, ok := core.Callee(info, call).(*types.Builtin); ok && b.Name() == "close" && len(call.Args) == 1 {
				if o := Obj(info, call.Args[0]); o != nil && within(o, fn.Decl.Body) && !within(o, lit) {
					wait = o
					nclose++
				}
			}
		}
		return true
	})
	if nclose != 1 {
		c.Undecidedf("R3.close-after-wait", short, lit.Pos(), "expected exactly one close(<done channel>) in the supervising goroutine, found %d", nclose)
		return
	}
	isWait := func(n ast.Node) bool { return MethodCallOn(info, n, wg, "Wait") && !isDefer(n) }
	isClose := func(n ast.Node) bool { return BuiltinCallOn(info, n, "close", wait) }
	okAll, wAll := MustPass(ge, ge.Entry(), false, isClose)
	c.Check("R3.close-always", short, lit.Pos(), okAll, "the supervising goroutine must close the done channel on every path, or "+short+" never returns", wAll...)
	okOrder := true
	var wOrder []string
	for _, p := range ge.Points(isClose) {
		if isDefer(p.Node()) {
			// runs at exit: every normal exit reached from here must have passed wg.Wait()
			if ok, wpath := MustPass(ge, ge.Entry(), false, isWait); !ok {
				okOrder, wOrder = false, wpath
			}
		} else if ok, wpath := ge.Dominated(p, isWait); !ok {
			okOrder, wOrder = false, wpath
		}
	}
	c.Check("R3.close-after-wait", short, lit.Pos(), okOrder,
		"the done channel may be closed only after wg.Wait() returned: closed earlier, "+short+" returns (and full sync / restore is declared finished) while workers are still restoring entries", wOrder...)
	// all go statements of workers precede Wait: Wait must not be reachable before the spawn loop is done
	gf := cfgq.Of(c.Program, fn)
	WaitLoop(c, "R3.report-loop", short, gf, fn.Decl.Body, info, wait,
		short+" returns before the workers have processed every entry of the RDB")
}

// scanFor finds the place where the first non-nil element of v (or of a copy of it) becomes the result:
//
//	for _, e := range v { if e != nil { return e } }            (returned directly)
//	for _, e := range v { if e != nil { r = e; break } } ... return r   (through a result variable)
//	for i := 0; i < len(v) && acc == nil; i++ { acc = v[i] } ... return acc   (accumulator)
//
// It returns the node that starts the scan (the range operand / the loop condition).
// partialScan marks loop conditions of scans over the error slice that provably leave slots out.
var partialScan = map[ast.Node]bool{}

// ---------------------------------------------------------------------------
// E7 error discipline

// LoaderRules checks NewRDBLoader (shared with C17.R5).
func LoaderRules(c *core.Ctx) {
	if f := c.Func(pkgCommon, "", "NewRDBLoader"); f != nil {
		loader(c, f)
	}
}

func loader(c *core.Ctx, fn *core.Fn) {
	info := fn.Pkg.TypesInfo
	var pipe types.Object
	if n, b := pat.Stmt("_p = make(_t, _s)").Find(info, fn.Decl.Body, nil); n != nil {
		pipe = Obj(info, b["_p"].(ast.Expr))
	}
	lits := core.FuncLits(fn.Decl.Body)
	if pipe == nil || len(lits) != 1 {
		c.Undecidedf("R5.close", "NewRDBLoader", fn.Decl.Pos(), "expected `pipe := make(chan ...)` and one goroutine literal")
		return
	}
	lit := lits[0]
	g := cfgq.OfLit(c.Program, info, lit)
	isClose := func(n ast.Node) bool { return BuiltinCallOn(info, n, "close", pipe) }
	ok, w := MustPass(g, g.Entry(), false, isClose)
	c.Check("R5.close", "NewRDBLoader", lit.Pos(), ok, "the loader goroutine must close the entry channel on every return, or the workers' range loops never end and the run never finishes", w...)
	// uses of pipe: make, send, close, return
	sends := g.Points(func(n ast.Node) bool { s, ok := n.(*ast.SendStmt); return ok && Obj(info, s.Chan) == pipe })
	next := core.Calls(lit, info, func(call *ast.CallExpr, _ types.Object) bool {
		f := CalleeF(info, call)
		return core.IsFunc(f, "pkg/rdb", "Loader", "NextBinEntry")
	})
	if len(next) != 1 || len(sends) == 0 {
		c.Undecidedf("R5.send", "NewRDBLoader", lit.Pos(), "expected one NextBinEntry call and a send on the entry channel, found %d / %d", len(next), len(sends))
		return
	}
	np, _ := g.Find(next[0])
	var entry types.Object
	if as, ok := np.Node().(*ast.AssignStmt); ok && len(as.Lhs) == 2 {
		entry = Obj(info, as.Lhs[0])
	}
	if entry == nil {
		c.Undecidedf("R5.send", "NewRDBLoader", next[0].Pos(), "NextBinEntry result not bound by `entry, err := ...`")
		return
	}
	isSend := func(n ast.Node) bool {
		s, ok := n.(*ast.SendStmt)
		return ok && Obj(info, s.Chan) == pipe && Obj(info, s.Value) == entry
	}
	nilEdge := func(b *cfg.Block, s int) bool { // the edge establishes entry == nil
		return EdgeFact(g, b, s, func(f cfgq.Fact) bool { nn, is := NilCmp(info, f, entry); return is && !nn })
	}
	w1 := g.Path(cfgq.Query{From: np, After: true, Avoid: isSend, AvoidEdge: nilEdge, Target: IsNode(np.Node())})
	c.Check("R5.send", "NewRDBLoader/no-drop", next[0].Pos(), w1 == nil, "a parsed (non-nil) entry can be dropped: the next entry is read without sending this one to the workers, so its key is never restored", w1...)
	okDup := true
	var w2 []string
	for _, sp := range sends {
		if w2 = g.Path(cfgq.Query{From: sp, After: true, Avoid: IsNode(np.Node()), Target: func(n ast.Node) bool { _, ok := n.(*ast.SendStmt); return ok }}); w2 != nil {
			okDup = false
		}
		okNil, w3 := g.OnlyViaFact(sp, func(f cfgq.Fact) bool { nn, is := NilCmp(info, f, entry); return is && nn })
		c.Check("R5.send", "NewRDBLoader/non-nil", sp.Node().Pos(), okNil && isSend(sp.Node()), "only the non-nil entry just parsed may be sent (a nil entry makes every worker dereference nil)", w3...)
	}
	c.Check("R5.send", "NewRDBLoader/no-dup", lit.Pos(), okDup, "an entry can be sent twice without parsing a new one: its key is restored twice", w2...)
	// normal exit only after entry == nil and the footer
	w4 := g.Path(cfgq.Query{From: np, After: true, AvoidEdge: nilEdge, TargetExit: NormalExit})
	c.Check("R5.eof", "NewRDBLoader/until-nil", lit.Pos(), w4 == nil, "the loader goroutine may return (closing the channel) only after NextBinEntry returned a nil entry (EOF opcode); returning earlier drops the rest of the RDB silently", w4...)
	footer := core.Calls(lit, info, func(call *ast.CallExpr, _ types.Object) bool {
		f := CalleeF(info, call)
		return core.IsFunc(f, "pkg/rdb", "Loader", "Footer")
	})
	if len(footer) == 1 {
		isFooter := g.HasCall(func(call *ast.CallExpr, _ types.Object) bool { return call == footer[0] })
		w5 := g.Path(cfgq.Query{From: np, After: true, Avoid: isFooter, TargetExit: NormalExit, AvoidEdge: func(b *cfg.Block, s int) bool {
			return EdgeFact(g, b, s, func(f cfgq.Fact) bool { return oldVersion(info, f) })
		}})
		c.Check("R5.eof", "NewRDBLoader/footer", footer[0].Pos(), w5 == nil, "the checksum footer must be verified before the channel is closed normally (versions > 2)", w5...)
	} else {
		c.Undecidedf("R5.eof", "NewRDBLoader/footer", lit.Pos(), "expected one Footer call, found %d", len(footer))
	}
	for _, m := range []string{"Header", "NextBinEntry", "Footer"} {
		for _, call := range core.Calls(lit, info, func(call *ast.CallExpr, _ types.Object) bool {
			f := CalleeF(info, call)
			return core.IsFunc(f, "pkg/rdb", "Loader", m)
		}) {
			ErrCheck(c, g, info, lit, call, ErrSpec{Rule: "R5.error", Key: "NewRDBLoader/" + m,
				Consequence: "a parse error must stop the process; otherwise a truncated/corrupt RDB is restored partially and the run reports success"})
		}
	}
}

// oldVersion: the fact establishes rdb.FromVersion <= 2 (no checksum footer).
func oldVersion(info *types.Info, f cfgq.Fact) bool {
	be, ok := ast.Unparen(f.Expr).(*ast.BinaryExpr)
	if !ok {
		return false
	}
	op, x, y := be.Op, be.X, be.Y
	if _, isC := core.IntConst(info, x); isC {
		x, y = y, x
		op = map[token.Token]token.Token{token.LSS: token.GTR, token.GTR: token.LSS, token.LEQ: token.GEQ, token.GEQ: token.LEQ}[op]
	}
	v, isC := core.IntConst(info, y)
	o := Obj(info, x)
	if !isC || o == nil || o.Name() != "FromVersion" || o.Pkg() == nil || o.Pkg().Path() != core.Module+"/pkg/rdb" {
		return false
	}
	switch {
	case op == token.GTR && v == 2, op == token.GEQ && v == 3:
		return !f.Val
	case op == token.LEQ && v == 2, op == token.LSS && v == 3:
		return f.Val
	}
	return false
}
