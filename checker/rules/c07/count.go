// Loop forms and iteration counts (shared by C07, C16, C17).
package c07

import (
	"go/ast"
	"go/token"
	"go/types"

	"rscheck/core"
	"rscheck/lin"
	"rscheck/pat"
)

// onceLoop recognises the `L: for { ...; break L }` wrapper that source-level helper expansion produces: its
// body runs exactly once, it is not a loop of the program.
func OnceLoop(f *ast.ForStmt) bool {
	if f.Cond != nil || f.Init != nil || f.Post != nil || len(f.Body.List) == 0 {
		return false
	}
	br, ok := f.Body.List[len(f.Body.List)-1].(*ast.BranchStmt)
	if !ok || br.Tok != token.BREAK || br.Label == nil {
		return false
	}
	cont := false
	ast.Inspect(f.Body, func(n ast.Node) bool {
		if b, ok := n.(*ast.BranchStmt); ok && b.Tok == token.CONTINUE && (b.Label == nil || b.Label.Name == br.Label.Name) {
			cont = true // conservatively: any continue that may target it
		}
		if _, isLoop := n.(*ast.ForStmt); isLoop && n != ast.Node(f) {
			return false
		}
		if _, isLoop := n.(*ast.RangeStmt); isLoop {
			return false
		}
		return true
	})
	return !cont
}

func loopBody(l ast.Stmt) *ast.BlockStmt {
	switch x := l.(type) {
	case *ast.ForStmt:
		return x.Body
	case *ast.RangeStmt:
		return x.Body
	}
	return nil
}

// LoopCount returns an expression for the number of iterations of a counting loop: `for i := 0; i < n; i++`
// (n), `for ... := range s` with s a slice made with length n (n) or `len(s)` otherwise, `for range n` (n).
func LoopCount(info *types.Info, l ast.Stmt) ast.Expr {
	switch x := l.(type) {
	case *ast.ForStmt:
		if x.Cond == nil || x.Init == nil || x.Post == nil {
			return nil
		}
		if pd, isDec := x.Post.(*ast.IncDecStmt); isDec && pd.Tok == token.DEC {
			cd := pat.Expr("_i > _k").Match(info, x.Cond, nil) // countdown
			if cd == nil {                                     // for left := n; left > k; left--  (n - k rounds)
				return nil
			}
			i, isID := cd["_i"].(*ast.Ident)
			init, ok := x.Init.(*ast.AssignStmt)
			dec, ok2 := x.Post.(*ast.IncDecStmt)
			if isID && ok && ok2 && len(init.Lhs) == 1 && len(init.Rhs) == 1 && Obj(info, init.Lhs[0]) == Obj(info, i) && dec.Tok == token.DEC && Obj(info, dec.X) == Obj(info, i) {
				if k, isC := core.IntConst(info, cd["_k"].(ast.Expr)); isC && k == 0 {
					return init.Rhs[0]
				}
				return &ast.BinaryExpr{X: init.Rhs[0], Op: token.SUB, Y: cd["_k"].(ast.Expr)}
			}
			return nil
		}
		b := pat.Expr("_i < _n").Match(info, x.Cond, nil)
		if b == nil {
			return nil
		}
		i, ok := b["_i"].(*ast.Ident)
		if !ok {
			return nil
		}
		init, ok := x.Init.(*ast.AssignStmt)
		inc, ok2 := x.Post.(*ast.IncDecStmt)
		if !ok || !ok2 || len(init.Lhs) != 1 || len(init.Rhs) != 1 || Obj(info, init.Lhs[0]) != Obj(info, i) || inc.Tok != token.INC || Obj(info, inc.X) != Obj(info, i) {
			return nil
		}
		if v, isC := core.IntConst(info, init.Rhs[0]); !isC || v != 0 {
			return nil
		}
		return b["_n"].(ast.Expr)
	case *ast.RangeStmt:
		t := info.TypeOf(x.X)
		if t == nil {
			return nil
		}
		if b, ok := t.Underlying().(*types.Basic); ok && b.Info()&types.IsInteger != 0 {
			return x.X
		}
		if _, ok := t.Underlying().(*types.Slice); !ok {
			return nil
		}
		if call, ok := Through(info, x.X).(*ast.CallExpr); ok && len(call.Args) == 2 {
			if bi, ok := core.Callee(info, call).(*types.Builtin); ok && bi.Name() == "make" {
				return call.Args[1]
			}
		}
		return &ast.CallExpr{Fun: ast.NewIdent("len"), Args: []ast.Expr{x.X}}
	}
	return nil
}

// SameCount: two count expressions are equal (through conversions, single-assignment locals, `len(s)` of a
// slice made with that length).
func SameCount(info *types.Info, a, b ast.Expr) bool {
	norm := func(e ast.Expr) ast.Expr {
		e = Through(info, e)
		if call, ok := e.(*ast.CallExpr); ok && len(call.Args) == 1 {
			if id, ok := call.Fun.(*ast.Ident); ok && id.Name == "len" {
				if mk, ok := Through(info, call.Args[0]).(*ast.CallExpr); ok && len(mk.Args) == 2 {
					if bi, ok := core.Callee(info, mk).(*types.Builtin); ok && bi.Name() == "make" {
						return Through(info, mk.Args[1])
					}
				}
			}
		}
		return e
	}
	return pat.Same(info, norm(a), norm(b)) || lin.Of(info, norm(a)).Equal(lin.Of(info, norm(b)))
}

// DiffCount: the two counts are the same linear expression up to a non-zero constant (`n` vs `n - 1`): they differ.
func DiffCount(info *types.Info, a, b ast.Expr) bool {
	fa, fb := lin.Of(info, Through(info, a)), lin.Of(info, Through(info, b))
	if fa.Const == fb.Const || len(fa.Coef) != len(fb.Coef) {
		return false
	}
	for k, v := range fa.Coef {
		if fb.Coef[k] != v {
			return false
		}
	}
	return true
}
