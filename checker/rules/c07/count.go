// Loop forms and iteration counts (shared by C07, C16, C17).
package c07

import (
	"go/ast"
	"go/token"
	"go/types"
	"strconv"

	"rscheck/core"
	"rscheck/lin"
	"rscheck/pat"
)

// onceLoop recognises the `L: for { ...; break L }` wrapper that source-level helper expansion produces: its
// body runs exactly once, it is not a loop of the program.
func OnceLoop(f *ast.ForStmt) bool {
	if f.Cond != nil || f.Init != nil || f.Post != nil || len(f.Body.List) == 0 {
		return false
	}
	br, ok := f.Body.List[len(f.Body.List)-1].(*ast.BranchStmt)
	if !ok || br.Tok != token.BREAK || br.Label == nil {
		return false
	}
	cont := false
	ast.Inspect(f.Body, func(n ast.Node) bool {
		if b, ok := n.(*ast.BranchStmt); ok && b.Tok == token.CONTINUE && (b.Label == nil || b.Label.Name == br.Label.Name) {
			cont = true // conservatively: any continue that may target it
		}
		if _, isLoop := n.(*ast.ForStmt); isLoop && n != ast.Node(f) {
			return false
		}
		if _, isLoop := n.(*ast.RangeStmt); isLoop {
			return false
		}
		return true
	})
	return !cont
}

func loopBody(l ast.Stmt) *ast.BlockStmt {
	switch x := l.(type) {
	case *ast.ForStmt:
		return x.Body
	case *ast.RangeStmt:
		return x.Body
	}
	return nil
}

// LoopCount returns an expression for the number of iterations of a counting loop: `for i := 0; i < n; i++`
// (n), `for ... := range s` with s a slice made with length n (n) or `len(s)` otherwise, `for range n` (n).
func LoopCount(info *types.Info, l ast.Stmt) ast.Expr {
	switch x := l.(type) {
	case *ast.ForStmt:
		if x.Cond != nil && x.Init == nil && x.Post == nil {
			// while form: `i := a` before, `for i < n { ...; i++ }` with the increment as the last statement, the
			// only assignment of i anywhere, and no continue that could skip it
			b := pat.Expr("_i < _n").Match(info, x.Cond, nil)
			if b == nil || len(x.Body.List) == 0 {
				return nil
			}
			i, isID := b["_i"].(*ast.Ident)
			inc, isInc := x.Body.List[len(x.Body.List)-1].(*ast.IncDecStmt)
			if !isID || !isInc || inc.Tok != token.INC || Obj(info, inc.X) != core.ObjOf(info, i) || nAssign[core.ObjOf(info, i)] != 1 {
				return nil
			}
			skips := false
			ast.Inspect(x.Body, func(m ast.Node) bool {
				if br, isBr := m.(*ast.BranchStmt); isBr && (br.Tok == token.CONTINUE || br.Tok == token.GOTO) {
					skips = true
				}
				return !skips
			})
			a, isC := int64(0), false
			if iv := initVal[core.ObjOf(info, i)]; iv != nil {
				a, isC = core.IntConst(info, iv)
			}
			if skips || !isC {
				return nil
			}
			n := b["_n"].(ast.Expr)
			if a == 0 {
				return n
			}
			return &ast.BinaryExpr{X: n, Op: token.SUB, Y: &ast.BasicLit{Kind: token.INT, Value: strconv.FormatInt(a, 10)}}
		}
		if x.Cond == nil || x.Init == nil || x.Post == nil {
			return nil
		}
		if pd, isDec := x.Post.(*ast.IncDecStmt); isDec && pd.Tok == token.DEC {
			cd := pat.Expr("_i > _k").Match(info, x.Cond, nil) // countdown: for left := n; left > k; left--  (n - k rounds)
			inclusive := false
			if cd == nil { // for i := n - 1; i >= k; i--  (n - 1 - k + 1 rounds)
				if cd = pat.Expr("_i >= _k").Match(info, x.Cond, nil); cd == nil {
					return nil
				}
				inclusive = true
			}
			i, isID := cd["_i"].(*ast.Ident)
			init, ok := x.Init.(*ast.AssignStmt)
			dec, ok2 := x.Post.(*ast.IncDecStmt)
			if isID && ok && ok2 && len(init.Lhs) == 1 && len(init.Rhs) == 1 && Obj(info, init.Lhs[0]) == Obj(info, i) && dec.Tok == token.DEC && Obj(info, dec.X) == Obj(info, i) {
				var n ast.Expr = &ast.BinaryExpr{X: init.Rhs[0], Op: token.SUB, Y: cd["_k"].(ast.Expr)}
				if k, isC := core.IntConst(info, cd["_k"].(ast.Expr)); isC && k == 0 {
					n = init.Rhs[0]
				}
				if inclusive {
					if be, isB := ast.Unparen(n).(*ast.BinaryExpr); isB && be.Op == token.SUB { // (m - 1) + 1
						if one, isC := core.IntConst(info, be.Y); isC && one == 1 {
							return be.X
						}
					}
					n = &ast.BinaryExpr{X: n, Op: token.ADD, Y: &ast.BasicLit{Kind: token.INT, Value: "1"}}
				}
				return n
			}
			return nil
		}
		incl := false
		b := pat.Expr("_i < _n").Match(info, x.Cond, nil)
		if b == nil {
			if b = pat.Expr("_i <= _n").Match(info, x.Cond, nil); b == nil {
				return nil
			}
			incl = true
		}
		i, ok := b["_i"].(*ast.Ident)
		if !ok {
			return nil
		}
		init, ok := x.Init.(*ast.AssignStmt)
		inc, ok2 := x.Post.(*ast.IncDecStmt)
		if !ok || !ok2 || len(init.Lhs) != 1 || len(init.Rhs) != 1 || Obj(info, init.Lhs[0]) != Obj(info, i) || inc.Tok != token.INC || Obj(info, inc.X) != Obj(info, i) {
			return nil
		}
		// for i := a; i < n (or <= n); i++  runs n - a (+1) times
		a, isC := core.IntConst(info, init.Rhs[0])
		if !isC {
			return nil
		}
		if incl {
			a--
		}
		n := b["_n"].(ast.Expr)
		switch {
		case a == 0:
			return n
		case a > 0:
			return &ast.BinaryExpr{X: n, Op: token.SUB, Y: &ast.BasicLit{Kind: token.INT, Value: strconv.FormatInt(a, 10)}}
		}
		return &ast.BinaryExpr{X: n, Op: token.ADD, Y: &ast.BasicLit{Kind: token.INT, Value: strconv.FormatInt(-a, 10)}}
	case *ast.RangeStmt:
		t := info.TypeOf(x.X)
		if t == nil {
			return nil
		}
		if b, ok := t.Underlying().(*types.Basic); ok && b.Info()&types.IsInteger != 0 {
			return x.X
		}
		if _, ok := t.Underlying().(*types.Slice); !ok {
			return nil
		}
		if call, ok := Through(info, x.X).(*ast.CallExpr); ok && len(call.Args) == 2 {
			if bi, ok := core.Callee(info, call).(*types.Builtin); ok && bi.Name() == "make" {
				return call.Args[1]
			}
		}
		return &ast.CallExpr{Fun: ast.NewIdent("len"), Args: []ast.Expr{x.X}}
	}
	return nil
}

// ZeroBased: the counting loop is `for i := 0; i < n; i++` (its counter is a valid index of a slice of length n).
func ZeroBased(info *types.Info, l *ast.ForStmt) bool {
	init, ok := l.Init.(*ast.AssignStmt)
	if !ok || len(init.Rhs) != 1 || l.Cond == nil {
		return false
	}
	a, isC := core.IntConst(info, init.Rhs[0])
	return isC && a == 0 && pat.Expr("_i < _n").Match(info, l.Cond, nil) != nil
}

// SameCount: two count expressions are equal (through conversions, single-assignment locals, `len(s)` of a
// slice made with that length).
// splitOffset separates a constant offset written as a literal (`n - 1`, the form LoopCount synthesises) from
// the rest of the count.
func splitOffset(e ast.Expr) (ast.Expr, int64) {
	off := int64(0)
	for {
		be, ok := ast.Unparen(e).(*ast.BinaryExpr)
		if !ok || be.Op != token.ADD && be.Op != token.SUB {
			return e, off
		}
		lit, ok := be.Y.(*ast.BasicLit)
		if !ok || lit.Kind != token.INT {
			return e, off
		}
		k, err := strconv.ParseInt(lit.Value, 0, 64)
		if err != nil {
			return e, off
		}
		if be.Op == token.SUB {
			k = -k
		}
		off += k
		e = be.X
	}
}

func SameCount(info *types.Info, a, b ast.Expr) bool {
	a, offA := splitOffset(a)
	b, offB := splitOffset(b)
	if offA != offB {
		return false
	}
	norm := func(e ast.Expr) ast.Expr {
		e = Through(info, e)
		if call, ok := e.(*ast.CallExpr); ok && len(call.Args) == 1 {
			if id, ok := call.Fun.(*ast.Ident); ok && id.Name == "len" {
				if mk, ok := Through(info, call.Args[0]).(*ast.CallExpr); ok && len(mk.Args) == 2 {
					if bi, ok := core.Callee(info, mk).(*types.Builtin); ok && bi.Name() == "make" {
						return Through(info, mk.Args[1])
					}
				}
			}
		}
		return e
	}
	return pat.Same(info, norm(a), norm(b)) || lin.Of(info, norm(a)).Equal(lin.Of(info, norm(b)))
}

// DiffCount: the two counts are the same linear expression up to a non-zero constant (`n` vs `n - 1`): they differ.
func DiffCount(info *types.Info, a, b ast.Expr) bool {
	a, offA := splitOffset(a)
	b, offB := splitOffset(b)
	fa, fb := lin.Of(info, Through(info, a)), lin.Of(info, Through(info, b))
	if fa.Const+offA == fb.Const+offB || len(fa.Coef) != len(fb.Coef) {
		return false
	}
	for k, v := range fa.Coef {
		if fb.Coef[k] != v {
			return false
		}
	}
	return true
}
