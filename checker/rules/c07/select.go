// SELECT tracking (R2) of the C07 worker pools, with one level of helper following.
package c07

import (
	"fmt"
	"go/ast"
	"go/token"
	"go/types"

	"golang.org/x/tools/go/cfg"

	"rscheck/cfgq"
	"rscheck/core"
	"rscheck/pat"
)

// selScope is one region in which SELECT tracking is analysed: the body of the
// worker's entry loop, or (one level of helper following) the body of a
// same-package helper called from it with the connection, the entry's DB and
// the tracker as arguments and the tracker as result.
type selScope struct {
	c        *core.Ctx
	short    string
	info     *types.Info
	g        *cfgq.Graph
	start    cfgq.Point
	head     *cfg.Block // loop head; nil: the region ends at the function's normal exits
	scope    ast.Node
	conn     types.Object
	tracker  types.Object
	entryDB  func(ast.Expr) bool
	carriers map[types.Object][]carrierDef
}

func (s *selScope) src(e ast.Expr) string {
	switch {
	case isTargetDB(s.info, e):
		return "TargetDB"
	case s.entryDB(Strip(s.info, e)):
		return "entry.DB"
	case len(s.carrier(e)) > 0:
		return "wanted" // a local that carries the wanted database; its definitions are judged by wantedOK
	}
	return ""
}

// carrierDef is one definition of a local that carries the wanted database.
type carrierDef struct {
	at   cfgq.Point
	name string // "TargetDB" or "entry.DB"
}

// carrier: e is a local variable (not the tracker) all of whose definitions in the scope are TargetDB or the
// entry's DB (`wantdb := int(e.DB); if TargetDB != -1 { wantdb = TargetDB }`). Returns its definitions.
func (s *selScope) carrier(e ast.Expr) []carrierDef {
	id, ok := Strip(s.info, e).(*ast.Ident)
	if !ok {
		return nil
	}
	v, ok := core.ObjOf(s.info, id).(*types.Var)
	if !ok || v.IsField() || v == s.tracker || v == s.conn || v.Pkg() == nil || v.Parent() == v.Pkg().Scope() {
		return nil
	}
	if s.carriers == nil {
		s.carriers = map[types.Object][]carrierDef{}
	}
	if d, ok := s.carriers[v]; ok {
		return d
	}
	s.carriers[v] = nil
	var defs []carrierDef
	okAll := true
	direct := func(r ast.Expr) string {
		switch {
		case r == nil:
		case isTargetDB(s.info, r):
			return "TargetDB"
		case s.entryDB(Strip(s.info, r)):
			return "entry.DB"
		}
		return ""
	}
	for _, p := range s.g.Points(func(n ast.Node) bool { return Within(n, s.scope) }) {
		var rhs ast.Expr
		hit := false
		switch x := p.Node().(type) {
		case *ast.AssignStmt:
			if as, r := AssignsTo(s.info, x, v); as != nil {
				rhs, hit = r, true
			}
		case *ast.ValueSpec:
			for i, nm := range x.Names {
				if s.info.Defs[nm] == types.Object(v) {
					hit = true
					if i < len(x.Values) {
						rhs = x.Values[i]
					}
				}
			}
		}
		if !hit {
			continue
		}
		if n := direct(rhs); n != "" {
			defs = append(defs, carrierDef{p, n})
		} else {
			okAll = false
		}
	}
	if !okAll || len(defs) == 0 {
		return nil
	}
	// unlike the tracker (state carried over from the previous entry), a carrier is (re)defined before every use
	isDef := func(n ast.Node) bool {
		for _, d := range defs {
			if d.at.Node() == n {
				return true
			}
		}
		return false
	}
	for _, p := range s.g.Points(func(n ast.Node) bool { return Within(n, s.scope) && !isDef(n) && core.Mentions(s.info, n, v) }) {
		if s.g.Path(cfgq.Query{From: s.start, Avoid: isDef, Target: IsNode(p.Node())}) != nil {
			return nil
		}
	}
	s.carriers[v] = defs
	return defs
}

// wantedOK: at site p the carrier e holds TargetDB exactly when TargetDB != -1 and the entry's DB otherwise:
// every definition either executes only under the matching configuration, or reaches p only through an edge
// that establishes it (the other definition kills it on the other edge).
func (s *selScope) wantedOK(e ast.Expr, p cfgq.Point) (bool, []string) {
	defs := s.carrier(e)
	isDef := func(n ast.Node) bool {
		for _, d := range defs {
			if d.at.Node() == n {
				return true
			}
		}
		return false
	}
	for _, d := range defs {
		want := d.name == "TargetDB"
		match := func(f cfgq.Fact) bool { return TargetDBSet(s.info, f, want) }
		if ok, _ := s.onlyVia(d.at, match); ok {
			continue
		}
		w := s.g.Path(cfgq.Query{From: d.at, After: true, Avoid: isDef, Target: IsNode(p.Node()),
			AvoidEdge: func(b *cfg.Block, i int) bool { return EdgeFact(s.g, b, i, match) }})
		if w != nil {
			return false, w
		}
	}
	return true, nil
}

func (s *selScope) cmp(e ast.Expr) string {
	be, ok := ast.Unparen(e).(*ast.BinaryExpr)
	if !ok || be.Op != token.NEQ && be.Op != token.EQL {
		return ""
	}
	for _, pr := range [][2]ast.Expr{{be.X, be.Y}, {be.Y, be.X}} {
		if core.ObjOf(s.info, Strip(s.info, pr[0])) == s.tracker {
			return s.src(pr[1])
		}
	}
	return ""
}

// cmpOther returns the operand compared with the tracker.
func (s *selScope) cmpOther(e ast.Expr) ast.Expr {
	be, _ := ast.Unparen(e).(*ast.BinaryExpr)
	if be == nil {
		return nil
	}
	if core.ObjOf(s.info, Strip(s.info, be.X)) == s.tracker {
		return be.Y
	}
	return be.X
}

// trackerIn finds the single local variable compared with TargetDB / the entry's DB under scope.
func trackerIn(info *types.Info, scope ast.Node, src func(ast.Expr) string) (types.Object, int) {
	trackers := map[types.Object]bool{}
	core.Inspect(scope, func(n ast.Node) bool {
		be, ok := n.(*ast.BinaryExpr)
		if !ok || be.Op != token.NEQ && be.Op != token.EQL {
			return true
		}
		for _, pr := range [][2]ast.Expr{{be.X, be.Y}, {be.Y, be.X}} {
			if id, ok := Strip(info, pr[0]).(*ast.Ident); ok && src(pr[1]) != "" {
				if v, ok := core.ObjOf(info, id).(*types.Var); ok && !v.IsField() && v.Parent() != v.Pkg().Scope() {
					trackers[v] = true
				}
			}
		}
		return true
	})
	var t types.Object
	for v := range trackers {
		t = v
	}
	return t, len(trackers)
}

func selectTracking(c *core.Ctx, fn *core.Fn, short string, w *ast.FuncLit, rs *ast.RangeStmt, g *cfgq.Graph, conn, entry types.Object, restores []*ast.CallExpr, parallel bool) {
	info := fn.Pkg.TypesInfo
	head, bodyBlk := RangeBlocks(g, rs)
	s := &selScope{c: c, short: short, info: info, g: g, start: cfgq.Point{B: bodyBlk}, head: head, scope: rs.Body, conn: conn,
		entryDB: func(e ast.Expr) bool { return isEntryDB(info, e, entry) }}
	tracker, n := trackerIn(info, rs.Body, s.src)
	var helperCall ast.Node
	if n == 0 { // one level of helper following: T = h(..., c, ..., e.DB, ..., T, ...)
		core.Inspect(rs.Body, func(m ast.Node) bool {
			as, ok := m.(*ast.AssignStmt)
			if !ok || len(as.Lhs) != 1 || len(as.Rhs) != 1 || helperCall != nil {
				return true
			}
			call, ok := ast.Unparen(as.Rhs[0]).(*ast.CallExpr)
			t, _ := core.ObjOf(info, as.Lhs[0]).(*types.Var)
			if !ok || t == nil || t.IsField() {
				return true
			}
			h := c.FnOf(core.CalleeFunc(info, call))
			if h == nil || h.Decl.Body == nil || h.Pkg != fn.Pkg || h.Decl.Recv != nil {
				return true
			}
			var params []types.Object
			for _, f := range h.Decl.Type.Params.List {
				for _, nm := range f.Names {
					params = append(params, info.Defs[nm])
				}
			}
			if len(params) != len(call.Args) {
				return true
			}
			var pc, pd, pt types.Object
			for i, a := range call.Args {
				switch {
				case core.ObjOf(info, a) == conn:
					pc = params[i]
				case core.ObjOf(info, a) == types.Object(t):
					pt = params[i]
				case isEntryDB(info, a, entry):
					pd = params[i]
				}
			}
			if pc == nil || pd == nil || pt == nil {
				return true
			}
			hg := cfgq.Of(c.Program, h)
			// the helper's result is the tracker
			okRes := true
			core.Inspect(h.Decl.Body, func(r ast.Node) bool {
				if ret, ok := r.(*ast.ReturnStmt); ok && (len(ret.Results) != 1 || core.ObjOf(info, ret.Results[0]) != pt) {
					okRes = false
				}
				return true
			})
			if !okRes {
				return true
			}
			helperCall, tracker = as, t
			c.Functions[h.Name()] = true
			s = &selScope{c: c, short: short, info: info, g: hg, start: hg.Entry(), head: nil, scope: h.Decl.Body, conn: pc, tracker: pt,
				entryDB: func(e ast.Expr) bool { return core.ObjOf(info, e) == pd }}
			return true
		})
		if helperCall != nil {
			n = 1
		}
	}
	if n != 1 {
		c.Undecidedf("R2.pair", short, rs.Pos(), "expected exactly one local variable compared with TargetDB / entry.DB (the selected-db tracker), in the entry loop or in a helper `t = h(conn, e.DB, t)`; found %d", n)
		return
	}
	inLoop := within(tracker, rs.Body)
	c.Check("R1.private", short+"/lastdb", tracker.Pos(), (!parallel || within(tracker, w)) && !inLoop,
		"the selected-db tracker must be declared inside the worker literal and outside the entry loop. Shared: worker A selects db 1 and records it, worker B (connection still on db 0) then finds tracker == 1 for its db-1 entry, skips SELECT and restores the key into db 0. "+
			"Re-declared per entry: after a db-1 entry the connection stays on db 1, the next db-0 entry compares with the fresh 0 and is restored into db 1")
	if v, ok := initConst(info, fn.Decl.Body, tracker); !ok {
		c.Undecidedf("R2.init", short, tracker.Pos(), "initial value of the tracker is not a constant")
	} else {
		c.Check("R2.init", short, tracker.Pos(), v == 0,
			fmt.Sprintf("the tracker must start at 0, the database of a fresh connection; it starts at %d, so the first entries of db %d are restored into db 0 without SELECT", v, v))
	}
	if helperCall == nil {
		s.tracker = tracker
	}
	s.rules()
	// restore calls: own connection, this entry, and only after the select decision
	for _, call := range restores {
		rp, ok := g.Find(call)
		if !ok {
			continue
		}
		okConn := len(call.Args) == 2 && core.ObjOf(info, call.Args[0]) == conn
		okEntry := len(call.Args) == 2 && core.ObjOf(info, call.Args[1]) == entry
		c.Check("R2.conn", short+"/restore", call.Pos(), okConn && okEntry, "RestoreRdbEntry must be given the worker's own connection (the one SELECT was sent on) and the entry taken from the channel")
		var wpath []string
		if helperCall != nil {
			wpath = g.Path(cfgq.Query{From: cfgq.Point{B: bodyBlk}, Avoid: IsNode(helperCall), Target: IsNode(rp.Node())})
		} else {
			wpath = g.Path(cfgq.Query{From: cfgq.Point{B: bodyBlk}, Avoid: s.isSelect, AvoidEdge: s.equal, Target: IsNode(rp.Node())})
		}
		c.Check("R2.reach", short+"/RestoreRdbEntry", call.Pos(), wpath == nil,
			"the restore call is reachable in an iteration without SelectDB and without having found the tracker equal to the wanted database: the entry is restored into whatever database the connection was left on", wpath...)
	}
}

func (s *selScope) isSelect(n ast.Node) bool {
	for _, call := range cfgq.ExecCalls(n) {
		if isCommon(core.CalleeFunc(s.info, call), "SelectDB") {
			return true
		}
	}
	return false
}

func (s *selScope) equal(b *cfg.Block, i int) bool {
	return EdgeFact(s.g, b, i, func(f cfgq.Fact) bool {
		be, ok := ast.Unparen(f.Expr).(*ast.BinaryExpr)
		return ok && s.cmp(be) != "" && (be.Op == token.EQL) == f.Val
	})
}

// rules checks R2.pair/source/record/guard (and, for a helper, R2.reach up to its exits) inside the scope.
func (s *selScope) rules() {
	c, g, info, short, tracker := s.c, s.g, s.info, s.short, s.tracker
	isAssign := func(n ast.Node) bool { as, _ := AssignsTo(info, n, tracker); return as != nil }
	cutHead := func(b *cfg.Block, i int) bool { return s.head != nil && b.Succs[i] == s.head }
	connected := func(a, b cfgq.Point) bool { // within one iteration / one call
		return g.Path(cfgq.Query{From: a, After: true, Target: IsNode(b.Node()), AvoidEdge: cutHead}) != nil ||
			g.Path(cfgq.Query{From: b, After: true, Target: IsNode(a.Node()), AvoidEdge: cutHead}) != nil
	}
	endsWithout := func(from cfgq.Point, avoid func(ast.Node) bool) bool { // the region's end is reachable from `from` avoiding `avoid`
		if s.head != nil {
			return ReachBlock(g, from, true, avoid, s.head)
		}
		return g.Path(cfgq.Query{From: from, After: true, Avoid: avoid, TargetExit: NormalExit}) != nil
	}
	assigns := g.Points(func(n ast.Node) bool { return isAssign(n) && Within(n, s.scope) })
	selects := core.Calls(s.scope, info, func(_ *ast.CallExpr, o types.Object) bool { f, _ := o.(*types.Func); return isCommon(f, "SelectDB") })
	for _, call := range selects {
		sp, ok := g.Find(call)
		if !ok || len(call.Args) != 2 {
			c.Undecidedf("R2.pair", short+"/select", call.Pos(), "SelectDB call not in the control-flow graph")
			continue
		}
		c.Check("R2.conn", short+"/select", call.Pos(), core.ObjOf(info, call.Args[0]) == s.conn, "SelectDB must act on the worker's own connection")
		arg := Strip(info, call.Args[1])
		argIsTracker := core.ObjOf(info, arg) == tracker
		var src ast.Expr
		if !argIsTracker {
			src = arg
		}
		paired, mismatch, late := 0, "", false
		for _, ap := range assigns {
			if !connected(ap, sp) {
				continue
			}
			_, rhs := AssignsTo(info, ap.Node(), tracker)
			if rhs == nil {
				continue
			}
			rhs = Strip(info, rhs)
			paired++
			if argIsTracker {
				src = rhs
				if g.Path(cfgq.Query{From: ap, After: true, Target: IsNode(sp.Node()), AvoidEdge: cutHead}) == nil {
					late = true
				}
			} else if !pat.Same(info, rhs, arg) {
				mismatch = fmt.Sprintf("selects `%s` but records `%s`", c.Src(arg), c.Src(rhs))
			}
		}
		name := "?"
		if src != nil {
			if sn := s.src(src); sn != "" {
				name = sn
			}
		}
		if name == "?" { // unpaired SelectDB(c, tracker): name the site after the comparison that guards it
			for _, cand := range []string{"TargetDB", "entry.DB"} {
				if ok, _ := s.onlyVia(sp, func(f cfgq.Fact) bool { return s.cmp(f.Expr) == cand }); ok {
					name = cand
				}
			}
		}
		key := short + "/select:" + name
		switch {
		case paired == 0:
			c.Failf("R2.pair", key, call.Pos(), "SelectDB without recording the selected db in the tracker: the tracker keeps its old value, so after db-1 entries a db-0 entry finds tracker == 0, skips SELECT and is restored into db 1")
		case late:
			c.Failf("R2.pair", key, call.Pos(), "SelectDB(c, tracker) executes before the tracker is updated: the previously selected db is selected again and the entry is restored into the wrong database")
		case mismatch != "" && s.src(arg) != "" && name != "?":
			c.Failf("R2.pair", key, call.Pos(), "%s: connection and tracker disagree, later entries skip SELECT while the connection is on another database", mismatch)
		case mismatch != "":
			c.Undecidedf("R2.pair", key, call.Pos(), "%s; values not recognised", mismatch)
		default:
			before := g.Path(cfgq.Query{From: s.start, Avoid: isAssign, Target: IsNode(sp.Node())})
			c.Check("R2.pair", key, call.Pos(), !(before != nil && endsWithout(sp, isAssign)),
				"some path through SelectDB does not record the selected db in the tracker (see above for the mis-restored key)", before...)
		}
		switch name {
		case "TargetDB", "entry.DB":
			want := name == "TargetDB"
			ok, wpath := s.onlyVia(sp, func(f cfgq.Fact) bool { return TargetDBSet(info, f, want) })
			c.Check("R2.source", key, call.Pos(), ok,
				"the database selected must be TargetDB exactly when TargetDB != -1 and the entry's own DB otherwise; here "+name+" is selected on a path where the configuration says the opposite, so keys land in the wrong database", wpath...)
		case "wanted":
			ok, wpath := s.wantedOK(src, sp)
			c.Check("R2.source", key, call.Pos(), ok,
				"the database selected must be TargetDB exactly when TargetDB != -1 and the entry's own DB otherwise; the local that carries it can hold the other one here, so keys land in the wrong database", wpath...)
		default:
			c.Undecidedf("R2.source", key, call.Pos(), "selected value `%s` is neither TargetDB nor the entry's DB", c.Src(call.Args[1]))
		}
	}
	for _, ap := range assigns {
		n := 0
		for _, call := range selects {
			if sp, ok := g.Find(call); ok && connected(ap, sp) {
				n++
			}
		}
		_, rhs := AssignsTo(info, ap.Node(), tracker)
		rname := "?"
		if rhs != nil && s.src(rhs) != "" {
			rname = s.src(rhs)
		}
		c.Check("R2.record", short+"/record:"+rname, ap.Node().Pos(), n > 0,
			"the tracker is updated on a path with no SelectDB: the connection stays on the old database while later entries of the recorded db skip SELECT and are restored into the old database")
	}
	for _, p := range g.Points(func(n ast.Node) bool {
		e, ok := n.(ast.Expr)
		return ok && core.Mentions(info, e, tracker) && Within(n, s.scope)
	}) {
		for _, f := range append(cfgq.Facts(p.Node().(ast.Expr), true), cfgq.Facts(p.Node().(ast.Expr), false)...) {
			if name := s.cmp(f.Expr); name != "" {
				want := name == "TargetDB"
				ok, wpath := false, []string(nil)
				if name == "wanted" {
					ok, wpath = s.wantedOK(s.cmpOther(f.Expr), p)
				} else {
					ok, wpath = s.onlyVia(p, func(f cfgq.Fact) bool { return TargetDBSet(info, f, want) })
				}
				c.Check("R2.guard", short+"/cmp:"+name, p.Node().Pos(), ok,
					"the tracker is compared with "+name+" on a path where the configuration dictates the other database: SELECT is skipped although the connection is not on the wanted database", wpath...)
				break
			}
		}
	}
	if s.head == nil { // helper: every return was preceded by a SelectDB or by finding the tracker equal
		wpath := g.Path(cfgq.Query{From: s.start, Avoid: s.isSelect, AvoidEdge: s.equal, TargetExit: NormalExit})
		c.Check("R2.reach", short+"/select-helper", s.scope.Pos(), wpath == nil,
			"the select helper can return without SelectDB and without having found the tracker equal to the wanted database: the entry is then restored into whatever database the connection was left on", wpath...)
	}
}

// onlyVia: every path from the region's function entry to p leaves a branch through an edge establishing match.
func (s *selScope) onlyVia(p cfgq.Point, match func(cfgq.Fact) bool) (bool, []string) {
	tn := p.Node()
	w := s.g.Path(cfgq.Query{From: s.g.Entry(), Target: IsNode(tn), AvoidEdge: func(b *cfg.Block, i int) bool { return EdgeFact(s.g, b, i, match) }})
	return w == nil, w
}
