// Dual-run harness: the rules of a property are evaluated on the tree as it is and, when that run is not
// clean, on an equivalent copy in which small same-package helpers are inlined into the anchored functions
// (package inl). The verdict of the normalised copy is the one reported: it is the same program with the
// mechanism in one place, which is what the shape-based rules are written for.
package c07

import (
	"os"
	"path/filepath"

	"rscheck/core"
	"rscheck/rules/c07/inl"
)

func clean(c *core.Ctx) bool {
	for _, o := range c.Obs {
		if o.Status != "pass" {
			return false
		}
	}
	return true
}

func merge(dst, src *core.Ctx) {
	dst.Obs = append(dst.Obs, src.Obs...)
	for k := range src.Functions {
		dst.Functions[k] = true
	}
	dst.Notes = append(dst.Notes, src.Notes...)
}

// Dual runs `run` as described above and records the chosen obligations in c.
func Dual(c *core.Ctx, specs []inl.Spec, run func(c *core.Ctx)) {
	IndexAssignments(c.Program)
	a := core.NewCtx(c.Program, c.Prop, c.Tier)
	run(a)
	if clean(a) {
		merge(c, a)
		return
	}
	files := inl.Sources(c.Program, specs)
	if len(files) == 0 {
		merge(c, a)
		return
	}
	if d := os.Getenv("RS_INL_DUMP"); d != "" { // developer aid: look at the normalised copy
		for f, b := range files {
			os.WriteFile(filepath.Join(d, c.Prop+"-"+filepath.Base(f)), b, 0o644)
		}
	}
	key := "inl.prog"
	for f := range files {
		key += "|" + f
	}
	var p2 *core.Program
	if v, ok := c.Program.Shared[key]; ok {
		p2, _ = v.(*core.Program)
	} else {
		p2 = inl.Load(c.Program, files)
		c.Program.Shared[key] = p2
	}
	if p2 == nil {
		a.Note("helper inlining produced a copy that does not type-check; the original tree was analysed")
		merge(c, a)
		return
	}
	IndexAssignments(p2)
	b := core.NewCtx(p2, c.Prop, c.Tier)
	run(b)
	b.Note("verdict taken on an in-memory copy with same-package helpers inlined into the anchored functions (%d file(s) rewritten); positions refer to that copy", len(files))
	merge(c, b)
}
