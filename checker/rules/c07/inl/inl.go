// Package inl is a source-level inliner used by the C07/C16/C17 rule sets to
// make their verdicts independent of where the code of a mechanism lives: the
// anchored functions are re-analysed on an in-memory copy of the module in
// which the calls to small same-package helpers (functions, methods, closures
// bound once to a local) are replaced by their bodies. The transformation is
// semantics-preserving by construction (parameters bound by one parallel
// assignment or substituted when pure and never assigned, results assigned at
// each return, `return` turned into a break out of a labelled single-case
// switch); the copy is type-checked again and discarded if it does not check.
// Nothing is written to disk and nothing is executed.
package inl

import (
	"bytes"
	"fmt"
	"go/ast"
	"go/parser"
	"go/printer"
	"go/token"
	"go/types"
	"os"
	"path/filepath"
	"sort"
	"strings"

	"golang.org/x/tools/go/packages"

	"rscheck/core"
)

// Spec says what to inline: calls made (transitively) from the root functions,
// except calls to the excluded functions (anchors the rules look at by name).
type Spec struct {
	Pkg     string   // module-relative package path of the roots
	Roots   []string // "Recv.Name" or "Name"
	Exclude []string // callee names (same format) never inlined
}

const maxDepth = 3

type edit struct {
	start, end int
	text       string
}

type inliner struct {
	p      *core.Program
	pk     *packages.Package
	info   *types.Info
	src    map[string][]byte // file name -> source
	excl   map[types.Object]bool
	decls  map[*types.Func]*ast.FuncDecl
	label  int
	count  int
	need   map[string]map[string]string // file -> import path -> local name
	stack  []types.Object
	locals map[string]bool // names declared in the current root function
}

func fname(fd *ast.FuncDecl, info *types.Info) string {
	if fd.Recv != nil && len(fd.Recv.List) == 1 {
		return core.NamedTypeName(info.TypeOf(fd.Recv.List[0].Type)) + "." + fd.Name.Name
	}
	return fd.Name.Name
}

// Sources returns the rewritten source of every file changed by inlining
// (absolute file name -> content); empty when nothing was inlined.
func Sources(p *core.Program, specs []Spec) map[string][]byte {
	out := map[string][]byte{}
	for _, sp := range specs {
		pk := p.Pkg(sp.Pkg)
		if pk == nil || pk.TypesInfo == nil {
			continue
		}
		in := &inliner{p: p, pk: pk, info: pk.TypesInfo, src: map[string][]byte{}, excl: map[types.Object]bool{}, decls: map[*types.Func]*ast.FuncDecl{}, need: map[string]map[string]string{}}
		roots := map[string]bool{}
		for _, r := range sp.Roots {
			roots[r] = true
		}
		exq := map[string]bool{}
		for _, r := range sp.Exclude {
			exq[r] = true
		}
		for _, f := range pk.Syntax {
			for _, d := range f.Decls {
				if fd, ok := d.(*ast.FuncDecl); ok && fd.Body != nil {
					obj, _ := in.info.Defs[fd.Name].(*types.Func)
					if obj == nil {
						continue
					}
					in.decls[obj] = fd
					if n := fname(fd, in.info); exq[n] || roots[n] {
						in.excl[obj] = true
					}
				}
			}
		}
		perFile := map[string][]edit{}
		for _, f := range pk.Syntax {
			file := p.Fset.Position(f.Pos()).Filename
			for _, d := range f.Decls {
				fd, ok := d.(*ast.FuncDecl)
				if !ok || fd.Body == nil || !roots[fname(fd, in.info)] {
					continue
				}
				in.locals = map[string]bool{}
				ast.Inspect(fd, func(n ast.Node) bool {
					if id, ok := n.(*ast.Ident); ok && in.info.Defs[id] != nil {
						in.locals[id.Name] = true
					}
					return true
				})
				before := in.count
				txt := in.expand(file, fd.Body, 0, nil)
				if in.count > before {
					perFile[file] = append(perFile[file], edit{in.off(fd.Body.Pos()), in.off(fd.Body.End()), txt})
					in.addImports(file, file)
				}
			}
		}
		for file, eds := range perFile {
			src := in.source(file)
			res := apply(src, eds)
			res = in.withImports(file, res)
			out[file] = res
		}
	}
	return out
}

func (in *inliner) source(file string) []byte {
	if b, ok := in.src[file]; ok {
		return b
	}
	b, _ := os.ReadFile(file)
	in.src[file] = b
	return b
}

func (in *inliner) off(p token.Pos) int { return in.p.Fset.Position(p).Offset }

func (in *inliner) fileOf(n ast.Node) string { return in.p.Fset.Position(n.Pos()).Filename }

func (in *inliner) text(n ast.Node) string {
	src := in.source(in.fileOf(n))
	s, e := in.off(n.Pos()), in.off(n.End())
	if s < 0 || e > len(src) || s > e {
		var b bytes.Buffer
		printer.Fprint(&b, in.p.Fset, n)
		return b.String()
	}
	return string(src[s:e])
}

func apply(src []byte, eds []edit) []byte {
	sort.Slice(eds, func(i, j int) bool { return eds[i].start < eds[j].start })
	var b bytes.Buffer
	pos := 0
	for _, e := range eds {
		if e.start < pos {
			continue
		}
		b.Write(src[pos:e.start])
		b.WriteString(e.text)
		pos = e.end
	}
	b.Write(src[pos:])
	return b.Bytes()
}

// subst maps a parameter object to the text that replaces its uses.
type subst map[types.Object]string

// expand returns the source text of node n (of file `file`) with the inlinable
// call statements inside it replaced, identifiers in sub replaced by text, and
// (when rets != nil) return statements rewritten.
type retSpec struct {
	results []string // names of the result variables to assign
	label   string
	used    *bool
}

func (in *inliner) expand(file string, n ast.Node, depth int, sub subst) string {
	return in.expandR(file, n, depth, sub, nil)
}

func (in *inliner) expandR(file string, n ast.Node, depth int, sub subst, rets *retSpec) string {
	src := in.source(file)
	var eds []edit
	var walk func(m ast.Node, inLit bool)
	walk = func(m ast.Node, inLit bool) {
		ast.Inspect(m, func(x ast.Node) bool {
			if x == nil {
				return false
			}
			switch s := x.(type) {
			case *ast.FuncLit:
				if x != m {
					walk(s, true)
					return false
				}
			case *ast.Ident:
				if t, ok := sub[in.info.Uses[s]]; ok && sub != nil {
					eds = append(eds, edit{in.off(s.Pos()), in.off(s.End()), t})
				}
			case *ast.ReturnStmt:
				if rets != nil && !inLit {
					eds = append(eds, edit{in.off(s.Pos()), in.off(s.End()), in.rewriteReturn(file, s, depth, sub, rets)})
					return false
				}
				if depth < maxDepth {
					if t, ok := in.site(file, s, depth, sub, rets, inLit); ok {
						eds = append(eds, edit{in.off(s.Pos()), in.off(s.End()), t})
						return false
					}
				}
			case ast.Stmt:
				if depth < maxDepth {
					if t, ok := in.site(file, s, depth, sub, rets, inLit); ok {
						eds = append(eds, edit{in.off(s.Pos()), in.off(s.End()), t})
						return false
					}
				}
			}
			return true
		})
	}
	walk(n, false)
	s, e := in.off(n.Pos()), in.off(n.End())
	// edits are in file offsets; apply on the slice
	for i := range eds {
		eds[i].start -= s
		eds[i].end -= s
	}
	return string(apply(src[s:e], eds))
}

func (in *inliner) rewriteReturn(file string, r *ast.ReturnStmt, depth int, sub subst, rets *retSpec) string {
	*rets.used = true
	if len(r.Results) == 0 || len(rets.results) == 0 {
		if len(r.Results) == 1 { // return f() of a result-less callee cannot happen; keep evaluation
			return "{ " + in.expand(file, r.Results[0], depth, sub) + "; break " + rets.label + " }"
		}
		return "break " + rets.label
	}
	var rhs []string
	for _, e := range r.Results {
		rhs = append(rhs, in.expand(file, e, depth, sub))
	}
	return "{ " + strings.Join(rets.results, ", ") + " = " + strings.Join(rhs, ", ") + "; break " + rets.label + " }"
}

// callee describes an inlinable target.
type callee struct {
	typ   *ast.FuncType
	body  *ast.BlockStmt
	recv  *ast.Field // receiver declaration (methods)
	recvX ast.Expr   // receiver expression at the call
	obj   types.Object
	isLit bool
}

func (in *inliner) resolve(call *ast.CallExpr) *callee {
	fun := ast.Unparen(call.Fun)
	var c *callee
	switch f := fun.(type) {
	case *ast.Ident:
		switch o := in.info.Uses[f].(type) {
		case *types.Func:
			if fd := in.decls[o]; fd != nil && !in.excl[o] {
				c = &callee{typ: fd.Type, body: fd.Body, obj: o}
			}
		case *types.Var:
			if o.IsField() || o.Pkg() == nil || o.Parent() == o.Pkg().Scope() {
				return nil
			}
			// local bound exactly once to a function literal
			var lit *ast.FuncLit
			n := 0
			for _, file := range in.pk.Syntax {
				if file.Pos() <= o.Pos() && o.Pos() < file.End() {
					ast.Inspect(file, func(m ast.Node) bool {
						switch as := m.(type) {
						case *ast.AssignStmt:
							for i, l := range as.Lhs {
								if id, ok := l.(*ast.Ident); ok && (in.info.Defs[id] == o || in.info.Uses[id] == o) {
									n++
									if len(as.Lhs) == len(as.Rhs) {
										lit, _ = ast.Unparen(as.Rhs[i]).(*ast.FuncLit)
									}
								}
							}
						case *ast.ValueSpec:
							for i, id := range as.Names {
								if in.info.Defs[id] == o {
									n++
									if i < len(as.Values) {
										lit, _ = ast.Unparen(as.Values[i]).(*ast.FuncLit)
									}
								}
							}
						case *ast.UnaryExpr:
							if id, ok := as.X.(*ast.Ident); ok && as.Op == token.AND && in.info.Uses[id] == o {
								n += 2
							}
						}
						return true
					})
				}
			}
			if n == 1 && lit != nil {
				c = &callee{typ: lit.Type, body: lit.Body, obj: o, isLit: true}
			}
		}
	case *ast.SelectorExpr:
		sel, ok := in.info.Selections[f]
		if ok && sel.Kind() == types.MethodVal {
			if o, ok := sel.Obj().(*types.Func); ok {
				if fd := in.decls[o]; fd != nil && !in.excl[o] && fd.Recv != nil && len(fd.Recv.List) == 1 && len(sel.Index()) == 1 {
					c = &callee{typ: fd.Type, body: fd.Body, obj: o, recv: fd.Recv.List[0], recvX: f.X}
				}
			}
		} else if !ok { // pkg.Func of this package cannot occur; qualified calls go elsewhere
			return nil
		}
	}
	if c == nil || c.body == nil || c.typ.Params == nil {
		return nil
	}
	for _, s := range in.stack {
		if s == c.obj {
			return nil
		}
	}
	for _, f := range c.typ.Params.List {
		if _, variadic := f.Type.(*ast.Ellipsis); variadic || len(f.Names) == 0 && len(c.typ.Params.List) > 0 {
			return nil
		}
	}
	bad := false
	nstmt := 0
	ast.Inspect(c.body, func(m ast.Node) bool {
		switch x := m.(type) {
		case *ast.LabeledStmt:
			bad = true
		case *ast.BranchStmt:
			if x.Tok == token.GOTO {
				bad = true
			}
		case *ast.CallExpr:
			if id, ok := x.Fun.(*ast.Ident); ok && id.Name == "recover" {
				bad = true
			}
		case ast.Stmt:
			nstmt++
		}
		return !bad
	})
	if bad || nstmt > 400 {
		return nil
	}
	// names: package-level identifiers used by the callee must not be shadowed by locals of the root
	ast.Inspect(c.body, func(m ast.Node) bool {
		if id, ok := m.(*ast.Ident); ok {
			if o := in.info.Uses[id]; o != nil && o.Pkg() != nil {
				_, isPkgName := o.(*types.PkgName)
				if (isPkgName || o.Parent() == o.Pkg().Scope()) && in.locals[id.Name] {
					bad = true
				}
			}
			if o := in.info.Uses[id]; o != nil && o.Pkg() == nil && in.locals[id.Name] { // universe
				bad = true
			}
		}
		return !bad
	})
	if bad {
		return nil
	}
	return c
}

func pureArg(info *types.Info, e ast.Expr) bool {
	switch x := ast.Unparen(e).(type) {
	case *ast.Ident:
		return true
	case *ast.BasicLit:
		return true
	case *ast.SelectorExpr:
		return pureArg(info, x.X)
	case *ast.UnaryExpr:
		return x.Op == token.AND && pureArg(info, x.X)
	case *ast.CallExpr: // conversion
		if tv, ok := info.Types[x.Fun]; ok && tv.IsType() && len(x.Args) == 1 {
			return pureArg(info, x.Args[0])
		}
	}
	if tv, ok := info.Types[e]; ok && tv.Value != nil {
		return true
	}
	return false
}

func identNames(e ast.Node) map[string]bool {
	m := map[string]bool{}
	ast.Inspect(e, func(n ast.Node) bool {
		if id, ok := n.(*ast.Ident); ok {
			m[id.Name] = true
		}
		return true
	})
	return m
}

// assigned reports whether obj is assigned, inc/dec-ed or address-taken under body.
func (in *inliner) assigned(body ast.Node, obj types.Object) bool {
	hit := false
	ast.Inspect(body, func(m ast.Node) bool {
		switch x := m.(type) {
		case *ast.AssignStmt:
			for _, l := range x.Lhs {
				if id, ok := ast.Unparen(l).(*ast.Ident); ok && (in.info.Uses[id] == obj || in.info.Defs[id] == obj) {
					hit = true
				}
			}
		case *ast.IncDecStmt:
			if id, ok := ast.Unparen(x.X).(*ast.Ident); ok && in.info.Uses[id] == obj {
				hit = true
			}
		case *ast.UnaryExpr:
			if id, ok := ast.Unparen(x.X).(*ast.Ident); ok && x.Op == token.AND && in.info.Uses[id] == obj {
				hit = true
			}
		case *ast.RangeStmt:
			for _, l := range []ast.Expr{x.Key, x.Value} {
				if id, ok := l.(*ast.Ident); ok && in.info.Uses[id] == obj {
					hit = true
				}
			}
		}
		return !hit
	})
	return hit
}

// body builds the inlined block for a call: results are the texts of the
// variables that receive the results ("" = discard).
func (in *inliner) inline(file string, call *ast.CallExpr, c *callee, depth int, outer subst, results []string) (string, bool) {
	cfile := in.fileOf(c.body)
	sub := subst{}
	var bindL, bindR, keep []string
	declared := identNames(c.body) // names the callee mentions or declares
	defs := map[string]bool{}
	ast.Inspect(c.body, func(m ast.Node) bool {
		if id, ok := m.(*ast.Ident); ok && in.info.Defs[id] != nil {
			defs[id.Name] = true
		}
		return true
	})
	bind := func(name *ast.Ident, arg ast.Expr, argText string) {
		obj := in.info.Defs[name]
		if name.Name == "_" || obj == nil {
			bindL, bindR = append(bindL, "_"), append(bindR, argText)
			return
		}
		ok := pureArg(in.info, arg) && !in.assigned(c.body, obj)
		if ok {
			for n := range identNames(arg) {
				if defs[n] {
					ok = false // a callee local would capture a name of the argument
				}
			}
		}
		if ok {
			t := "(" + argText + ")"
			if u, isAddr := ast.Unparen(arg).(*ast.UnaryExpr); isAddr && u.Op == token.AND {
				t = "(&" + in.expand(file, u.X, depth, outer) + ")"
			}
			sub[obj] = t
			return
		}
		bindL, bindR = append(bindL, name.Name), append(bindR, argText)
		keep = append(keep, name.Name)
	}
	_ = declared
	if c.recv != nil {
		if len(c.recv.Names) == 1 {
			bind(c.recv.Names[0], c.recvX, in.expand(file, c.recvX, depth, outer))
		}
	}
	i := 0
	for _, f := range c.typ.Params.List {
		for _, nm := range f.Names {
			if i >= len(call.Args) {
				return "", false
			}
			bind(nm, call.Args[i], in.expand(file, call.Args[i], depth, outer))
			i++
		}
	}
	if i != len(call.Args) {
		return "", false
	}
	// result variables
	var resNames []string
	var pre []string
	nres := 0
	if c.typ.Results != nil {
		for _, f := range c.typ.Results.List {
			k := len(f.Names)
			if k == 0 {
				k = 1
			}
			for j := 0; j < k; j++ {
				name := fmt.Sprintf("inl%dr%d", in.label+1, nres)
				if len(f.Names) > 0 && f.Names[j].Name != "_" {
					name = f.Names[j].Name // named result: the callee's own variable
				}
				pre = append(pre, "var "+name+" "+in.typeText(cfile, f.Type))
				resNames = append(resNames, name)
				keep = append(keep, name)
				nres++
			}
		}
	}
	if len(results) != 0 && len(results) != nres {
		return "", false
	}
	in.label++
	label := fmt.Sprintf("inl%d", in.label)
	used := false
	in.stack = append(in.stack, c.obj)
	bodyTxt := in.expandR(cfile, c.body, depth+1, sub, &retSpec{results: resNames, label: label, used: &used})
	in.stack = in.stack[:len(in.stack)-1]
	in.addImports(cfile, file)
	var b strings.Builder
	b.WriteString("{\n")
	if len(bindL) > 0 {
		allBlank := true
		for _, l := range bindL {
			if l != "_" {
				allBlank = false
			}
		}
		op := ":="
		if allBlank {
			op = "="
		}
		b.WriteString(strings.Join(bindL, ", ") + " " + op + " " + strings.Join(bindR, ", ") + "\n")
	}
	for _, p := range pre {
		b.WriteString(p + "\n")
	}
	for _, k := range keep {
		b.WriteString("_ = " + k + "\n")
	}
	if used {
		b.WriteString(label + ":\nswitch {\ndefault:\n" + strings.TrimSuffix(strings.TrimPrefix(strings.TrimSpace(bodyTxt), "{"), "}") + "\n}\n")
	} else {
		b.WriteString(bodyTxt + "\n")
	}
	for k, r := range results {
		if r != "" && r != "_" {
			b.WriteString(r + " = " + resNames[k] + "\n")
		}
	}
	b.WriteString("}")
	in.count++
	return b.String(), true
}

func (in *inliner) typeText(file string, t ast.Expr) string {
	return in.expand(file, t, maxDepth, nil)
}

// site recognises a statement that is an inlinable call site and returns its replacement.
func (in *inliner) site(file string, s ast.Stmt, depth int, sub subst, rets *retSpec, inLit bool) (string, bool) {
	lhsText := func(e ast.Expr) string { return in.expand(file, e, depth, sub) }
	switch st := s.(type) {
	case *ast.ExprStmt:
		call, ok := ast.Unparen(st.X).(*ast.CallExpr)
		if !ok {
			return "", false
		}
		if c := in.resolve(call); c != nil {
			n := 0
			if c.typ.Results != nil {
				n = c.typ.Results.NumFields()
			}
			return in.inline(file, call, c, depth, sub, make([]string, n))
		}
	case *ast.AssignStmt:
		if len(st.Rhs) != 1 {
			return "", false
		}
		call, ok := ast.Unparen(st.Rhs[0]).(*ast.CallExpr)
		if !ok {
			return "", false
		}
		c := in.resolve(call)
		if c == nil || st.Tok != token.ASSIGN && st.Tok != token.DEFINE {
			return "", false
		}
		var decl []string
		var res []string
		k := 0
		var rtypes []ast.Expr
		if c.typ.Results != nil {
			for _, f := range c.typ.Results.List {
				m := len(f.Names)
				if m == 0 {
					m = 1
				}
				for j := 0; j < m; j++ {
					rtypes = append(rtypes, f.Type)
				}
			}
		}
		if len(rtypes) != len(st.Lhs) {
			return "", false
		}
		for _, l := range st.Lhs {
			if id, isID := l.(*ast.Ident); isID && st.Tok == token.DEFINE && in.info.Defs[id] != nil && id.Name != "_" {
				decl = append(decl, "var "+id.Name+" "+in.typeText(in.fileOf(c.body), rtypes[k]))
			}
			res = append(res, lhsText(l))
			k++
		}
		body, ok := in.inline(file, call, c, depth, sub, res)
		if !ok {
			return "", false
		}
		return strings.Join(append(decl, body), "\n"), true
	case *ast.IfStmt:
		// if <init with call>; cond {..}   or   if [!]call(...) {..}
		if st.Init != nil {
			initTxt, ok := in.site(file, st.Init, depth, sub, rets, inLit)
			if !ok {
				return "", false
			}
			rest := in.ifWithout(file, st, depth, sub, rets, "")
			return "{\n" + initTxt + "\n" + rest + "\n}", true
		}
		cond := ast.Unparen(st.Cond)
		neg := ""
		if u, ok := cond.(*ast.UnaryExpr); ok && u.Op == token.NOT {
			cond, neg = ast.Unparen(u.X), "!"
		}
		call, ok := cond.(*ast.CallExpr)
		if !ok {
			return "", false
		}
		c := in.resolve(call)
		if c == nil || c.typ.Results == nil || c.typ.Results.NumFields() != 1 {
			return "", false
		}
		tmp := fmt.Sprintf("inl%dc", in.label+1)
		body, ok := in.inline(file, call, c, depth, sub, []string{tmp})
		if !ok {
			return "", false
		}
		rest := in.ifWithout(file, st, depth, sub, rets, neg+tmp)
		return "{\nvar " + tmp + " " + in.typeText(in.fileOf(c.body), c.typ.Results.List[0].Type) + "\n" + body + "\n" + rest + "\n}", true
	case *ast.ReturnStmt:
		if rets != nil && !inLit || len(st.Results) != 1 {
			return "", false // returns of an inlined callee are rewritten elsewhere
		}
		call, ok := ast.Unparen(st.Results[0]).(*ast.CallExpr)
		if !ok {
			return "", false
		}
		c := in.resolve(call)
		if c == nil || c.typ.Results == nil {
			return "", false
		}
		var names, decl []string
		k := 0
		for _, f := range c.typ.Results.List {
			m := len(f.Names)
			if m == 0 {
				m = 1
			}
			for j := 0; j < m; j++ {
				n := fmt.Sprintf("inl%dt%d", in.label+1, k)
				names = append(names, n)
				decl = append(decl, "var "+n+" "+in.typeText(in.fileOf(c.body), f.Type))
				k++
			}
		}
		body, ok := in.inline(file, call, c, depth, sub, names)
		if !ok {
			return "", false
		}
		return "{\n" + strings.Join(decl, "\n") + "\n" + body + "\nreturn " + strings.Join(names, ", ") + "\n}", true
	case *ast.GoStmt:
		c := in.resolve(st.Call)
		if c == nil {
			return "", false
		}
		// go h(args)  ==>  go func(params) results { body }(args): the function value is replaced by a literal
		cfile := in.fileOf(c.body)
		var params, args []string
		if c.recv != nil {
			if len(c.recv.Names) != 1 {
				return "", false
			}
			params = append(params, c.recv.Names[0].Name+" "+in.typeText(cfile, c.recv.Type))
			args = append(args, in.expand(file, c.recvX, depth, sub))
		}
		for _, f := range c.typ.Params.List {
			var ns []string
			for _, nm := range f.Names {
				ns = append(ns, nm.Name)
			}
			params = append(params, strings.Join(ns, ", ")+" "+in.typeText(cfile, f.Type))
		}
		for _, a := range st.Call.Args {
			args = append(args, in.expand(file, a, depth, sub))
		}
		resTxt := ""
		if c.typ.Results != nil && c.typ.Results.NumFields() > 0 {
			resTxt = " " + in.text(c.typ.Results)
		}
		in.stack = append(in.stack, c.obj)
		body := in.expand(cfile, c.body, depth+1, nil)
		in.stack = in.stack[:len(in.stack)-1]
		in.addImports(cfile, file)
		in.count++
		return "go func(" + strings.Join(params, ", ") + ")" + resTxt + " " + body + "(" + strings.Join(args, ", ") + ")", true
	}
	return "", false
}

// ifWithout prints an if statement without its init, with the condition text replaced when cond != "".
func (in *inliner) ifWithout(file string, st *ast.IfStmt, depth int, sub subst, rets *retSpec, cond string) string {
	if cond == "" {
		cond = in.expandR(file, st.Cond, depth, sub, rets)
	}
	out := "if " + cond + " " + in.expandR(file, st.Body, depth, sub, rets)
	if st.Else != nil {
		out += " else " + in.expandR(file, st.Else, depth, sub, rets)
	}
	return out
}

// addImports records that text taken from file `from` was placed into file `to`.
func (in *inliner) addImports(from, to string) {
	if from == to {
		return
	}
	var ff *ast.File
	for _, f := range in.pk.Syntax {
		if in.p.Fset.Position(f.Pos()).Filename == from {
			ff = f
		}
	}
	if ff == nil {
		return
	}
	if in.need[to] == nil {
		in.need[to] = map[string]string{}
	}
	for _, im := range ff.Imports {
		name := ""
		if im.Name != nil {
			name = im.Name.Name
		}
		in.need[to][im.Path.Value] = name
	}
}

// withImports adds the imports that inlined text needs and the file lacks;
// unused ones are harmless only if referenced, so each added import is kept
// alive by a blank use of the package's name? Go rejects unused imports, so
// only imports whose local name occurs in the new text are added.
func (in *inliner) withImports(file string, src []byte) []byte {
	need := in.need[file]
	if len(need) == 0 {
		return src
	}
	f, err := parser.ParseFile(token.NewFileSet(), file, src, parser.ImportsOnly)
	if err != nil {
		return src
	}
	have := map[string]bool{}
	for _, im := range f.Imports {
		have[im.Path.Value] = true
	}
	var add []string
	for path, name := range need {
		if have[path] || name == "_" || name == "." {
			continue
		}
		local := name
		if local == "" {
			// default name: declared package name
			for _, ip := range in.pk.Imports {
				if `"`+ip.PkgPath+`"` == path {
					local = ip.Name
				}
			}
		}
		if local == "" || !bytes.Contains(src, []byte(local+".")) {
			continue
		}
		add = append(add, name+" "+path)
	}
	if len(add) == 0 {
		return src
	}
	sort.Strings(add)
	// insert after the package clause
	idx := bytes.Index(src, []byte("\npackage "))
	if bytes.HasPrefix(src, []byte("package ")) {
		idx = 0
	} else {
		idx++
	}
	end := idx + bytes.IndexByte(src[idx:], '\n') + 1
	ins := "import (\n\t" + strings.Join(add, "\n\t") + "\n)\n"
	return append(append(append([]byte{}, src[:end]...), []byte(ins)...), src[end:]...)
}

// ---------------------------------------------------------------------------
// loading the rewritten module

// Load type-checks the module again with the given files replaced (on top of
// the loader's duplicate-const normalisation). It returns nil when the copy
// does not type-check like the original (the caller then keeps the original).
func Load(p *core.Program, files map[string][]byte) *core.Program {
	if len(files) == 0 {
		return nil
	}
	srcRoot := filepath.Join(core.RepoDir(), "src")
	overlay := map[string][]byte{}
	filepath.Walk(srcRoot, func(path string, fi os.FileInfo, err error) error {
		if err != nil || fi.IsDir() || !strings.HasSuffix(path, ".go") {
			return nil
		}
		src, ok := files[path]
		if !ok {
			var e error
			if src, e = os.ReadFile(path); e != nil {
				return nil
			}
		}
		if out := blankDuplicateConsts(path, src); out != nil {
			overlay[path] = out
		} else if ok {
			overlay[path] = src
		}
		return nil
	})
	env := append(os.Environ(), "GOWORK=off", "GOFLAGS=-mod=mod", "GOPROXY=off", "GOSUMDB=off", "GOTOOLCHAIN=local", "CGO_ENABLED=0")
	if p.GOOS != "" {
		env = append(env, "GOOS="+p.GOOS)
	}
	cfg := &packages.Config{Mode: packages.LoadAllSyntax, Dir: srcRoot, Env: env, Overlay: overlay, Tests: p.WithTests}
	pkgs, err := packages.Load(cfg, "./...")
	if err != nil {
		return nil
	}
	np := &core.Program{Shared: map[string]interface{}{}, All: map[string]*packages.Package{}, Normalisations: p.Normalisations, WithTests: p.WithTests, GOOS: p.GOOS}
	packages.Visit(pkgs, nil, func(pk *packages.Package) {
		if np.Fset == nil && pk.Fset != nil {
			np.Fset = pk.Fset
		}
		if _, ok := np.All[pk.PkgPath]; !ok || pk.ID == pk.PkgPath {
			np.All[pk.PkgPath] = pk
		}
	})
	seen := map[string]bool{}
	for _, pk := range pkgs {
		if !strings.HasPrefix(pk.PkgPath, core.Module) || strings.HasSuffix(pk.PkgPath, ".test") || seen[pk.ID] {
			continue
		}
		seen[pk.ID] = true
		np.Pkgs = append(np.Pkgs, pk)
		for range pk.Errors {
			if pk.PkgPath == core.MainPkg || strings.HasPrefix(pk.ID, core.MainPkg+" ") {
				np.MainTypeErrors++
				continue
			}
			return nil // the rewritten copy does not type-check: discard it
		}
	}
	sort.Slice(np.Pkgs, func(i, j int) bool { return np.Pkgs[i].ID < np.Pkgs[j].ID })
	if len(np.Pkgs) < len(p.Pkgs) {
		return nil
	}
	return np
}

func blankDuplicateConsts(path string, src []byte) []byte {
	fset := token.NewFileSet()
	f, perr := parser.ParseFile(fset, path, src, parser.SkipObjectResolution)
	if perr != nil || f == nil {
		return nil
	}
	seen := map[string]bool{}
	var out []byte
	for _, d := range f.Decls {
		gd, ok := d.(*ast.GenDecl)
		if !ok || gd.Tok != token.CONST {
			continue
		}
		var buf bytes.Buffer
		if err := printer.Fprint(&buf, fset, gd); err != nil {
			continue
		}
		k := buf.String()
		if !seen[k] {
			seen[k] = true
			continue
		}
		if out == nil {
			out = append([]byte(nil), src...)
		}
		s, e := fset.Position(gd.Pos()).Offset, fset.Position(gd.End()).Offset
		for i := s; i < e && i < len(out); i++ {
			if out[i] != '\n' {
				out[i] = ' '
			}
		}
	}
	return out
}
