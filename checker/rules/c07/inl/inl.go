// Package inl is a source-level inliner used by the C07/C16/C17 rule sets to
// make their verdicts independent of where the code of a mechanism lives: the
// anchored functions are re-analysed on an in-memory copy of the module in
// which the calls to small same-package helpers (functions, methods, closures
// bound once to a local) are replaced by their bodies. The transformation is
// semantics-preserving by construction (parameters bound by one parallel
// assignment or substituted when pure and never assigned, results assigned at
// each return, `return` turned into a break out of a labelled single-case
// switch); the copy is type-checked again and discarded if it does not check.
// Nothing is written to disk and nothing is executed.
package inl

import (
	"bytes"
	"fmt"
	"go/ast"
	"go/printer"
	"go/token"
	"go/types"
	"os"
	"regexp"
	"sort"
	"strings"

	"golang.org/x/tools/go/packages"

	"rscheck/core"
)

// Spec says what to inline: calls made (transitively) from the root functions,
// except calls to the excluded functions (anchors the rules look at by name).
type Spec struct {
	Pkg     string   // module-relative package path of the roots
	Roots   []string // "Recv.Name" or "Name"
	Exclude []string // callee names (same format) never inlined
	// A callee is expanded only when it takes part in the mechanism the rules look at: its body (or the body of
	// something it calls) has a go statement, a channel operation, a sync.WaitGroup call, a call of a function
	// or method named in Keep, a parameter of a named type in KeepTypes, or a selection of a field in KeepFields.
	Keep       []string
	KeepTypes  []string
	KeepFields []string
}

const maxDepth = 3

var identRe = regexp.MustCompile(`[A-Za-z_][A-Za-z0-9_]*`)
var callLike = regexp.MustCompile(`[A-Za-z0-9_\]]\(`)

type edit struct {
	start, end int
	text       string
}

type inliner struct {
	p      *core.Program
	pk     *packages.Package
	info   *types.Info
	src    map[string][]byte // file name -> source
	excl   map[types.Object]bool
	decls  map[*types.Func]*ast.FuncDecl
	label  int
	count  int
	need   map[string]map[string]string // file -> import path -> local name
	stack  []types.Object
	locals map[string]bool // names declared in the current root function
	gotos  map[string]int  // goto statements of the current root function, by label
	spec   Spec
	rel    map[types.Object]int // 0 unknown, 1 relevant, 2 not
}

func fname(fd *ast.FuncDecl, info *types.Info) string {
	if fd.Recv != nil && len(fd.Recv.List) == 1 {
		return core.NamedTypeName(info.TypeOf(fd.Recv.List[0].Type)) + "." + fd.Name.Name
	}
	return fd.Name.Name
}

// Sources returns the rewritten source of every file changed by inlining
// (absolute file name -> content); empty when nothing was inlined.
func Sources(p *core.Program, specs []Spec) map[string][]byte {
	out := map[string][]byte{}
	for _, sp := range specs {
		pk := p.Pkg(sp.Pkg)
		if pk == nil || pk.TypesInfo == nil {
			continue
		}
		in := &inliner{spec: sp, rel: map[types.Object]int{}, p: p, pk: pk, info: pk.TypesInfo, src: map[string][]byte{}, excl: map[types.Object]bool{}, decls: map[*types.Func]*ast.FuncDecl{}, need: map[string]map[string]string{}}
		roots := map[string]bool{}
		for _, r := range sp.Roots {
			roots[r] = true
		}
		exq := map[string]bool{}
		for _, r := range sp.Exclude {
			exq[r] = true
		}
		for _, f := range pk.Syntax {
			for _, d := range f.Decls {
				if fd, ok := d.(*ast.FuncDecl); ok && fd.Body != nil {
					obj, _ := in.info.Defs[fd.Name].(*types.Func)
					if obj == nil {
						continue
					}
					in.decls[obj] = fd
					if n := fname(fd, in.info); exq[n] || roots[n] {
						in.excl[obj] = true
					}
				}
			}
		}
		perFile := map[string][]edit{}
		for _, f := range pk.Syntax {
			file := p.Fset.Position(f.Pos()).Filename
			for _, d := range f.Decls {
				fd, ok := d.(*ast.FuncDecl)
				if !ok || fd.Body == nil || !roots[fname(fd, in.info)] {
					continue
				}
				in.locals = map[string]bool{}
				in.gotos = map[string]int{}
				ast.Inspect(fd, func(n ast.Node) bool {
					if br, ok := n.(*ast.BranchStmt); ok && br.Tok == token.GOTO && br.Label != nil {
						in.gotos[br.Label.Name]++
					}
					if id, ok := n.(*ast.Ident); ok && in.info.Defs[id] != nil {
						in.locals[id.Name] = true
					}
					if l, ok := n.(*ast.LabeledStmt); ok {
						in.locals["label:"+l.Label.Name] = true
					}
					return true
				})
				before := in.count
				txt := in.expand(file, fd.Body, 0, nil)
				if in.count > before {
					perFile[file] = append(perFile[file], edit{in.off(fd.Body.Pos()), in.off(fd.Body.End()), txt})
					in.addImports(file, file)
				}
			}
		}
		for file, eds := range perFile {
			src := in.source(file)
			if os.Getenv("RS_INL_DEBUG") != "" {
				for _, e := range eds {
					fmt.Printf("inl: file edit %s %d..%d (file %d bytes) old starts %q new starts %q\n", file, e.start, e.end, len(src), src[e.start:e.start+30], e.text[:30])
				}
			}
			res := apply(src, eds)
			res = in.withImports(file, res)
			out[file] = res
		}
	}
	return out
}

func (in *inliner) source(file string) []byte {
	if b, ok := in.src[file]; ok {
		return b
	}
	b, ok := in.p.Overlay[file] // the loader may have parsed an in-memory version of the file
	if !ok {
		b, _ = os.ReadFile(file)
	}
	in.src[file] = b
	return b
}

func (in *inliner) off(p token.Pos) int { return in.p.Fset.Position(p).Offset }

func (in *inliner) fileOf(n ast.Node) string { return in.p.Fset.Position(n.Pos()).Filename }

func (in *inliner) text(n ast.Node) string {
	src := in.source(in.fileOf(n))
	s, e := in.off(n.Pos()), in.off(n.End())
	if s < 0 || e > len(src) || s > e {
		var b bytes.Buffer
		printer.Fprint(&b, in.p.Fset, n)
		return b.String()
	}
	return string(src[s:e])
}

func apply(src []byte, eds []edit) []byte {
	sort.Slice(eds, func(i, j int) bool { return eds[i].start < eds[j].start })
	var b bytes.Buffer
	pos := 0
	for _, e := range eds {
		if e.start < pos {
			continue
		}
		b.Write(src[pos:e.start])
		b.WriteString(e.text)
		pos = e.end
	}
	b.Write(src[pos:])
	return b.Bytes()
}

// subst maps a parameter object to the text that replaces its uses.
type subst map[types.Object]string

// expand returns the source text of node n (of file `file`) with the inlinable
// call statements inside it replaced, identifiers in sub replaced by text, and
// (when rets != nil) return statements rewritten.
type retSpec struct {
	results []string // names of the result variables to assign
	label   string
	used    *bool
}

var plainOperand = regexp.MustCompile(`^[A-Za-z_][A-Za-z0-9_]*(\.[A-Za-z_][A-Za-z0-9_]*)*$`)

func (in *inliner) expand(file string, n ast.Node, depth int, sub subst) string {
	return in.expandR(file, n, depth, sub, nil)
}

func (in *inliner) expandR(file string, n ast.Node, depth int, sub subst, rets *retSpec) string {
	src := in.source(file)
	var eds []edit
	var walk func(m ast.Node, inLit bool)
	walk = func(m ast.Node, inLit bool) {
		ast.Inspect(m, func(x ast.Node) bool {
			if x == nil {
				return false
			}
			switch s := x.(type) {
			case *ast.FuncLit:
				if x != m {
					walk(s, true)
					return false
				}
			case *ast.StarExpr: // *p with the parameter p standing for &x: x
				if id, isID := ast.Unparen(s.X).(*ast.Ident); isID && sub != nil {
					if t, ok := sub[in.info.Uses[id]]; ok {
						t = strings.TrimSuffix(strings.TrimPrefix(t, "("), ")")
						if strings.HasPrefix(t, "&") && plainOperand.MatchString(t[1:]) {
							eds = append(eds, edit{in.off(s.Pos()), in.off(s.End()), t[1:]})
							return false
						}
					}
				}
			case *ast.Ident:
				if t, ok := sub[in.info.Uses[s]]; ok && sub != nil {
					eds = append(eds, edit{in.off(s.Pos()), in.off(s.End()), t})
				}
			case *ast.ReturnStmt:
				if rets != nil && !inLit {
					eds = append(eds, edit{in.off(s.Pos()), in.off(s.End()), in.rewriteReturn(file, s, depth, sub, rets)})
					return false
				}
				if depth < maxDepth {
					if t, ok := in.site(file, s, depth, sub, rets, inLit); ok {
						eds = append(eds, edit{in.off(s.Pos()), in.off(s.End()), t})
						return false
					}
				}
			case ast.Stmt:
				if depth < maxDepth {
					if t, ok := in.site(file, s, depth, sub, rets, inLit); ok {
						eds = append(eds, edit{in.off(s.Pos()), in.off(s.End()), t})
						return false
					}
				}
			}
			return true
		})
	}
	walk(n, false)
	s, e := in.off(n.Pos()), in.off(n.End())
	// edits are in file offsets; apply on the slice
	for i := range eds {
		eds[i].start -= s
		eds[i].end -= s
		if os.Getenv("RS_INL_DEBUG") != "" && (eds[i].start < 0 || eds[i].end > e-s || eds[i].end < eds[i].start) {
			fmt.Printf("inl: bad edit %d..%d in node %T of length %d: %q\n", eds[i].start, eds[i].end, n, e-s, eds[i].text[:min(40, len(eds[i].text))])
		}
	}
	return string(apply(src[s:e], eds))
}

func (in *inliner) rewriteReturn(file string, r *ast.ReturnStmt, depth int, sub subst, rets *retSpec) string {
	*rets.used = true
	if len(r.Results) == 0 || len(rets.results) == 0 {
		if len(r.Results) == 1 { // return f() of a result-less callee cannot happen; keep evaluation
			return "{ " + in.expand(file, r.Results[0], depth, sub) + "; break " + rets.label + " }"
		}
		return "break " + rets.label
	}
	var rhs []string
	for _, e := range r.Results {
		rhs = append(rhs, in.expand(file, e, depth, sub))
	}
	return "{ " + strings.Join(rets.results, ", ") + " = " + strings.Join(rhs, ", ") + "; break " + rets.label + " }"
}

// callee describes an inlinable target.
type callee struct {
	typ   *ast.FuncType
	body  *ast.BlockStmt
	recv  *ast.Field // receiver declaration (methods)
	recvX ast.Expr   // receiver expression at the call
	obj   types.Object
	isLit bool
	// a literal called where it is written: no object stands for it, it is always expanded
	isIIFE bool
}

func (in *inliner) resolve(call *ast.CallExpr) *callee {
	c := in.resolve0(call)
	if os.Getenv("RS_INL_DEBUG") == "2" {
		fmt.Printf("inl: resolve %s -> %v\n", in.text(call.Fun), c != nil)
	}
	return c
}

func (in *inliner) resolve0(call *ast.CallExpr) *callee {
	fun := ast.Unparen(call.Fun)
	var c *callee
	switch f := fun.(type) {
	case *ast.Ident:
		switch o := in.info.Uses[f].(type) {
		case *types.Func:
			if fd := in.decls[o]; fd != nil && !in.excl[o] {
				c = &callee{typ: fd.Type, body: fd.Body, obj: o}
			}
		case *types.Var:
			if o.IsField() || o.Pkg() == nil || o.Parent() == o.Pkg().Scope() {
				return nil
			}
			// local bound exactly once to a function literal
			var lit *ast.FuncLit
			n := 0
			for _, file := range in.pk.Syntax {
				if file.Pos() <= o.Pos() && o.Pos() < file.End() {
					ast.Inspect(file, func(m ast.Node) bool {
						switch as := m.(type) {
						case *ast.AssignStmt:
							for i, l := range as.Lhs {
								if id, ok := l.(*ast.Ident); ok && (in.info.Defs[id] == o || in.info.Uses[id] == o) {
									n++
									if len(as.Lhs) == len(as.Rhs) {
										lit, _ = ast.Unparen(as.Rhs[i]).(*ast.FuncLit)
									}
								}
							}
						case *ast.ValueSpec:
							for i, id := range as.Names {
								if in.info.Defs[id] == o {
									n++
									if i < len(as.Values) {
										lit, _ = ast.Unparen(as.Values[i]).(*ast.FuncLit)
									}
								}
							}
						case *ast.UnaryExpr:
							if id, ok := as.X.(*ast.Ident); ok && as.Op == token.AND && in.info.Uses[id] == o {
								n += 2
							}
						}
						return true
					})
				}
			}
			if n == 1 && lit != nil {
				c = &callee{typ: lit.Type, body: lit.Body, obj: o, isLit: true}
			}
		}
	case *ast.FuncLit: // a function literal invoked in place: func(out *bool) {...}(&x)
		c = &callee{typ: f.Type, body: f.Body, isIIFE: true}
	case *ast.SelectorExpr:
		sel, ok := in.info.Selections[f]
		if ok && sel.Kind() == types.MethodVal {
			if o, ok := sel.Obj().(*types.Func); ok {
				if fd := in.decls[o]; fd != nil && !in.excl[o] && fd.Recv != nil && len(fd.Recv.List) == 1 && len(sel.Index()) == 1 {
					c = &callee{typ: fd.Type, body: fd.Body, obj: o, recv: fd.Recv.List[0], recvX: f.X}
				}
			}
		} else if !ok { // pkg.Func of this package cannot occur; qualified calls go elsewhere
			return nil
		}
	}
	if c == nil || c.body == nil || c.typ.Params == nil {
		return nil
	}
	for _, s := range in.stack {
		if s == c.obj && !c.isIIFE {
			return nil
		}
	}
	for _, f := range c.typ.Params.List {
		if _, variadic := f.Type.(*ast.Ellipsis); variadic || len(f.Names) == 0 && len(c.typ.Params.List) > 0 {
			return nil
		}
	}
	bad := false
	nstmt := 0
	ast.Inspect(c.body, func(m ast.Node) bool {
		switch x := m.(type) {
		case *ast.LabeledStmt:
			if in.locals["label:"+x.Label.Name] {
				bad = true // the root function has a label of that name
			}
		case *ast.BranchStmt:
			if x.Tok == token.GOTO {
				bad = true
			}
		case *ast.CallExpr:
			if id, ok := x.Fun.(*ast.Ident); ok && id.Name == "recover" {
				bad = true
			}
		case ast.Stmt:
			nstmt++
		}
		return !bad
	})
	if bad || nstmt > 400 {
		return nil
	}
	// names: package-level identifiers used by the callee must not be shadowed by locals of the root
	ast.Inspect(c.body, func(m ast.Node) bool {
		if id, ok := m.(*ast.Ident); ok {
			if o := in.info.Uses[id]; o != nil && o.Pkg() != nil {
				_, isPkgName := o.(*types.PkgName)
				if (isPkgName || o.Parent() == o.Pkg().Scope()) && in.locals[id.Name] {
					bad = true
				}
			}
			if o := in.info.Uses[id]; o != nil && o.Pkg() == nil && in.locals[id.Name] { // universe
				bad = true
			}
		}
		return !bad
	})
	if bad || !in.relevant(c, 0) {
		return nil
	}
	return c
}

func has(list []string, s string) bool {
	for _, x := range list {
		if x == s {
			return true
		}
	}
	return false
}

// relevant: see Spec.Keep.
func (in *inliner) relevant(c *callee, depth int) bool {
	if len(in.spec.Keep)+len(in.spec.KeepTypes)+len(in.spec.KeepFields) == 0 {
		return true
	}
	if c.isIIFE {
		return true
	}
	if r := in.rel[c.obj]; r != 0 {
		return r == 1
	}
	in.rel[c.obj] = 2
	rel := false
	for _, f := range c.typ.Params.List {
		if has(in.spec.KeepTypes, core.NamedTypeName(in.info.TypeOf(f.Type))) {
			rel = true
		}
	}
	ast.Inspect(c.body, func(m ast.Node) bool {
		switch x := m.(type) {
		case *ast.GoStmt, *ast.SendStmt, *ast.SelectStmt:
			rel = true
		case *ast.UnaryExpr:
			if x.Op == token.ARROW {
				rel = true
			}
		case *ast.RangeStmt:
			if t := in.info.TypeOf(x.X); t != nil {
				if _, isChan := t.Underlying().(*types.Chan); isChan {
					rel = true
				}
			}
		case *ast.SelectorExpr:
			if has(in.spec.KeepFields, x.Sel.Name) {
				if sel, ok := in.info.Selections[x]; ok && sel.Kind() == types.FieldVal {
					rel = true
				}
			}
		case *ast.CallExpr:
			switch f := ast.Unparen(x.Fun).(type) {
			case *ast.Ident:
				if f.Name == "close" || has(in.spec.Keep, f.Name) {
					rel = true
				}
			case *ast.SelectorExpr:
				if has(in.spec.Keep, f.Sel.Name) {
					rel = true
				}
				if fn, ok := in.info.Uses[f.Sel].(*types.Func); ok && fn.Pkg() != nil && fn.Pkg().Path() == "sync" {
					rel = true
				}
			}
			if !rel && depth < maxDepth {
				in.stack = append(in.stack, c.obj)
				if c2 := in.resolve0(x); c2 != nil {
					rel = true // resolve0 already required c2 to be relevant
				}
				in.stack = in.stack[:len(in.stack)-1]
			}
		}
		return !rel
	})
	if rel {
		in.rel[c.obj] = 1
	}
	return rel
}

func pureArg(info *types.Info, e ast.Expr) bool {
	switch x := ast.Unparen(e).(type) {
	case *ast.Ident:
		return true
	case *ast.BasicLit:
		return true
	case *ast.SelectorExpr:
		return pureArg(info, x.X)
	case *ast.UnaryExpr:
		return x.Op == token.AND && pureArg(info, x.X)
	case *ast.CallExpr: // conversion
		if tv, ok := info.Types[x.Fun]; ok && tv.IsType() && len(x.Args) == 1 {
			return pureArg(info, x.Args[0])
		}
	}
	if tv, ok := info.Types[e]; ok && tv.Value != nil {
		return true
	}
	return false
}

func identNames(e ast.Node) map[string]bool {
	m := map[string]bool{}
	ast.Inspect(e, func(n ast.Node) bool {
		if id, ok := n.(*ast.Ident); ok {
			m[id.Name] = true
		}
		return true
	})
	return m
}

// assigned reports whether obj is assigned, inc/dec-ed or address-taken under body.
func (in *inliner) assigned(body ast.Node, obj types.Object) bool {
	hit := false
	ast.Inspect(body, func(m ast.Node) bool {
		switch x := m.(type) {
		case *ast.AssignStmt:
			for _, l := range x.Lhs {
				if id, ok := ast.Unparen(l).(*ast.Ident); ok && (in.info.Uses[id] == obj || in.info.Defs[id] == obj) {
					hit = true
				}
			}
		case *ast.IncDecStmt:
			if id, ok := ast.Unparen(x.X).(*ast.Ident); ok && in.info.Uses[id] == obj {
				hit = true
			}
		case *ast.UnaryExpr:
			if id, ok := ast.Unparen(x.X).(*ast.Ident); ok && x.Op == token.AND && in.info.Uses[id] == obj {
				hit = true
			}
		case *ast.RangeStmt:
			for _, l := range []ast.Expr{x.Key, x.Value} {
				if id, ok := l.(*ast.Ident); ok && in.info.Uses[id] == obj {
					hit = true
				}
			}
		}
		return !hit
	})
	return hit
}

// body builds the inlined block for a call: results are the texts of the
// variables that receive the results ("" = discard).
func (in *inliner) inline(file string, call *ast.CallExpr, c *callee, depth int, outer subst, results []string) (string, bool) {
	cfile := in.fileOf(c.body)
	sub := subst{}
	var bindL, bindR, keep []string
	declared := identNames(c.body) // names the callee mentions or declares
	defs := map[string]bool{}
	ast.Inspect(c.body, func(m ast.Node) bool {
		if id, ok := m.(*ast.Ident); ok && in.info.Defs[id] != nil {
			defs[id.Name] = true
		}
		return true
	})
	for _, f := range c.typ.Params.List {
		for _, nm := range f.Names {
			defs[nm.Name] = true
		}
	}
	if c.recv != nil {
		for _, nm := range c.recv.Names {
			defs[nm.Name] = true
		}
	}
	bind := func(name *ast.Ident, arg ast.Expr, argText string) {
		obj := in.info.Defs[name]
		if name.Name == "_" || obj == nil {
			bindL, bindR = append(bindL, "_"), append(bindR, argText)
			return
		}
		ok := pureArg(in.info, arg) && !in.assigned(c.body, obj)
		if ok {
			for n := range identNames(arg) {
				if defs[n] && n != name.Name {
					ok = false // a callee local / another parameter would capture a name of the argument
				}
			}
		}
		if ok {
			t := "(" + argText + ")"
			if u, isAddr := ast.Unparen(arg).(*ast.UnaryExpr); isAddr && u.Op == token.AND {
				t = "(&" + in.expand(file, u.X, depth, outer) + ")"
			}
			sub[obj] = t
			return
		}
		bindL, bindR = append(bindL, name.Name), append(bindR, argText)
		keep = append(keep, name.Name)
	}
	_ = declared
	if c.recv != nil {
		if len(c.recv.Names) == 1 {
			bind(c.recv.Names[0], c.recvX, in.expand(file, c.recvX, depth, outer))
		}
	}
	i := 0
	for _, f := range c.typ.Params.List {
		for _, nm := range f.Names {
			if i >= len(call.Args) {
				return "", false
			}
			bind(nm, call.Args[i], in.expand(file, call.Args[i], depth, outer))
			i++
		}
	}
	if i != len(call.Args) {
		return "", false
	}
	// result variables: the caller's targets themselves when the results are unnamed and the targets are plain
	// lvalues (assigned at each return), temporaries otherwise
	var resNames, outNames, inner, copyOut []string
	var pre []string
	nres := 0
	direct := len(results) > 0
	for _, r := range results {
		if r == "" || callLike.MatchString(r) {
			direct = false
		}
		for _, w := range identRe.FindAllString(r, -1) {
			if defs[w] {
				direct = false // a callee local of that name would capture the assignment
			}
		}
	}
	if c.typ.Results != nil {
		for _, f := range c.typ.Results.List {
			for _, nm := range f.Names {
				if nm.Name != "_" {
					direct = false
				}
			}
		}
		for _, f := range c.typ.Results.List {
			k := len(f.Names)
			if k == 0 {
				k = 1
			}
			for j := 0; j < k; j++ {
				name := fmt.Sprintf("inl%dr%d", in.label+1, nres)
				out := name
				if len(f.Names) > 0 && f.Names[j].Name != "_" {
					// named result: the callee's own variable lives in the callee's scope and is copied to a
					// temporary when the body is left
					name = f.Names[j].Name
					inner = append(inner, "var "+name+" "+in.typeText(cfile, f.Type))
					copyOut = append(copyOut, out+" = "+name)
					keep = append(keep, name)
				}
				if direct && nres < len(results) {
					name, out = results[nres], results[nres]
				} else {
					pre = append(pre, "var "+out+" "+in.typeText(cfile, f.Type), "_ = "+out)
				}
				resNames = append(resNames, name)
				outNames = append(outNames, out)
				nres++
			}
		}
	}
	if len(results) != 0 && len(results) != nres {
		return "", false
	}
	in.label++
	label := fmt.Sprintf("inl%d", in.label)
	used := false
	in.stack = append(in.stack, c.obj)
	bodyTxt := in.expandR(cfile, c.body, depth+1, sub, &retSpec{results: resNames, label: label, used: &used})
	in.stack = in.stack[:len(in.stack)-1]
	in.addImports(cfile, file)
	var b strings.Builder
	b.WriteString("{\n")
	for _, p := range pre { // result temporaries: visible to the copy-out below, declared before the parameters can shadow anything
		b.WriteString(p + "\n")
	}
	b.WriteString("{\n") // scope of the parameters and of the callee's body
	if len(bindL) > 0 {
		allBlank := true
		for _, l := range bindL {
			if l != "_" {
				allBlank = false
			}
		}
		op := ":="
		if allBlank {
			op = "="
		}
		b.WriteString(strings.Join(bindL, ", ") + " " + op + " " + strings.Join(bindR, ", ") + "\n")
	}
	for _, d := range inner {
		b.WriteString(d + "\n")
	}
	for _, k := range keep {
		b.WriteString("_ = " + k + "\n")
	}
	if used {
		b.WriteString(label + ":\nswitch {\ndefault:\n" + strings.TrimSuffix(strings.TrimPrefix(strings.TrimSpace(bodyTxt), "{"), "}") + "\n}\n")
	} else {
		b.WriteString(bodyTxt + "\n")
	}
	for _, cp := range copyOut {
		b.WriteString(cp + "\n")
	}
	b.WriteString("}\n")
	for k, r := range results {
		if r != "" && r != "_" && !direct {
			b.WriteString(r + " = " + outNames[k] + "\n")
		}
	}
	if c.isLit { // the closure variable may have no other use left
		b.WriteString("_ = " + c.obj.Name() + "\n")
	}
	b.WriteString("}")
	in.count++
	return b.String(), true
}

func (in *inliner) typeText(file string, t ast.Expr) string {
	return in.expand(file, t, maxDepth, nil)
}

// ---------------------------------------------------------------------------
// loading the rewritten module
