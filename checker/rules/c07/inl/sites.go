// Call sites the inliner rewrites.
package inl

import (
	"fmt"
	"go/ast"
	"go/token"
	"go/types"
	"strings"
)

// site recognises a statement that is an inlinable call site and returns its replacement.
func (in *inliner) site(file string, s ast.Stmt, depth int, sub subst, rets *retSpec, inLit bool) (string, bool) {
	lhsText := func(e ast.Expr) string { return in.expand(file, e, depth, sub) }
	switch st := s.(type) {
	case *ast.ExprStmt:
		call, ok := ast.Unparen(st.X).(*ast.CallExpr)
		if !ok {
			return "", false
		}
		if c := in.resolve(call); c != nil {
			n := 0
			if c.typ.Results != nil {
				n = c.typ.Results.NumFields()
			}
			return in.inline(file, call, c, depth, sub, make([]string, n))
		}
	case *ast.AssignStmt:
		if len(st.Rhs) != 1 {
			return "", false
		}
		call, ok := ast.Unparen(st.Rhs[0]).(*ast.CallExpr)
		if !ok {
			return "", false
		}
		c := in.resolve(call)
		if c == nil || st.Tok != token.ASSIGN && st.Tok != token.DEFINE {
			return "", false
		}
		var decl []string
		var res []string
		k := 0
		var rtypes []ast.Expr
		if c.typ.Results != nil {
			for _, f := range c.typ.Results.List {
				m := len(f.Names)
				if m == 0 {
					m = 1
				}
				for j := 0; j < m; j++ {
					rtypes = append(rtypes, f.Type)
				}
			}
		}
		if len(rtypes) != len(st.Lhs) {
			return "", false
		}
		for _, l := range st.Lhs {
			if id, isID := l.(*ast.Ident); isID && st.Tok == token.DEFINE && in.info.Defs[id] != nil && id.Name != "_" {
				decl = append(decl, "var "+id.Name+" "+in.typeText(in.fileOf(c.body), rtypes[k]))
			}
			res = append(res, lhsText(l))
			k++
		}
		body, ok := in.inline(file, call, c, depth, sub, res)
		if !ok {
			return "", false
		}
		return strings.Join(append(decl, body), "\n"), true
	case *ast.IfStmt:
		// if <init with call>; cond {..}   or   if [!]call(...) {..}
		if st.Init != nil {
			initTxt, ok := in.site(file, st.Init, depth, sub, rets, inLit)
			if !ok {
				return "", false
			}
			rest := in.ifWithout(file, st, depth, sub, rets, "")
			return "{\n" + initTxt + "\n" + rest + "\n}", true
		}
		cond := ast.Unparen(st.Cond)
		neg := ""
		if u, ok := cond.(*ast.UnaryExpr); ok && u.Op == token.NOT {
			cond, neg = ast.Unparen(u.X), "!"
		}
		call, ok := cond.(*ast.CallExpr)
		if !ok {
			return "", false
		}
		c := in.resolve(call)
		if c == nil || c.typ.Results == nil || c.typ.Results.NumFields() != 1 {
			return "", false
		}
		tmp := fmt.Sprintf("inl%dc", in.label+1)
		body, ok := in.inline(file, call, c, depth, sub, []string{tmp})
		if !ok {
			return "", false
		}
		rest := in.ifWithout(file, st, depth, sub, rets, neg+tmp)
		return "{\nvar " + tmp + " " + in.typeText(in.fileOf(c.body), c.typ.Results.List[0].Type) + "\n" + body + "\n" + rest + "\n}", true
	case *ast.ReturnStmt:
		if rets != nil && !inLit || len(st.Results) != 1 {
			return "", false // returns of an inlined callee are rewritten elsewhere
		}
		call, ok := ast.Unparen(st.Results[0]).(*ast.CallExpr)
		if !ok {
			return "", false
		}
		c := in.resolve(call)
		if c == nil || c.typ.Results == nil {
			return "", false
		}
		var names, decl []string
		k := 0
		for _, f := range c.typ.Results.List {
			m := len(f.Names)
			if m == 0 {
				m = 1
			}
			for j := 0; j < m; j++ {
				n := fmt.Sprintf("inl%dt%d", in.label+1, k)
				names = append(names, n)
				decl = append(decl, "var "+n+" "+in.typeText(in.fileOf(c.body), f.Type))
				k++
			}
		}
		body, ok := in.inline(file, call, c, depth, sub, names)
		if !ok {
			return "", false
		}
		return "{\n" + strings.Join(decl, "\n") + "\n" + body + "\nreturn " + strings.Join(names, ", ") + "\n}", true
	case *ast.ForStmt:
		// receive loops in the form of a range over the channel:
		//   for e, ok := <-ch; ok; e, ok = <-ch { body }          ==>  for e := range ch { body }
		//   for { e, ok := <-ch; if !ok { break }; rest }         ==>  for e := range ch { rest }
		// (ok not used in the body, e not assigned there, ch a plain operand)
		recvOf := func(st ast.Stmt, tok token.Token) (e, ok *ast.Ident, ch ast.Expr) {
			as, isAs := st.(*ast.AssignStmt)
			if !isAs || as.Tok != tok || len(as.Lhs) != 2 || len(as.Rhs) != 1 {
				return nil, nil, nil
			}
			u, isU := ast.Unparen(as.Rhs[0]).(*ast.UnaryExpr)
			if !isU || u.Op != token.ARROW || !pureArg(in.info, u.X) {
				return nil, nil, nil
			}
			e, _ = as.Lhs[0].(*ast.Ident)
			ok, _ = as.Lhs[1].(*ast.Ident)
			if e == nil || ok == nil || e.Name == "_" || ok.Name == "_" {
				return nil, nil, nil
			}
			return e, ok, u.X
		}
		obj := func(id *ast.Ident) types.Object {
			if o := in.info.Defs[id]; o != nil {
				return o
			}
			return in.info.Uses[id]
		}
		var e, okv *ast.Ident
		var ch ast.Expr
		var rest []ast.Stmt
		switch {
		case st.Init != nil && st.Post != nil && st.Cond != nil:
			e, okv, ch = recvOf(st.Init, token.DEFINE)
			e2, ok2, ch2 := recvOf(st.Post, token.ASSIGN)
			cond, isID := ast.Unparen(st.Cond).(*ast.Ident)
			if e == nil || e2 == nil || !isID || obj(cond) != obj(okv) || obj(e2) != obj(e) || obj(ok2) != obj(okv) || in.text(ch) != in.text(ch2) {
				return "", false
			}
			rest = st.Body.List
		case st.Init == nil && st.Post == nil && st.Cond == nil && len(st.Body.List) >= 2:
			e, okv, ch = recvOf(st.Body.List[0], token.DEFINE)
			ifs, isIf := st.Body.List[1].(*ast.IfStmt)
			if e == nil || !isIf || ifs.Init != nil || ifs.Else != nil || len(ifs.Body.List) != 1 {
				return "", false
			}
			not, isNot := ast.Unparen(ifs.Cond).(*ast.UnaryExpr)
			br, isBr := ifs.Body.List[0].(*ast.BranchStmt)
			if !isNot || not.Op != token.NOT || !isBr || br.Tok != token.BREAK || br.Label != nil {
				return "", false
			}
			if id, isID := ast.Unparen(not.X).(*ast.Ident); !isID || obj(id) != obj(okv) {
				return "", false
			}
			rest = st.Body.List[2:]
		default:
			return "", false
		}
		clean := true
		for _, b := range rest {
			ast.Inspect(b, func(m ast.Node) bool {
				switch t := m.(type) {
				case *ast.Ident:
					if in.info.Uses[t] == obj(okv) {
						clean = false
					}
				case *ast.AssignStmt:
					for _, l := range t.Lhs {
						if id, isID := l.(*ast.Ident); isID && in.info.Uses[id] == obj(e) {
							clean = false
						}
					}
				}
				return clean
			})
		}
		if !clean {
			return "", false
		}
		var b strings.Builder
		b.WriteString("for " + e.Name + " := range " + in.expand(file, ch, depth, sub) + " {\n")
		for _, bs := range rest {
			b.WriteString(in.expandR(file, bs, depth, sub, rets) + "\n")
		}
		b.WriteString("}")
		in.count++
		return b.String(), true
	case *ast.LabeledStmt:
		// L: if cond { body; goto L }  ==>  for cond { body }   (the only goto to L, no other branch statement in
		// the body that the new loop could capture)
		ifs, ok := st.Stmt.(*ast.IfStmt)
		if !ok || ifs.Init != nil || ifs.Else != nil || len(ifs.Body.List) == 0 || in.gotos[st.Label.Name] != 1 || depth != 0 {
			return "", false
		}
		last, ok := ifs.Body.List[len(ifs.Body.List)-1].(*ast.BranchStmt)
		if !ok || last.Tok != token.GOTO || last.Label == nil || last.Label.Name != st.Label.Name {
			return "", false
		}
		clean := true
		for _, b := range ifs.Body.List[:len(ifs.Body.List)-1] {
			ast.Inspect(b, func(m ast.Node) bool {
				switch m.(type) {
				case *ast.BranchStmt, *ast.LabeledStmt:
					clean = false
				case *ast.FuncLit:
					return false
				}
				return clean
			})
		}
		if !clean {
			return "", false
		}
		var b strings.Builder
		b.WriteString("for " + in.expand(file, ifs.Cond, depth, sub) + " {\n")
		for _, bs := range ifs.Body.List[:len(ifs.Body.List)-1] {
			b.WriteString(in.expandR(file, bs, depth, sub, rets) + "\n")
		}
		b.WriteString("}")
		in.count++
		return b.String(), true
	case *ast.SendStmt:
		// ch <- h(args)  ==>  { var t T; <body, result in t>; ch <- t }   (ch a plain operand: nothing to re-order)
		call, ok := ast.Unparen(st.Value).(*ast.CallExpr)
		if !ok || !pureArg(in.info, st.Chan) {
			return "", false
		}
		c := in.resolve(call)
		if c == nil || c.typ.Results == nil || c.typ.Results.NumFields() != 1 {
			return "", false
		}
		tmp := fmt.Sprintf("inl%dc", in.label+1)
		body, ok := in.inline(file, call, c, depth, sub, []string{tmp})
		if !ok {
			return "", false
		}
		return "{\nvar " + tmp + " " + in.typeText(in.fileOf(c.body), c.typ.Results.List[0].Type) + "\n" + body + "\n" + lhsText(st.Chan) + " <- " + tmp + "\n}", true
	case *ast.GoStmt:
		c := in.resolve(st.Call)
		if c == nil || c.isIIFE { // `go func() {...}()` already is a literal: its body is visited in place
			return "", false
		}
		// go h(args)  ==>  go func(params) results { body }(args): the function value is replaced by a literal
		cfile := in.fileOf(c.body)
		var params, args []string
		if c.recv != nil {
			if len(c.recv.Names) != 1 {
				return "", false
			}
			params = append(params, c.recv.Names[0].Name+" "+in.typeText(cfile, c.recv.Type))
			args = append(args, in.expand(file, c.recvX, depth, sub))
		}
		for _, f := range c.typ.Params.List {
			var ns []string
			for _, nm := range f.Names {
				ns = append(ns, nm.Name)
			}
			params = append(params, strings.Join(ns, ", ")+" "+in.typeText(cfile, f.Type))
		}
		for _, a := range st.Call.Args {
			args = append(args, in.expand(file, a, depth, sub))
		}
		resTxt := ""
		if c.typ.Results != nil && c.typ.Results.NumFields() > 0 {
			resTxt = " " + in.text(c.typ.Results)
		}
		in.stack = append(in.stack, c.obj)
		body := in.expand(cfile, c.body, depth+1, nil)
		in.stack = in.stack[:len(in.stack)-1]
		in.addImports(cfile, file)
		in.count++
		keepAlive := ""
		if c.isLit {
			keepAlive = "\n_ = " + c.obj.Name()
		}
		return "go func(" + strings.Join(params, ", ") + ")" + resTxt + " " + body + "(" + strings.Join(args, ", ") + ")" + keepAlive, true
	}
	return "", false
}

// ifWithout prints an if statement without its init, with the condition text replaced when cond != "".
func (in *inliner) ifWithout(file string, st *ast.IfStmt, depth int, sub subst, rets *retSpec, cond string) string {
	if cond == "" {
		cond = in.expandR(file, st.Cond, depth, sub, rets)
	}
	out := "if " + cond + " " + in.expandR(file, st.Body, depth, sub, rets)
	if st.Else != nil {
		out += " else " + in.expandR(file, st.Else, depth, sub, rets)
	}
	return out
}
