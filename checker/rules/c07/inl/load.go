// Imports of the rewritten files and re-loading them.
package inl

import (
	"bytes"
	"fmt"
	"go/ast"
	"go/parser"
	"go/printer"
	"go/token"
	"os"
	"path/filepath"
	"sort"
	"strings"

	"golang.org/x/tools/go/packages"

	"rscheck/core"
	"rscheck/pat"
)

// addImports records that text taken from file `from` was placed into file `to`.
func (in *inliner) addImports(from, to string) {
	if from == to {
		return
	}
	var ff *ast.File
	for _, f := range in.pk.Syntax {
		if in.p.Fset.Position(f.Pos()).Filename == from {
			ff = f
		}
	}
	if ff == nil {
		return
	}
	if in.need[to] == nil {
		in.need[to] = map[string]string{}
	}
	for _, im := range ff.Imports {
		name := ""
		if im.Name != nil {
			name = im.Name.Name
		}
		in.need[to][im.Path.Value] = name
	}
}

// withImports adds the imports that inlined text needs and the file lacks;
// unused ones are harmless only if referenced, so each added import is kept
// alive by a blank use of the package's name? Go rejects unused imports, so
// only imports whose local name occurs in the new text are added.
func (in *inliner) withImports(file string, src []byte) []byte {
	need := in.need[file]
	if len(need) == 0 {
		return src
	}
	f, err := parser.ParseFile(token.NewFileSet(), file, src, parser.ImportsOnly)
	if err != nil {
		return src
	}
	have := map[string]bool{}
	for _, im := range f.Imports {
		have[im.Path.Value] = true
	}
	var add []string
	for path, name := range need {
		if have[path] || name == "_" || name == "." {
			continue
		}
		local := name
		if local == "" {
			// default name: declared package name
			for _, ip := range in.pk.Imports {
				if `"`+ip.PkgPath+`"` == path {
					local = ip.Name
				}
			}
		}
		if local == "" || !bytes.Contains(src, []byte(local+".")) {
			continue
		}
		add = append(add, name+" "+path)
	}
	if len(add) == 0 {
		return src
	}
	sort.Strings(add)
	// insert after the package clause
	idx := bytes.Index(src, []byte("\npackage "))
	if bytes.HasPrefix(src, []byte("package ")) {
		idx = 0
	} else {
		idx++
	}
	end := idx + bytes.IndexByte(src[idx:], '\n') + 1
	ins := "import (\n\t" + strings.Join(add, "\n\t") + "\n)\n"
	return append(append(append([]byte{}, src[:end]...), []byte(ins)...), src[end:]...)
}

// Load type-checks the module again with the given files replaced (on top of
// the loader's duplicate-const normalisation). It returns nil when the copy
// does not type-check like the original (the caller then keeps the original).
func Load(p *core.Program, files map[string][]byte) *core.Program {
	if len(files) == 0 {
		return nil
	}
	srcRoot := filepath.Join(core.RepoDir(), "src")
	overlay := map[string][]byte{}
	filepath.Walk(srcRoot, func(path string, fi os.FileInfo, err error) error {
		if err != nil || fi.IsDir() || !strings.HasSuffix(path, ".go") {
			return nil
		}
		src, ok := files[path]
		if !ok {
			if o, has := p.Overlay[path]; has {
				overlay[path] = o
				return nil
			}
			var e error
			if src, e = os.ReadFile(path); e != nil {
				return nil
			}
		}
		if out := blankDuplicateConsts(path, src); out != nil {
			overlay[path] = out
		} else if ok {
			overlay[path] = src
		}
		return nil
	})
	env := append(os.Environ(), "GOWORK=off", "GOFLAGS=-mod=mod", "GOPROXY=off", "GOSUMDB=off", "GOTOOLCHAIN=local", "CGO_ENABLED=0")
	if p.GOOS != "" {
		env = append(env, "GOOS="+p.GOOS)
	}
	cfg := &packages.Config{Mode: packages.LoadAllSyntax, Dir: srcRoot, Env: env, Overlay: overlay, Tests: p.WithTests}
	pkgs, err := packages.Load(cfg, "./...")
	if err != nil {
		return nil
	}
	np := &core.Program{Overlay: overlay, Shared: map[string]interface{}{}, All: map[string]*packages.Package{}, Normalisations: p.Normalisations, WithTests: p.WithTests, GOOS: p.GOOS}
	packages.Visit(pkgs, nil, func(pk *packages.Package) {
		if np.Fset == nil && pk.Fset != nil {
			np.Fset = pk.Fset
		}
		if _, ok := np.All[pk.PkgPath]; !ok || pk.ID == pk.PkgPath {
			np.All[pk.PkgPath] = pk
		}
	})
	seen := map[string]bool{}
	for _, pk := range pkgs {
		if !strings.HasPrefix(pk.PkgPath, core.Module) || strings.HasSuffix(pk.PkgPath, ".test") || seen[pk.ID] {
			continue
		}
		seen[pk.ID] = true
		np.Pkgs = append(np.Pkgs, pk)
		pat.RegisterPackage(pk.TypesInfo, pk.Syntax)
		for _, e := range pk.Errors {
			if pk.PkgPath == core.MainPkg || strings.HasPrefix(pk.ID, core.MainPkg+" ") {
				np.MainTypeErrors++
				continue
			}
			if os.Getenv("RS_INL_DEBUG") != "" {
				fmt.Println("inl: rewritten copy does not type-check:", e)
			}
			return nil // the rewritten copy does not type-check: discard it
		}
	}
	sort.Slice(np.Pkgs, func(i, j int) bool { return np.Pkgs[i].ID < np.Pkgs[j].ID })
	if len(np.Pkgs) < len(p.Pkgs) {
		return nil
	}
	return np
}

func blankDuplicateConsts(path string, src []byte) []byte {
	fset := token.NewFileSet()
	f, perr := parser.ParseFile(fset, path, src, parser.SkipObjectResolution)
	if perr != nil || f == nil {
		return nil
	}
	seen := map[string]bool{}
	var out []byte
	for _, d := range f.Decls {
		gd, ok := d.(*ast.GenDecl)
		if !ok || gd.Tok != token.CONST {
			continue
		}
		var buf bytes.Buffer
		if err := printer.Fprint(&buf, fset, gd); err != nil {
			continue
		}
		k := buf.String()
		if !seen[k] {
			seen[k] = true
			continue
		}
		if out == nil {
			out = append([]byte(nil), src...)
		}
		s, e := fset.Position(gd.Pos()).Offset, fset.Position(gd.End()).Offset
		for i := s; i < e && i < len(out); i++ {
			if out[i] != '\n' {
				out[i] = ' '
			}
		}
	}
	return out
}
