// Error discipline and branch facts: ErrCheck, EdgeFact (through switches and carried boolean locals).
package c07

import (
	"fmt"
	"go/ast"
	"go/token"
	"go/types"

	"golang.org/x/tools/go/cfg"

	"rscheck/cfgq"
	"rscheck/core"
	"rscheck/pat"
)

// EdgeFact is cfgq.EdgeEstablishes extended to the cases of a tagless switch, to conditions carried by boolean
// locals and to the structure of the condition: a conjunction that holds (a disjunction that fails) establishes
// what either operand establishes, a disjunction that holds (a conjunction that fails) only what both operands
// establish.
func EdgeFact(g *cfgq.Graph, b *cfg.Block, succ int, match func(cfgq.Fact) bool) bool {
	var use ast.Node
	if len(b.Nodes) > 0 {
		use = b.Nodes[len(b.Nodes)-1]
	}
	m := func(f cfgq.Fact) bool { return match(f) || carried(g, use, f, match, 0) }
	if edgeFact0(g, b, succ, m) {
		return true
	}
	cond := cfgq.CondOf(b)
	if cond == nil || len(b.Succs) != 2 || b.Kind == cfg.KindSwitchNextCase {
		return false
	}
	if b.Succs[0].Kind == cfg.KindSwitchCaseBody { // a case test: only the single-expression case of a tagless switch is a condition
		cc, _ := b.Succs[0].Stmt.(*ast.CaseClause)
		path := core.PathTo(g.Body, cc)
		if cc == nil || len(path) < 3 {
			return false
		}
		if sw, ok := path[len(path)-3].(*ast.SwitchStmt); !ok || sw.Tag != nil || len(cc.List) != 1 {
			return false
		}
	}
	switch t := ast.Unparen(cond).(type) {
	case *ast.BinaryExpr:
		if t.Op != token.LAND && t.Op != token.LOR {
			return false
		}
	case *ast.UnaryExpr:
		if t.Op != token.NOT {
			return false
		}
	default:
		return false
	}
	return implies(g, use, cond, succ == 0, match, 0)
}

// implies: e having the value val establishes a fact accepted by match (see EdgeFact). use is the node at which
// e is evaluated (boolean locals in e stand for their definitions reaching that node).
func implies(g *cfgq.Graph, use ast.Node, e ast.Expr, val bool, match func(cfgq.Fact) bool, depth int) bool {
	if depth > 6 {
		return false
	}
	e = ast.Unparen(e)
	switch t := e.(type) {
	case *ast.UnaryExpr:
		if t.Op == token.NOT {
			return implies(g, use, t.X, !val, match, depth+1)
		}
	case *ast.BinaryExpr:
		if t.Op == token.LAND || t.Op == token.LOR {
			l, r := implies(g, use, t.X, val, match, depth+1), implies(g, use, t.Y, val, match, depth+1)
			if (t.Op == token.LAND) == val {
				return l || r
			}
			return l && r
		}
	}
	for _, f := range cfgq.Facts(e, val) {
		if match(f) || carried(g, use, f, match, depth+1) {
			return true
		}
	}
	return false
}

// carried: f is a fact about a boolean local that carries a condition computed earlier (`change := a != b`,
// a result of an inlined helper assigned at each of its returns, ...): the fact holds for the condition of
// every definition that can reach this branch, so match must accept a fact of each of them.
func carried(g *cfgq.Graph, use ast.Node, f cfgq.Fact, match func(cfgq.Fact) bool, depth int) bool {
	id, ok := ast.Unparen(f.Expr).(*ast.Ident)
	if !ok || depth > 4 || g.Info == nil || use == nil {
		return false
	}
	v, ok := Obj(g.Info, id).(*types.Var)
	if !ok || v.IsField() || !(g.Body.Pos() <= v.Pos() && v.Pos() < g.Body.End()) {
		return false
	}
	if bt, isB := v.Type().Underlying().(*types.Basic); !isB || bt.Kind() != types.Bool {
		return false
	}
	type def struct {
		p   cfgq.Point
		rhs ast.Expr
	}
	var defs []def
	opaque := false
	for _, p := range g.Points(func(ast.Node) bool { return true }) {
		switch x := p.Node().(type) {
		case *ast.AssignStmt:
			if as, r := AssignsTo(g.Info, x, v); as != nil {
				if r == nil {
					opaque = true
				}
				defs = append(defs, def{p, r})
			}
		case *ast.ValueSpec:
			for i, nm := range x.Names {
				if g.Info.Defs[nm] == types.Object(v) {
					if i < len(x.Values) {
						defs = append(defs, def{p, x.Values[i]})
					} else {
						defs = append(defs, def{p, nil}) // zero value: false
					}
				}
			}
		}
	}
	ast.Inspect(g.Body, func(n ast.Node) bool {
		if u, ok := n.(*ast.UnaryExpr); ok && u.Op == token.AND && Obj(g.Info, u.X) == types.Object(v) {
			opaque = true
		}
		return true
	})
	if opaque || len(defs) == 0 {
		return false
	}
	isDef := func(n ast.Node) bool {
		for _, d := range defs {
			if d.p.Node() == n && n != use {
				return true
			}
		}
		return false
	}
	reaching := 0
	for _, d := range defs {
		if g.Path(cfgq.Query{From: d.p, After: true, Avoid: isDef, Target: IsNode(use)}) == nil {
			continue // killed before the branch
		}
		reaching++
		if d.rhs == nil { // declared without value: false
			if f.Val {
				continue // this definition cannot take the edge
			}
			return false
		}
		if tv, ok := g.Info.Types[d.rhs]; ok && tv.Value != nil {
			if (tv.Value.String() == "true") != f.Val {
				continue
			}
			// `ok = true` / `return true` of an expanded predicate: the edge says that this definition was
			// executed, so it establishes whatever every path to the definition establishes
			if depth < 2 && g.Path(cfgq.Query{From: g.Entry(), Target: IsNode(d.p.Node()), AvoidEdge: func(b *cfg.Block, s int) bool {
				var u ast.Node
				if len(b.Nodes) > 0 {
					u = b.Nodes[len(b.Nodes)-1]
				}
				return edgeFact0(g, b, s, func(ff cfgq.Fact) bool { return match(ff) || carried(g, u, ff, match, depth+1) })
			}}) == nil {
				continue
			}
			return false
		}
		if !implies(g, d.p.Node(), d.rhs, f.Val, match, depth+1) {
			return false
		}
	}
	return reaching > 0
}

func edgeFact0(g *cfgq.Graph, b *cfg.Block, succ int, match func(cfgq.Fact) bool) bool {
	if cfgq.EdgeEstablishes(b, succ, match) {
		return true
	}
	cond := cfgq.CondOf(b)
	if cond == nil || len(b.Succs) != 2 || b.Succs[0].Kind != cfg.KindSwitchCaseBody {
		return false
	}
	cc, _ := b.Succs[0].Stmt.(*ast.CaseClause)
	if cc == nil {
		return false
	}
	path := core.PathTo(g.Body, cc)
	if len(path) < 3 {
		return false
	}
	sw, ok := path[len(path)-3].(*ast.SwitchStmt)
	if !ok {
		return false
	}
	if sw.Tag != nil { // `switch tag { case v: }`: the edge into the body means tag == v, the other one tag != v
		return match(cfgq.Fact{Expr: &ast.BinaryExpr{X: sw.Tag, Op: token.EQL, Y: cond}, Val: succ == 0})
	}
	if len(cc.List) != 1 && succ == 0 {
		return false // `case a, b:` entered through a: only a disjunction is known
	}
	for _, f := range cfgq.Facts(cond, succ == 0) {
		if match(f) {
			return true
		}
	}
	return false
}

func NilCmp(info *types.Info, f cfgq.Fact, err types.Object) (nonNil, isCmp bool) {
	be, ok := ast.Unparen(f.Expr).(*ast.BinaryExpr)
	if !ok || be.Op != token.NEQ && be.Op != token.EQL {
		return false, false
	}
	x, y := be.X, be.Y
	if core.IsNil(info, x) {
		x, y = y, x
	}
	if !core.IsNil(info, y) || Obj(info, x) != err {
		return false, false
	}
	return (be.Op == token.NEQ) == f.Val, true
}

// ErrCheck: the error result of call is bound, tested on every path, and each
// edge that establishes err != nil reaches a failure exit on every path.
func ErrCheck(c *core.Ctx, g *cfgq.Graph, info *types.Info, body ast.Node, call *ast.CallExpr, spec ErrSpec) bool {
	if spec.seen == nil {
		spec.seen = map[ast.Node]bool{}
	}
	name := "call"
	if f := CalleeF(info, call); f != nil {
		name = f.Name()
	}
	fail := func(pos token.Pos, w []string, format string, a ...interface{}) bool {
		c.Check(spec.Rule, spec.Key, pos, false, fmt.Sprintf(format, a...)+": "+spec.Consequence, w...)
		return false
	}
	path := core.PathTo(body, call)
	var outer ast.Expr = call
	var stmt ast.Stmt
	for i := len(path) - 2; i >= 0 && stmt == nil; i-- {
		switch x := path[i].(type) {
		case *ast.ParenExpr:
			outer = x
		case *ast.CallExpr: // conv(f()): the converter forwards the error
			if len(x.Args) == 1 && ast.Unparen(x.Args[0]) == ast.Unparen(outer) && LastIsError(info, x) {
				outer = x
			} else {
				c.Undecidedf(spec.Rule, spec.Key, call.Pos(), "result of %s is consumed by an enclosing call: not an enumerated idiom", name)
				return false
			}
		case ast.Stmt:
			stmt = x
		default:
			c.Undecidedf(spec.Rule, spec.Key, call.Pos(), "result of %s is used inside an expression: not an enumerated idiom", name)
			return false
		}
	}
	var errObj types.Object
	var as *ast.AssignStmt
	switch x := stmt.(type) {
	case *ast.ExprStmt:
		return fail(call.Pos(), nil, "the error returned by %s is discarded (call used as a statement)", name)
	case *ast.AssignStmt:
		if len(x.Rhs) != 1 || ast.Unparen(x.Rhs[0]) != ast.Unparen(outer) {
			c.Undecidedf(spec.Rule, spec.Key, call.Pos(), "assignment form around %s not recognised", name)
			return false
		}
		as = x
		last := x.Lhs[len(x.Lhs)-1]
		if id, ok := last.(*ast.Ident); ok && id.Name == "_" {
			if spec.BlankOK != nil {
				if why := spec.BlankOK(x); why != "" {
					c.Okf(spec.Rule, spec.Key, x.Pos(), "%s", why)
					return true
				}
			}
			return fail(x.Pos(), nil, "the error returned by %s is bound to `_`", name)
		}
		errObj = Obj(info, last)
	default:
		c.Undecidedf(spec.Rule, spec.Key, call.Pos(), "%s is called from a %T: not an enumerated idiom", name, stmt)
		return false
	}
	if errObj == nil || !cfgq.IsErrorType(errObj.Type()) {
		c.Undecidedf(spec.Rule, spec.Key, call.Pos(), "cannot identify the error variable bound from %s", name)
		return false
	}
	return errFlow(c, g, info, body, as, errObj, name, spec, 0)
}

// errFlow follows the error held by errObj from the assignment as: it must be tested on every path (directly, in a
// condition carried by a boolean local, after being forwarded through a converter `x, err = conv(reply, err)` or
// copied into another error variable), and every edge that establishes "non-nil" must end in a failure exit.
func errFlow(c *core.Ctx, g *cfgq.Graph, info *types.Info, body ast.Node, as ast.Node, errObj types.Object, name string, spec ErrSpec, depth int) bool {
	fail := func(pos token.Pos, w []string, format string, a ...interface{}) bool {
		c.Check(spec.Rule, spec.Key, pos, false, fmt.Sprintf(format, a...)+": "+spec.Consequence, w...)
		return false
	}
	ap, ok := g.Find(as)
	if !ok {
		c.Undecidedf(spec.Rule, spec.Key, as.Pos(), "call site not in the control-flow graph")
		return false
	}
	spec.seen[as] = true
	isTest := func(n ast.Node) bool {
		e, ok := n.(ast.Expr)
		if !ok {
			return false
		}
		if id, isID := ast.Unparen(e).(*ast.Ident); isID { // the comparison is carried by a boolean local
			if d := pat.DefOf(info, id); d != nil {
				e = d
			}
		}
		for _, f := range append(cfgq.Facts(e, true), cfgq.Facts(e, false)...) {
			if _, is := NilCmp(info, f, errObj); is {
				return true
			}
		}
		return false
	}
	// forwarders: `x, err = conv(reply, err)`
	var forwards []*ast.CallExpr
	isForward := func(n ast.Node) bool {
		x, ok := n.(*ast.AssignStmt)
		if !ok || ast.Node(x) == as || len(x.Rhs) != 1 {
			return false
		}
		fc, ok := ast.Unparen(x.Rhs[0]).(*ast.CallExpr)
		if !ok || !LastIsError(info, fc) || len(fc.Args) == 0 || Obj(info, fc.Args[len(fc.Args)-1]) != errObj {
			return false
		}
		if !spec.seen[x] {
			spec.seen[x] = true
			forwards = append(forwards, fc)
		}
		return true
	}
	// copies: `err2 := err`, `reply, err := r.reply, r.err`
	type copySite struct {
		as  ast.Node
		obj types.Object
	}
	var copies []copySite
	isCopy := func(n ast.Node) bool {
		if n == as {
			return false
		}
		var lhs []types.Object
		var rhs []ast.Expr
		switch x := n.(type) {
		case *ast.AssignStmt:
			if len(x.Lhs) != len(x.Rhs) {
				return false
			}
			for _, l := range x.Lhs {
				lhs = append(lhs, Obj(info, l))
			}
			rhs = x.Rhs
		case *ast.ValueSpec: // `var err2 error = err`
			if len(x.Names) != len(x.Values) {
				return false
			}
			for _, nm := range x.Names {
				lhs = append(lhs, info.Defs[nm])
			}
			rhs = x.Values
		default:
			return false
		}
		for i, r := range rhs {
			if Obj(info, r) != errObj {
				continue
			}
			lo := lhs[i]
			if lo == nil || lo == errObj || !cfgq.IsErrorType(lo.Type()) {
				continue
			}
			if !spec.seen[n] {
				spec.seen[n] = true
				copies = append(copies, copySite{n, lo})
			}
			return true
		}
		return false
	}
	// another use of the error whose effect is not followed: handed to a function, stored, returned. A comparison
	// (`err == io.EOF`) is fully understood - it is not a test against nil and it does nothing with the error.
	mentions := func(n ast.Node) bool {
		if n == as {
			return false
		}
		found := false
		var stack []ast.Node
		ast.Inspect(n, func(m ast.Node) bool {
			if m == nil {
				stack = stack[:len(stack)-1]
				return true
			}
			is := false
			switch t := m.(type) {
			case *ast.Ident:
				is = info.Uses[t] == errObj
			case *ast.SelectorExpr:
				is = info.Uses[t.Sel] == errObj
			}
			if is {
				cmp := false
				for i := len(stack) - 1; i >= 0; i-- {
					if _, isP := stack[i].(*ast.ParenExpr); isP {
						continue
					}
					if be, isB := stack[i].(*ast.BinaryExpr); isB && (be.Op == token.EQL || be.Op == token.NEQ) {
						cmp = true
					}
					break
				}
				if !cmp {
					found = true
				}
			}
			stack = append(stack, m)
			return true
		})
		return found
	}
	overwritten := func(n ast.Node) bool {
		x, _ := AssignsTo(info, n, errObj)
		return x != nil
	}
	handled := cfgq.Or(isTest, isForward, isCopy)
	untested := func(avoid func(ast.Node) bool) []string {
		return g.Path(cfgq.Query{From: ap, After: true, Avoid: avoid, TargetExit: NormalExit,
			Target: func(n ast.Node) bool { return !avoid(n) && overwritten(n) }})
	}
	if w := untested(handled); w != nil {
		if untested(cfgq.Or(handled, mentions)) == nil {
			c.Undecidedf(spec.Rule, spec.Key, as.Pos(), "the error returned by %s is used in a form that is not followed before it is tested", name)
			return false
		}
		return fail(as.Pos(), w, "the error returned by %s is not tested on some path", name)
	}
	// every edge establishing err != nil must end in a failure exit
	failure := func(n ast.Node) bool {
		if spec.Mark != nil && spec.Mark(n, errObj) {
			return true
		}
		if ret, ok := n.(*ast.ReturnStmt); ok && spec.RetOK && len(ret.Results) > 0 {
			last := ret.Results[len(ret.Results)-1]
			if tv, ok := info.Types[last]; ok && cfgq.IsErrorType(tv.Type) && !core.IsNil(info, last) {
				_, isCall := ast.Unparen(last).(*ast.CallExpr)
				return isCall || Obj(info, last) == errObj || returnsNonNil(g, info, ret, Obj(info, last))
			}
		}
		return false
	}
	tested := 0
	for _, b := range g.CFG.Blocks {
		if !b.Live || cfgq.CondOf(b) == nil || !isTest(cfgq.CondOf(b)) {
			continue
		}
		// only tests reached from this call (the variable may be reused)
		if g.Path(cfgq.Query{From: ap, After: true, Avoid: overwritten, Target: IsNode(cfgq.CondOf(b))}) == nil {
			continue
		}
		for s := range b.Succs {
			if !EdgeFact(g, b, s, func(f cfgq.Fact) bool { nn, is := NilCmp(info, f, errObj); return is && nn }) {
				continue
			}
			tested++
			// a copy of the error into another variable hands the obligation over to that variable (checked below)
			w := g.Path(cfgq.Query{From: cfgq.Point{B: b.Succs[s]}, Avoid: cfgq.Or(failure, isCopy), Target: IsNode(as), TargetExit: NormalExit})
			if w != nil {
				return fail(cfgq.CondOf(b).Pos(), w, "after %s failed (error non-nil) execution continues without a failure exit (no-return logger, error return, recorded worker error)", name)
			}
		}
	}
	if tested == 0 && len(forwards) == 0 && len(copies) == 0 {
		c.Undecidedf(spec.Rule, spec.Key, as.Pos(), "no branch establishing `err != nil` found for %s", name)
		return false
	}
	for _, fc := range forwards {
		if !ErrCheck(c, g, info, body, fc, spec) {
			return false
		}
	}
	for _, cp := range copies {
		if depth > 3 || !errFlow(c, g, info, body, cp.as, cp.obj, name, spec, depth+1) {
			return false
		}
	}
	if len(forwards) == 0 && len(copies) == 0 {
		c.Okf(spec.Rule, spec.Key, as.Pos(), "error of %s bound, tested, non-nil edge reaches a failure exit on every path", name)
	}
	return true
}

// returnsNonNil: the return statement hands back the error variable v, and every way to reach it passes an edge
// that establishes v != nil with no assignment to v afterwards: the function reports a failure there (the error
// may have travelled through copies: a result of an expanded helper, a result struct field, ...).
func returnsNonNil(g *cfgq.Graph, info *types.Info, ret *ast.ReturnStmt, v types.Object) bool {
	if v == nil || !cfgq.IsErrorType(v.Type()) {
		return false
	}
	nn := func(b *cfg.Block, s int) bool {
		return EdgeFact(g, b, s, func(f cfgq.Fact) bool { n, is := NilCmp(info, f, v); return is && n })
	}
	if g.Path(cfgq.Query{From: g.Entry(), Target: IsNode(ret), AvoidEdge: nn}) != nil {
		return false
	}
	for _, p := range g.Points(func(n ast.Node) bool { as, _ := AssignsTo(info, n, v); return as != nil }) {
		if g.Path(cfgq.Query{From: p, After: true, Target: IsNode(ret), AvoidEdge: nn}) != nil {
			return false // re-assigned after the test and returned untested
		}
	}
	return true
}

func LastIsError(info *types.Info, call *ast.CallExpr) bool {
	tv, ok := info.Types[call]
	if !ok {
		return false
	}
	if tup, ok := tv.Type.(*types.Tuple); ok {
		return tup.Len() > 0 && cfgq.IsErrorType(tup.At(tup.Len()-1).Type())
	}
	return cfgq.IsErrorType(tv.Type)
}
