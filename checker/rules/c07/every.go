// R2.every-entry: each entry a worker takes from the loader is restored exactly once unless a filter rejects it.
package c07

import (
	"go/ast"
	"go/token"
	"go/types"
	"strings"

	"golang.org/x/tools/go/cfg"

	"rscheck/cfgq"
	"rscheck/core"
)

func everyEntry(c *core.Ctx, short string, info *types.Info, g *cfgq.Graph, rs *ast.RangeStmt, head, body *cfg.Block, entry types.Object) {
	isRestore := func(n ast.Node) bool {
		for _, call := range cfgq.ExecCalls(n) {
			if isCommon(CalleeF(info, call), "RestoreRdbEntry") && len(call.Args) == 2 && Obj(info, call.Args[1]) == entry {
				return true
			}
		}
		return false
	}
	// the truth value a fact gives to a call: `f(x)`, `f(x) == true`, `f(x) != false`, ...
	callOf := func(f cfgq.Fact) (*ast.CallExpr, bool) {
		e, v := ast.Unparen(f.Expr), f.Val
		if be, ok := e.(*ast.BinaryExpr); ok && (be.Op == token.EQL || be.Op == token.NEQ) {
			x, y := be.X, be.Y
			if tv := info.Types[x]; tv.Value != nil {
				x, y = y, x
			}
			if tv := info.Types[y]; tv.Value != nil && (tv.Value.String() == "true" || tv.Value.String() == "false") {
				e, v = ast.Unparen(x), ((tv.Value.String() == "true") == (be.Op == token.EQL)) == f.Val
			}
		}
		call, _ := e.(*ast.CallExpr)
		return call, v
	}
	isFilter := func(call *ast.CallExpr) bool {
		f := CalleeF(info, call)
		return f != nil && f.Pkg() != nil && strings.HasSuffix(f.Pkg().Path(), "redis-shake/filter") && strings.HasPrefix(f.Name(), "Filter")
	}
	mentionsEntry := func(n ast.Node) bool {
		found := false
		ast.Inspect(n, func(m ast.Node) bool {
			if id, ok := m.(*ast.Ident); ok && Obj(info, id) == entry {
				found = true
			}
			return !found
		})
		return found
	}
	// an edge on which a filter said "rejected": the entry may be skipped
	rejected := func(b *cfg.Block, s int) bool {
		return EdgeFact(g, b, s, func(f cfgq.Fact) bool {
			call, v := callOf(f)
			return call != nil && v && isFilter(call)
		})
	}
	// an edge decided by a predicate over the entry that is not followed here (a helper that may wrap the filters)
	unknown := func(b *cfg.Block, s int) bool {
		cond := cfgq.CondOf(b)
		if cond == nil {
			return false
		}
		found := false
		ast.Inspect(cond, func(n ast.Node) bool {
			switch t := n.(type) {
			case *ast.CallExpr:
				if isFilter(t) {
					return true
				}
				if _, isB := core.Callee(info, t).(*types.Builtin); isB {
					return true
				}
				if tv, ok := info.Types[t.Fun]; ok && tv.IsType() {
					return true
				}
				found = found || mentionsEntry(t)
			case *ast.Ident: // a verdict carried by a boolean local that the edge facts could not resolve
				if v, isV := info.Uses[t].(*types.Var); isV && !v.IsField() && v.Pkg() != nil && v.Parent() != v.Pkg().Scope() {
					if bt, isB := v.Type().Underlying().(*types.Basic); isB && bt.Kind() == types.Bool {
						found = true
					}
				}
			}
			return !found
		})
		return found
	}
	const msg = "every entry taken from the loader's channel that no filter rejects must be handed to RestoreRdbEntry: here an iteration reaches the next entry without restoring this one, so the key is missing on the target while the run reports success"
	miss := ReachBlock2(g, cfgq.Point{B: body}, isRestore, rejected, head)
	if miss && !ReachBlock2(g, cfgq.Point{B: body}, isRestore, func(b *cfg.Block, s int) bool { return rejected(b, s) || unknown(b, s) }, head) {
		c.Undecidedf("R2.every-entry", short+"/restored", rs.Pos(), "an entry can be skipped on a branch decided by a function of the entry that is not followed")
	} else {
		c.Check("R2.every-entry", short+"/restored", rs.Pos(), !miss, msg)
	}
	// what the filters are asked about: the db filter is defined on the SOURCE database of the entry, the key filter
	// on its key. The argument is followed through conversions and locals; every value a local can hold counts.
	var classify func(e ast.Expr, field string, depth int) int // 0 the entry's field, 1 not followed, 2 something else that is fully known
	classify = func(e ast.Expr, field string, depth int) int {
		e = Strip(info, e)
		if sel, ok := e.(*ast.SelectorExpr); ok {
			if core.IsFieldNamed(info, sel, "BinEntry", field) && Obj(info, sel.X) == entry {
				return 0
			}
			if d := LitField(info, sel); d != nil && depth < 4 {
				return classify(d, field, depth+1)
			}
			if _, isVar := core.ObjOf(info, sel).(*types.Var); isVar {
				return 2 // another field / an option: not the entry's
			}
			return 1
		}
		if tv, ok := info.Types[e]; ok && tv.Value != nil {
			return 2
		}
		id, ok := e.(*ast.Ident)
		if !ok || depth >= 4 {
			return 1
		}
		v, ok := info.Uses[id].(*types.Var)
		if !ok || v.IsField() || v.Pkg() == nil || v.Parent() == v.Pkg().Scope() {
			return 1
		}
		worst, ndef := 0, 0
		core.InspectAll(g.Body, func(n ast.Node) bool {
			switch t := n.(type) {
			case *ast.AssignStmt:
				for i, l := range t.Lhs {
					if lid, isID := ast.Unparen(l).(*ast.Ident); isID && (info.Defs[lid] == types.Object(v) || info.Uses[lid] == types.Object(v)) {
						ndef++
						r := core.AssignedTo(t, i)
						c := 1
						if r != nil && (t.Tok == token.ASSIGN || t.Tok == token.DEFINE) {
							c = classify(r, field, depth+1)
						}
						if c > worst {
							worst = c
						}
					}
				}
			case *ast.ValueSpec:
				for i, nm := range t.Names {
					if info.Defs[nm] == types.Object(v) {
						ndef++
						c := 1
						if i < len(t.Values) {
							c = classify(t.Values[i], field, depth+1)
						}
						if c > worst {
							worst = c
						}
					}
				}
			case *ast.UnaryExpr:
				if t.Op == token.AND && Obj(info, t.X) == types.Object(v) {
					if worst < 1 {
						worst = 1
					}
				}
			}
			return true
		})
		if ndef == 0 {
			return 1 // a parameter, a range variable of another loop: not followed
		}
		return worst
	}
	for _, spec := range []struct{ fn, field, what string }{
		{"FilterDB", "DB", "the database filter (filter.db.whitelist / blacklist) is defined on the source database of the entry"},
		{"FilterKey", "Key", "the key filter is defined on the key of the entry"},
	} {
		worst, n := 0, 0
		var at ast.Node
		core.Inspect(rs.Body, func(m ast.Node) bool {
			call, ok := m.(*ast.CallExpr)
			if !ok || !isFilter(call) || CalleeF(info, call).Name() != spec.fn || len(call.Args) != 1 {
				return true
			}
			n++
			if c := classify(call.Args[0], spec.field, 0); c >= worst {
				worst, at = c, call
			}
			return true
		})
		if n == 0 {
			continue // applied in a helper or not at all: R2.every-entry/restored speaks about the skipping edges
		}
		key := short + "/" + spec.fn
		switch worst {
		case 0:
			c.Okf("R2.filter-arg", key, at.Pos(), "%s is asked about the entry's %s", spec.fn, spec.field)
		case 1:
			c.Undecidedf("R2.filter-arg", key, at.Pos(), "the argument of `%s` is not followed back to the entry", c.Src(at))
		default:
			c.Failf("R2.filter-arg", key, at.Pos(), "%s: `%s` asks it about a value that is not (or not on every path) the entry's %s - e.g. the fixed target database - so entries are dropped or let through by the wrong criterion while the run reports success", spec.what, c.Src(at), spec.field)
		}
	}
	var w []string
	for _, p := range g.Points(isRestore) {
		if w == nil {
			w = g.Path(cfgq.Query{From: p, After: true, Target: isRestore, AvoidEdge: func(b *cfg.Block, s int) bool { return b.Succs[s] == head }})
		}
	}
	c.Check("R2.every-entry", short+"/once", rs.Pos(), w == nil, "an entry is handed to RestoreRdbEntry twice in one iteration: the key is written twice (BUSYKEY under key_exists=none, duplicated list elements for lists restored element by element)", w...)
}
