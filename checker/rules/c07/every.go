// R2.every-entry: each entry a worker takes from the loader is restored exactly once unless a filter rejects it.
package c07

import (
	"go/ast"
	"go/token"
	"go/types"
	"strings"

	"golang.org/x/tools/go/cfg"

	"rscheck/cfgq"
	"rscheck/core"
)

func everyEntry(c *core.Ctx, short string, info *types.Info, g *cfgq.Graph, rs *ast.RangeStmt, head, body *cfg.Block, entry types.Object) {
	isRestore := func(n ast.Node) bool {
		for _, call := range cfgq.ExecCalls(n) {
			if isCommon(CalleeF(info, call), "RestoreRdbEntry") && len(call.Args) == 2 && Obj(info, call.Args[1]) == entry {
				return true
			}
		}
		return false
	}
	// the truth value a fact gives to a call: `f(x)`, `f(x) == true`, `f(x) != false`, ...
	callOf := func(f cfgq.Fact) (*ast.CallExpr, bool) {
		e, v := ast.Unparen(f.Expr), f.Val
		if be, ok := e.(*ast.BinaryExpr); ok && (be.Op == token.EQL || be.Op == token.NEQ) {
			x, y := be.X, be.Y
			if tv := info.Types[x]; tv.Value != nil {
				x, y = y, x
			}
			if tv := info.Types[y]; tv.Value != nil && (tv.Value.String() == "true" || tv.Value.String() == "false") {
				e, v = ast.Unparen(x), ((tv.Value.String() == "true") == (be.Op == token.EQL)) == f.Val
			}
		}
		call, _ := e.(*ast.CallExpr)
		return call, v
	}
	isFilter := func(call *ast.CallExpr) bool {
		f := CalleeF(info, call)
		return f != nil && f.Pkg() != nil && strings.HasSuffix(f.Pkg().Path(), "redis-shake/filter") && strings.HasPrefix(f.Name(), "Filter")
	}
	mentionsEntry := func(n ast.Node) bool {
		found := false
		ast.Inspect(n, func(m ast.Node) bool {
			if id, ok := m.(*ast.Ident); ok && Obj(info, id) == entry {
				found = true
			}
			return !found
		})
		return found
	}
	// an edge on which a filter said "rejected": the entry may be skipped
	rejected := func(b *cfg.Block, s int) bool {
		return EdgeFact(g, b, s, func(f cfgq.Fact) bool {
			call, v := callOf(f)
			return call != nil && v && isFilter(call)
		})
	}
	// an edge decided by a predicate over the entry that is not followed here (a helper that may wrap the filters)
	unknown := func(b *cfg.Block, s int) bool {
		cond := cfgq.CondOf(b)
		if cond == nil {
			return false
		}
		found := false
		ast.Inspect(cond, func(n ast.Node) bool {
			switch t := n.(type) {
			case *ast.CallExpr:
				if isFilter(t) {
					return true
				}
				if _, isB := core.Callee(info, t).(*types.Builtin); isB {
					return true
				}
				if tv, ok := info.Types[t.Fun]; ok && tv.IsType() {
					return true
				}
				found = found || mentionsEntry(t)
			case *ast.Ident: // a verdict carried by a boolean local that the edge facts could not resolve
				if v, isV := info.Uses[t].(*types.Var); isV && !v.IsField() && v.Pkg() != nil && v.Parent() != v.Pkg().Scope() {
					if bt, isB := v.Type().Underlying().(*types.Basic); isB && bt.Kind() == types.Bool {
						found = true
					}
				}
			}
			return !found
		})
		return found
	}
	const msg = "every entry taken from the loader's channel that no filter rejects must be handed to RestoreRdbEntry: here an iteration reaches the next entry without restoring this one, so the key is missing on the target while the run reports success"
	miss := ReachBlock2(g, cfgq.Point{B: body}, isRestore, rejected, head)
	if miss && !ReachBlock2(g, cfgq.Point{B: body}, isRestore, func(b *cfg.Block, s int) bool { return rejected(b, s) || unknown(b, s) }, head) {
		c.Undecidedf("R2.every-entry", short+"/restored", rs.Pos(), "an entry can be skipped on a branch decided by a function of the entry that is not followed")
	} else {
		c.Check("R2.every-entry", short+"/restored", rs.Pos(), !miss, msg)
	}
	var w []string
	for _, p := range g.Points(isRestore) {
		if w == nil {
			w = g.Path(cfgq.Query{From: p, After: true, Target: isRestore, AvoidEdge: func(b *cfg.Block, s int) bool { return b.Succs[s] == head }})
		}
	}
	c.Check("R2.every-entry", short+"/once", rs.Pos(), w == nil, "an entry is handed to RestoreRdbEntry twice in one iteration: the key is written twice (BUSYKEY under key_exists=none, duplicated list elements for lists restored element by element)", w...)
}
