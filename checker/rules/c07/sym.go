// Symbolic per-entry execution of the SELECT tracking of a C07 worker (rule family R2).
//
// The property needs one fact per entry: when RestoreRdbEntry runs, the worker's connection has selected the
// wanted database W (TargetDB when TargetDB != -1, the entry's DB otherwise), given that at the start of the
// iteration the connection is on the database recorded in the loop-carried tracker; and at the end of the
// iteration the tracker again records the database the connection is on. Instead of matching the statements that
// usually establish this, every path through one iteration of the entry loop is executed over a tiny symbolic
// domain: T0 (tracker at the start), E (entry's DB), G (TargetDB), integer constants, the worker's connection;
// branch conditions are evaluated over the atoms `G != -1`, `T0 == G`, `T0 == E` (forking on the ones a condition
// needs); locals, copies, tuple assignments, booleans that carry a comparison, guard clauses, switch forms and
// code expanded from helpers are all just assignments and branches to it. Nothing is executed: it is a bounded
// enumeration of control-flow paths with a symbolic store.
package c07

import (
	"fmt"
	"go/ast"
	"go/token"
	"go/types"
	"sort"
	"strings"

	"golang.org/x/tools/go/cfg"

	"rscheck/cfgq"
	"rscheck/core"
)

type symKind int

const (
	symUnknown symKind = iota
	symT0              // value of an outer variable at the start of the iteration (key: object)
	symE               // entry's DB
	symG               // TargetDB
	symConst
	symConn // a connection variable declared outside the iteration
	symBool // a boolean formula captured with its environment
)

type sym struct {
	k   symKind
	obj types.Object
	n   int64
	f   ast.Expr // symBool: the formula
	env *symState
}

func (a sym) same(b sym) bool {
	return a.k == b.k && a.k != symUnknown && a.k != symBool && a.obj == b.obj && a.n == b.n
}

func (a sym) String() string {
	switch a.k {
	case symT0:
		return "tracker(" + a.obj.Name() + ")@start"
	case symE:
		return "entry.DB"
	case symG:
		return "TargetDB"
	case symConst:
		return fmt.Sprint(a.n)
	case symConn:
		return "conn(" + a.obj.Name() + ")"
	}
	return "?"
}

type symState struct {
	vals  map[types.Object]sym
	pc    map[string]bool // decided atoms
	sel   sym             // database the worker's connection is on
	trace []string
}

func (s *symState) clone() *symState {
	n := &symState{vals: map[types.Object]sym{}, pc: map[string]bool{}, sel: s.sel, trace: append([]string(nil), s.trace...)}
	for k, v := range s.vals {
		n.vals[k] = v
	}
	for k, v := range s.pc {
		n.pc[k] = v
	}
	return n
}

type symExec struct {
	c        *core.Ctx
	info     *types.Info
	g        *cfgq.Graph
	region   ast.Node // the loop body
	head     *cfg.Block
	entry    types.Object
	conn     types.Object
	trackers map[types.Object]bool
	paths    int
	unknown  string // reason for giving up precision
	// findings (first witness each)
	reachBad map[ast.Node][]string
	reachOK  map[ast.Node]bool
	syncBad  []string
	connBad  []string
	srcBad   []string
	iterEnds int
	selects  int
}

const symMaxPaths = 4000

func atomKey(a, b sym) string {
	x, y := a.String(), b.String()
	if x > y {
		x, y = y, x
	}
	return x + "==" + y
}

// eval computes the symbolic value of an integer / connection expression.
func (x *symExec) eval(e ast.Expr, st *symState) sym {
	e = Strip(x.info, e)
	if tv, ok := x.info.Types[e]; ok && tv.Value != nil {
		if v, isInt := core.IntConst(x.info, e); isInt {
			return sym{k: symConst, n: v}
		}
	}
	switch v := e.(type) {
	case *ast.Ident:
		o := core.ObjOf(x.info, v)
		if o == nil {
			return sym{}
		}
		if s, ok := st.vals[o]; ok {
			return s
		}
		vr, isVar := o.(*types.Var)
		if !isVar || vr.IsField() {
			return sym{}
		}
		if within(o, x.region) {
			return sym{} // declared in the iteration, read before any assignment we understood
		}
		if o == x.conn || RootObj(x.info, v) == x.conn { // the connection, or a stable copy of it
			return sym{k: symConn, obj: x.conn}
		}
		if b, ok := vr.Type().Underlying().(*types.Basic); ok && b.Info()&types.IsInteger != 0 {
			return sym{k: symT0, obj: o}
		}
		if types.IsInterface(vr.Type()) {
			return sym{k: symConn, obj: o}
		}
	case *ast.SelectorExpr:
		if d := LitField(x.info, v); d != nil { // a field of a context struct that only carries the value
			return x.eval(d, st)
		}
		if core.IsFieldNamed(x.info, v, "Configuration", "TargetDB") {
			return sym{k: symG}
		}
		if core.IsFieldNamed(x.info, v, "BinEntry", "DB") && x.isEntry(v.X, st) {
			return sym{k: symE}
		}
		if o := Slot(x.info, v); slotRoot[o] != nil { // state held in a field of a struct local
			if s, ok := st.vals[o]; ok {
				return s
			}
			if within(o, x.region) {
				return sym{}
			}
			if b, ok := o.Type().Underlying().(*types.Basic); ok && b.Info()&types.IsInteger != 0 {
				return sym{k: symT0, obj: o}
			}
		}
	}
	return sym{}
}

// isEntry: e denotes the entry taken from the channel (the range variable or a copy of it).
func (x *symExec) isEntry(e ast.Expr, st *symState) bool {
	o := core.ObjOf(x.info, ast.Unparen(e))
	if o == nil {
		return false
	}
	if o == x.entry {
		return true
	}
	s, ok := st.vals[o]
	return ok && s.k == symConn && s.obj == x.entry // copies of the entry pointer are tracked like connections
}

// truth evaluates a boolean expression: 1 true, 0 false, -1 not decided. need collects undecided relevant atoms.
func (x *symExec) truth(e ast.Expr, st *symState, need map[string]bool) int {
	e = ast.Unparen(e)
	if tv, ok := x.info.Types[e]; ok && tv.Value != nil {
		if tv.Value.String() == "true" {
			return 1
		}
		if tv.Value.String() == "false" {
			return 0
		}
	}
	switch v := e.(type) {
	case *ast.Ident:
		if o := core.ObjOf(x.info, v); o != nil {
			if s, ok := st.vals[o]; ok && s.k == symBool {
				env := s.env.clone()
				env.pc = st.pc
				return x.truth(s.f, env, need)
			}
		}
	case *ast.UnaryExpr:
		if v.Op == token.NOT {
			if t := x.truth(v.X, st, need); t >= 0 {
				return 1 - t
			}
			return -1
		}
	case *ast.BinaryExpr:
		switch v.Op {
		case token.LAND, token.LOR:
			a, b := x.truth(v.X, st, need), x.truth(v.Y, st, need)
			abs := 0
			if v.Op == token.LOR {
				abs = 1
			}
			switch {
			case a == abs || b == abs:
				return abs
			case a == 1-abs && b == 1-abs:
				return 1 - abs
			}
			return -1
		case token.EQL, token.NEQ:
			a, b := x.eval(v.X, st), x.eval(v.Y, st)
			if a.k == symUnknown || b.k == symUnknown || a.k == symBool || b.k == symBool || a.k == symConn || b.k == symConn {
				return -1
			}
			eq := -1
			switch {
			case a.same(b):
				eq = 1
			case a.k == symConst && b.k == symConst:
				eq = 0
			default:
				key := atomKey(a, b)
				if val, ok := st.pc[key]; ok {
					if val {
						eq = 1
					} else {
						eq = 0
					}
				} else if need != nil {
					need[key] = true
				}
			}
			if eq < 0 {
				return -1
			}
			if v.Op == token.NEQ {
				return 1 - eq
			}
			return eq
		}
	}
	return -1
}

// assign executes `lhs = rhs` for one position.
func (x *symExec) assign(lhs, rhs ast.Expr, st *symState, pre *symState) {
	var o types.Object
	switch l := Strip(x.info, lhs).(type) { // `*p = v` with p := &x (or *&x after expansion) assigns x
	case *ast.Ident:
		if l.Name == "_" {
			return
		}
		o = core.ObjOf(x.info, l)
	case *ast.SelectorExpr:
		if o = Slot(x.info, l); slotRoot[o] == nil {
			return
		}
	}
	if o == nil {
		return
	}
	if rhs == nil {
		st.vals[o] = sym{}
		return
	}
	if tv, ok := x.info.Types[rhs]; ok {
		if b, isB := tv.Type.Underlying().(*types.Basic); isB && b.Kind() == types.Bool || tv.Type == types.Typ[types.UntypedBool] {
			st.vals[o] = sym{k: symBool, f: rhs, env: pre.clone()}
			return
		}
	}
	if x.isEntry(rhs, pre) {
		st.vals[o] = sym{k: symConn, obj: x.entry}
		return
	}
	st.vals[o] = x.eval(rhs, pre)
}

func (x *symExec) where(n ast.Node) string {
	return fmt.Sprintf("L%d: %s", x.c.Fset.Position(n.Pos()).Line, core.NodeString(x.c.Fset, n))
}

// step executes one cfg node. It returns false when the path ends here (restore reached is not an end).
func (x *symExec) step(n ast.Node, st *symState) {
	switch s := n.(type) {
	case *ast.AssignStmt:
		pre := st.clone()
		if len(s.Lhs) == len(s.Rhs) {
			for i := range s.Lhs {
				x.assign(s.Lhs[i], s.Rhs[i], st, pre)
			}
			st.trace = append(st.trace, x.where(n))
		} else {
			for _, l := range s.Lhs {
				x.assign(l, nil, st, pre)
			}
		}
	case *ast.ValueSpec:
		pre := st.clone()
		for i, nm := range s.Names {
			if i < len(s.Values) {
				x.assign(nm, s.Values[i], st, pre)
			} else if o := x.info.Defs[nm]; o != nil {
				if b, ok := o.Type().Underlying().(*types.Basic); ok && b.Info()&types.IsInteger != 0 {
					st.vals[o] = sym{k: symConst, n: 0}
				} else if ok && b.Kind() == types.Bool {
					st.vals[o] = sym{k: symBool, f: ast.NewIdent("false"), env: pre}
				} else {
					st.vals[o] = sym{}
				}
			}
		}
	case *ast.IncDecStmt:
		if o := core.ObjOf(x.info, s.X); o != nil {
			st.vals[o] = sym{}
		}
	}
	for _, call := range cfgq.ExecCalls(n) {
		f := CalleeF(x.info, call)
		switch {
		case isCommon(f, "SelectDB") && len(call.Args) == 2:
			x.selects++
			cn := x.eval(call.Args[0], st)
			if !(cn.k == symConn && cn.obj == x.conn) && x.connBad == nil {
				x.connBad = append(append([]string{}, st.trace...), x.where(n))
			}
			v := x.eval(call.Args[1], st)
			if v.k != symE && v.k != symG && x.srcBad == nil {
				x.srcBad = append(append([]string{}, st.trace...), x.where(n)+"   selects "+v.String())
			}
			st.sel = v
			st.trace = append(st.trace, x.where(n)+"   [connection now on "+v.String()+"]")
		case isCommon(f, "RestoreRdbEntry") && len(call.Args) == 2:
			cn := x.eval(call.Args[0], st)
			if !(cn.k == symConn && cn.obj == x.conn) || !x.isEntry(call.Args[1], st) {
				if x.connBad == nil {
					x.connBad = append(append([]string{}, st.trace...), x.where(n))
				}
			}
			x.restore(call, n, st)
		default:
			// a call that is handed the address of a tracked variable may change it
			for _, a := range call.Args {
				if u, ok := ast.Unparen(a).(*ast.UnaryExpr); ok && u.Op == token.AND {
					if o := core.ObjOf(x.info, u.X); o != nil {
						if _, tracked := st.vals[o]; tracked || x.trackers[o] {
							st.vals[o] = sym{}
						}
					}
				}
			}
		}
	}
}

// wanted returns the wanted database under the path condition, forking when the configuration is undecided.
func (x *symExec) configs(st *symState) []*symState {
	key := atomKey(sym{k: symG}, sym{k: symConst, n: -1})
	if _, ok := st.pc[key]; ok {
		return []*symState{st}
	}
	a, b := st.clone(), st.clone()
	a.pc[key], b.pc[key] = true, false
	return []*symState{a, b}
}

func (x *symExec) onWanted(v sym, st *symState) (ok bool, w sym) {
	w = sym{k: symE}
	if !st.pc[atomKey(sym{k: symG}, sym{k: symConst, n: -1})] { // G == -1 is false: a target db is configured
		w = sym{k: symG}
	}
	if v.same(w) {
		return true, w
	}
	if v.k == symUnknown {
		return false, w
	}
	return st.pc[atomKey(v, w)], w
}

func (x *symExec) restore(call *ast.CallExpr, n ast.Node, st *symState) {
	for _, cs := range x.configs(st) {
		ok, w := x.onWanted(cs.sel, cs)
		if ok {
			x.reachOK[call] = true
			continue
		}
		if x.reachBad[call] == nil {
			cfgName := "target.db not configured"
			if w.k == symG {
				cfgName = "target.db configured"
			}
			x.reachBad[call] = append(append([]string{"with " + cfgName + " the entry must go to " + w.String() + ", but the connection is on " + cs.sel.String() + " (nothing on this path says they are equal):"}, st.trace...), x.where(n))
		}
	}
}

// iterEnd: the tracker must record the database the connection is on.
func (x *symExec) iterEnd(st *symState) {
	x.iterEnds++
	for t := range x.trackers {
		v, ok := st.vals[t]
		if !ok {
			v = sym{k: symT0, obj: t}
		}
		if v.same(st.sel) {
			continue
		}
		if v.k != symUnknown && st.sel.k != symUnknown && st.pc[atomKey(v, st.sel)] {
			continue
		}
		if x.syncBad == nil {
			x.syncBad = append([]string{"at the end of this iteration the tracker " + t.Name() + " holds " + v.String() + " while the connection is on " + st.sel.String() + ":"}, st.trace...)
		}
	}
}

// run explores the iteration starting at block b, node index i.
func (x *symExec) run(b *cfg.Block, i int, st *symState, onPath map[*cfg.Block]bool) {
	if x.paths > symMaxPaths {
		x.unknown = "too many paths through one iteration"
		return
	}
	for ; i < len(b.Nodes); i++ {
		x.step(b.Nodes[i], st)
	}
	if len(b.Succs) == 0 {
		x.paths++
		return // return / abort: the worker ends, nothing more to restore
	}
	type next struct {
		t  *cfg.Block
		st *symState
	}
	var outs []next
	cond := cfgq.CondOf(b)
	if cond != nil && len(b.Succs) == 2 {
		expr := cond
		if b.Succs[0].Kind == cfg.KindSwitchCaseBody { // tagged switch: tag == label
			if path := core.PathTo(x.g.Body, b.Succs[0].Stmt); len(path) >= 3 {
				if sw, ok := path[len(path)-3].(*ast.SwitchStmt); ok && sw.Tag != nil {
					expr = &ast.BinaryExpr{X: sw.Tag, Op: token.EQL, Y: cond}
				}
			}
		}
		need := map[string]bool{}
		x.truth(expr, st, need)
		var keys []string
		for k := range need {
			keys = append(keys, k)
		}
		sort.Strings(keys)
		if len(keys) > 4 {
			keys = keys[:4]
		}
		for mask := 0; mask < 1<<len(keys); mask++ {
			s2 := st
			if len(keys) > 0 {
				s2 = st.clone()
				for j, k := range keys {
					s2.pc[k] = mask&(1<<j) != 0
				}
			}
			t := x.truth(expr, s2, nil)
			if t != 0 {
				outs = append(outs, next{b.Succs[0], s2})
			}
			if t != 1 {
				outs = append(outs, next{b.Succs[1], s2})
			}
		}
	} else {
		for _, t := range b.Succs {
			outs = append(outs, next{t, st})
		}
	}
	for k, o := range outs {
		s2 := o.st
		if k < len(outs)-1 || true {
			s2 = o.st.clone()
		}
		if o.t == x.head {
			x.paths++
			x.iterEnd(s2)
			continue
		}
		if onPath[o.t] {
			x.unknown = "a loop inside the iteration is not followed"
			continue
		}
		if !Within(blockNode(o.t, x.region), x.region) && len(o.t.Nodes) > 0 && !Within(o.t.Nodes[0], x.region) {
			// left the loop body (break / the code after the loop): the iteration is over without a restore
			x.paths++
			continue
		}
		onPath[o.t] = true
		x.run(o.t, 0, s2, onPath)
		delete(onPath, o.t)
	}
}

func blockNode(b *cfg.Block, dflt ast.Node) ast.Node {
	if len(b.Nodes) > 0 {
		return b.Nodes[0]
	}
	return dflt
}

// selectTracking checks R1.private (tracker), R2.* for one worker literal by symbolic execution of one iteration.
func selectTracking(c *core.Ctx, fn *core.Fn, short string, w *ast.FuncLit, rs *ast.RangeStmt, g *cfgq.Graph, conn, entry types.Object, restores []*ast.CallExpr, parallel bool) {
	info := fn.Pkg.TypesInfo
	head, bodyBlk := RangeBlocks(g, rs)
	// trackers: integer locals declared outside the loop body and assigned inside it
	trackers := map[types.Object]bool{}
	inner := map[types.Object]bool{} // integer locals of the body compared with a source: a tracker that does not survive the iteration
	core.Inspect(rs.Body, func(n ast.Node) bool {
		var lhs []ast.Expr
		switch s := n.(type) {
		case *ast.AssignStmt:
			lhs = s.Lhs
		case *ast.IncDecStmt:
			lhs = []ast.Expr{s.X}
		}
		for _, l := range lhs {
			l = Strip(info, l)
			if v, ok := Slot(info, l).(*types.Var); ok && !v.IsField() && v.Pkg() != nil && v.Parent() != v.Pkg().Scope() && !within(v, rs.Body) && within(v, fn.Decl) {
				if b, ok := v.Type().Underlying().(*types.Basic); ok && b.Info()&types.IsInteger != 0 {
					trackers[v] = true
				}
			}
		}
		return true
	})
	x := &symExec{c: c, info: info, g: g, region: rs.Body, head: head, entry: entry, conn: conn, trackers: trackers,
		reachBad: map[ast.Node][]string{}, reachOK: map[ast.Node]bool{}}
	st := &symState{vals: map[types.Object]sym{}, pc: map[string]bool{}}
	var tracker types.Object
	for t := range trackers {
		tracker = t
	}
	switch len(trackers) {
	case 0:
		st.sel = sym{} // nothing carries the selected database over: it must be selected in every iteration
	case 1:
		st.sel = sym{k: symT0, obj: tracker} // invariant: the connection is on the database the tracker records
	default:
		c.Undecidedf("R2.pair", short, rs.Pos(), "%d integer variables are carried across iterations; cannot tell which one tracks the selected database", len(trackers))
		return
	}
	x.run(bodyBlk, 0, st, map[*cfg.Block]bool{bodyBlk: true})
	// a tracker candidate that lives inside the loop body (re-declared per entry)
	core.Inspect(rs.Body, func(n ast.Node) bool {
		if be, ok := n.(*ast.BinaryExpr); ok && (be.Op == token.EQL || be.Op == token.NEQ) {
			for _, pr := range [][2]ast.Expr{{be.X, be.Y}, {be.Y, be.X}} {
				if v, ok := core.ObjOf(info, Strip(info, pr[0])).(*types.Var); ok && !v.IsField() && within(v, rs.Body) && (isTargetDB(info, pr[1]) || isEntryDB(info, pr[1], entry)) {
					if def, isConst := initConst(info, rs.Body, v); isConst && def == 0 || !isConst {
						_ = def
					}
					if _, isC := initConst(info, rs.Body, v); isC {
						inner[v] = true
					}
				}
			}
		}
		return true
	})
	const shared = "the selected-db tracker must be declared inside the worker literal and outside the entry loop. Shared: worker A selects db 1 and records it, worker B (connection still on db 0) then finds tracker == 1 for its db-1 entry, skips SELECT and restores the key into db 0. " +
		"Re-declared per entry: after a db-1 entry the connection stays on db 1, the next db-0 entry compares with the fresh 0 and is restored into db 1"
	anyBad := len(x.reachBad) > 0
	switch {
	case tracker != nil:
		c.Check("R1.private", short+"/lastdb", tracker.Pos(), !parallel || within(tracker, w), shared)
		if v, ok := slotInit(info, fn.Decl.Body, tracker); !ok {
			c.Undecidedf("R2.init", short, tracker.Pos(), "initial value of the tracker is not a constant")
		} else {
			c.Check("R2.init", short, tracker.Pos(), v == 0,
				fmt.Sprintf("the tracker must start at 0, the database of a fresh connection; it starts at %d, so the first entries of db %d are restored into db 0 without SELECT", v, v))
		}
	case len(inner) > 0 && anyBad:
		for v := range inner {
			c.Check("R1.private", short+"/lastdb", v.Pos(), false, shared)
		}
	case !anyBad && x.unknown == "":
		c.Okf("R1.private", short+"/lastdb", rs.Pos(), "no selected-db state is carried across entries: the database is selected for every entry")
		c.Okf("R2.init", short, rs.Pos(), "no tracker")
	default:
		c.Undecidedf("R1.private", short+"/lastdb", rs.Pos(), "no variable that tracks the selected database across entries was identified")
	}
	verdict := func(rule, key string, pos token.Pos, w []string, detail string) {
		switch {
		case w == nil && x.unknown == "":
			c.Okf(rule, key, pos, "%s", detail)
		case w == nil:
			c.Undecidedf(rule, key, pos, "not fully explored (%s): %s", x.unknown, detail)
		case x.unknown != "":
			c.Undecidedf(rule, key, pos, "%s; but %s", strings.Join(w[:1], ""), x.unknown)
		default:
			c.Check(rule, key, pos, false, detail, w...)
		}
	}
	for _, call := range restores {
		wpath := x.reachBad[call]
		if wpath == nil && !x.reachOK[call] && x.unknown == "" {
			c.Undecidedf("R2.reach", short+"/RestoreRdbEntry", call.Pos(), "the restore call was not reached by the exploration of one iteration")
			continue
		}
		verdict("R2.reach", short+"/RestoreRdbEntry", call.Pos(), wpath,
			"the restore call is reachable in an iteration without SelectDB and without having found the tracker equal to the wanted database: the entry is restored into whatever database the connection was left on")
	}
	verdict("R2.pair", short+"/in-sync", rs.Pos(), x.syncBad,
		"at the end of an iteration the tracker does not record the database the connection is on (a SELECT without recording it, a record without SELECT, or different values): later entries skip SELECT while the connection is on another database and are restored there")
	verdict("R2.conn", short+"/own-connection", rs.Pos(), x.connBad, "SelectDB and RestoreRdbEntry must act on the worker's own connection and on the entry taken from the channel")
	if x.srcBad != nil && x.unknown == "" && len(x.reachBad) == 0 {
		c.Undecidedf("R2.source", short+"/select", rs.Pos(), "a SelectDB argument is neither TargetDB nor the entry's DB: %s", x.srcBad[len(x.srcBad)-1])
	} else {
		c.Okf("R2.source", short+"/select", rs.Pos(), "%d SelectDB site(s) executed symbolically on %d path(s)", x.selects, x.paths)
	}
}

// slotInit is initConst for a variable or a field slot: a field starts with what the literal that defines its
// root gives it (0 when the literal does not mention it, or when the root is declared without a value).
func slotInit(info *types.Info, body ast.Node, v types.Object) (int64, bool) {
	root := slotRoot[v]
	if root == nil {
		return initConst(info, body, v)
	}
	d, has := initVal[root]
	if !has {
		return 0, true // `var w T`
	}
	d = ast.Unparen(d)
	if u, isAddr := d.(*ast.UnaryExpr); isAddr && u.Op == token.AND {
		d = ast.Unparen(u.X)
	}
	cl, ok := d.(*ast.CompositeLit)
	if !ok {
		return 0, false
	}
	for _, el := range cl.Elts {
		kv, isKV := el.(*ast.KeyValueExpr)
		if !isKV {
			return 0, false // positional literal: not read
		}
		if k, isID := kv.Key.(*ast.Ident); isID && k.Name == slotField[v] {
			return core.IntConst(info, kv.Value)
		}
	}
	return 0, true
}
