// R7: the key_exists policy inside RestoreRdbEntry, once the target key is known to exist.
package c07

import (
	"go/ast"
	"go/token"
	"go/types"
	"strings"

	"golang.org/x/tools/go/cfg"

	"rscheck/cfgq"
	"rscheck/core"
)

// policyFact: f compares the key_exists option with a string constant; it returns that constant and whether the
// fact says "equal".
func policyFact(info *types.Info, f cfgq.Fact) (policy string, equal, ok bool) {
	be, isB := ast.Unparen(f.Expr).(*ast.BinaryExpr)
	if !isB || be.Op != token.EQL && be.Op != token.NEQ {
		return "", false, false
	}
	x, y := be.X, be.Y
	if _, isC := core.StringConst(info, x); isC {
		x, y = y, x
	}
	s, isC := core.StringConst(info, y)
	if !isC || !core.IsFieldNamed(info, Through(info, x), "Configuration", "KeyExists") {
		return "", false, false
	}
	return s, (be.Op == token.EQL) == f.Val, true
}

// KeyExistsRules: every branch of RestoreRdbEntry that is taken under key_exists=ignore / none is taken because the
// key already exists on the target (EXISTS answered true, or RESTORE answered BUSYKEY). From there
//   - ignore: no further command may be issued on the target connection for this entry (the existing key is left
//     alone), and
//   - none: nothing is written either and the function does not report success.
//
// The branches are found through the facts their edges establish (if, tagged or tagless switch, carried booleans),
// the commands through the connection parameter (a method call on it, or a call that is handed it).
func KeyExistsRules(c *core.Ctx) {
	fn := c.FuncOpt(pkgCommon, "", "RestoreRdbEntry")
	if fn == nil || fn.Decl.Body == nil {
		return
	}
	info := fn.Pkg.TypesInfo
	var conn types.Object
	for _, f := range fn.Decl.Type.Params.List {
		for _, nm := range f.Names {
			if conn == nil && core.NamedTypeName(info.TypeOf(f.Type)) == "Conn" {
				conn = info.Defs[nm]
			}
		}
	}
	if conn == nil {
		c.Undecidedf("R7.key-exists", "RestoreRdbEntry", fn.Decl.Pos(), "no connection parameter found")
		return
	}
	type verdict struct {
		n        int
		w        []string
		deferred string // the policy is consulted in this helper and the helper returns normally afterwards
	}
	res := map[string]*verdict{"ignore": {}, "none": {}}
	seen := map[*core.Fn]bool{}
	var analyse func(fn *core.Fn, conn types.Object, depth int)
	analyse = func(fn *core.Fn, conn types.Object, depth int) {
		if seen[fn] || depth > 2 {
			return
		}
		seen[fn] = true
		g := cfgq.Of(c.Program, fn)
		issues := func(n ast.Node) bool {
			for _, call := range cfgq.ExecCalls(n) {
				if sel, ok := ast.Unparen(call.Fun).(*ast.SelectorExpr); ok && Obj(info, sel.X) == conn {
					return true
				}
				for _, a := range call.Args {
					if Obj(info, Strip(info, a)) == conn {
						return true
					}
				}
			}
			return false
		}
		success := func(n ast.Node) bool {
			ret, ok := n.(*ast.ReturnStmt)
			return ok && len(ret.Results) > 0 && core.IsNil(info, ret.Results[len(ret.Results)-1])
		}
		// edges contradicting the policy under consideration are not followed
		other := func(policy string) func(*cfg.Block, int) bool {
			return func(b *cfg.Block, s int) bool {
				return EdgeFact(g, b, s, func(f cfgq.Fact) bool {
					p, eq, ok := policyFact(info, f)
					return ok && (p == policy && !eq || p != policy && eq)
				})
			}
		}
		for _, b := range g.CFG.Blocks {
			if !b.Live {
				continue
			}
			for s := range b.Succs {
				for policy, v := range res {
					p := policy
					if !EdgeFact(g, b, s, func(f cfgq.Fact) bool { q, eq, ok := policyFact(info, f); return ok && q == p && eq }) {
						continue
					}
					v.n++
					from := cfgq.Point{B: b.Succs[s]}
					if v.w == nil {
						v.w = g.Path(cfgq.Query{From: from, Target: issues, AvoidEdge: other(p)})
					}
					if v.w == nil && p == "none" {
						v.w = g.Path(cfgq.Query{From: from, Target: success, AvoidEdge: other(p)})
					}
					if depth > 0 && p == "ignore" && g.Path(cfgq.Query{From: from, AvoidEdge: other(p), TargetExit: NormalExit}) != nil {
						v.deferred = fn.Name() // what the caller does after the helper returned is not followed here
					}
				}
			}
		}
		// helpers of the package that are handed the connection: the policy may be consulted there
		core.Inspect(fn.Decl.Body, func(n ast.Node) bool {
			call, ok := n.(*ast.CallExpr)
			if !ok {
				return true
			}
			h := c.FnOf(CalleeF(info, call))
			if h == nil || h.Decl.Body == nil || h.Pkg != fn.Pkg || h.Decl.Recv != nil {
				return true
			}
			i := 0
			for _, f := range h.Decl.Type.Params.List {
				for _, nm := range f.Names {
					if i < len(call.Args) && Obj(info, Strip(info, call.Args[i])) == conn {
						analyse(h, info.Defs[nm], depth+1)
					}
					i++
				}
			}
			return true
		})
	}
	analyse(fn, conn, 0)
	msg := map[string]string{
		"ignore": "under key_exists=ignore a key that already exists on the target must be left alone: here a command is still issued on the target connection after the policy was consulted, so the existing key is written again (a list restored element by element gets every element appended a second time)",
		"none":   "under key_exists=none an existing target key must make RestoreRdbEntry fail without writing: here it writes or reports success",
	}
	for _, p := range []string{"ignore", "none"} {
		v := res[p]
		if v.n == 0 {
			c.Undecidedf("R7.key-exists", "RestoreRdbEntry/"+p, fn.Decl.Pos(), "no branch on key_exists == %q found in RestoreRdbEntry", p)
			continue
		}
		if v.w == nil && v.deferred != "" && c.Program.Orig == nil {
			// decided on the view in which new helpers are expanded in place
			c.Undecidedf("R7.key-exists", "RestoreRdbEntry/"+p, fn.Decl.Pos(), "key_exists=%s is consulted in the helper %s, which returns to its caller afterwards: what the caller does then is not followed across the call", p, v.deferred)
			continue
		}
		c.Check("R7.key-exists", "RestoreRdbEntry/"+p, fn.Decl.Pos(), v.w == nil, msg[p], v.w...)
	}
}

// FirstPieceRules: a key that the loader hands out in several pieces (BinEntry.NeedReadLen == 1 marks the first
// one) is restored element by element (restoreBigRdbEntry). Under key_exists=rewrite the existing target key is
// deleted before that - which may happen for the first piece only: a DEL in front of a follow-up piece removes
// what the earlier pieces have just written.
func FirstPieceRules(c *core.Ctx) {
	fn := c.FuncOpt(pkgCommon, "", "RestoreRdbEntry")
	if fn == nil || fn.Decl.Body == nil || len(fn.Decl.Type.Params.List) == 0 {
		return
	}
	info := fn.Pkg.TypesInfo
	g := cfgq.Of(c.Program, fn)
	cmdCall := func(call *ast.CallExpr, cmd string) bool {
		if len(call.Args) < 2 {
			return false
		}
		s, ok := core.StringConst(info, call.Args[0])
		return ok && strings.EqualFold(s, cmd) && core.IsFieldNamed(info, Through(info, call.Args[1]), "BinEntry", "Key")
	}
	isCmd := func(n ast.Node, cmd string) bool {
		for _, call := range cfgq.ExecCalls(n) {
			if cmdCall(call, cmd) {
				return true
			}
			// one level: a helper of the package that issues the command for the entry it is handed
			if h := c.FnOf(CalleeF(info, call)); h != nil && h.Decl.Body != nil && h.Pkg == fn.Pkg && h != fn {
				found := false
				core.Inspect(h.Decl.Body, func(m ast.Node) bool {
					if hc, isC := m.(*ast.CallExpr); isC && cmdCall(hc, cmd) {
						found = true
					}
					return !found
				})
				if found {
					return true
				}
			}
		}
		return false
	}
	isBig := func(n ast.Node) bool {
		for _, call := range cfgq.ExecCalls(n) {
			if isCommon(CalleeF(info, call), "restoreBigRdbEntry") {
				return true
			}
		}
		return false
	}
	isRestoreCmd := func(n ast.Node) bool { // a RESTORE in between: the DEL belongs to the whole-value path
		for _, call := range cfgq.ExecCalls(n) {
			if len(call.Args) >= 1 {
				if s, ok := core.StringConst(info, call.Args[0]); ok && strings.EqualFold(s, "restore") {
					return true
				}
			}
		}
		return false
	}
	first := func(b *cfg.Block, s int) bool {
		return EdgeFact(g, b, s, func(f cfgq.Fact) bool {
			be, ok := ast.Unparen(f.Expr).(*ast.BinaryExpr)
			if !ok || be.Op != token.EQL && be.Op != token.NEQ {
				return false
			}
			x, y := be.X, be.Y
			if _, isC := core.IntConst(info, x); isC {
				x, y = y, x
			}
			v, isC := core.IntConst(info, y)
			return isC && v == 1 && core.IsFieldNamed(info, Through(info, x), "BinEntry", "NeedReadLen") && (be.Op == token.EQL) == f.Val
		})
	}
	n := 0
	var w []string
	for _, p := range g.Points(func(n ast.Node) bool { return isCmd(n, "del") }) {
		if g.Path(cfgq.Query{From: p, After: true, Target: isBig, Avoid: isRestoreCmd}) == nil {
			continue // not a DEL in front of the element-by-element restore
		}
		n++
		if w == nil {
			w = g.Path(cfgq.Query{From: g.Entry(), Target: IsNode(p.Node()), AvoidEdge: first})
		}
	}
	if n == 0 {
		return // no such DEL: nothing can be deleted between the pieces
	}
	c.Check("R7.first-piece", "RestoreRdbEntry/del-before-pieces", fn.Decl.Pos(), w == nil, "the DEL that key_exists=rewrite issues in front of the element-by-element restore must be limited to the first piece of a split key (NeedReadLen == 1): issued for a follow-up piece it deletes what the earlier pieces wrote, the target keeps only the fields of the last piece", w...)
}
