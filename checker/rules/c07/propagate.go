// R4.propagate: how the recorded worker errors become the result of the sync (scan idioms, helper following).
package c07

import (
	"go/ast"
	"go/token"
	"go/types"

	"golang.org/x/tools/go/cfg"

	"rscheck/cfgq"
	"rscheck/core"
	"rscheck/pat"
)

func scanFor(info *types.Info, body ast.Node, v types.Object) ast.Node {
	var scan ast.Node
	returned := func(o types.Object) bool { // some return statement of body returns o
		hit := false
		core.Inspect(body, func(m ast.Node) bool {
			if ret, ok := m.(*ast.ReturnStmt); ok && len(ret.Results) > 0 && RootObj(info, ret.Results[len(ret.Results)-1]) == o {
				hit = true
			}
			return true
		})
		return hit
	}
	nonNilArm := func(root ast.Node, stmt ast.Node, val types.Object) bool { // stmt sits in the arm of `if val != nil`
		ok := false
		path := core.PathTo(root, stmt)
		for i := len(path) - 1; i > 0; i-- {
			ifs, isIf := path[i-1].(*ast.IfStmt)
			if !isIf || path[i] != ast.Node(ifs.Body) {
				continue
			}
			for _, f := range cfgq.Facts(ifs.Cond, true) {
				if nn, is := NilCmp(info, f, val); is && nn {
					ok = true
				}
			}
		}
		return ok
	}
	core.Inspect(body, func(n ast.Node) bool {
		switch l := n.(type) {
		case *ast.RangeStmt:
			if RootObj(info, l.X) != v || l.Value == nil {
				return true
			}
			val := Obj(info, l.Value)
			core.Inspect(l.Body, func(m ast.Node) bool {
				switch s := m.(type) {
				case *ast.ReturnStmt:
					if len(s.Results) > 0 && Obj(info, s.Results[len(s.Results)-1]) == val && nonNilArm(l.Body, s, val) {
						scan = l.X
					}
				case *ast.AssignStmt:
					if len(s.Lhs) == 1 && len(s.Rhs) == 1 && Obj(info, s.Rhs[0]) == val && nonNilArm(l.Body, s, val) {
						if r := Obj(info, s.Lhs[0]); r != nil && returned(r) {
							scan = l.X
						}
					}
				}
				return true
			})
		case *ast.ForStmt:
			if l.Cond == nil {
				return true
			}
			// index loop over the whole slice: `for i := 0; i < len(v); i++ { if v[i] != nil { return v[i] } }`
			// (the element possibly held in a local of the body, or assigned to a variable that is returned)
			if b := pat.Expr("_i < len(_s)").Match(info, l.Cond, nil); b != nil && RootObj(info, b["_s"].(ast.Expr)) == v && !ZeroBased(info, l) {
				if init, isAs := l.Init.(*ast.AssignStmt); isAs && len(init.Rhs) == 1 {
					if a, isC := core.IntConst(info, init.Rhs[0]); isC && a > 0 {
						partialScan[l.Cond] = true // the scan starts behind the first slot
					}
				}
			}
			if cnt, isC := LoopCount(info, l).(*ast.CallExpr); isC && len(cnt.Args) == 1 && RootObj(info, cnt.Args[0]) == v && ZeroBased(info, l) {
				if bi, isB := core.Callee(info, cnt).(*types.Builtin); isB && bi.Name() == "len" {
					idx := Obj(info, l.Init.(*ast.AssignStmt).Lhs[0])
					isElem := func(e ast.Expr) bool {
						ix, ok := Through(info, e).(*ast.IndexExpr)
						return ok && RootObj(info, ix.X) == v && Obj(info, ix.Index) == idx
					}
					inArm := func(stmt ast.Node) bool { // stmt sits in the arm of `if <element> != nil`
						path := core.PathTo(l.Body, stmt)
						for i := len(path) - 1; i > 0; i-- {
							ifs, isIf := path[i-1].(*ast.IfStmt)
							if !isIf || path[i] != ast.Node(ifs.Body) {
								continue
							}
							for _, f := range cfgq.Facts(ifs.Cond, true) {
								if be, isB := ast.Unparen(f.Expr).(*ast.BinaryExpr); isB && (be.Op == token.NEQ) == f.Val && (be.Op == token.NEQ || be.Op == token.EQL) {
									if isElem(be.X) && core.IsNil(info, be.Y) || isElem(be.Y) && core.IsNil(info, be.X) {
										return true
									}
								}
							}
						}
						return false
					}
					core.Inspect(l.Body, func(m ast.Node) bool {
						switch s := m.(type) {
						case *ast.ReturnStmt:
							if len(s.Results) > 0 && isElem(s.Results[len(s.Results)-1]) && inArm(s) {
								scan = l.Cond
							}
						case *ast.AssignStmt:
							if len(s.Lhs) == 1 && len(s.Rhs) == 1 && isElem(s.Rhs[0]) && inArm(s) {
								if r := Obj(info, s.Lhs[0]); r != nil && returned(r) {
									scan = l.Cond
								}
							}
						}
						return true
					})
				}
			}
			// acc == nil in the condition, acc = v[i] in the body, acc returned
			for _, f := range cfgq.Facts(l.Cond, true) {
				be, ok := ast.Unparen(f.Expr).(*ast.BinaryExpr)
				if !ok || be.Op != token.EQL {
					continue
				}
				acc := Obj(info, be.X)
				if !core.IsNil(info, be.Y) || acc == nil {
					continue
				}
				core.Inspect(l.Body, func(m ast.Node) bool {
					if s, ok := m.(*ast.AssignStmt); ok && len(s.Lhs) == 1 && len(s.Rhs) == 1 && Obj(info, s.Lhs[0]) == acc {
						if ix, ok := ast.Unparen(s.Rhs[0]).(*ast.IndexExpr); ok && RootObj(info, ix.X) == v && returned(acc) {
							scan = l.Cond
						}
					}
					return true
				})
			}
		}
		return true
	})
	return scan
}

// successWithout: a success (non-error) return of the body of g is reachable without passing a node accepted by pass.
func successWithout(g *cfgq.Graph, info *types.Info, body ast.Node, pass func(ast.Node) bool) []string {
	return g.Path(cfgq.Query{From: g.Entry(), Avoid: pass, TargetExit: func(b *cfg.Block, k cfgq.ExitKind) bool {
		if k == cfgq.ExitFall {
			return NormalExit(b, k)
		}
		ret, _ := b.Nodes[len(b.Nodes)-1].(*ast.ReturnStmt)
		return k == cfgq.ExitRet && ret != nil && cfgq.ClassifyReturn(info, body, ret) != cfgq.RetErr
	}})
}

// propagate checks that the errors recorded in slice v are returned by fn: by a scan of the slice in fn itself, or
// in a same-package helper that fn hands the slice to and whose result it returns.
func propagate(c *core.Ctx, fn *core.Fn, short string, v types.Object) {
	info := fn.Pkg.TypesInfo
	g := cfgq.Of(c.Program, fn)
	key := short + "/" + v.Name()
	const lost = "a failed restore ends as a successful full sync"
	partialIn := func(body ast.Node) ast.Node {
		var hit ast.Node
		ast.Inspect(body, func(n ast.Node) bool {
			if n != nil && partialScan[n] {
				hit = n
			}
			return hit == nil
		})
		return hit
	}
	const partialMsg = "the scan over the recorded worker errors starts behind the first slot: a failure of the first worker(s) is never reported, "
	if rng := scanFor(info, fn.Decl.Body, v); rng != nil {
		w := successWithout(g, info, fn.Decl.Body, IsNode(rng))
		c.Check("R4.propagate", key, rng.Pos(), w == nil, "a success return of "+short+" is reachable without scanning "+v.Name()+" for worker failures: "+lost, w...)
		return
	}
	if p := partialIn(fn.Decl.Body); p != nil {
		c.Failf("R4.propagate", key, p.Pos(), "%s%s", partialMsg, lost)
		return
	}
	// one level of helper following: h(v) with the result returned or tested by fn
	for _, call := range core.Calls(fn.Decl.Body, info, func(call *ast.CallExpr, _ types.Object) bool {
		for _, a := range call.Args {
			if Obj(info, a) == v {
				return true
			}
		}
		return false
	}) {
		h := c.FnOf(CalleeF(info, call))
		if h == nil || h.Decl.Body == nil || h.Pkg != fn.Pkg {
			continue
		}
		var param types.Object
		i := 0
		for _, f := range h.Decl.Type.Params.List {
			for _, nm := range f.Names {
				if i < len(call.Args) && Obj(info, call.Args[i]) == v {
					param = info.Defs[nm]
				}
				i++
			}
		}
		rng := scanFor(info, h.Decl.Body, param)
		if param != nil && rng == nil {
			if p := partialIn(h.Decl.Body); p != nil {
				c.Failf("R4.propagate", key, p.Pos(), "%s%s", partialMsg, lost)
				return
			}
		}
		if param == nil || rng == nil {
			continue
		}
		c.Functions[h.Name()] = true
		hg := cfgq.Of(c.Program, h)
		if w := successWithout(hg, info, h.Decl.Body, IsNode(rng)); w != nil {
			c.Check("R4.propagate", key, rng.Pos(), false, "the helper that scans "+v.Name()+" can return success without scanning it: "+lost, w...)
			return
		}
		// the helper's verdict must be what fn returns
		cp, ok := g.Find(call)
		if !ok {
			continue
		}
		if ret, isRet := cp.Node().(*ast.ReturnStmt); isRet && len(ret.Results) > 0 && ast.Unparen(ret.Results[len(ret.Results)-1]) == ast.Expr(call) {
			w := successWithout(g, info, fn.Decl.Body, IsNode(ret))
			c.Check("R4.propagate", key, call.Pos(), w == nil, "a success return of "+short+" is reachable without consulting "+v.Name()+" for worker failures: "+lost, w...)
			return
		}
		if ErrCheck(c, g, info, fn.Decl.Body, call, ErrSpec{Rule: "R4.propagate", Key: key, RetOK: true, Consequence: lost}) {
			w := successWithout(g, info, fn.Decl.Body, IsNode(cp.Node()))
			if w != nil {
				c.Check("R4.propagate", key+"/always", call.Pos(), false, "a success return of "+short+" is reachable without consulting "+v.Name()+" for worker failures: "+lost, w...)
			}
		}
		return
	}
	// provably never read in fn (outside the workers that write it)?
	reads := 0
	core.Inspect(fn.Decl.Body, func(n ast.Node) bool {
		if id, ok := n.(*ast.Ident); ok && info.Uses[id] == v {
			reads++
		}
		return true
	})
	if reads == 0 {
		c.Failf("R4.propagate", key, fn.Decl.Pos(), "worker failures are stored in %s but %s never reads it: %s", v.Name(), short, lost)
	} else {
		c.Undecidedf("R4.propagate", key, fn.Decl.Pos(), "worker failures are stored in %s; how %s turns them into its result is not in a recognised form", v.Name(), short)
	}
}

// nilDeref: `c, _ := OpenRedisConn(...)` is tolerated iff the callee returns a
// nil connection with every error and the connection is dereferenced (method
// call on the nil interface => runtime panic, process exits non-zero) before
// anything else can happen. Returns "" if not established.
func nilDeref(c *core.Ctx, g *cfgq.Graph, info *types.Info, as *ast.AssignStmt, call *ast.CallExpr) string {
	conn := Obj(info, as.Lhs[0])
	if conn == nil || !types.IsInterface(conn.Type()) || !nilOnError(c, CalleeF(info, call), 0) {
		return ""
	}
	p, ok := g.Find(as)
	if !ok {
		return ""
	}
	deref := func(n ast.Node) bool { return MethodCallOn(info, n, conn, "") }
	w := g.Path(cfgq.Query{From: p, After: true, Avoid: deref, TargetExit: NormalExit,
		Target: func(n ast.Node) bool { return !deref(n) && core.Mentions(info, n, conn) }})
	if w != nil {
		return ""
	}
	return "the connection error is discarded, but the callee returns a nil connection with every error and the very next use is a method call on it: the process dies with a nil-dereference panic, i.e. the failure is (crudely) reported, not turned into a success"
}

func nilOnError(c *core.Ctx, f *types.Func, depth int) bool {
	fn := c.FnOf(f)
	if fn == nil || fn.Decl.Body == nil || depth > 3 {
		return false
	}
	info := fn.Pkg.TypesInfo
	ok, n := true, 0
	core.Inspect(fn.Decl.Body, func(m ast.Node) bool {
		ret, isRet := m.(*ast.ReturnStmt)
		if !isRet {
			return true
		}
		n++
		switch len(ret.Results) {
		case 1:
			call, isCall := ast.Unparen(ret.Results[0]).(*ast.CallExpr)
			if !isCall || !nilOnError(c, CalleeF(info, call), depth+1) {
				ok = false
			}
		case 2:
			if !core.IsNil(info, ret.Results[1]) && !core.IsNil(info, ret.Results[0]) {
				ok = false
			}
		default:
			ok = false
		}
		return true
	})
	return ok && n > 0
}
