// Shared helpers of the C07/C16/C17 rule sets: channel consumers, loop reachability, wait-loop shape, E7 error discipline.
package c07

import (
	"go/ast"
	"go/token"
	"go/types"

	"golang.org/x/tools/go/cfg"

	"rscheck/cfgq"
	"rscheck/core"
	"rscheck/pat"
)

// Consumer is a function literal ranging over a channel.
type Consumer struct {
	Lit   *ast.FuncLit
	Range *ast.RangeStmt
}

// RangeConsumers returns the function literals under body that range over the
// channel variable ch, and every other mention of ch (except its definition
// and len/cap arguments).
func RangeConsumers(info *types.Info, body ast.Node, ch types.Object) (cons []Consumer, other []ast.Node) {
	allowed := map[*ast.Ident]bool{}
	var stack []ast.Node
	ast.Inspect(body, func(n ast.Node) bool {
		if n == nil {
			stack = stack[:len(stack)-1]
			return false
		}
		stack = append(stack, n)
		switch x := n.(type) {
		case *ast.RangeStmt:
			if id, ok := ast.Unparen(x.X).(*ast.Ident); ok && RootObj(info, id) == ch {
				var lit *ast.FuncLit
				for _, p := range stack {
					if fl, ok := p.(*ast.FuncLit); ok {
						lit = fl
					}
				}
				if lit != nil {
					allowed[id] = true
					cons = append(cons, Consumer{lit, x})
				}
			}
		case *ast.CallExpr:
			if b, ok := core.Callee(info, x).(*types.Builtin); ok && (b.Name() == "cap" || b.Name() == "len") && len(x.Args) == 1 {
				if id, ok := ast.Unparen(x.Args[0]).(*ast.Ident); ok {
					allowed[id] = true
				}
			}
		case *ast.ValueSpec: // `var a T = ch` / `b := a`: a plain copy of the channel, followed by RootObj
			for i, v := range x.Values {
				if id, ok := ast.Unparen(v).(*ast.Ident); ok && i < len(x.Names) && RootObj(info, id) == ch && localCopy(info, x.Names[i]) {
					allowed[id] = true
				}
			}
		case *ast.AssignStmt:
			if len(x.Lhs) == len(x.Rhs) {
				for i, v := range x.Rhs {
					id, ok := ast.Unparen(v).(*ast.Ident)
					l, isID := x.Lhs[i].(*ast.Ident)
					if ok && isID && RootObj(info, id) == ch && info.Defs[l] != nil && localCopy(info, l) {
						allowed[id] = true
					}
				}
			}
		case *ast.Ident:
			if o := info.Uses[x]; o != nil && (o == ch || RootObj(info, x) == ch) && !allowed[x] {
				other = append(other, x)
			}
		}
		return true
	})
	return
}

// RootObj follows single-assignment copies (`a := b`, `var a T = b`) back to the variable they stand for. A copy
// is followed only when the copied variable is stable (never assigned after its definition: parameters, range
// variables, single-assignment locals), so that the copy and the original cannot differ.
func RootObj(info *types.Info, e ast.Expr) types.Object {
	for i := 0; i < 8; i++ {
		id, ok := ast.Unparen(e).(*ast.Ident)
		if !ok {
			return nil
		}
		d := pat.DefOf(info, id)
		src, isID := ast.Unparen(d).(*ast.Ident)
		if d == nil || !isID {
			return core.ObjOf(info, id)
		}
		if o := core.ObjOf(info, src); o == nil || reassigned[o] {
			return core.ObjOf(info, id)
		}
		e = d
	}
	return nil
}

// CalleeF is core.CalleeFunc that also resolves a call through a local bound once to a function or method value
// (`next := l.NextBinEntry; next()`).
func CalleeF(info *types.Info, call *ast.CallExpr) *types.Func {
	if f := core.CalleeFunc(info, call); f != nil {
		return f
	}
	if id, ok := ast.Unparen(call.Fun).(*ast.Ident); ok {
		for i := 0; i < 4; i++ {
			d := pat.DefOf(info, id)
			if d == nil {
				return nil
			}
			switch x := ast.Unparen(d).(type) {
			case *ast.Ident:
				if f, ok := core.ObjOf(info, x).(*types.Func); ok {
					return f
				}
				id = x
				continue
			case *ast.SelectorExpr:
				f, _ := core.ObjOf(info, x).(*types.Func)
				return f
			}
			return nil
		}
	}
	return nil
}

// Obj is core.ObjOf that looks through stable copies (see RootObj); selectors and definitions are unchanged.
func Obj(info *types.Info, e ast.Expr) types.Object {
	if id, ok := ast.Unparen(e).(*ast.Ident); ok && info.Uses[id] != nil {
		if o := RootObj(info, id); o != nil {
			return o
		}
	}
	return core.ObjOf(info, e)
}

// reassigned lists the variables that are assigned (or inc/dec-ed, or have their address taken) somewhere
// other than at their definition; filled by IndexAssignments.
var reassigned = map[types.Object]bool{}

// nAssign counts those re-assignments, initVal holds the expression a variable is defined with (`v := e`,
// `var v = e`); both filled by IndexAssignments.
var nAssign = map[types.Object]int{}
var initVal = map[types.Object]ast.Expr{}

// fieldStored[v][f]: somewhere `v.f` is stored into (assigned, inc/dec-ed, its address taken); handedOver[v]: the
// local v itself is an argument or the receiver of a call (what happens to its fields there is not seen). Filled
// by IndexAssignments; they decide when `v.f` still is what the literal that defines v put there.
var fieldStored = map[types.Object]map[string]bool{}
var handedOver = map[types.Object]bool{}
var indexed = map[*core.Program]bool{}

// IndexAssignments records, once per loaded program, which variables of the module are re-assigned.
func IndexAssignments(p *core.Program) {
	if indexed[p] {
		return
	}
	indexed[p] = true
	for _, pk := range p.Pkgs {
		info := pk.TypesInfo
		if info == nil {
			continue
		}
		mark := func(e ast.Expr) {
			if id, ok := ast.Unparen(e).(*ast.Ident); ok {
				if o := info.Uses[id]; o != nil {
					reassigned[o] = true
					nAssign[o]++
				}
			}
		}
		store := func(e ast.Expr) {
			if sel, ok := ast.Unparen(e).(*ast.SelectorExpr); ok {
				if id, isID := ast.Unparen(sel.X).(*ast.Ident); isID {
					if o := info.Uses[id]; o != nil {
						if fieldStored[o] == nil {
							fieldStored[o] = map[string]bool{}
						}
						fieldStored[o][sel.Sel.Name] = true
					}
				}
			}
		}
		for _, f := range pk.Syntax {
			ast.Inspect(f, func(n ast.Node) bool {
				switch x := n.(type) {
				case *ast.CallExpr:
					for _, a := range x.Args {
						if id, ok := ast.Unparen(a).(*ast.Ident); ok {
							if o, isV := info.Uses[id].(*types.Var); isV {
								handedOver[o] = true
							}
						}
					}
					if sel, ok := ast.Unparen(x.Fun).(*ast.SelectorExpr); ok {
						if s := info.Selections[sel]; s != nil && s.Kind() == types.MethodVal {
							if id, isID := ast.Unparen(sel.X).(*ast.Ident); isID {
								if o, isV := info.Uses[id].(*types.Var); isV {
									handedOver[o] = true
								}
							}
						}
					}
				case *ast.AssignStmt:
					for i, l := range x.Lhs {
						store(l)
						mark(l) // a use on the left-hand side is a re-assignment (definitions are not uses)
						if id, ok := l.(*ast.Ident); ok && info.Defs[id] != nil && len(x.Lhs) == len(x.Rhs) {
							initVal[info.Defs[id]] = x.Rhs[i]
						}
					}
				case *ast.ValueSpec:
					for i, id := range x.Names {
						if o := info.Defs[id]; o != nil && i < len(x.Values) {
							initVal[o] = x.Values[i]
						}
					}
				case *ast.IncDecStmt:
					mark(x.X)
					store(x.X)
				case *ast.UnaryExpr:
					if x.Op == token.AND {
						mark(x.X)
						store(x.X)
					}
				case *ast.RangeStmt:
					if x.Tok == token.ASSIGN {
						if x.Key != nil {
							mark(x.Key)
						}
						if x.Value != nil {
							mark(x.Value)
						}
					}
				}
				return true
			})
		}
	}
}

// Slot names the storage an expression denotes: a variable, or the field `v.f` of a struct-typed (or pointer to
// struct) LOCAL v - state that a small type owns instead of a plain local. A field slot is a synthetic variable
// (one per root variable and field, positioned at the root's declaration so that scope tests speak about v).
func Slot(info *types.Info, e ast.Expr) types.Object {
	e = ast.Unparen(e)
	sel, ok := e.(*ast.SelectorExpr)
	if !ok {
		return core.ObjOf(info, e)
	}
	x := ast.Unparen(sel.X)
	if u, isAddr := x.(*ast.UnaryExpr); isAddr && u.Op == token.AND {
		x = ast.Unparen(u.X)
	}
	if st, isStar := x.(*ast.StarExpr); isStar {
		x = ast.Unparen(st.X)
	}
	id, ok := x.(*ast.Ident)
	s := info.Selections[sel]
	if !ok || s == nil || s.Kind() != types.FieldVal {
		return core.ObjOf(info, e)
	}
	root, ok := info.Uses[id].(*types.Var)
	if !ok || root.IsField() || root.Pkg() == nil || root.Parent() == root.Pkg().Scope() {
		return core.ObjOf(info, e)
	}
	f := s.Obj()
	if fieldSlots[root] == nil {
		fieldSlots[root] = map[types.Object]*types.Var{}
	}
	if fieldSlots[root][f] == nil {
		fieldSlots[root][f] = types.NewVar(root.Pos(), root.Pkg(), root.Name()+"."+f.Name(), f.Type())
		slotRoot[fieldSlots[root][f]] = root
		slotField[fieldSlots[root][f]] = f.Name()
	}
	return fieldSlots[root][f]
}

var fieldSlots = map[*types.Var]map[types.Object]*types.Var{}
var slotRoot = map[types.Object]*types.Var{}
var slotField = map[types.Object]string{}

// localCopy: the variable defined by id is a transparent single-assignment local.
func localCopy(info *types.Info, id *ast.Ident) bool {
	o := info.Defs[id]
	if o == nil {
		return false
	}
	// pat indexes by use; build a use-like lookup through the object
	for use, obj := range info.Uses {
		if obj == o {
			return pat.DefOf(info, use) != nil
		}
	}
	return true // never used: harmless
}

// Strip removes parentheses and type conversions.
func Strip(info *types.Info, e ast.Expr) ast.Expr {
	for {
		e = ast.Unparen(e)
		if st, ok := e.(*ast.StarExpr); ok { // *&x, and *p with p := &x (p never re-assigned): x
			inner := ast.Unparen(st.X)
			if id, isID := inner.(*ast.Ident); isID {
				if d := pat.DefOf(info, id); d != nil {
					inner = ast.Unparen(d)
				}
			}
			if u, isAddr := inner.(*ast.UnaryExpr); isAddr && u.Op == token.AND {
				e = u.X
				continue
			}
			return e
		}
		call, ok := e.(*ast.CallExpr)
		if !ok || len(call.Args) != 1 {
			return e
		}
		if tv, ok := info.Types[call.Fun]; !ok || !tv.IsType() {
			return e
		}
		e = call.Args[0]
	}
}

func within(o types.Object, n ast.Node) bool {
	return o != nil && n.Pos() <= o.Pos() && o.Pos() < n.End()
}

func AssignsTo(info *types.Info, n ast.Node, v types.Object) (*ast.AssignStmt, ast.Expr) {
	as, ok := n.(*ast.AssignStmt)
	if !ok {
		return nil, nil
	}
	for i, l := range as.Lhs {
		if id, ok := ast.Unparen(l).(*ast.Ident); ok && Obj(info, id) == v {
			return as, core.AssignedTo(as, i)
		}
	}
	return nil, nil
}

// RangeBlocks returns the loop-head and body blocks of a range statement.
func RangeBlocks(g *cfgq.Graph, rs ast.Stmt) (head, body *cfg.Block) {
	for _, b := range g.CFG.Blocks {
		if b.Stmt == rs && (b.Kind == cfg.KindRangeLoop || b.Kind == cfg.KindForLoop) {
			head = b
		}
		if b.Stmt == rs && (b.Kind == cfg.KindRangeBody || b.Kind == cfg.KindForBody) {
			body = b
		}
	}
	if head == nil {
		head = body // `for {}` without condition: the body is its own head
	}
	return
}

// ReachBlock reports whether some path from `from` enters block `to`, cut at
// nodes satisfying avoid.
func ReachBlock(g *cfgq.Graph, from cfgq.Point, after bool, avoid func(ast.Node) bool, to *cfg.Block) bool {
	hit := false
	g.Path(cfgq.Query{From: from, After: after, Avoid: avoid, AvoidEdge: func(b *cfg.Block, s int) bool {
		if b.Succs[s] == to {
			hit = true
			return true
		}
		return false
	}})
	return hit
}

// ReachBlock2 is ReachBlock with an additional edge cut.
func ReachBlock2(g *cfgq.Graph, from cfgq.Point, avoid func(ast.Node) bool, avoidEdge func(*cfg.Block, int) bool, to *cfg.Block) bool {
	hit := false
	g.Path(cfgq.Query{From: from, Avoid: avoid, AvoidEdge: func(b *cfg.Block, s int) bool {
		if avoidEdge != nil && avoidEdge(b, s) {
			return true
		}
		if b.Succs[s] == to {
			hit = true
			return true
		}
		return false
	}})
	return hit
}

func IsNode(t ast.Node) func(ast.Node) bool { return func(n ast.Node) bool { return n == t } }

func Within(n, outer ast.Node) bool { return outer.Pos() <= n.Pos() && n.End() <= outer.End() }

// MethodCallOn reports whether executing n calls (or defers) a method on obj.
func MethodCallOn(info *types.Info, n ast.Node, obj types.Object, name string) bool {
	calls := cfgq.ExecCalls(n)
	switch s := n.(type) {
	case *ast.DeferStmt:
		calls = append(calls, s.Call)
		if fl, ok := s.Call.Fun.(*ast.FuncLit); ok { // defer func() { x.M() }()
			calls = append(calls, core.Calls(fl, info, func(*ast.CallExpr, types.Object) bool { return true })...)
		}
	}
	for _, call := range calls {
		if sel, ok := ast.Unparen(call.Fun).(*ast.SelectorExpr); ok && (name == "" || sel.Sel.Name == name) && Obj(info, sel.X) == obj {
			return true
		}
	}
	return false
}

func BuiltinCallOn(info *types.Info, n ast.Node, name string, obj types.Object) bool {
	calls := cfgq.ExecCalls(n)
	if d, ok := n.(*ast.DeferStmt); ok {
		calls = append(calls, d.Call)
		if fl, ok := d.Call.Fun.(*ast.FuncLit); ok {
			calls = append(calls, core.Calls(fl, info, func(*ast.CallExpr, types.Object) bool { return true })...)
		}
	}
	for _, call := range calls {
		if b, ok := core.Callee(info, call).(*types.Builtin); ok && b.Name() == name && len(call.Args) >= 1 && Obj(info, call.Args[0]) == obj {
			return true
		}
	}
	return false
}

func isDefer(n ast.Node) bool { _, ok := n.(*ast.DeferStmt); return ok }

// ErrSpec parameterises ErrCheck.
type ErrSpec struct {
	Rule, Key   string
	Consequence string
	RetOK       bool                                    // a return carrying an error is a failure exit
	Mark        func(n ast.Node, err types.Object) bool // other failure marks (childErrors[i] = err)
	BlankOK     func(as *ast.AssignStmt) string         // justification for `x, _ := f()`; "" = none
	seen        map[ast.Node]bool
}

// ---------------------------------------------------------------------------
// R5 loader

// NormalExit is cfgq.NormalExit minus the successor-less "no case ready" block
// that go/cfg leaves behind a select statement without default (a blocking
// select never falls through).
func NormalExit(b *cfg.Block, k cfgq.ExitKind) bool {
	if b.Kind == cfg.KindSelectAfterCase && k == cfgq.ExitFall {
		return false
	}
	return cfgq.NormalExit(b, k)
}

// MustPass: every path from `from` to a normal exit passes a node satisfying pred.
func MustPass(g *cfgq.Graph, from cfgq.Point, after bool, pred func(ast.Node) bool) (bool, []string) {
	w := g.Path(cfgq.Query{From: from, After: after, Avoid: pred, TargetExit: NormalExit})
	return w == nil, w
}
