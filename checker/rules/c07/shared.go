// Shared helpers of the C07/C16/C17 rule sets: channel consumers, loop reachability, wait-loop shape, E7 error discipline.
package c07

import (
	"fmt"
	"go/ast"
	"go/token"
	"go/types"

	"golang.org/x/tools/go/cfg"

	"rscheck/cfgq"
	"rscheck/core"
)

// Consumer is a function literal ranging over a channel.
type Consumer struct {
	Lit   *ast.FuncLit
	Range *ast.RangeStmt
}

// RangeConsumers returns the function literals under body that range over the
// channel variable ch, and every other mention of ch (except its definition
// and len/cap arguments).
func RangeConsumers(info *types.Info, body ast.Node, ch types.Object) (cons []Consumer, other []ast.Node) {
	allowed := map[*ast.Ident]bool{}
	var stack []ast.Node
	ast.Inspect(body, func(n ast.Node) bool {
		if n == nil {
			stack = stack[:len(stack)-1]
			return false
		}
		stack = append(stack, n)
		switch x := n.(type) {
		case *ast.RangeStmt:
			if id, ok := ast.Unparen(x.X).(*ast.Ident); ok && info.Uses[id] == ch {
				var lit *ast.FuncLit
				for _, p := range stack {
					if fl, ok := p.(*ast.FuncLit); ok {
						lit = fl
					}
				}
				if lit != nil {
					allowed[id] = true
					cons = append(cons, Consumer{lit, x})
				}
			}
		case *ast.CallExpr:
			if b, ok := core.Callee(info, x).(*types.Builtin); ok && (b.Name() == "cap" || b.Name() == "len") && len(x.Args) == 1 {
				if id, ok := ast.Unparen(x.Args[0]).(*ast.Ident); ok {
					allowed[id] = true
				}
			}
		case *ast.Ident:
			if info.Uses[x] == ch && !allowed[x] {
				other = append(other, x)
			}
		}
		return true
	})
	return
}

// Strip removes parentheses and type conversions.
func Strip(info *types.Info, e ast.Expr) ast.Expr {
	for {
		e = ast.Unparen(e)
		call, ok := e.(*ast.CallExpr)
		if !ok || len(call.Args) != 1 {
			return e
		}
		if tv, ok := info.Types[call.Fun]; !ok || !tv.IsType() {
			return e
		}
		e = call.Args[0]
	}
}

func within(o types.Object, n ast.Node) bool {
	return o != nil && n.Pos() <= o.Pos() && o.Pos() < n.End()
}

func AssignsTo(info *types.Info, n ast.Node, v types.Object) (*ast.AssignStmt, ast.Expr) {
	as, ok := n.(*ast.AssignStmt)
	if !ok {
		return nil, nil
	}
	for i, l := range as.Lhs {
		if id, ok := ast.Unparen(l).(*ast.Ident); ok && core.ObjOf(info, id) == v {
			return as, core.AssignedTo(as, i)
		}
	}
	return nil, nil
}

// RangeBlocks returns the loop-head and body blocks of a range statement.
func RangeBlocks(g *cfgq.Graph, rs ast.Stmt) (head, body *cfg.Block) {
	for _, b := range g.CFG.Blocks {
		if b.Stmt == rs && (b.Kind == cfg.KindRangeLoop || b.Kind == cfg.KindForLoop) {
			head = b
		}
		if b.Stmt == rs && (b.Kind == cfg.KindRangeBody || b.Kind == cfg.KindForBody) {
			body = b
		}
	}
	if head == nil {
		head = body // `for {}` without condition: the body is its own head
	}
	return
}

// ReachBlock reports whether some path from `from` enters block `to`, cut at
// nodes satisfying avoid.
func ReachBlock(g *cfgq.Graph, from cfgq.Point, after bool, avoid func(ast.Node) bool, to *cfg.Block) bool {
	hit := false
	g.Path(cfgq.Query{From: from, After: after, Avoid: avoid, AvoidEdge: func(b *cfg.Block, s int) bool {
		if b.Succs[s] == to {
			hit = true
			return true
		}
		return false
	}})
	return hit
}

// ReachBlock2 is ReachBlock with an additional edge cut.
func ReachBlock2(g *cfgq.Graph, from cfgq.Point, avoid func(ast.Node) bool, avoidEdge func(*cfg.Block, int) bool, to *cfg.Block) bool {
	hit := false
	g.Path(cfgq.Query{From: from, Avoid: avoid, AvoidEdge: func(b *cfg.Block, s int) bool {
		if avoidEdge != nil && avoidEdge(b, s) {
			return true
		}
		if b.Succs[s] == to {
			hit = true
			return true
		}
		return false
	}})
	return hit
}

func IsNode(t ast.Node) func(ast.Node) bool { return func(n ast.Node) bool { return n == t } }

func Within(n, outer ast.Node) bool { return outer.Pos() <= n.Pos() && n.End() <= outer.End() }

// MethodCallOn reports whether executing n calls (or defers) a method on obj.
func MethodCallOn(info *types.Info, n ast.Node, obj types.Object, name string) bool {
	calls := cfgq.ExecCalls(n)
	switch s := n.(type) {
	case *ast.DeferStmt:
		calls = append(calls, s.Call)
		if fl, ok := s.Call.Fun.(*ast.FuncLit); ok { // defer func() { x.M() }()
			calls = append(calls, core.Calls(fl, info, func(*ast.CallExpr, types.Object) bool { return true })...)
		}
	}
	for _, call := range calls {
		if sel, ok := ast.Unparen(call.Fun).(*ast.SelectorExpr); ok && (name == "" || sel.Sel.Name == name) && core.ObjOf(info, sel.X) == obj {
			return true
		}
	}
	return false
}

func BuiltinCallOn(info *types.Info, n ast.Node, name string, obj types.Object) bool {
	calls := cfgq.ExecCalls(n)
	if d, ok := n.(*ast.DeferStmt); ok {
		calls = append(calls, d.Call)
		if fl, ok := d.Call.Fun.(*ast.FuncLit); ok {
			calls = append(calls, core.Calls(fl, info, func(*ast.CallExpr, types.Object) bool { return true })...)
		}
	}
	for _, call := range calls {
		if b, ok := core.Callee(info, call).(*types.Builtin); ok && b.Name() == name && len(call.Args) >= 1 && core.ObjOf(info, call.Args[0]) == obj {
			return true
		}
	}
	return false
}

func isDefer(n ast.Node) bool { _, ok := n.(*ast.DeferStmt); return ok }

// stable: constant, identifier or field-selector chain.
func stable(info *types.Info, e ast.Expr) bool {
	e = Strip(info, e)
	if _, ok := core.IntConst(info, e); ok {
		return true
	}
	switch x := e.(type) {
	case *ast.Ident:
		return true
	case *ast.SelectorExpr:
		return stable(info, x.X)
	case *ast.CallExpr: // len(x), cap(x)
		if b, ok := core.Callee(info, x).(*types.Builtin); ok && (b.Name() == "len" || b.Name() == "cap") {
			return stable(info, x.Args[0])
		}
	}
	return false
}

// WaitLoop checks that every normal exit of the function body (graph g) is
// preceded by a receive from channel `wait`, for the two idioms `for flag :=
// false; !flag; { select { case <-wait: flag = true ... } }` and an
// unconditional loop / plain receive.
func WaitLoop(c *core.Ctx, rule, key string, g *cfgq.Graph, body *ast.BlockStmt, info *types.Info, wait types.Object, consequence string) {
	isRecv := func(s ast.Stmt) bool {
		var e ast.Expr
		switch x := s.(type) {
		case *ast.ExprStmt:
			e = x.X
		case *ast.AssignStmt:
			if len(x.Rhs) == 1 {
				e = x.Rhs[0]
			}
		}
		u, ok := ast.Unparen(e).(*ast.UnaryExpr)
		return e != nil && ok && u.Op == token.ARROW && core.ObjOf(info, u.X) == wait
	}
	comm := map[ast.Stmt]bool{}
	arms := map[*cfg.Block]bool{}
	plain := map[ast.Node]bool{}
	var first ast.Node
	core.Inspect(body, func(n ast.Node) bool {
		if cc, ok := n.(*ast.CommClause); ok && cc.Comm != nil {
			comm[cc.Comm] = true
			if isRecv(cc.Comm) {
				for _, b := range g.CFG.Blocks {
					if b.Kind == cfg.KindSelectCaseBody && b.Stmt == ast.Stmt(cc) {
						arms[b] = true
						first = cc
					}
				}
			}
		}
		return true
	})
	core.Inspect(body, func(n ast.Node) bool {
		if s, ok := n.(ast.Stmt); ok && !comm[s] && isRecv(s) {
			plain[s] = true
			first = s
		}
		return true
	})
	if first == nil {
		c.Undecidedf(rule, key, body.Pos(), "no receive from the done channel found in the function body")
		return
	}
	avoid := func(n ast.Node) bool { return plain[n] }
	armEdge := func(b *cfg.Block, s int) bool { return arms[b.Succs[s]] }
	// Boolean locals that can only be true after the receive ("done" flags, per-iteration or loop-carried):
	// declared false, only assigned constants, and every `= true` is reachable only through the receive.
	// An edge that establishes such a flag as true is therefore as good as the receive itself, whatever
	// the loop form (for !done {...}, for {...; if finished { break } }, done == false, switch ...).
	flags, opaque := map[types.Object]bool{}, false
	isBool := func(o types.Object) bool {
		v, ok := o.(*types.Var)
		if !ok || v.IsField() || !within(v, body) {
			return false
		}
		b, ok := v.Type().Underlying().(*types.Basic)
		return ok && b.Kind() == types.Bool
	}
	cands := map[types.Object]bool{}
	core.Inspect(body, func(n ast.Node) bool {
		if id, ok := n.(*ast.Ident); ok {
			if o := core.ObjOf(info, id); o != nil && isBool(o) {
				cands[o] = true
			}
		}
		return true
	})
	for o := range cands {
		valid, followed := true, true
		core.InspectAll(body, func(n ast.Node) bool {
			var rhs ast.Expr
			var at ast.Node
			switch x := n.(type) {
			case *ast.AssignStmt:
				if as, r := AssignsTo(info, x, o); as != nil {
					rhs, at = r, as
					if r == nil {
						valid, followed = false, false
					}
				}
			case *ast.ValueSpec:
				for i, id := range x.Names {
					if info.Defs[id] == o && i < len(x.Values) {
						rhs, at = x.Values[i], x
					}
				}
			case *ast.UnaryExpr:
				if x.Op == token.AND && core.ObjOf(info, x.X) == o {
					valid, followed = false, false
				}
			}
			if at == nil || rhs == nil {
				return true
			}
			tv, ok := info.Types[rhs]
			if !ok || tv.Value == nil {
				valid, followed = false, false
				return true
			}
			if tv.Value.String() != "true" {
				return true
			}
			p, found := g.Find(at)
			if !found || g.Path(cfgq.Query{From: g.Entry(), Avoid: avoid, AvoidEdge: armEdge, Target: IsNode(p.Node())}) != nil {
				valid = false
			}
			return true
		})
		if valid {
			flags[o] = true
		} else if !followed {
			opaque = true // assigned a computed value / address taken: its truth says nothing we can follow
		}
	}
	flagTrue := func(b *cfg.Block, s int) bool {
		return EdgeFact(g, b, s, func(f cfgq.Fact) bool {
			e := ast.Unparen(f.Expr)
			val := f.Val
			if be, ok := e.(*ast.BinaryExpr); ok && (be.Op == token.EQL || be.Op == token.NEQ) {
				x, y := be.X, be.Y
				if tv, ok := info.Types[x]; ok && tv.Value != nil {
					x, y = y, x
				}
				tv, ok := info.Types[y]
				if !ok || tv.Value == nil {
					return false
				}
				e, val = ast.Unparen(x), ((tv.Value.String() == "true") == (be.Op == token.EQL)) == f.Val
			}
			return val && flags[core.ObjOf(info, e)]
		})
	}
	w := g.Path(cfgq.Query{From: g.Entry(), Avoid: avoid, TargetExit: NormalExit,
		AvoidEdge: func(b *cfg.Block, s int) bool { return armEdge(b, s) || flagTrue(b, s) }})
	switch {
	case w == nil:
		c.Okf(rule, key, first.Pos(), "every return is preceded by a receive from the done channel (directly or through a flag that only the receive sets)")
	case opaque:
		c.Undecidedf(rule, key, first.Pos(), "a return seems reachable without the receive, but a boolean local of the function is assigned in a way that is not followed")
	default:
		c.Check(rule, key, first.Pos(), false, "a return is reachable without having received from the done channel (no `<-done` on the path, and no flag that only the receive sets was read as true): "+consequence, w...)
	}
}

// ErrSpec parameterises ErrCheck.
type ErrSpec struct {
	Rule, Key   string
	Consequence string
	RetOK       bool                                    // a return carrying an error is a failure exit
	Mark        func(n ast.Node, err types.Object) bool // other failure marks (childErrors[i] = err)
	BlankOK     func(as *ast.AssignStmt) string         // justification for `x, _ := f()`; "" = none
	seen        map[ast.Node]bool
}

// EdgeFact is cfgq.EdgeEstablishes extended to the cases of a tagless switch.
func EdgeFact(g *cfgq.Graph, b *cfg.Block, succ int, match func(cfgq.Fact) bool) bool {
	if cfgq.EdgeEstablishes(b, succ, match) {
		return true
	}
	cond := cfgq.CondOf(b)
	if cond == nil || len(b.Succs) != 2 || b.Succs[0].Kind != cfg.KindSwitchCaseBody {
		return false
	}
	cc, _ := b.Succs[0].Stmt.(*ast.CaseClause)
	if cc == nil {
		return false
	}
	path := core.PathTo(g.Body, cc)
	if len(path) < 3 {
		return false
	}
	sw, ok := path[len(path)-3].(*ast.SwitchStmt)
	if !ok {
		return false
	}
	if sw.Tag != nil { // `switch tag { case v: }`: the edge into the body means tag == v, the other one tag != v
		return match(cfgq.Fact{Expr: &ast.BinaryExpr{X: sw.Tag, Op: token.EQL, Y: cond}, Val: succ == 0})
	}
	if len(cc.List) != 1 && succ == 0 {
		return false // `case a, b:` entered through a: only a disjunction is known
	}
	for _, f := range cfgq.Facts(cond, succ == 0) {
		if match(f) {
			return true
		}
	}
	return false
}

func NilCmp(info *types.Info, f cfgq.Fact, err types.Object) (nonNil, isCmp bool) {
	be, ok := ast.Unparen(f.Expr).(*ast.BinaryExpr)
	if !ok || be.Op != token.NEQ && be.Op != token.EQL {
		return false, false
	}
	x, y := be.X, be.Y
	if core.IsNil(info, x) {
		x, y = y, x
	}
	if !core.IsNil(info, y) || core.ObjOf(info, x) != err {
		return false, false
	}
	return (be.Op == token.NEQ) == f.Val, true
}

// ErrCheck: the error result of call is bound, tested on every path, and each
// edge that establishes err != nil reaches a failure exit on every path.
func ErrCheck(c *core.Ctx, g *cfgq.Graph, info *types.Info, body ast.Node, call *ast.CallExpr, spec ErrSpec) bool {
	if spec.seen == nil {
		spec.seen = map[ast.Node]bool{}
	}
	name := "call"
	if f := core.CalleeFunc(info, call); f != nil {
		name = f.Name()
	}
	fail := func(pos token.Pos, w []string, format string, a ...interface{}) bool {
		c.Check(spec.Rule, spec.Key, pos, false, fmt.Sprintf(format, a...)+": "+spec.Consequence, w...)
		return false
	}
	path := core.PathTo(body, call)
	var outer ast.Expr = call
	var stmt ast.Stmt
	for i := len(path) - 2; i >= 0 && stmt == nil; i-- {
		switch x := path[i].(type) {
		case *ast.ParenExpr:
			outer = x
		case *ast.CallExpr: // conv(f()): the converter forwards the error
			if len(x.Args) == 1 && ast.Unparen(x.Args[0]) == ast.Unparen(outer) && LastIsError(info, x) {
				outer = x
			} else {
				c.Undecidedf(spec.Rule, spec.Key, call.Pos(), "result of %s is consumed by an enclosing call: not an enumerated idiom", name)
				return false
			}
		case ast.Stmt:
			stmt = x
		default:
			c.Undecidedf(spec.Rule, spec.Key, call.Pos(), "result of %s is used inside an expression: not an enumerated idiom", name)
			return false
		}
	}
	var errObj types.Object
	var as *ast.AssignStmt
	switch x := stmt.(type) {
	case *ast.ExprStmt:
		return fail(call.Pos(), nil, "the error returned by %s is discarded (call used as a statement)", name)
	case *ast.AssignStmt:
		if len(x.Rhs) != 1 || ast.Unparen(x.Rhs[0]) != ast.Unparen(outer) {
			c.Undecidedf(spec.Rule, spec.Key, call.Pos(), "assignment form around %s not recognised", name)
			return false
		}
		as = x
		last := x.Lhs[len(x.Lhs)-1]
		if id, ok := last.(*ast.Ident); ok && id.Name == "_" {
			if spec.BlankOK != nil {
				if why := spec.BlankOK(x); why != "" {
					c.Okf(spec.Rule, spec.Key, x.Pos(), "%s", why)
					return true
				}
			}
			return fail(x.Pos(), nil, "the error returned by %s is bound to `_`", name)
		}
		errObj = core.ObjOf(info, last)
	default:
		c.Undecidedf(spec.Rule, spec.Key, call.Pos(), "%s is called from a %T: not an enumerated idiom", name, stmt)
		return false
	}
	if errObj == nil || !cfgq.IsErrorType(errObj.Type()) {
		c.Undecidedf(spec.Rule, spec.Key, call.Pos(), "cannot identify the error variable bound from %s", name)
		return false
	}
	ap, ok := g.Find(as)
	if !ok {
		c.Undecidedf(spec.Rule, spec.Key, call.Pos(), "call site not in the control-flow graph")
		return false
	}
	spec.seen[as] = true
	isTest := func(n ast.Node) bool {
		e, ok := n.(ast.Expr)
		if !ok {
			return false
		}
		for _, f := range append(cfgq.Facts(e, true), cfgq.Facts(e, false)...) {
			if _, is := NilCmp(info, f, errObj); is {
				return true
			}
		}
		return false
	}
	// forwarders: `x, err = conv(reply, err)`
	var forwards []*ast.CallExpr
	isForward := func(n ast.Node) bool {
		x, ok := n.(*ast.AssignStmt)
		if !ok || x == as || len(x.Rhs) != 1 {
			return false
		}
		fc, ok := ast.Unparen(x.Rhs[0]).(*ast.CallExpr)
		if !ok || !LastIsError(info, fc) || len(fc.Args) == 0 || core.ObjOf(info, fc.Args[len(fc.Args)-1]) != errObj {
			return false
		}
		if !spec.seen[x] {
			spec.seen[x] = true
			forwards = append(forwards, fc)
		}
		return true
	}
	overwritten := func(n ast.Node) bool {
		x, _ := AssignsTo(info, n, errObj)
		return x != nil
	}
	w := g.Path(cfgq.Query{From: ap, After: true, Avoid: cfgq.Or(isTest, isForward), TargetExit: NormalExit,
		Target: func(n ast.Node) bool { return !isForward(n) && overwritten(n) }})
	if w != nil {
		return fail(as.Pos(), w, "the error returned by %s is not tested on some path", name)
	}
	// every edge establishing err != nil must end in a failure exit
	failure := func(n ast.Node) bool {
		if spec.Mark != nil && spec.Mark(n, errObj) {
			return true
		}
		if ret, ok := n.(*ast.ReturnStmt); ok && spec.RetOK && len(ret.Results) > 0 {
			last := ret.Results[len(ret.Results)-1]
			if tv, ok := info.Types[last]; ok && cfgq.IsErrorType(tv.Type) && !core.IsNil(info, last) {
				_, isCall := ast.Unparen(last).(*ast.CallExpr)
				return isCall || core.ObjOf(info, last) == errObj
			}
		}
		return false
	}
	tested := 0
	for _, b := range g.CFG.Blocks {
		if !b.Live || cfgq.CondOf(b) == nil || !isTest(cfgq.CondOf(b)) {
			continue
		}
		// only tests reached from this call (the variable may be reused)
		if g.Path(cfgq.Query{From: ap, After: true, Avoid: overwritten, Target: IsNode(cfgq.CondOf(b))}) == nil {
			continue
		}
		for s := range b.Succs {
			if !EdgeFact(g, b, s, func(f cfgq.Fact) bool { nn, is := NilCmp(info, f, errObj); return is && nn }) {
				continue
			}
			tested++
			w := g.Path(cfgq.Query{From: cfgq.Point{B: b.Succs[s]}, Avoid: failure, Target: IsNode(as), TargetExit: NormalExit})
			if w != nil {
				return fail(cfgq.CondOf(b).Pos(), w, "after %s failed (error non-nil) execution continues without a failure exit (no-return logger, error return, recorded worker error)", name)
			}
		}
	}
	if tested == 0 && len(forwards) == 0 {
		c.Undecidedf(spec.Rule, spec.Key, as.Pos(), "no branch establishing `err != nil` found for %s", name)
		return false
	}
	for _, fc := range forwards {
		if !ErrCheck(c, g, info, body, fc, spec) {
			return false
		}
	}
	if len(forwards) == 0 {
		c.Okf(spec.Rule, spec.Key, as.Pos(), "error of %s bound, tested, non-nil edge reaches a failure exit on every path", name)
	}
	return true
}

func LastIsError(info *types.Info, call *ast.CallExpr) bool {
	tv, ok := info.Types[call]
	if !ok {
		return false
	}
	if tup, ok := tv.Type.(*types.Tuple); ok {
		return tup.Len() > 0 && cfgq.IsErrorType(tup.At(tup.Len()-1).Type())
	}
	return cfgq.IsErrorType(tv.Type)
}

// ---------------------------------------------------------------------------
// R5 loader

// NormalExit is cfgq.NormalExit minus the successor-less "no case ready" block
// that go/cfg leaves behind a select statement without default (a blocking
// select never falls through).
func NormalExit(b *cfg.Block, k cfgq.ExitKind) bool {
	if b.Kind == cfg.KindSelectAfterCase && k == cfgq.ExitFall {
		return false
	}
	return cfgq.NormalExit(b, k)
}

// MustPass: every path from `from` to a normal exit passes a node satisfying pred.
func MustPass(g *cfgq.Graph, from cfgq.Point, after bool, pred func(ast.Node) bool) (bool, []string) {
	w := g.Path(cfgq.Query{From: from, After: after, Avoid: pred, TargetExit: NormalExit})
	return w == nil, w
}
