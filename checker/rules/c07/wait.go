// Wait loops and channel aliasing.
package c07

import (
	"go/ast"
	"go/token"
	"go/types"

	"golang.org/x/tools/go/cfg"

	"rscheck/cfgq"
	"rscheck/core"
)

// stable: constant, identifier or field-selector chain.
func stable(info *types.Info, e ast.Expr) bool {
	e = Strip(info, e)
	if _, ok := core.IntConst(info, e); ok {
		return true
	}
	switch x := e.(type) {
	case *ast.Ident:
		return true
	case *ast.SelectorExpr:
		return stable(info, x.X)
	case *ast.CallExpr: // len(x), cap(x)
		if b, ok := core.Callee(info, x).(*types.Builtin); ok && (b.Name() == "len" || b.Name() == "cap") {
			return stable(info, x.Args[0])
		}
	}
	return false
}

// WaitLoop checks that every normal exit of the function body (graph g) is
// preceded by a receive from channel `wait`, for the two idioms `for flag :=
// false; !flag; { select { case <-wait: flag = true ... } }` and an
// unconditional loop / plain receive.
func WaitLoop(c *core.Ctx, rule, key string, g *cfgq.Graph, body *ast.BlockStmt, info *types.Info, wait types.Object, consequence string) {
	isRecv := func(s ast.Stmt) bool {
		var e ast.Expr
		switch x := s.(type) {
		case *ast.ExprStmt:
			e = x.X
		case *ast.AssignStmt:
			if len(x.Rhs) == 1 {
				e = x.Rhs[0]
			}
		}
		u, ok := ast.Unparen(e).(*ast.UnaryExpr)
		return e != nil && ok && u.Op == token.ARROW && SameChan(info, body, Obj(info, u.X), wait)
	}
	comm := map[ast.Stmt]bool{}
	arms := map[*cfg.Block]bool{}
	plain := map[ast.Node]bool{}
	var first ast.Node
	core.Inspect(body, func(n ast.Node) bool {
		if cc, ok := n.(*ast.CommClause); ok && cc.Comm != nil {
			comm[cc.Comm] = true
			if isRecv(cc.Comm) {
				for _, b := range g.CFG.Blocks {
					if b.Kind == cfg.KindSelectCaseBody && b.Stmt == ast.Stmt(cc) {
						arms[b] = true
						first = cc
					}
				}
			}
		}
		return true
	})
	core.Inspect(body, func(n ast.Node) bool {
		if s, ok := n.(ast.Stmt); ok && !comm[s] && isRecv(s) {
			plain[s] = true
			first = s
		}
		return true
	})
	if first == nil {
		c.Undecidedf(rule, key, body.Pos(), "no receive from the done channel found in the function body")
		return
	}
	avoid := func(n ast.Node) bool { return plain[n] }
	armEdge := func(b *cfg.Block, s int) bool { return arms[b.Succs[s]] }
	// Boolean locals that can only be true after the receive ("done" flags, per-iteration or loop-carried):
	// declared false, only assigned constants, and every `= true` is reachable only through the receive.
	// An edge that establishes such a flag as true is therefore as good as the receive itself, whatever
	// the loop form (for !done {...}, for {...; if finished { break } }, done == false, switch ...).
	flags, opaque := map[types.Object]bool{}, false
	isBool := func(o types.Object) bool {
		v, ok := o.(*types.Var)
		if !ok || v.IsField() || !within(v, body) {
			return false
		}
		b, ok := v.Type().Underlying().(*types.Basic)
		return ok && b.Kind() == types.Bool
	}
	cands := map[types.Object]bool{}
	core.Inspect(body, func(n ast.Node) bool {
		if id, ok := n.(*ast.Ident); ok {
			if o := Obj(info, id); o != nil && isBool(o) {
				cands[o] = true
			}
		}
		return true
	})
	for o := range cands {
		valid, followed := true, true
		core.InspectAll(body, func(n ast.Node) bool {
			var rhs ast.Expr
			var at ast.Node
			switch x := n.(type) {
			case *ast.AssignStmt:
				if as, r := AssignsTo(info, x, o); as != nil {
					rhs, at = r, as
					if r == nil {
						valid, followed = false, false
					}
				}
			case *ast.ValueSpec:
				for i, id := range x.Names {
					if info.Defs[id] == o && i < len(x.Values) {
						rhs, at = x.Values[i], x
					}
				}
			case *ast.UnaryExpr:
				if x.Op == token.AND && Obj(info, x.X) == o {
					valid, followed = false, false
				}
			}
			if at == nil || rhs == nil {
				return true
			}
			tv, ok := info.Types[rhs]
			if !ok || tv.Value == nil {
				valid, followed = false, false
				return true
			}
			if tv.Value.String() != "true" {
				return true
			}
			p, found := g.Find(at)
			if !found || g.Path(cfgq.Query{From: g.Entry(), Avoid: avoid, AvoidEdge: armEdge, Target: IsNode(p.Node())}) != nil {
				valid = false
			}
			return true
		})
		if valid {
			flags[o] = true
		} else if !followed {
			opaque = true // assigned a computed value / address taken: its truth says nothing we can follow
		}
	}
	flagTrue := func(b *cfg.Block, s int) bool {
		return EdgeFact(g, b, s, func(f cfgq.Fact) bool {
			e := ast.Unparen(f.Expr)
			val := f.Val
			if be, ok := e.(*ast.BinaryExpr); ok && (be.Op == token.EQL || be.Op == token.NEQ) {
				x, y := be.X, be.Y
				if tv, ok := info.Types[x]; ok && tv.Value != nil {
					x, y = y, x
				}
				tv, ok := info.Types[y]
				if !ok || tv.Value == nil {
					return false
				}
				e, val = ast.Unparen(x), ((tv.Value.String() == "true") == (be.Op == token.EQL)) == f.Val
			}
			return val && flags[Obj(info, e)]
		})
	}
	w := g.Path(cfgq.Query{From: g.Entry(), Avoid: avoid, TargetExit: NormalExit,
		AvoidEdge: func(b *cfg.Block, s int) bool { return armEdge(b, s) || flagTrue(b, s) }})
	switch {
	case w == nil:
		c.Okf(rule, key, first.Pos(), "every return is preceded by a receive from the done channel (directly or through a flag that only the receive sets)")
	case opaque:
		c.Undecidedf(rule, key, first.Pos(), "a return seems reachable without the receive, but a boolean local of the function is assigned in a way that is not followed")
	default:
		c.Check(rule, key, first.Pos(), false, "a return is reachable without having received from the done channel (no `<-done` on the path, and no flag that only the receive sets was read as true): "+consequence, w...)
	}
}

// SameChan: a and b are channel variables that denote the same channel: equal, or linked by plain copies
// (`x = y`, `x := y`) between variables that are each assigned from at most one other variable.
func SameChan(info *types.Info, body ast.Node, a, b types.Object) bool {
	if a == nil || b == nil {
		return false
	}
	if a == b {
		return true
	}
	from := map[types.Object][]types.Object{}
	core.InspectAll(body, func(n ast.Node) bool {
		link := func(l, r ast.Expr) {
			lo, ro := core.ObjOf(info, l), core.ObjOf(info, r)
			if lo == nil || ro == nil || lo == ro {
				return
			}
			if _, isChan := lo.Type().Underlying().(*types.Chan); isChan {
				from[lo] = append(from[lo], ro)
			}
		}
		switch x := n.(type) {
		case *ast.AssignStmt:
			if len(x.Lhs) == len(x.Rhs) {
				for i := range x.Lhs {
					if _, isID := ast.Unparen(x.Rhs[i]).(*ast.Ident); isID {
						link(x.Lhs[i], x.Rhs[i])
					} else if lo := core.ObjOf(info, x.Lhs[i]); lo != nil {
						from[lo] = append(from[lo], nil) // assigned something else too
					}
				}
			}
		case *ast.ValueSpec:
			for i, nm := range x.Names {
				if i < len(x.Values) {
					if _, isID := ast.Unparen(x.Values[i]).(*ast.Ident); isID {
						link(nm, x.Values[i])
					}
				}
			}
		}
		return true
	})
	root := func(o types.Object) types.Object {
		for i := 0; i < 8; i++ {
			f := from[o]
			if len(f) != 1 || f[0] == nil {
				return o
			}
			o = f[0]
		}
		return o
	}
	return root(a) == root(b)
}
