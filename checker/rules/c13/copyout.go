package c13

import (
	"fmt"
	"go/ast"
	"go/token"
	"go/types"
	"strings"

	"rscheck/core"
	"rscheck/pat"
)

// The copy-out phase of the interpreter (everything behind the key loop) is
// not matched by shape but interpreted: integer locals are polynomials, loops
// are summarised through their induction variables (a variable that grows by a
// loop-invariant amount per iteration, however it is spelled: counter, running
// write cursor, index arithmetic), and every store new[D] = args[S] is recorded
// with D, S and the ranges of the loop variables around it. "@a" stands for the
// position of the a-th kept key (arr[a], or the value of `range arr[:num]`).

type span struct {
	sym    string
	lo, hi poly
}

type store struct {
	node     ast.Node
	dst, src poly
	ctx      []span
}

type copyOut struct {
	stores  []store
	alloc   poly
	allocAt ast.Node
	und     []string
}

type outRun struct {
	it     *interp
	ev     *evaluator
	newObj types.Object
	ctx    []span
	dry    int
	nsym   int
	co     *copyOut
}

func (r *outRun) undf(n ast.Node, f string, a ...interface{}) {
	if r.dry == 0 {
		r.co.und = append(r.co.und, fmt.Sprintf(f, a...)+" ("+r.it.c.Src(n)+")")
	}
}

func (r *outRun) fresh() string {
	r.nsym++
	return fmt.Sprintf("i%d", r.nsym)
}

// runCopyOut interprets the statements behind the key loop in environment ev.
func (it *interp) runCopyOut(ev *evaluator) *copyOut {
	r := &outRun{it: it, ev: ev, co: &copyOut{}}
	sig := it.fn.Obj.Type().(*types.Signature)
	if sig.Results().Len() > 0 && sig.Results().At(0).Name() != "" {
		r.newObj = sig.Results().At(0)
	} else {
		core.Inspect(it.fn.Decl.Body, func(n ast.Node) bool {
			if ret, ok := n.(*ast.ReturnStmt); ok && len(ret.Results) > 0 {
				if o := objOf(it.info, ret.Results[0]); o != nil {
					r.newObj = o
				}
			}
			return true
		})
	}
	// the vector may be built under another name and handed over by a plain copy
	// (`out := make(...); ...; result = out`): the slice header is copied, the
	// elements are shared, so the name that is filled stands for the result
	r.newObj = copySource(it.info, it.fn.Decl.Body, r.newObj)
	if r.newObj == nil {
		r.co.und = append(r.co.und, "cannot tell which slice is the rebuilt vector")
		return r.co
	}
	r.stmts(it.after)
	return r.co
}

func (r *outRun) stmts(list []ast.Stmt) {
	info := r.it.info
	for _, s := range list {
		switch st := s.(type) {
		case *ast.AssignStmt:
			if len(st.Lhs) > 1 && len(st.Lhs) == len(st.Rhs) && independent(info, st) {
				// a, b := x, y with no right-hand side reading a or b: two assignments
				for i := range st.Lhs {
					r.stmts([]ast.Stmt{&ast.AssignStmt{Lhs: st.Lhs[i : i+1], TokPos: st.TokPos, Tok: st.Tok, Rhs: st.Rhs[i : i+1]}})
				}
				continue
			}
			if len(st.Lhs) == 1 && len(st.Rhs) == 1 {
				if ie, ok := ast.Unparen(st.Lhs[0]).(*ast.IndexExpr); ok && objOf(info, ie.X) == r.newObj {
					se, isIdx := strip(info, st.Rhs[0]).(*ast.IndexExpr)
					if !isIdx || objOf(info, se.X) != r.ev.args || st.Tok != token.ASSIGN {
						r.undf(st, "an element of the rebuilt vector is not taken from args")
						continue
					}
					d, ok1 := r.ev.eval(ie.Index)
					sx, ok2 := r.ev.eval(se.Index)
					if !ok1 || !ok2 {
						r.undf(st, "cannot evaluate the positions of a copy")
						continue
					}
					if r.dry == 0 {
						r.co.stores = append(r.co.stores, store{node: st, dst: d, src: sx, ctx: append([]span{}, r.ctx...)})
					}
					continue
				}
				if objOf(info, st.Lhs[0]) == r.newObj {
					if b := pat.Expr("make(_t, _len)").Match(info, st.Rhs[0], nil); b != nil {
						if p, ok := r.ev.eval(b["_len"].(ast.Expr)); ok {
							if r.dry == 0 {
								r.co.alloc, r.co.allocAt = p, b["_len"]
							}
						} else {
							r.undf(st, "cannot evaluate the allocated length")
						}
					} else {
						r.undf(st, "the rebuilt vector is assigned something else than make(T, length)")
					}
					continue
				}
			}
			r.ev.exec([]ast.Stmt{st})
		case *ast.ExprStmt:
			call, ok := ast.Unparen(st.X).(*ast.CallExpr)
			if b, isB := core.Callee(info, orCall13(call)).(*types.Builtin); ok && isB && b.Name() == "copy" && len(call.Args) == 2 {
				r.copyCall(st, call)
			}
		case *ast.ForStmt:
			v, init, bound, op, step, ok := forHeader(info, st)
			body := st.Body.List
			if !ok {
				// several variables in the clauses: the one the condition tests counts the
				// iterations, the others are set up before the loop and advanced at the end
				// of each iteration like any other induction variable
				var pre, post ast.Stmt
				if v, init, bound, op, pre, post, ok = splitHeader(info, st); ok {
					step = nil
					if pre != nil {
						r.ev.exec([]ast.Stmt{pre})
					}
					if post != nil {
						body = append(append([]ast.Stmt{}, body...), post)
					}
				}
			}
			lo, ok1 := r.ev.eval(orExpr(init))
			hi, ok2 := r.ev.eval(orExpr(bound))
			if !ok || step != nil || !ok1 || !ok2 || objOf(info, v) == nil {
				r.undf(st, "loop header is not `for v := lo; v < hi; v++` with evaluable bounds")
				continue
			}
			if op == token.LEQ {
				hi = hi.add(konst(1), 1)
			}
			name := r.fresh()
			vo := objOf(info, v)
			r.loop(name, lo, hi, body, func() { r.ev.env[vo] = sym(name) }, vo)
		case *ast.RangeStmt:
			over := r.it.isArr(st.X) && r.it.appended
			if r.it.num != nil {
				if b := pat.Expr("_arr[:_num]").Match(info, st.X, pat.Binds{"_num": r.it.num}); b != nil && r.it.isArr(b["_arr"].(ast.Expr)) {
					over = true
				}
			}
			if !over {
				r.undf(st, "range over something else than the kept positions")
				continue
			}
			name := r.fresh()
			ko, vo := objOf(info, st.Key), objOf(info, st.Value)
			r.loop(name, konst(0), sym("k"), st.Body.List, func() {
				if ko != nil {
					r.ev.env[ko] = sym(name)
				}
				if vo != nil {
					r.ev.env[vo] = sym("@" + name)
				}
			}, ko, vo)
		case *ast.IfStmt:
			if st.Init != nil {
				r.stmts([]ast.Stmt{st.Init})
			}
			if v, ok := r.ev.cond(st.Cond); ok {
				if !v && st.Else == nil && r.dry == 0 {
					// a guard that is false for this row (`if rest := len(args) - tail; rest > 0 { copy loop }`):
					// the body does not run; a copy loop inside it that would make zero trips anyway is
					// still recorded, as the empty range it stands for, so that an empty tail is a tail
					saved := map[types.Object]poly{}
					for o, p := range r.ev.env {
						saved[o] = p
					}
					n0 := len(r.co.stores)
					und0 := len(r.co.und)
					r.stmts(st.Body.List)
					kept := r.co.stores[:n0:n0]
					for _, stv := range r.co.stores[n0:] {
						if len(stv.ctx) > 0 {
							z := stv.ctx[len(stv.ctx)-1]
							if d, isC := z.hi.add(z.lo, -1).isConst(); isC && d <= 0 {
								kept = append(kept, stv)
							}
						}
					}
					r.co.stores = kept
					r.co.und = r.co.und[:und0]
					for o := range r.ev.env {
						delete(r.ev.env, o)
					}
					for o, p := range saved {
						r.ev.env[o] = p
					}
					continue
				}
				if v {
					r.stmts(st.Body.List)
				} else if eb, ok := st.Else.(*ast.BlockStmt); ok {
					r.stmts(eb.List)
				} else if st.Else != nil {
					r.stmts([]ast.Stmt{st.Else})
				}
				continue
			}
			if st.Else != nil {
				r.undf(st, "if/else on a condition that cannot be decided symbolically")
				continue
			}
			// a guard such as `if number > 0 { copy loops }`: with the condition
			// false the loops inside would not iterate anyway; integer locals
			// changed inside become unknown afterwards
			before := map[types.Object]poly{}
			for o, p := range r.ev.env {
				before[o] = p
			}
			r.stmts(st.Body.List)
			for o, p := range before {
				if q, ok := r.ev.env[o]; !ok || !q.eq(p) {
					r.ev.env[o] = sym("$" + o.Name())
				}
			}
		case *ast.BlockStmt:
			r.stmts(st.List)
		case *ast.ReturnStmt, *ast.EmptyStmt:
		case *ast.DeclStmt, *ast.IncDecStmt:
			r.ev.exec([]ast.Stmt{st})
		default:
			r.undf(st, "statement kind %T in the copy-out phase", st)
		}
	}
}

// splitHeader reads `for v, w := lo, x; v < hi; v, w = v+1, f(w)`: the variable
// the condition tests (v, advancing by one) and, as separate statements, the
// initialisation and the per-iteration update of the remaining variables.
func splitHeader(info *types.Info, f *ast.ForStmt) (v, init, bound ast.Expr, op token.Token, pre, post ast.Stmt, ok bool) {
	if f.Init == nil || f.Post == nil || f.Cond == nil {
		return
	}
	as, isAs := f.Init.(*ast.AssignStmt)
	cb, isBin := ast.Unparen(f.Cond).(*ast.BinaryExpr)
	if !isAs || !isBin || len(as.Lhs) != len(as.Rhs) || as.Tok != token.DEFINE && as.Tok != token.ASSIGN {
		return
	}
	var vo types.Object
	switch cb.Op {
	case token.LSS, token.LEQ:
		vo, bound, op = objOf(info, cb.X), cb.Y, cb.Op
	case token.GTR, token.GEQ:
		vo, bound, op = objOf(info, cb.Y), cb.X, map[token.Token]token.Token{token.GEQ: token.LEQ, token.GTR: token.LSS}[cb.Op]
	}
	if vo == nil {
		return
	}
	preAs := &ast.AssignStmt{Tok: as.Tok, TokPos: as.TokPos}
	for i, l := range as.Lhs {
		if objOf(info, l) == vo {
			v, init = l, as.Rhs[i]
		} else {
			preAs.Lhs, preAs.Rhs = append(preAs.Lhs, l), append(preAs.Rhs, as.Rhs[i])
		}
	}
	if v == nil {
		return
	}
	bd := pat.Binds{"_i": v}
	unit := func(st ast.Stmt) bool {
		return pat.Stmt("_i++").Match(info, st, bd) != nil || pat.Stmt("_i += 1").Match(info, st, bd) != nil || pat.Stmt("_i = _i + 1").Match(info, st, bd) != nil
	}
	advanced := false
	postAs := &ast.AssignStmt{Tok: token.ASSIGN}
	switch p := f.Post.(type) {
	case *ast.AssignStmt:
		if len(p.Lhs) == 1 {
			if advanced = unit(p); !advanced {
				return
			}
			break
		}
		if len(p.Lhs) != len(p.Rhs) || p.Tok != token.ASSIGN {
			return
		}
		postAs.TokPos = p.TokPos
		assigned := map[types.Object]bool{}
		for _, l := range p.Lhs {
			if o := objOf(info, l); o != nil {
				assigned[o] = true
			} else {
				return
			}
		}
		for i, l := range p.Lhs {
			if objOf(info, l) == vo {
				advanced = unit(&ast.AssignStmt{Lhs: []ast.Expr{l}, Tok: token.ASSIGN, Rhs: []ast.Expr{p.Rhs[i]}})
				continue
			}
			// the values on the right are those before the update: only the variable itself may occur
			clash := false
			ast.Inspect(p.Rhs[i], func(n ast.Node) bool {
				if id, isId := n.(*ast.Ident); isId {
					if o := info.Uses[id]; o != nil && assigned[o] && o != objOf(info, l) && o != vo {
						clash = true
					}
				}
				return true
			})
			if clash {
				return
			}
			postAs.Lhs, postAs.Rhs = append(postAs.Lhs, l), append(postAs.Rhs, p.Rhs[i])
		}
	case *ast.IncDecStmt:
		advanced = unit(p)
	default:
		return
	}
	if !advanced {
		return
	}
	if len(preAs.Lhs) > 0 {
		pre = preAs
	}
	if len(postAs.Lhs) > 0 {
		post = postAs
	}
	return v, init, bound, op, pre, post, true
}

// independent: no right-hand side of the parallel assignment mentions a variable it assigns.
func independent(info *types.Info, as *ast.AssignStmt) bool {
	assigned := map[types.Object]bool{}
	for _, l := range as.Lhs {
		if o := objOf(info, l); o != nil {
			assigned[o] = true
		} else if id, isId := ast.Unparen(l).(*ast.Ident); !isId || id.Name != "_" {
			return false
		}
	}
	ok := true
	for _, r := range as.Rhs {
		ast.Inspect(r, func(n ast.Node) bool {
			if id, isId := n.(*ast.Ident); isId && assigned[info.Uses[id]] {
				ok = false
			}
			return true
		})
	}
	return ok
}

func orCall13(c *ast.CallExpr) *ast.CallExpr {
	if c == nil {
		return &ast.CallExpr{Fun: &ast.Ident{Name: "_"}}
	}
	return c
}

func orExpr(e ast.Expr) ast.Expr {
	if e == nil {
		return &ast.Ident{Name: "_"}
	}
	return e
}

// copyCall records copy(new[x:...], args[y:z]) as stores c in [0, z-y): new[x+c] = args[y+c].
func (r *outRun) copyCall(st ast.Stmt, call *ast.CallExpr) {
	info := r.it.info
	part := func(e ast.Expr, base types.Object, dfltHi poly) (lo, hi poly, ok bool) {
		e = ast.Unparen(e)
		if objOf(info, e) == base && base != nil {
			return konst(0), dfltHi, dfltHi != nil
		}
		se, isSl := e.(*ast.SliceExpr)
		if !isSl || objOf(info, se.X) != base || se.Max != nil {
			return nil, nil, false
		}
		lo, hi = konst(0), dfltHi
		ok = true
		if se.Low != nil {
			lo, ok = r.ev.eval(se.Low)
		}
		if se.High != nil && ok {
			hi, ok = r.ev.eval(se.High)
		}
		return lo, hi, ok
	}
	slo, shi, ok1 := part(call.Args[1], r.ev.args, sym("n"))
	if !ok1 || shi == nil {
		if objOf(info, ast.Unparen(call.Args[0])) == r.newObj || mentionsObj(info, call.Args[0], r.newObj) {
			r.undf(st, "copy into the rebuilt vector from something else than a slice of args")
		}
		return
	}
	dlo, dhi, ok2 := part(call.Args[0], r.newObj, poly{"": 0}.norm())
	if !ok2 {
		r.undf(st, "copy of args into something else than the rebuilt vector")
		return
	}
	count := shi.add(slo, -1)
	if dhi != nil && len(dhi) > 0 && !dhi.add(dlo, -1).eq(count) {
		if se, isSl := ast.Unparen(call.Args[0]).(*ast.SliceExpr); isSl && se.High != nil {
			r.undf(st, "copy whose destination and source windows differ in length")
			return
		}
	}
	if r.dry == 0 {
		name := r.fresh()
		ctx := append(append([]span{}, r.ctx...), span{name, konst(0), count})
		r.co.stores = append(r.co.stores, store{node: st, dst: dlo.add(sym(name), 1), src: slo.add(sym(name), 1), ctx: ctx})
	}
}

// loop interprets `for name in [lo,hi)` around body.
func (r *outRun) loop(name string, lo, hi poly, body []ast.Stmt, bind func(), loopVars ...types.Object) {
	info := r.it.info
	isLoopVar := func(o types.Object) bool {
		for _, v := range loopVars {
			if v == o && o != nil {
				return true
			}
		}
		return false
	}
	// tracked integer locals assigned in the body
	var assigned []types.Object
	seen := map[types.Object]bool{}
	for _, s := range body {
		ast.Inspect(s, func(n ast.Node) bool {
			var lhs []ast.Expr
			switch a := n.(type) {
			case *ast.AssignStmt:
				if a.Tok != token.DEFINE {
					lhs = a.Lhs
				}
			case *ast.IncDecStmt:
				lhs = []ast.Expr{a.X}
			}
			for _, l := range lhs {
				o := objOf(info, l)
				if _, tracked := r.ev.env[o]; tracked && o != nil && !seen[o] && !isLoopVar(o) {
					seen[o] = true
					assigned = append(assigned, o)
				}
			}
			return true
		})
	}
	saved := map[types.Object]poly{}
	for o, p := range r.ev.env {
		saved[o] = p
	}
	restore := func() {
		for o := range r.ev.env {
			delete(r.ev.env, o)
		}
		for o, p := range saved {
			r.ev.env[o] = p
		}
	}
	// dry run: how much does each of them grow per iteration?
	delta := map[types.Object]poly{}
	for i, o := range assigned {
		r.ev.env[o] = sym(fmt.Sprintf("$%d", i))
	}
	bind()
	r.dry++
	r.stmts(body)
	r.dry--
	for i, o := range assigned {
		p, ok := r.ev.env[o]
		var d poly
		if ok {
			d = p.add(sym(fmt.Sprintf("$%d", i)), -1)
			for m := range d {
				if strings.Contains(m, "$") || hasFactor(m, name) || hasFactor(m, "@"+name) {
					ok = false
				}
			}
		}
		if !ok {
			r.undf(body[0], "local %s does not change by a loop-invariant amount per iteration", o.Name())
			d = nil
		}
		delta[o] = d
	}
	restore()
	// real run at iteration `name`
	it := sym(name).add(lo, -1)
	for _, o := range assigned {
		if delta[o] == nil {
			r.ev.env[o] = sym("$" + o.Name())
		} else {
			r.ev.env[o] = saved[o].add(it.mul(delta[o]), 1)
		}
	}
	bind()
	r.ctx = append(r.ctx, span{name, lo, hi})
	r.stmts(body)
	r.ctx = r.ctx[:len(r.ctx)-1]
	// after the loop
	locals := map[types.Object]poly{}
	for o, p := range r.ev.env {
		if _, had := saved[o]; !had && !isLoopVar(o) {
			locals[o] = p
		}
	}
	restore()
	trips := hi.add(lo, -1)
	for _, o := range assigned {
		if delta[o] == nil {
			r.ev.env[o] = sym("$" + o.Name())
		} else {
			r.ev.env[o] = saved[o].add(trips.mul(delta[o]), 1)
		}
	}
	for _, v := range loopVars {
		if v != nil {
			delete(r.ev.env, v)
		}
	}
	_ = locals
}

func hasFactor(mono, s string) bool {
	for _, f := range strings.Split(mono, "*") {
		if f == s {
			return true
		}
	}
	return false
}

// layout is what the recorded stores say about the rebuilt vector.
type layout struct {
	grp, tail *store
	P, C, T   poly
	LEN       poly
	lenAt     ast.Node
}

func singleSym(p poly) (string, bool) {
	if len(p) != 1 {
		return "", false
	}
	for m, c := range p {
		if c == 1 && m != "" && !strings.Contains(m, "*") {
			return m, true
		}
	}
	return "", false
}

func spanOf(ctx []span, name string) *span {
	for i := range ctx {
		if ctx[i].sym == name {
			return &ctx[i]
		}
	}
	return nil
}

// classify reads prefix, kept groups and tail off the stores; why != "" when
// the copy-out phase could not be followed or has an unexpected structure.
func (co *copyOut) classify() (lay layout, why string) {
	if len(co.und) > 0 {
		return lay, co.und[0]
	}
	if co.alloc == nil {
		return lay, "no allocation `new = make(T, length)` of the rebuilt vector"
	}
	lay.LEN, lay.lenAt, lay.P = co.alloc, co.allocAt, konst(0)
	prefixes := 0
	for i := range co.stores {
		st := &co.stores[i]
		at := ""
		for m := range st.src {
			for _, f := range strings.Split(m, "*") {
				if strings.HasPrefix(f, "@") {
					at = f
				}
			}
		}
		switch {
		case at != "": // a kept group: src = @a + b
			if lay.grp != nil {
				return lay, "more than one copy of kept key groups"
			}
			a := spanOf(st.ctx, at[1:])
			if a == nil || st.src[at] != 1 {
				return lay, "kept key position used outside the loop over the kept keys"
			}
			if _, z := a.lo.isConst(); !z || len(a.lo) != 0 || !a.hi.eq(sym("k")) {
				return lay, "the loop over the kept keys does not run over all of them"
			}
			rest := st.src.add(sym(at), -1)
			if len(rest) == 0 {
				lay.C = konst(1)
			} else if b, ok := singleSym(rest); ok && spanOf(st.ctx, b) != nil && len(spanOf(st.ctx, b).lo) == 0 {
				lay.C = spanOf(st.ctx, b).hi
			} else {
				return lay, "a kept key is not copied as args[position + 0..size)"
			}
			lay.grp = st
		default:
			// src = base + z for the innermost loop variable z in [lo, hi): it runs over args[srcLo, srcHi)
			if len(st.ctx) == 0 {
				return lay, "a copy from args outside any loop"
			}
			z := st.ctx[len(st.ctx)-1]
			if st.src[z.sym] != 1 {
				return lay, "a copy from args whose source position does not advance with the loop"
			}
			srcLo, srcHi := substSym(st.src, z.sym, z.lo), substSym(st.src, z.sym, z.hi)
			if mentionsSym(srcLo, z.sym) || mentionsSym(srcHi, z.sym) {
				return lay, "a copy from args whose source position is not linear in the loop variable"
			}
			switch {
			case srcHi.eq(sym("n")) && !(len(srcLo) == 0 && st.dst.eq(st.src)): // tail: args[T, len(args))
				if lay.tail != nil {
					return lay, "more than one tail copy"
				}
				lay.tail, lay.T = st, srcLo
			case len(srcLo) == 0 && st.dst.eq(st.src): // prefix: new[p] = args[p], p in [0, P)
				lay.P = srcHi
				prefixes++
			default:
				return lay, "a copy from args that is neither prefix, kept group nor tail"
			}
		}
	}
	if lay.grp == nil {
		return lay, "no copy of the kept key groups found"
	}
	if lay.tail == nil {
		return lay, "no copy of the arguments behind the last key found"
	}
	if prefixes > 1 {
		return lay, "more than one prefix copy"
	}
	return lay, ""
}

// symbols of a store, renamed for messages: group loop a, element b, tail t
func (lay layout) rename(p poly, st *store) poly {
	if st == nil {
		return p
	}
	out := poly{}
	for m, c := range p {
		fs := strings.Split(m, "*")
		for i, f := range fs {
			for j, sp := range st.ctx {
				if f == sp.sym {
					if st == lay.tail {
						fs[i] = "t"
					} else if j == 0 || len(st.ctx) == 1 {
						fs[i] = "a"
					} else {
						fs[i] = "b"
					}
				}
			}
		}
		out[strings.Join(fs, "*")] += c
	}
	return out.norm()
}

func mentionsSym(p poly, s string) bool {
	for m := range p {
		if hasFactor(m, s) {
			return true
		}
	}
	return false
}

// substSym replaces the symbol s by val in p.
func substSym(p poly, s string, val poly) poly {
	out := poly{}
	for m, c := range p {
		fs := []string{}
		if m != "" {
			fs = strings.Split(m, "*")
		}
		term := konst(c)
		for _, f := range fs {
			if f == s {
				term = term.mul(val)
			} else {
				term = term.mul(sym(f))
			}
		}
		out = out.add(term, 1)
	}
	return out.norm()
}
