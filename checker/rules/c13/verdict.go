package c13

import (
	"fmt"
	"go/ast"
	"go/types"
	"golang.org/x/tools/go/cfg"
	"rscheck/cfgq"
	"rscheck/core"
	"rscheck/pat"
	"sort"
	"strings"
)

// singleKeyShortcut judges a return that hands back the UNCHANGED vector with a
// verdict computed from one key (`return argv, FilterKey(string(argv[first-1]))`):
// that is right only for table rows with exactly one key. The guard of the
// return is evaluated for every row of the table; a row that reaches the return
// although Redis gives the command several key positions is a definite defect
// (the other keys are never looked at and are forwarded even when filtered).
func singleKeyShortcut(c *core.Ctx, it *interp, wrap, fkey *core.Fn, wg *cfgq.Graph, p cfgq.Point, lookup *ast.AssignStmt, argvParam types.Object, entries []entry,
	listLen func(map[string]int64, int64) func(ast.Expr) (int64, bool)) bool {
	winfo := wrap.Pkg.TypesInfo
	r := p.Node().(*ast.ReturnStmt)
	call, sense, ok := polarity(winfo, wrap.Decl.Body, r.Results[1], fkey.Obj, 0)
	if !ok || call == nil || len(call.Args) != 1 || len(entries) == 0 {
		return false
	}
	arg := strip(winfo, call.Args[0])
	if d := singleDef(winfo, wrap.Decl.Body, objOf(winfo, arg)); d != nil {
		arg = strip(winfo, d)
	}
	ie, isIdx := arg.(*ast.IndexExpr)
	if !isIdx || objOf(winfo, ie.X) != argvParam {
		return false
	}
	key := "HandleFilterKeyWithCommand/returns/single-key-shortcut"
	nodeObj, okObj := objOf(winfo, lookup.Lhs[0]), objOf(winfo, lookup.Lhs[1])
	isRet := func(n ast.Node) bool { return n == ast.Node(r) }
	var multi, unknown, wrongKey []string
	reach := 0
	for _, e := range entries {
		sp, known := redis50[e.name]
		if !e.ok || !known {
			unknown = append(unknown, e.name)
			continue
		}
		row := e.v
		as := &assumption{c: c, info: winfo, pkg: wrap.Obj.Pkg(), body: wrap.Decl.Body,
			bools: map[types.Object]bool{okObj: true}, lenOf: listLen(map[string]int64{"FilterKeyBlacklist": 1}, 0),
			field: func(sel *ast.SelectorExpr) (int64, bool) {
				if o := objOf(winfo, sel.X); o == nil || copySource(winfo, wrap.Decl.Body, o) != nodeObj {
					return 0, false
				}
				for i, fname := range it.fnames {
					if sel.Sel.Name == fname {
						return row[i], true
					}
				}
				return 0, false
			}}
		taken := as.decidedPath(wg, isRet, nil) != nil
		never, _ := as.unreachableUnder(wg, p)
		switch {
		case taken:
			reach++
			if sp.first != sp.last {
				multi = append(multi, fmt.Sprintf("%s (Redis: keys from %d to %d)", e.name, sp.first, sp.last))
			} else if idx, okI := as.intOf(ie.Index, nil, 0); !okI || idx != row[0]-1 {
				wrongKey = append(wrongKey, e.name)
			}
		case never:
		default:
			unknown = append(unknown, e.name)
		}
	}
	sort.Strings(multi)
	switch {
	case len(multi) > 0:
		c.Check("R4.verdict", key, r.Pos(), false, fmt.Sprintf("this return forwards the UNCHANGED argument vector with a verdict computed from one key (%s), and its guard also holds for table rows of commands with several keys: %s: when the tested key passes, the other key is forwarded although the filter rejects it (and a command whose first key is filtered is dropped although another key passes)", c.Src(call), strings.Join(multi, ", ")))
	case len(unknown) > 0 || len(wrongKey) > 0 || reach == 0:
		c.Undecidedf("R4.verdict", key, r.Pos(), "cannot evaluate the guard of this return for every table row (undecided: %d rows, key position not the row's first key: %d rows, rows reaching it: %d)", len(unknown), len(wrongKey), reach)
	case !sense:
		c.Check("R4.verdict", key, r.Pos(), false, "the shortcut returns !FilterKey(key) as the reject verdict: single-key commands whose key passes are dropped and filtered ones forwarded")
	default:
		c.Okf("R4.verdict", key, r.Pos(), "the shortcut is taken only for the %d table rows with exactly one key, whose verdict is FilterKey of that key", reach)
	}
	return true
}

// passVerdict: the interpreter's second result is true iff at least one key passed.
func passVerdict(c *core.Ctx, it *interp, g *cfgq.Graph, kept func(cfgq.Fact) bool) {
	info, gmk := it.info, it.fn
	res := gmk.Obj.Type().(*types.Signature).Results()
	key := "getMatchKeys/pass-iff-some-key-kept"
	if res.Len() != 2 {
		c.Undecidedf("R4.verdict", key, gmk.Decl.Pos(), "getMatchKeys does not return (vector, pass)")
		return
	}
	bd := pat.Binds{"_num": it.num}
	type pv struct {
		p   string
		val bool
	}
	some := func(f cfgq.Fact) bool {
		for _, x := range []pv{{"_num > 0", true}, {"_num != 0", true}, {"_num >= 1", true}, {"_num == 0", false}, {"_num <= 0", false}, {"_num < 1", false}} {
			if x.val == f.Val && pat.Expr(x.p).Match(info, f.Expr, bd) != nil {
				return true
			}
		}
		return false
	}
	none := func(f cfgq.Fact) bool {
		for _, x := range []pv{{"_num > 0", false}, {"_num != 0", false}, {"_num >= 1", false}, {"_num == 0", true}, {"_num <= 0", true}, {"_num < 1", true}} {
			if x.val == f.Val && pat.Expr(x.p).Match(info, f.Expr, bd) != nil {
				return true
			}
		}
		return false
	}
	direct := func(e ast.Expr) (ok, good bool) { // pass = num > 0
		for _, p := range []string{"_num > 0", "_num != 0", "_num >= 1"} {
			if pat.Expr(p).Match(info, e, bd) != nil {
				return true, true
			}
		}
		for _, p := range []string{"_num == 0", "_num <= 0", "_num < 1", "_num > 1", "_num >= 0"} {
			if pat.Expr(p).Match(info, e, bd) != nil {
				return true, false
			}
		}
		return false, false
	}
	passObj := types.Object(res.At(1))
	named := res.At(1).Name() != ""
	var exprs []ast.Expr // expressions that define the verdict
	var pts []cfgq.Point
	for _, p := range g.Points(func(n ast.Node) bool {
		switch s := n.(type) {
		case *ast.AssignStmt:
			for _, l := range s.Lhs {
				if named && objOf(info, l) == passObj {
					return true
				}
			}
		case *ast.ReturnStmt:
			return len(s.Results) == 2
		}
		return false
	}) {
		switch s := p.Node().(type) {
		case *ast.AssignStmt:
			for i, l := range s.Lhs {
				if objOf(info, l) == passObj {
					exprs, pts = append(exprs, core.AssignedTo(s, i)), append(pts, p)
				}
			}
		case *ast.ReturnStmt:
			if !(named && objOf(info, s.Results[1]) == passObj) {
				exprs, pts = append(exprs, s.Results[1]), append(pts, p)
			}
		}
	}
	if len(exprs) == 0 {
		c.Undecidedf("R4.verdict", key, gmk.Decl.Pos(), "cannot find where the pass verdict is computed")
		return
	}
	numObj := objOf(info, it.num)
	if numObj == nil { // the number of kept keys is spelled len(arr)
		numObj = objOf(info, it.arr)
		if e, isExpr := it.num.(ast.Expr); isExpr && e != nil {
			if b := pat.Expr("len(_arr)").Match(info, e, nil); b != nil && it.isArr(b["_arr"].(ast.Expr)) {
				numObj = objOf(info, b["_arr"].(ast.Expr))
			}
		}
	}
	for i, e := range exprs {
		p := pts[i]
		pos := p.Node().Pos()
		if e == nil {
			c.Undecidedf("R4.verdict", key, pos, "unrecognised verdict assignment")
			continue
		}
		if v, isC := boolConst(info, e); isC {
			if !v {
				c.Okf("R4.verdict", key+"/init-false", pos, "verdict initialised to false")
				continue
			}
			okSome, _ := onlyVia(g, p, some)
			okKept, _ := onlyVia(g, p, kept)
			okNone, wn := onlyVia(g, p, none)
			// reachable without ever keeping a key and without consulting the counter?
			free := g.Path(cfgq.Query{From: g.Entry(), Target: func(n ast.Node) bool { return n == p.Node() },
				AvoidEdge: func(b *cfg.Block, s int) bool {
					cond := cfgq.CondOf(b)
					return cond != nil && mentionsObj(info, cond, numObj) || edgeHas(g, b, s, kept)
				}})
			switch {
			case okSome || okKept:
				c.Okf("R4.verdict", key+"/true-only-if-kept", pos, "verdict set to true only when at least one key was kept")
			case okNone:
				c.Check("R4.verdict", key+"/true-only-if-kept", pos, false, "the verdict is set to true exactly when NO key passed: commands whose keys all fail the filter are forwarded (with no keys), the others dropped", wn...)
			case free != nil:
				c.Check("R4.verdict", key+"/true-only-if-kept", pos, false, "the verdict is set to true on a path that neither kept a key nor consulted the number of kept keys: a command none of whose keys passes the filter is forwarded (e.g. `DEL k` with k blacklisted is sent as `DEL`)", free...)
			default:
				c.Undecidedf("R4.verdict", key+"/true-only-if-kept", pos, "cannot see that the verdict is true only when a key was kept")
			}
			continue
		}
		if ok, good := direct(e); ok {
			c.Check("R4.verdict", key+"/expression", pos, good, fmt.Sprintf("the verdict must be `kept > 0` (found %s): otherwise commands without a passing key are forwarded or commands with one are dropped", c.Src(e)))
		} else {
			c.Undecidedf("R4.verdict", key, pos, "unrecognised verdict expression %s", c.Src(e))
		}
	}
	// when the counter is known positive the verdict is set on every path to the exit
	if named {
		for _, b := range g.CFG.Blocks {
			for si := range b.Succs {
				if b.Live && len(b.Succs) == 2 && edgeHas(g, b, si, some) {
					setTrue := func(n ast.Node) bool {
						as, ok := n.(*ast.AssignStmt)
						if !ok {
							return false
						}
						for i, l := range as.Lhs {
							if objOf(info, l) == passObj {
								rhs := orNilExpr(core.AssignedTo(as, i))
								if v, isC := boolConst(info, rhs); isC {
									return v
								}
								_, good := direct(rhs) // pass = kept > 0
								return good
							}
						}
						return false
					}
					already, _ := g.Dominated(cfgq.Point{B: b, I: len(b.Nodes) - 1}, setTrue)
					w := g.Path(cfgq.Query{From: cfgq.Point{B: b.Succs[si], I: 0}, Avoid: setTrue, TargetExit: cfgq.NormalExit})
					if !already {
						c.Check("R4.verdict", "getMatchKeys/pass-set-when-kept", cfgq.CondOf(b).Pos(), w == nil,
							"with at least one key kept the verdict must become true before returning: otherwise a command with passing keys is dropped", w...)
					}
				}
			}
		}
	}
}
