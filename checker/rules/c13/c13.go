// Package c13 decides the structural clauses of property C13 (multi-key command rewriting).
package c13

import (
	"fmt"
	"go/ast"
	"go/token"
	"go/types"
	"rscheck/rules/reent"
	"sort"
	"strings"

	"rscheck/core"
	"rscheck/driver"
)

const (
	pkgFilter = "redis-shake/filter"
	pkgSync   = "redis-shake/dbSync"
)

var Def = driver.PropDef{
	ID: "C13",
	Explanation: "Table <-> interpreter <-> Redis key-spec agreement for the key filter of incremental sync: " +
		"R1 the interpreter convention is recovered from getMatchKeys (first index, last bound, stride, group size, tail start, prefix) and must be able to express every Redis key spec used by the table; " +
		"R2 every RedisCommands entry, read under that convention, treats exactly Redis 5.0's key positions as keys and starts the non-key tail right after the last key group, for every valid arity (both sides are linear in the arity on each residue class, compared on two members per class); " +
		"R3 prefix, kept groups and tail flow into the rebuilt vector at consecutive positions and the allocated length is their sum; an entry whose first key is not the first argument needs the prefix copy; " +
		"R4 pass <=> at least one key passed, the wrapper returns !pass as reject and the original vector when no list is configured / the command is unknown / argv is empty, the caller forwards the returned vector and skips on reject; " +
		"R5 keys are tested with FilterKey on args[index] and kept exactly when it returns false; " +
		"R7 the value that indexes the (lower-case keyed, exactly matched) command table is, on every way from the bytes decoded from the source to the index expression, the whole-string lower-case fold of the command name.",
	NotDecided: "argument contents; commands absent from the table (forwarded unchanged by design); eval-style dynamic key positions.",
	Trusted:    []string{"go/parser, go/types, go/cfg (x/tools v0.29.0)", "Redis 5.0 command table (first, last, step, arity) as transcribed in this file"},
	Run:        Run,
}

// spec is Redis 5.0's key specification of a command (positions count the
// command name as 0) and its arity (negative: at least).
type spec struct {
	first, last, step, arity int64
	pairs                    bool // arguments after the name come in pairs (MSET)
}

var k1 = func(arity int64) spec { return spec{1, 1, 1, arity, false} }

var redis50 = map[string]spec{
	"set": k1(-3), "setnx": k1(3), "setex": k1(4), "psetex": k1(4), "append": k1(3),
	"del": {1, -1, 1, -2, false}, "unlink": {1, -1, 1, -2, false},
	"setbit": k1(4), "bitfield": k1(-2), "setrange": k1(4), "incr": k1(2), "decr": k1(2),
	"rpush": k1(-3), "lpush": k1(-3), "rpushx": k1(-3), "lpushx": k1(-3), "linsert": k1(5), "rpop": k1(2), "lpop": k1(2),
	"brpop": {1, -2, 1, -3, false}, "blpop": {1, -2, 1, -3, false}, "brpoplpush": {1, 2, 1, 4, false},
	"lset": k1(4), "ltrim": k1(4), "lrem": k1(4), "rpoplpush": {1, 2, 1, 3, false},
	"sadd": k1(-3), "srem": k1(-3), "smove": {1, 2, 1, 4, false}, "spop": k1(-2),
	"sinterstore": {1, -1, 1, -3, false}, "sunionstore": {1, -1, 1, -3, false}, "sdiffstore": {1, -1, 1, -3, false},
	"zadd": k1(-4), "zincrby": k1(4), "zrem": k1(-3), "zremrangebyscore": k1(4), "zremrangebyrank": k1(4), "zremrangebylex": k1(4),
	"hset": k1(-4), "hsetnx": k1(4), "hmset": k1(-4), "hincrby": k1(4), "hincrbyfloat": k1(4), "hdel": k1(-3),
	"incrby": k1(3), "decrby": k1(3), "incrbyfloat": k1(3), "getset": k1(3),
	"mset": {1, -1, 2, -3, true}, "msetnx": {1, -1, 2, -3, true},
	"move": k1(3), "rename": {1, 2, 1, 3, false}, "renamenx": {1, 2, 1, 3, false},
	"expire": k1(3), "expireat": k1(3), "pexpire": k1(3), "pexpireat": k1(3), "persist": k1(2),
	"restore": k1(-4), "restore-asking": k1(-4),
	"bitop":  {2, -1, 1, -4, false},
	"geoadd": k1(-5), "pfadd": k1(-2), "pfmerge": {1, -1, 1, -2, false},
}

func (s spec) String() string {
	return fmt.Sprintf("(first=%d last=%d step=%d arity=%d)", s.first, s.last, s.step, s.arity)
}

func reentrant(c *core.Ctx) {
	var roots []*core.Fn
	for _, n := range []string{"HandleFilterKeyWithCommand", "FilterKey", "FilterCommands", "FilterDB", "FilterSlot"} {
		if f := c.FuncOpt("redis-shake/filter", "", n); f != nil {
			roots = append(roots, f)
		}
	}
	reent.Check(c, "R6.reentrant", roots, []string{"redis-shake/filter"}, "one command-parser goroutine per source node")
}

func Run(c *core.Ctx) {
	defer reentrant(c)
	withViews(c, run)
}

func run(c *core.Ctx) {
	pk := c.Pkg(pkgFilter)
	gmk := c.Func(pkgFilter, "", "getMatchKeys")
	wrap := c.Func(pkgFilter, "", "HandleFilterKeyWithCommand")
	fkey := c.Func(pkgFilter, "", "FilterKey")
	if pk == nil || gmk == nil || wrap == nil || fkey == nil {
		return
	}
	// the instance counts are taken however far the rules get: when they stop early
	// on this view of the tree, what was not reached must be shown on another view
	defer func() {
		c.Expect("R1.convention", 3)
		c.Expect("R2.table", 65)
		c.Expect("R3.ranges", 4)
		c.Expect("R5.predicate", 2)
		c.Expect("R4.verdict", 8)
		c.Expect("R4.caller", 2)
		c.Expect("R7.casefold", 1)
	}()
	// ---- R1 interpreter convention
	it := &interp{c: c, fn: gmk, info: pk.TypesInfo}
	if why := it.recover(fkey.Obj); why != "" {
		c.Undecidedf("R1.convention", "getMatchKeys/skeleton", gmk.Decl.Pos(), "getMatchKeys no longer has the recognisable interpreter form: %s", why)
		return
	}
	lay0, _ := it.runCopyOut(it.newEval(nil, nil, nil)).classify()
	c.Okf("R1.convention", "getMatchKeys/skeleton", gmk.Decl.Pos(),
		"recovered: first index %s, loop while index %s %s, stride %s; copy-out interpreted: prefix %v, group size %v, tail from %v, length %v",
		c.Src(it.eF), it.cmpOp, c.Src(it.eL), srcOr(c, it.eS, "1"), lay0.P, lay0.C, lay0.T, lay0.LEN)

	// ---- table
	entries, tpos := table(c, it, wrap, gmk)
	// ---- R7 the name the table is indexed with
	casefold(c, it.tableObj)
	if entries == nil {
		return
	}
	// can the interpreter express every key spec the table needs?
	classes := map[spec][]string{}
	for _, e := range entries {
		if sp, ok := redis50[e.name]; ok {
			classes[sp] = append(classes[sp], e.name)
		}
	}
	suggest := map[spec]*[3]int64{}
	var inexpressible []string
	evaluable := false
	unknown := 0
	for sp, names := range classes {
		var any, complete bool
		suggest[sp], any, complete = it.search(sp)
		evaluable = evaluable || any
		if suggest[sp] == nil && any && !complete {
			unknown++ // some readings could not be evaluated: "no reading fits" is not established
			continue
		}
		if suggest[sp] == nil && any {
			sort.Strings(names)
			inexpressible = append(inexpressible, fmt.Sprintf("%s %v", sp, names))
		}
	}
	sort.Strings(inexpressible)
	if !evaluable {
		c.Undecidedf("R1.convention", "getMatchKeys/expressible", gmk.Decl.Pos(), "the interpreter's first/last/stride/tail expressions cannot be evaluated for concrete table entries")
		return
	}
	if len(inexpressible) == 0 && unknown > 0 {
		c.Undecidedf("R1.convention", "getMatchKeys/expressible", gmk.Decl.Pos(), "for %d classes of key specs no table triple was found to fit, but some triples could not be evaluated under the interpreter's reading", unknown)
	} else {
		c.Check("R1.convention", "getMatchKeys/expressible", gmk.Decl.Pos(), len(inexpressible) == 0,
			"under the interpreter's reading no (firstkey,lastkey,keystep) triple in 1..3 x -3..3 x 1..3 reproduces these Redis key specs, so the interpreter itself (not the table) mis-handles the commands: "+strings.Join(inexpressible, "; "))
	}

	// ---- R2 entries, R3 prefix
	failed := 0
	for _, e := range entries {
		key := e.name
		sp, known := redis50[e.name]
		switch {
		case e.name != strings.ToLower(e.name):
			c.Failf("R2.table", key, e.pos, "table key %q is not lower-case but commands are looked up lower-cased: the entry is unreachable and %s is forwarded unfiltered", e.name, strings.ToUpper(e.name))
			continue
		case !e.ok:
			c.Undecidedf("R2.table", key, e.pos, "entry %q is not a constant (proc, first, last, step) literal with a nil proc", e.name)
			continue
		case !known:
			c.Undecidedf("R2.table", key, e.pos, "no Redis 5.0 key spec transcribed for %q", e.name)
			continue
		case suggest[sp] == nil:
			c.Undecidedf("R2.table", key, e.pos, "not judged: the interpreter cannot express %s at all (see R1.convention/getMatchKeys/expressible)", sp)
			continue
		}
		cv, why := it.conventionFor(e.v[0], e.v[1], e.v[2])
		if why != "" {
			c.Undecidedf("R2.table", key, e.pos, "%s", why)
			continue
		}
		ok, detail := compare(cv, sp, strings.ToUpper(e.name))
		if !ok {
			failed++
			sg := suggest[sp]
			detail = fmt.Sprintf("entry %s = (%d,%d,%d) disagrees with Redis %s under the interpreter's convention (needs (%d,%d,%d)): %s", e.name, e.v[0], e.v[1], e.v[2], sp, sg[0], sg[1], sg[2], detail)
		} else {
			detail = fmt.Sprintf("entry (%d,%d,%d) reproduces Redis %s for every valid arity", e.v[0], e.v[1], e.v[2], sp)
		}
		c.Check("R2.table", key, e.pos, ok, detail)
		if cv.F > 0 {
			c.Check("R3.prefix", key, e.pos, cv.P == cv.F,
				fmt.Sprintf("the first key of %s is argument %d, so arguments [0,%d) must be copied in front of the kept keys; the interpreter copies a prefix of %d: whenever a key filter is configured the leading non-key argument(s) are lost even if all keys pass (BITOP AND d s1 s2 is forwarded as BITOP d s1 s2)", strings.ToUpper(e.name), cv.F, cv.F, cv.P))
		}
	}
	c.Check("R1.convention", "getMatchKeys/consistent-with-table", tpos, failed*2 <= len(entries),
		fmt.Sprintf("%d of %d table entries disagree with Redis under the recovered convention: the interpreter and the table no longer speak the same convention, most multi-key commands are rewritten wrongly", failed, len(entries)))

	// ---- R3 data flow
	it.r3()

	// ---- R4, R5
	wiring(c, it, wrap, fkey, entries)
}

func srcOr(c *core.Ctx, e ast.Expr, dflt string) string {
	if e == nil {
		return dflt
	}
	return c.Src(e)
}

// ---------------------------------------------------------------------------
// table extraction

type entry struct {
	name string
	v    [3]int64
	ok   bool
	pos  token.Pos
}

// table finds the map consulted by the wrapper for the value handed to the
// interpreter and reads its literal.
func table(c *core.Ctx, it *interp, wrap, gmk *core.Fn) ([]entry, token.Pos) {
	info := it.info
	var mapObj types.Object
	for _, call := range core.Calls(wrap.Decl.Body, info, func(_ *ast.CallExpr, o types.Object) bool { return o == types.Object(gmk.Obj) }) {
		if len(call.Args) == 2 {
			src := call.Args[0]
			if o := copySource(info, wrap.Decl.Body, objOf(info, src)); o != nil {
				ast.Inspect(wrap.Decl.Body, func(n ast.Node) bool {
					if as, ok := n.(*ast.AssignStmt); ok && len(as.Rhs) == 1 && len(as.Lhs) >= 1 && objOf(info, as.Lhs[0]) == o {
						src = as.Rhs[0]
					}
					return true
				})
			}
			if ie, ok := ast.Unparen(src).(*ast.IndexExpr); ok {
				mapObj = core.ObjOf(info, ie.X)
			} else if m, _, ok := lookupHelper(c, info, src); ok { // the lookup lives in a helper
				mapObj = m
			}
		}
	}
	if mapObj == nil {
		c.Undecidedf("R2.table", "table", wrap.Decl.Pos(), "cannot find the command table consulted before getMatchKeys")
		return nil, token.NoPos
	}
	it.tableObj = mapObj
	var lit *ast.CompositeLit
	for _, f := range wrap.Pkg.Syntax {
		ast.Inspect(f, func(n ast.Node) bool {
			if vs, ok := n.(*ast.ValueSpec); ok {
				for i, nm := range vs.Names {
					if info.Defs[nm] == mapObj && i < len(vs.Values) {
						lit, _ = ast.Unparen(vs.Values[i]).(*ast.CompositeLit)
					}
				}
			}
			return true
		})
	}
	if lit == nil {
		c.Undecidedf("R2.table", "table", mapObj.Pos(), "%s is not initialised by a map literal", mapObj.Name())
		return nil, token.NoPos
	}
	// the table is never modified at run time
	for _, f := range wrap.Pkg.Syntax {
		ast.Inspect(f, func(n ast.Node) bool {
			if as, ok := n.(*ast.AssignStmt); ok {
				for _, l := range as.Lhs {
					if ie, ok := ast.Unparen(l).(*ast.IndexExpr); ok && core.ObjOf(info, ie.X) == mapObj || core.ObjOf(info, l) == mapObj {
						c.Undecidedf("R2.table", "table", as.Pos(), "%s is modified at run time; the literal is not the whole table", mapObj.Name())
					}
				}
			}
			return true
		})
	}
	st := info.TypeOf(it.cmdP).Underlying().(*types.Struct)
	var out []entry
	for _, el := range lit.Elts {
		kv, ok := el.(*ast.KeyValueExpr)
		if !ok {
			continue
		}
		name, ok := core.StringConst(info, kv.Key)
		if !ok {
			c.Undecidedf("R2.table", "table", kv.Pos(), "non-constant table key")
			continue
		}
		e := entry{name: name, pos: kv.Pos()}
		if v, ok := ast.Unparen(kv.Value).(*ast.CompositeLit); ok {
			vals := map[string]ast.Expr{}
			for i, x := range v.Elts {
				if fkv, ok := x.(*ast.KeyValueExpr); ok {
					if id, ok := fkv.Key.(*ast.Ident); ok {
						vals[id.Name] = fkv.Value
					}
				} else if i < st.NumFields() {
					vals[st.Field(i).Name()] = x
				}
			}
			e.ok = true
			for i := 0; i < st.NumFields(); i++ {
				fn := st.Field(i).Name()
				x := vals[fn]
				idx := -1
				for j, n := range it.fnames {
					if n == fn {
						idx = j
					}
				}
				switch {
				case idx >= 0 && x == nil:
					e.v[idx] = 0
				case idx >= 0:
					k, isC := core.IntConst(info, x)
					e.v[idx], e.ok = k, e.ok && isC
				case x != nil && !core.IsNil(info, x):
					e.ok = false // a getkeys procedure: not interpreted by the triple
				}
			}
		}
		out = append(out, e)
	}
	return out, lit.Pos()
}

// ---------------------------------------------------------------------------
// R2 comparison

func gcd(a, b int64) int64 {
	for b != 0 {
		a, b = b, a%b
	}
	return a
}

func lcm(a, b int64) int64 { return a / gcd(a, b) * b }

func progression(first, last, step int64) []int64 {
	var out []int64
	for i := first; i <= last && len(out) < 64; i += step {
		out = append(out, i)
	}
	return out
}

// compare decides whether the interpreter, reading one entry as cv, treats a
// command with Redis key spec sp correctly for every valid arity. All
// quantities are linear in n = len(args) on each residue class modulo
// lcm(stride, step, pairing), so two members of each class decide the class.
func compare(cv convention, sp spec, cmd string) (bool, string) {
	if cv.S <= 0 || cv.C <= 0 {
		return false, fmt.Sprintf("stride %d / group size %d: the key loop never advances (the sync goroutine hangs on the first %s)", cv.S, cv.C, cmd)
	}
	var ns []int64
	if sp.arity > 0 {
		ns = []int64{sp.arity - 1}
	} else {
		m := lcm(cv.S, sp.step)
		if sp.pairs {
			m = lcm(m, 2)
		}
		for n := -sp.arity - 1; n < -sp.arity-1+2*m; n++ {
			if !sp.pairs || n%2 == 0 {
				ns = append(ns, n)
			}
		}
	}
	for _, n := range ns {
		rl := sp.last - 1
		if sp.last < 0 {
			rl = n + sp.last
		}
		ref := progression(sp.first-1, rl, sp.step)
		last := cv.La*n + cv.Lb
		if cv.strict {
			last--
		}
		got := progression(cv.F, last, cv.S)
		if cv.got != nil {
			run, has := cv.got(n)
			if !has {
				continue // not executed for this many arguments: nothing is concluded from it
			}
			got = run
		}
		argv := make([]string, n)
		for i := range argv {
			argv[i] = fmt.Sprintf("a%d", i)
		}
		for _, k := range ref {
			if k >= 0 && k < n {
				argv[k] = fmt.Sprintf("k%d", k)
			}
		}
		line := cmd + " " + strings.Join(argv, " ")
		inRef, inGot := map[int64]bool{}, map[int64]bool{}
		for _, k := range ref {
			inRef[k] = true
		}
		for _, k := range got {
			inGot[k] = true
		}
		if len(got) == 0 {
			return false, fmt.Sprintf("`%s` (%d arguments): Redis keys are at %v but no argument is examined, so the verdict is 'no key passed' and the command is dropped even when every key passes the filter", line, n, ref)
		}
		for _, k := range ref {
			if !inGot[k] {
				return false, fmt.Sprintf("`%s` (%d arguments): argument %d is a key for Redis (keys at %v) but is never passed to FilterKey (tested: %v); with a blacklist matching only k%d the command is still forwarded naming k%d, and with a whitelist matching only k%d it is dropped", line, n, k, ref, got, k, k, k)
			}
		}
		for _, k := range got {
			if !inRef[k] {
				if k >= n || k < 0 {
					return false, fmt.Sprintf("`%s` (%d arguments): the key loop reads args[%d], outside the vector (index out of range panic)", line, n, k)
				}
				return false, fmt.Sprintf("`%s` (%d arguments): argument %d is not a key for Redis (keys at %v) but is filtered as one (tested: %v): a value that happens to match a prefix changes which command is forwarded", line, n, k, ref, got)
			}
		}
		end := got[len(got)-1] + cv.C
		tail := cv.Ta*n + cv.Tb
		switch {
		case end > n:
			return false, fmt.Sprintf("`%s` (%d arguments): the group of the last key spans [%d,%d), beyond the vector (index out of range panic)", line, n, got[len(got)-1], end)
		case tail > end:
			return false, fmt.Sprintf("`%s` (%d arguments): the non-key tail is copied from index %d but the last key group ends at %d: arguments [%d,%d) are lost", line, n, tail, end, end, tail)
		case tail < end:
			return false, fmt.Sprintf("`%s` (%d arguments): the non-key tail is copied from index %d although the last key group ends at %d: arguments [%d,%d) are forwarded even when their key is rejected, and twice when it passes", line, n, tail, end, tail, end)
		}
		if len(got) > 1 && cv.got != nil && got[1]-got[0] != cv.C {
			return false, fmt.Sprintf("`%s`: keys are %d apart but %d arguments are copied per key", line, got[1]-got[0], cv.C)
		}
		if len(got) > 1 && cv.got == nil && cv.C != cv.S {
			return false, fmt.Sprintf("`%s`: keys are %d apart but %d arguments are copied per key", line, cv.S, cv.C)
		}
	}
	return true, ""
}

// search looks for a table triple that makes the interpreter handle sp.
func (it *interp) search(sp spec) (found *[3]int64, evaluable, complete bool) {
	complete = true
	order := func(pref int64, lo, hi int64) []int64 {
		out := []int64{pref}
		for v := lo; v <= hi; v++ {
			if v != pref {
				out = append(out, v)
			}
		}
		return out
	}
	for _, f := range order(sp.first, 1, 3) {
		for _, s := range order(sp.step, 1, 3) {
			for _, l := range order(sp.last, -3, 3) {
				cv, why := it.conventionFor(f, l, s)
				if why != "" {
					complete = false // this reading could not be evaluated: it may be the one that fits
					continue
				}
				evaluable = true
				if ok, _ := compare(cv, sp, ""); ok {
					return &[3]int64{f, l, s}, true, true
				}
			}
		}
	}
	return nil, evaluable, complete
}
