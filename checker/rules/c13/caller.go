package c13

import (
	"fmt"
	"go/ast"
	"go/token"
	"go/types"
	"golang.org/x/tools/go/cfg"
	"rscheck/cfgq"
	"rscheck/core"
	"rscheck/pat"
)

// caller: parseSourceCommand forwards the returned vector and skips on reject.
func caller(c *core.Ctx, wrap *core.Fn, wrapperNeg, wrapperKnown bool) {
	fn := c.Func(pkgSync, "DbSyncer", "parseSourceCommand")
	if fn == nil {
		return
	}
	info := fn.Pkg.TypesInfo
	g := cfgq.Of(c.Program, fn)
	var as *ast.AssignStmt
	var call *ast.CallExpr
	n := 0
	ast.Inspect(fn.Decl.Body, func(m ast.Node) bool {
		if a, ok := m.(*ast.AssignStmt); ok && len(a.Rhs) == 1 && len(a.Lhs) == 2 {
			if cl, ok := ast.Unparen(a.Rhs[0]).(*ast.CallExpr); ok && core.CalleeFunc(info, cl) == wrap.Obj {
				as, call = a, cl
				n++
			}
		}
		return true
	})
	if n != 1 || len(call.Args) != 2 {
		c.Undecidedf("R4.caller", "parseSourceCommand/call", fn.Decl.Pos(), "expected one `new, reject = HandleFilterKeyWithCommand(cmd, argv)`, found %d", n)
		return
	}
	newObj, rejObj := objOf(info, as.Lhs[0]), objOf(info, as.Lhs[1])
	cmdObj, argvObj := objOf(info, call.Args[0]), objOf(info, call.Args[1])
	// the two results may be copied on into other variables before they are used
	// (`kept, r := Handle(...); newArgv = kept; reject = r`): a name stands for the
	// result when the copy is the only value it ever gets and is made, after the
	// call, before the name is read
	g0 := cfgq.Of(c.Program, fn)
	standsFor := func(o, res types.Object) bool {
		if o == nil || res == nil {
			return false
		}
		if o == res {
			return true
		}
		cp0, ok := g0.Find(call)
		if !ok {
			return false
		}
		for x, i := o, 0; x != res; i++ {
			// the copy is the only value x ever gets, apart from nil on ways that never
			// come to read it (say `out, drop = nil, true` followed by `if drop { continue }`)
			d := copyDef(info, fn.Decl.Body, x)
			if d == nil || i > 6 {
				return false
			}
			dp, ok := g0.Find(d)
			if !ok {
				return false
			}
			xx := x
			stale := g0.Path(cfgq.Query{From: cp0, After: true,
				Avoid:  func(m ast.Node) bool { return m == dp.Node() || m == cp0.Node() },
				Target: func(m ast.Node) bool { return m != dp.Node() && readsVar(info, m, xx) }})
			if stale != nil {
				return false
			}
			if x = objOf(info, d); x == nil {
				return false
			}
		}
		return true
	}
	// the forwarding site: a composite literal whose Cmd is the command name,
	// built here or in a same-package helper that receives the command name and
	// the arguments (`ds.pushCmd(sCmd, data, ...)`)
	literal := func(body ast.Node, cmd types.Object) (*ast.CompositeLit, ast.Expr) {
		var lit *ast.CompositeLit
		var args ast.Expr
		ast.Inspect(body, func(m ast.Node) bool {
			if cl, ok := m.(*ast.CompositeLit); ok {
				var cmdOK bool
				var ax ast.Expr
				for _, el := range cl.Elts {
					if kv, ok := el.(*ast.KeyValueExpr); ok {
						if id, ok := kv.Key.(*ast.Ident); ok {
							if id.Name == "Cmd" && objOf(info, kv.Value) == cmd && cmd != nil {
								cmdOK = true
							}
							if id.Name == "Args" {
								ax = kv.Value
							}
						}
					}
				}
				if cmdOK {
					lit, args = cl, ax
				}
			}
			return true
		})
		return lit, args
	}
	var fwd ast.Node
	var argsExpr ast.Expr
	if lit, ax := literal(fn.Decl.Body, cmdObj); lit != nil {
		fwd, argsExpr = lit, ax
	} else {
		for _, hc := range core.Calls(fn.Decl.Body, info, func(hc *ast.CallExpr, o types.Object) bool {
			f, _ := o.(*types.Func)
			return f != nil && f.Pkg() == fn.Obj.Pkg() && f != wrap.Obj
		}) {
			hf := c.FnOf(core.CalleeFunc(info, hc))
			if hf == nil || hf.Decl.Body == nil {
				continue
			}
			ps := hf.Obj.Type().(*types.Signature).Params()
			if ps.Len() != len(hc.Args) {
				continue
			}
			for i, a := range hc.Args {
				if objOf(info, a) != cmdObj || cmdObj == nil {
					continue
				}
				if lit, ax := literal(hf.Decl.Body, ps.At(i)); lit != nil && ax != nil {
					for j := 0; j < ps.Len(); j++ {
						if objOf(info, ax) == types.Object(ps.At(j)) {
							fwd, argsExpr = hc, hc.Args[j]
						}
					}
				}
			}
		}
	}
	if fwd == nil || argsExpr == nil || newObj == nil || rejObj == nil {
		c.Undecidedf("R4.caller", "parseSourceCommand/forwards-returned-vector", fn.Decl.Pos(), "cannot find the command forwarded with the parsed command name")
		return
	}
	// where do the forwarded Args come from?
	src := builtFrom(c, info, fn.Decl.Body, argsExpr, 0)
	switch {
	case src == newObj || standsFor(src, newObj):
		c.Okf("R4.caller", "parseSourceCommand/forwards-returned-vector", fwd.Pos(), "the forwarded arguments are built from the vector returned by the key filter")
	case src != nil && src == argvObj:
		c.Check("R4.caller", "parseSourceCommand/forwards-returned-vector", fwd.Pos(), false, "the forwarded arguments are built from the ORIGINAL argument vector, not from the one returned by the key filter: rejected keys of multi-key commands (e.g. DEL a b with b blacklisted) are still sent to the target")
	default:
		// not built element by element from ONE vector over its whole length; an
		// element stored from the unfiltered argv is still a located defect,
		// whatever governs the size of the forwarded list
		st, from, pure := elemStores(info, fn.Decl.Body, argsExpr)
		if st != nil && pure && len(from) == 1 {
			only := types.Object(nil)
			for k := range from {
				only = k
			}
			if only == newObj || standsFor(only, newObj) {
				c.Okf("R4.caller", "parseSourceCommand/forwards-returned-vector", fwd.Pos(), "every element put into the forwarded argument list is an element of the vector returned by the key filter")
				break
			}
		}
		if st != nil && argvObj != nil && from[argvObj] {
			c.Check("R4.caller", "parseSourceCommand/forwards-returned-vector", st.Pos(), false,
				fmt.Sprintf("an element of the forwarded argument list is taken from the ORIGINAL argument vector (%s), not from the one returned by the key filter: whenever only some keys of a multi-key command pass, the target receives the unfiltered leading arguments (DEL user:1 tmp:1 user:2 with tmp: blacklisted is forwarded as DEL user:1 tmp:1)", c.Src(st)))
			break
		}
		c.Undecidedf("R4.caller", "parseSourceCommand/forwards-returned-vector", fwd.Pos(), "cannot trace the forwarded arguments back to the key filter's result")
	}
	// skip on reject
	cp, ok1 := g.Find(call)
	fp, ok2 := g.Find(fwd)
	if !ok1 || !ok2 {
		c.Undecidedf("R4.caller", "parseSourceCommand/skips-on-reject", call.Pos(), "call or forwarding send not in the control-flow graph")
		return
	}
	bd := pat.Binds{"_r": as.Lhs[1]}
	rej := func(val bool) func(b *cfg.Block, s int) bool {
		return func(b *cfg.Block, s int) bool {
			return edgeHas(g, b, s, func(f cfgq.Fact) bool {
				if pat.Expr("_r").Match(info, f.Expr, bd) != nil && f.Val == val ||
					pat.Expr("_r == true").Match(info, f.Expr, bd) != nil && f.Val == val || pat.Expr("_r == false").Match(info, f.Expr, bd) != nil && f.Val != val {
					return true
				}
				// the verdict read through a copy
				if o := objOf(info, f.Expr); o != nil && o != rejObj && standsFor(o, rejObj) {
					return f.Val == val
				}
				return false
			})
		}
	}
	isCall := func(m ast.Node) bool { return m == cp.Node() }
	isFwd := func(m ast.Node) bool { return m == fp.Node() }
	onlyIfFalse := g.Path(cfgq.Query{From: cp, After: true, Target: isFwd, Avoid: isCall, AvoidEdge: rej(false)}) == nil
	onlyIfTrue := g.Path(cfgq.Query{From: cp, After: true, Target: isFwd, Avoid: isCall, AvoidEdge: rej(true)}) == nil
	key := "parseSourceCommand/skips-on-reject"
	switch {
	case !wrapperKnown || onlyIfFalse == onlyIfTrue:
		c.Undecidedf("R4.caller", key, call.Pos(), "cannot relate the wrapper's second result to whether the command is forwarded")
	default:
		// forwarded only if second result false  <=> it means "reject"; the wrapper must then return !pass
		c.Check("R4.caller", key, call.Pos(), onlyIfFalse == wrapperNeg,
			fmt.Sprintf("the wrapper returns %s and the caller forwards only when that value is %v: commands whose keys pass are dropped and commands with no passing key are forwarded", map[bool]string{true: "!pass", false: "pass"}[wrapperNeg], !onlyIfFalse))
	}
}

// copyDef: the one non-nil value the local x is assigned (a plain `x = y` /
// `x, z = y, w`), every other assignment to x storing nil; nil when x is
// written in any other way.
func copyDef(info *types.Info, body ast.Node, x types.Object) ast.Expr {
	var def ast.Expr
	bad := false
	ast.Inspect(body, func(n ast.Node) bool {
		switch s := n.(type) {
		case *ast.AssignStmt:
			for i, l := range s.Lhs {
				if objOf(info, l) != x {
					continue
				}
				r := core.AssignedTo(s, i)
				switch {
				case r == nil || s.Tok != token.ASSIGN && s.Tok != token.DEFINE:
					bad = true
				case core.IsNil(info, r):
				case def != nil:
					bad = true
				default:
					def = r
				}
			}
		case *ast.ValueSpec:
			for i, nm := range s.Names {
				if info.Defs[nm] == x && i < len(s.Values) && !core.IsNil(info, s.Values[i]) {
					if def != nil || len(s.Values) != len(s.Names) {
						bad = true
					}
					def = s.Values[i]
				}
			}
		case *ast.IncDecStmt:
			if objOf(info, s.X) == x {
				bad = true
			}
		case *ast.RangeStmt:
			if s.Key != nil && objOf(info, s.Key) == x || s.Value != nil && objOf(info, s.Value) == x {
				bad = true
			}
		case *ast.UnaryExpr:
			if s.Op == token.AND && objOf(info, s.X) == x {
				bad = true
			}
		}
		return true
	})
	if bad || def == nil || objOf(info, def) == nil {
		return nil
	}
	return def
}

// readsVar: executing node n reads x (being assigned does not count).
func readsVar(info *types.Info, n ast.Node, x types.Object) bool {
	reads := false
	var walk func(m ast.Node)
	walk = func(m ast.Node) {
		ast.Inspect(m, func(k ast.Node) bool {
			switch y := k.(type) {
			case *ast.AssignStmt:
				for _, l := range y.Lhs {
					if _, plain := ast.Unparen(l).(*ast.Ident); !plain {
						walk(l)
					}
				}
				for _, r := range y.Rhs {
					walk(r)
				}
				return false
			case *ast.FuncLit:
				return true
			case *ast.Ident:
				if info.Uses[y] == x {
					reads = true
				}
			}
			return true
		})
	}
	walk(n)
	return reads
}

// elemStores lists the vectors the elements of the local slice e are taken from,
// whatever the loop around the stores looks like (for, range, label and goto):
// `e[i] = v[j]`, `e = append(e, v[j])`, `e = append(e, item)` with item the range
// value over v (conversions ignored). pure: e receives nothing else (besides its
// creation with make / nil).
func elemStores(info *types.Info, body ast.Node, e ast.Expr) (first ast.Node, from map[types.Object]bool, pure bool) {
	o := objOf(info, strip(info, e))
	if o == nil {
		return nil, nil, false
	}
	from = map[types.Object]bool{}
	pure = true
	rangeOver := map[types.Object]types.Object{} // range value -> ranged vector
	ast.Inspect(body, func(n ast.Node) bool {
		if r, ok := n.(*ast.RangeStmt); ok && r.Value != nil {
			if v, x := objOf(info, r.Value), objOf(info, r.X); v != nil && x != nil {
				rangeOver[v] = x
			}
		}
		return true
	})
	source := func(x ast.Expr) types.Object {
		x = strip(info, x)
		if ri, isIdx := x.(*ast.IndexExpr); isIdx {
			return objOf(info, ri.X)
		}
		if v := objOf(info, x); v != nil {
			return rangeOver[v]
		}
		return nil
	}
	note := func(at ast.Node, src types.Object) {
		if src == nil {
			pure = false
			return
		}
		from[src] = true
		if first == nil {
			first = at
		}
	}
	ast.Inspect(body, func(n ast.Node) bool {
		switch as := n.(type) {
		case *ast.AssignStmt:
			for i, l := range as.Lhs {
				if li, isIdx := ast.Unparen(l).(*ast.IndexExpr); isIdx && objOf(info, li.X) == o {
					if r := core.AssignedTo(as, i); r != nil && as.Tok == token.ASSIGN {
						note(as, source(r))
					} else {
						pure = false
					}
					continue
				}
				if objOf(info, l) != o {
					continue
				}
				r := core.AssignedTo(as, i)
				if r == nil {
					pure = false
					continue
				}
				call, isCall := ast.Unparen(r).(*ast.CallExpr)
				if !isCall {
					pure = pure && core.IsNil(info, r)
					continue
				}
				b, isB := core.Callee(info, call).(*types.Builtin)
				switch {
				case isB && b.Name() == "make":
				case isB && b.Name() == "append" && len(call.Args) >= 1 && objOf(info, call.Args[0]) == o && !call.Ellipsis.IsValid():
					for _, a := range call.Args[1:] {
						note(as, source(a))
					}
				default:
					pure = false
				}
			}
		case *ast.UnaryExpr:
			if as.Op == token.AND && objOf(info, as.X) == o {
				pure = false
			}
		}
		return true
	})
	return first, from, pure
}

// nodeTested: some branch condition mentions the looked-up entry.
func nodeTested(info *types.Info, body ast.Node, o types.Object) bool {
	hit := false
	ast.Inspect(body, func(n ast.Node) bool {
		var cond ast.Expr
		switch x := n.(type) {
		case *ast.IfStmt:
			cond = x.Cond
		case *ast.CaseClause:
			for _, e := range x.List {
				if mentionsObj(info, e, o) {
					hit = true
				}
			}
		}
		if cond != nil && mentionsObj(info, cond, o) {
			hit = true
		}
		return true
	})
	return hit
}

// lookupHelper: e is a call h(key) of a same-package function that looks key up
// in a package-level map and returns (entry, found) unchanged; it returns the
// map and the key argument.
func lookupHelper(c *core.Ctx, info *types.Info, e ast.Expr) (types.Object, ast.Expr, bool) {
	call, ok := ast.Unparen(e).(*ast.CallExpr)
	if !ok || len(call.Args) != 1 {
		return nil, nil, false
	}
	f := core.CalleeFunc(info, call)
	hf := c.FnOf(f)
	if f == nil || hf == nil || hf.Decl.Body == nil || f.Type().(*types.Signature).Params().Len() != 1 || f.Type().(*types.Signature).Results().Len() != 2 {
		return nil, nil, false
	}
	hinfo := hf.Pkg.TypesInfo
	param := types.Object(f.Type().(*types.Signature).Params().At(0))
	var m types.Object
	var as *ast.AssignStmt
	n := 0
	ast.Inspect(hf.Decl.Body, func(x ast.Node) bool {
		if ie, ok := x.(*ast.IndexExpr); ok {
			if v, isVar := core.ObjOf(hinfo, ie.X).(*types.Var); isVar && v.Pkg() != nil && v.Parent() == v.Pkg().Scope() {
				if _, isMap := v.Type().Underlying().(*types.Map); isMap && objOf(hinfo, ie.Index) == param {
					m = v
					n++
				}
			}
		}
		if a, ok := x.(*ast.AssignStmt); ok && len(a.Lhs) == 2 && len(a.Rhs) == 1 {
			if _, isIdx := ast.Unparen(a.Rhs[0]).(*ast.IndexExpr); isIdx {
				as = a
			}
		}
		return true
	})
	if n != 1 || m == nil {
		return nil, nil, false
	}
	// every return hands back the two results of that lookup (directly, or the locals holding them)
	okRet := true
	rets := 0
	core.Inspect(hf.Decl.Body, func(x ast.Node) bool {
		if r, ok := x.(*ast.ReturnStmt); ok {
			rets++
			switch {
			case len(r.Results) == 1:
				if _, isIdx := ast.Unparen(r.Results[0]).(*ast.IndexExpr); !isIdx {
					okRet = false
				}
			case len(r.Results) == 2 && as != nil:
				if !pat.Same(hinfo, r.Results[0], as.Lhs[0]) || !pat.Same(hinfo, r.Results[1], as.Lhs[1]) {
					okRet = false
				}
			default:
				okRet = false
			}
		}
		return true
	})
	if !okRet || rets == 0 {
		return nil, nil, false
	}
	return m, call.Args[0], true
}
