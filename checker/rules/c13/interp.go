package c13

import (
	"fmt"
	"go/ast"
	"go/token"
	"go/types"

	"rscheck/core"
	"rscheck/pat"
)

// ---------------------------------------------------------------------------
// polynomials with integer coefficients over named symbols

type interp struct {
	c        *core.Ctx
	fn       *core.Fn
	info     *types.Info
	cmdP     *ast.Ident // parameters
	argsP    *ast.Ident
	fnames   [3]string // struct field names in table order: first, last, step
	preamble []ast.Stmt
	keyLoop  *ast.ForStmt
	loopVar  ast.Expr
	eF, eL   ast.Expr
	cmpOp    token.Token // LEQ or LSS
	eS       ast.Expr    // nil => stride 1 (i++)
	arr, num ast.Expr
	after    []ast.Stmt // the copy-out phase: statements behind the key loop (interpreted, see copyout.go)
	// where the key loop lives: getMatchKeys itself or a same-package helper it calls
	keyFn    *core.Fn
	keyArgs  types.Object          // the argument vector as seen by the key loop
	recArr   ast.Expr              // the slice the key loop records into (== arr unless in a helper)
	appended bool                  // positions are recorded with append, their number is len(arr)
	arrs     map[types.Object]bool // arr and the locals it is copied to behind the key loop
	sim      bool                  // the key loop is not a readable counting loop: the scan phase is executed (sim.go)
	fkeyObj  *types.Func
	binds    []paramBind // helper parameters <- caller arguments
	tableObj types.Object // the command table consulted before the interpreter runs (set by table)
}

type paramBind struct {
	param types.Object
	arg   ast.Expr
}

func forHeader(info *types.Info, f *ast.ForStmt) (v, init, bound ast.Expr, op token.Token, step ast.Expr, ok bool) {
	if f == nil || f.Init == nil || f.Post == nil {
		return
	}
	cond := f.Cond
	if cond == nil {
		// the loop condition written as a leading guard: `if i > last { break }`
		if len(f.Body.List) == 0 {
			return
		}
		ifs, isIf := f.Body.List[0].(*ast.IfStmt)
		if !isIf || ifs.Init != nil || ifs.Else != nil || len(ifs.Body.List) != 1 {
			return
		}
		if br, isBr := ifs.Body.List[0].(*ast.BranchStmt); !isBr || br.Tok != token.BREAK || br.Label != nil {
			return
		}
		g, isBin := ast.Unparen(ifs.Cond).(*ast.BinaryExpr)
		neg, has := map[token.Token]token.Token{token.GTR: token.LEQ, token.GEQ: token.LSS, token.LSS: token.GEQ, token.LEQ: token.GTR}[gOp(g)]
		if !isBin || !has {
			return
		}
		cond = &ast.BinaryExpr{X: g.X, Op: neg, Y: g.Y, OpPos: g.OpPos}
	}
	as, isAs := f.Init.(*ast.AssignStmt)
	cb, isBin := ast.Unparen(cond).(*ast.BinaryExpr)
	if !isAs || len(as.Lhs) != 1 || len(as.Rhs) != 1 || !isBin {
		return
	}
	v, init = as.Lhs[0], as.Rhs[0]
	switch {
	case pat.Same(info, cb.X, v) && (cb.Op == token.LEQ || cb.Op == token.LSS):
		bound, op = cb.Y, cb.Op
	case pat.Same(info, cb.Y, v) && (cb.Op == token.GEQ || cb.Op == token.GTR):
		bound, op = cb.X, map[token.Token]token.Token{token.GEQ: token.LEQ, token.GTR: token.LSS}[cb.Op]
	default:
		return
	}
	bd := pat.Binds{"_i": v}
	if pat.Stmt("_i++").Match(info, f.Post, bd) != nil || pat.Stmt("_i += 1").Match(info, f.Post, bd) != nil || pat.Stmt("_i = _i + 1").Match(info, f.Post, bd) != nil {
		return v, init, bound, op, nil, true
	}
	for _, p := range []string{"_i += _s", "_i = _i + _s"} {
		if b := pat.Stmt(p).Match(info, f.Post, bd); b != nil {
			return v, init, bound, op, b["_s"].(ast.Expr), true
		}
	}
	return
}

// enclosingFors lists the for statements around n, outermost first.
func enclosingFors(root, n ast.Node) []*ast.ForStmt {
	var out []*ast.ForStmt
	for _, x := range core.PathTo(root, n) {
		if f, ok := x.(*ast.ForStmt); ok {
			out = append(out, f)
		}
	}
	return out
}

func gOp(b *ast.BinaryExpr) token.Token {
	if b == nil {
		return token.ILLEGAL
	}
	return b.Op
}

// enclosingLoops lists the for/range statements around n, outermost first.
func enclosingLoops(root, n ast.Node) []ast.Stmt {
	var out []ast.Stmt
	for _, x := range core.PathTo(root, n) {
		switch l := x.(type) {
		case *ast.ForStmt:
			out = append(out, l)
		case *ast.RangeStmt:
			out = append(out, l)
		}
	}
	return out
}

// flatten splices nested plain blocks into the statement list: a block only
// limits the scope of the names declared in it, the statements run in the same
// order (expanding a helper in place leaves its body in such a block).
func flatten(list []ast.Stmt) []ast.Stmt {
	var out []ast.Stmt
	for _, s := range list {
		if b, ok := s.(*ast.BlockStmt); ok {
			out = append(out, flatten(b.List)...)
		} else {
			out = append(out, s)
		}
	}
	return out
}

// isArr: e is the slice of kept positions, under one of its names.
func (it *interp) isArr(e ast.Expr) bool {
	o := objOf(it.info, e)
	return o != nil && it.arrs[o]
}

// aliases collects the locals the recorded positions are copied to behind the
// key loop (`positions = recorded`, at top level, the only value they ever get),
// provided the slice is not written any more once the loop is over.
func (it *interp) aliases(after []ast.Stmt) {
	info := it.info
	it.arrs = map[types.Object]bool{}
	if o := objOf(info, it.arr); o != nil {
		it.arrs[o] = true
	}
	for changed := true; changed; {
		changed = false
		for _, s := range after {
			as, ok := s.(*ast.AssignStmt)
			if !ok || len(as.Lhs) != len(as.Rhs) || as.Tok != token.ASSIGN && as.Tok != token.DEFINE {
				continue
			}
			for i, l := range as.Lhs {
				lo := objOf(info, l)
				if lo == nil || it.arrs[lo] || !it.isArr(as.Rhs[i]) || singleDef(info, it.fn.Decl.Body, lo) != as.Rhs[i] {
					continue
				}
				it.arrs[lo] = true
				changed = true
			}
		}
	}
	if len(it.arrs) < 2 {
		return
	}
	// a later write to any of the names would make them differ
	for _, s := range after {
		ast.Inspect(s, func(n ast.Node) bool {
			as, ok := n.(*ast.AssignStmt)
			if !ok {
				return true
			}
			for i, l := range as.Lhs {
				t := l
				if ie, isIdx := ast.Unparen(l).(*ast.IndexExpr); isIdx {
					t = ie.X
				}
				if !it.isArr(t) {
					continue
				}
				if t == l && len(as.Lhs) == len(as.Rhs) && it.isArr(as.Rhs[i]) && (as.Tok == token.ASSIGN || as.Tok == token.DEFINE) {
					continue // the copy itself
				}
				it.arrs = map[types.Object]bool{objOf(info, it.arr): true}
			}
			return true
		})
	}
}

// recover reads the interpreter's skeleton; "" on success, else what is missing.
func (it *interp) recover(filterKey *types.Func) string {
	info, body := it.info, it.fn.Decl.Body
	var ps []*ast.Ident
	for _, f := range it.fn.Decl.Type.Params.List {
		ps = append(ps, f.Names...)
	}
	if len(ps) != 2 {
		return "expected parameters (command, args)"
	}
	it.cmdP, it.argsP = ps[0], ps[1]
	st, ok := info.TypeOf(it.cmdP).Underlying().(*types.Struct)
	if !ok {
		return "first parameter is not the command struct"
	}
	var ints []string
	for i := 0; i < st.NumFields(); i++ {
		if b, ok := st.Field(i).Type().Underlying().(*types.Basic); ok && b.Info()&types.IsInteger != 0 {
			ints = append(ints, st.Field(i).Name())
		}
	}
	if len(ints) != 3 {
		return "command struct does not have exactly three integer fields"
	}
	copy(it.fnames[:], ints)
	// key loop: the top-level for statement that consults FilterKey, in this
	// function or in a same-package helper whose result is assigned at top level
	hasFK := func(n ast.Node) bool {
		return len(core.Calls(n, info, func(_ *ast.CallExpr, o types.Object) bool { return o == types.Object(filterKey) })) > 0
	}
	topLoop := func(fn *core.Fn) *ast.ForStmt {
		for _, s := range flatten(fn.Decl.Body.List) {
			if f, ok := s.(*ast.ForStmt); ok && hasFK(f.Body) {
				return f
			}
		}
		return nil
	}
	var helperAs *ast.AssignStmt
	at := -1
	top := flatten(body.List)
	for i, s := range top {
		if f, ok := s.(*ast.ForStmt); ok && hasFK(f.Body) {
			it.keyLoop, it.keyFn, it.keyArgs, at = f, it.fn, info.Defs[it.argsP], i
			break
		}
		as, ok := s.(*ast.AssignStmt)
		if !ok || len(as.Rhs) != 1 || len(as.Lhs) != 1 {
			continue
		}
		call, ok := ast.Unparen(as.Rhs[0]).(*ast.CallExpr)
		if !ok {
			continue
		}
		hf := it.c.FnOf(core.CalleeFunc(info, call))
		if hf == nil || hf.Decl.Body == nil || hf.Obj.Pkg() != it.fn.Obj.Pkg() || hf.Obj == filterKey || topLoop(hf) == nil {
			continue
		}
		ps := hf.Obj.Type().(*types.Signature).Params()
		if ps.Len() != len(call.Args) || hf.Obj.Type().(*types.Signature).Results().Len() != 1 {
			continue
		}
		for k, a := range call.Args {
			if objOf(info, a) == info.Defs[it.argsP] {
				it.keyArgs = ps.At(k)
			} else {
				it.binds = append(it.binds, paramBind{ps.At(k), a})
			}
		}
		it.keyLoop, it.keyFn, helperAs, at = topLoop(hf), hf, as, i
		break
	}
	if it.keyLoop == nil || it.keyArgs == nil {
		return "no top-level loop testing keys with FilterKey (here or in a helper called with args)"
	}
	it.preamble = append([]ast.Stmt{}, top[:at]...)
	var hok bool
	it.fkeyObj = filterKey
	it.loopVar, it.eF, it.eL, it.cmpOp, it.eS, hok = forHeader(info, it.keyLoop)
	if !hok {
		// not a counting loop with a readable header: the position examined is whatever
		// indexes args in the FilterKey call, and the positions are found by running the scan
		if it.keyFn != it.fn {
			return "key loop header is not `for i := first; i <= last; i += step`"
		}
		calls := core.Calls(it.keyLoop.Body, info, func(_ *ast.CallExpr, o types.Object) bool { return o == types.Object(filterKey) })
		if len(calls) != 1 || len(calls[0].Args) != 1 {
			return "key loop header is not `for i := first; i <= last; i += step`"
		}
		arg := strip(info, calls[0].Args[0])
		if d := singleDef(info, body, objOf(info, arg)); d != nil {
			arg = strip(info, d)
		}
		ie, isIdx := arg.(*ast.IndexExpr)
		if !isIdx || objOf(info, ie.X) != it.keyArgs || objOf(info, strip(info, ie.Index)) == nil {
			return "key loop header is not `for i := first; i <= last; i += step`"
		}
		it.sim, it.loopVar, it.eF, it.eL, it.eS = true, strip(info, ie.Index), nil, nil, nil
		if _, why := it.positions(1, 1, 1, 4); why != "" {
			return "the key loop is not a counting loop and its scan cannot be executed either: " + why
		}
	}
	if n, bd := pat.Stmt("_arr[_num] = _i").Find(info, it.keyLoop.Body, pat.Binds{"_i": it.loopVar}); n != nil {
		it.recArr, it.num = bd["_arr"].(ast.Expr), bd["_num"].(ast.Expr)
	} else if n, bd := pat.Stmt("_arr = append(_arr, _i)").Find(info, it.keyLoop.Body, pat.Binds{"_i": it.loopVar}); n != nil {
		it.recArr, it.appended = bd["_arr"].(ast.Expr), true
	} else {
		return "key loop does not record passing positions as arr[num] = i or arr = append(arr, i)"
	}
	it.arr = it.recArr
	if helperAs != nil {
		if !it.appended {
			return "a helper recording positions into a pre-sized array does not tell their number"
		}
		rets := 0
		okRet := true
		core.Inspect(it.keyFn.Decl.Body, func(n ast.Node) bool {
			if r, ok := n.(*ast.ReturnStmt); ok {
				rets++
				if len(r.Results) != 1 || !pat.Same(info, r.Results[0], it.recArr) {
					okRet = false
				}
			}
			return true
		})
		if rets == 0 || !okRet {
			return "the key-walking helper does not return exactly the positions it recorded"
		}
		it.arr = helperAs.Lhs[0]
	}
	if objOf(info, it.arr) == nil {
		return "position array is not a local variable"
	}
	it.after = top[at+1:]
	it.aliases(it.after)
	if it.appended { // the number of kept keys is len(arr), usually named once
		it.num = nil
		ast.Inspect(body, func(n ast.Node) bool {
			if as, ok := n.(*ast.AssignStmt); ok && len(as.Lhs) == 1 && len(as.Rhs) == 1 && it.num == nil {
				if b := pat.Expr("len(_arr)").Match(info, as.Rhs[0], nil); b != nil && it.isArr(b["_arr"].(ast.Expr)) && singleDef(info, body, objOf(info, as.Lhs[0])) != nil {
					it.num = as.Lhs[0]
				}
			}
			return true
		})
		if it.num == nil {
			ast.Inspect(body, func(n ast.Node) bool {
				if x, isExpr := n.(ast.Expr); isExpr && it.num == nil {
					if b := pat.Expr("len(_arr)").Match(info, x, nil); b != nil && it.isArr(b["_arr"].(ast.Expr)) {
						it.num = x
					}
				}
				return true
			})
			if it.num == nil {
				return "the number of kept positions len(arr) is never used"
			}
		}
	} else if objOf(info, it.num) == nil {
		return "position counter is not a local variable"
	}
	// the copy-out phase is interpreted, not matched: try it once on symbolic f, l, s
	if _, why := it.runCopyOut(it.newEval(nil, nil, nil)).classify(); why != "" {
		return "cannot follow how the rebuilt vector is filled: " + why
	}
	return ""
}

// newEval prepares an evaluator; fields nil => symbolic f, l, s.
func (it *interp) newEval(f, l, s *int64) *evaluator {
	ev := &evaluator{info: it.info, cmd: it.info.Defs[it.cmdP], args: it.info.Defs[it.argsP], env: map[types.Object]poly{}, fields: map[string]poly{}, ctx: it.c}
	if f == nil {
		ev.fields[it.fnames[0]], ev.fields[it.fnames[1]], ev.fields[it.fnames[2]] = sym("f"), sym("l"), sym("s")
	} else {
		ev.fields[it.fnames[0]], ev.fields[it.fnames[1]], ev.fields[it.fnames[2]] = konst(*f), konst(*l), konst(*s)
	}
	ev.lenK = it.arrs
	pre := it.preamble
	ev.exec(pre)
	// from here on we are behind the key loop: the counter holds the number of
	// kept keys, and later single-assignment locals are resolved when used
	if o := objOf(it.info, it.num); o != nil {
		ev.env[o] = sym("k")
	}
	ev.body = it.fn.Decl.Body
	for _, b := range it.binds { // the key loop runs in a helper: its parameters are the caller's arguments
		if p, ok := ev.eval(b.arg); ok {
			ev.env[b.param] = p
		}
	}
	return ev
}

// convention is the interpreter's reading of one concrete table entry, as
// functions of n = len(args): first index, last bound a*n+b, stride, tail start.
type convention struct {
	F      int64
	La, Lb int64
	S      int64
	Ta, Tb int64
	C      int64
	P      int64
	strict bool // loop condition is i < last
	// got, when set, yields the positions examined for n arguments by executing the
	// scan (sim.go) instead of the progression F, F+S, ... <= La*n+Lb
	got func(n int64) ([]int64, bool)
}

func (it *interp) conventionFor(f, l, s int64) (cv convention, why string) {
	ev := it.newEval(&f, &l, &s)
	get := func(e ast.Expr, what string) (poly, bool) {
		if e == nil {
			return konst(1), true
		}
		p, ok := ev.eval(e)
		if !ok {
			why = "cannot evaluate " + what + " " + it.c.Src(e)
		}
		return p, ok
	}
	if it.sim {
		return it.simConvention(ev, f, l, s)
	}
	F, ok1 := get(it.eF, "first index")
	L, ok2 := get(it.eL, "last index")
	S, ok3 := get(it.eS, "stride")
	if !(ok1 && ok2 && ok3) {
		return cv, why
	}
	lay, w := it.runCopyOut(ev).classify()
	if w != "" {
		return cv, w
	}
	var okc [4]bool
	cv.F, okc[0] = F.isConst()
	cv.S, okc[1] = S.isConst()
	cv.C, okc[2] = lay.C.isConst()
	cv.P, okc[3] = lay.P.isConst()
	var okL, okT bool
	cv.La, cv.Lb, okL = L.affine("n")
	cv.Ta, cv.Tb, okT = lay.T.affine("n")
	cv.strict = it.cmpOp == token.LSS
	if !(okc[0] && okc[1] && okc[2] && okc[3] && okL && okT) || cv.La < 0 || cv.La > 1 {
		return cv, fmt.Sprintf("interpreter quantities are not of the form a*len(args)+b (first=%v last=%v step=%v tail=%v)", F, L, S, lay.T)
	}
	return cv, ""
}

// simConvention: the reading of one table row when the scan is executed: the
// copy-out quantities are symbolic as usual, the positions examined come from
// running the scan for each number of arguments.
func (it *interp) simConvention(ev *evaluator, f, l, s int64) (cv convention, why string) {
	lay, w := it.runCopyOut(ev).classify()
	if w != "" {
		return cv, w
	}
	var okc [2]bool
	var okT bool
	cv.C, okc[0] = lay.C.isConst()
	cv.P, okc[1] = lay.P.isConst()
	cv.Ta, cv.Tb, okT = lay.T.affine("n")
	if !(okc[0] && okc[1] && okT) {
		return cv, fmt.Sprintf("interpreter quantities are not of the form a*len(args)+b (tail=%v)", lay.T)
	}
	ref, why := it.positions(f, l, s, 12)
	if why != "" {
		return cv, why
	}
	cv.F, cv.S = -1, s
	if len(ref) > 0 {
		cv.F = ref[0]
	}
	if len(ref) > 1 {
		cv.S = ref[1] - ref[0]
	}
	// every number of arguments compare() may ask for is run now: a scan that cannot be
	// executed makes the row undecided here, it never turns into a verdict later
	runs := map[int64][]int64{}
	for n := int64(0); n <= 48; n++ {
		got, why := it.positions(f, l, s, n)
		if why != "" {
			return cv, fmt.Sprintf("cannot execute the key scan for %d arguments: %s", n, why)
		}
		runs[n] = got
	}
	cv.got = func(n int64) ([]int64, bool) { got, ok := runs[n]; return got, ok }
	return cv, ""
}

// r3 checks the data flow into the rebuilt vector on symbolic f, l, s.
func (it *interp) r3() {
	c := it.c
	ev := it.newEval(nil, nil, nil)
	S := konst(1)
	if it.eS != nil {
		var ok bool
		if S, ok = ev.eval(it.eS); !ok {
			c.Undecidedf("R3.ranges", "stride", it.eS.Pos(), "cannot evaluate %s symbolically", c.Src(it.eS))
			return
		}
	}
	lay, why := it.runCopyOut(ev).classify()
	if why != "" {
		c.Undecidedf("R3.ranges", "copy-out", it.fn.Decl.Pos(), "%s", why)
		return
	}
	k := sym("k")
	P, C, T := lay.P, lay.C, lay.T
	if it.sim {
		c.Okf("R3.ranges", "group-size", lay.grp.node.Pos(), "the key loop is executed, not read: the distance between examined positions is compared with the group size %v per table row (R2.table)", C)
	} else {
		c.Check("R3.ranges", "group-size", lay.grp.node.Pos(), C.eq(S),
			fmt.Sprintf("each kept key is copied with %v consecutive arguments but the key loop advances by %v: companions (MSET values) are dropped or the next key is copied as a companion", C, S))
	}
	// group a, element b
	var a, b poly
	for m := range lay.grp.src {
		if len(m) > 0 && m[0] == '@' {
			a = sym(m[1:])
		}
	}
	b = lay.grp.src.add(sym("@"+onlySym(a)), -1)
	want := P.add(a.mul(C), 1).add(b, 1)
	c.Check("R3.ranges", "group-dest", lay.grp.node.Pos(), lay.grp.dst.eq(want),
		fmt.Sprintf("kept group a, element b must land at %v (found %v): otherwise kept keys overwrite each other or leave nil holes in the forwarded command", lay.rename(want, lay.grp), lay.rename(lay.grp.dst, lay.grp)))
	t := lay.tail.src // the argument position being copied
	want = P.add(k.mul(C), 1).add(t, 1).add(T, -1)
	c.Check("R3.ranges", "tail-dest", lay.tail.node.Pos(), lay.tail.dst.eq(want),
		fmt.Sprintf("tail argument t must land right after the kept groups, at %v (found %v): otherwise trailing options overwrite kept keys or are misplaced", lay.rename(want, lay.tail), lay.rename(lay.tail.dst, lay.tail)))
	want = P.add(k.mul(C), 1).add(sym("n"), 1).add(T, -1)
	c.Check("R3.ranges", "alloc-length", lay.lenAt.Pos(), lay.LEN.eq(want),
		fmt.Sprintf("the rebuilt vector must have prefix + kept*group + tail = %v elements (found %v): a longer one forwards nil arguments, a shorter one panics", want, lay.LEN))
}

func onlySym(p poly) string {
	s, _ := singleSym(p)
	return s
}
