package c13

import (
	"fmt"
	"go/ast"
	"go/token"
	"go/types"
	"sort"
	"strings"

	"rscheck/core"
	"rscheck/pat"
)

// ---------------------------------------------------------------------------
// polynomials with integer coefficients over named symbols

type poly map[string]int64 // monomial ("" = constant, "a*b" sorted) -> coefficient

func konst(k int64) poly { return poly{"": k}.norm() }
func sym(s string) poly  { return poly{s: 1} }

func (p poly) norm() poly {
	for m, c := range p {
		if c == 0 {
			delete(p, m)
		}
	}
	return p
}

func (p poly) add(q poly, sign int64) poly {
	r := poly{}
	for m, c := range p {
		r[m] += c
	}
	for m, c := range q {
		r[m] += sign * c
	}
	return r.norm()
}

func (p poly) mul(q poly) poly {
	r := poly{}
	for m1, c1 := range p {
		for m2, c2 := range q {
			var f []string
			if m1 != "" {
				f = append(f, strings.Split(m1, "*")...)
			}
			if m2 != "" {
				f = append(f, strings.Split(m2, "*")...)
			}
			sort.Strings(f)
			r[strings.Join(f, "*")] += c1 * c2
		}
	}
	return r.norm()
}

func (p poly) eq(q poly) bool { return len(p.add(q, -1)) == 0 }

func (p poly) isConst() (int64, bool) {
	if len(p) == 0 {
		return 0, true
	}
	if c, ok := p[""]; ok && len(p) == 1 {
		return c, true
	}
	return 0, false
}

// affine returns (a, b) when p = a*s + b.
func (p poly) affine(s string) (int64, int64, bool) {
	for m := range p {
		if m != "" && m != s {
			return 0, 0, false
		}
	}
	return p[s], p[""], true
}

func (p poly) String() string {
	var ms []string
	for m := range p {
		ms = append(ms, m)
	}
	sort.Strings(ms)
	var sb strings.Builder
	for _, m := range ms {
		c := p[m]
		switch {
		case m == "":
			fmt.Fprintf(&sb, "%+d", c)
		case c == 1:
			sb.WriteString("+" + m)
		case c == -1:
			sb.WriteString("-" + m)
		default:
			fmt.Fprintf(&sb, "%+d*%s", c, m)
		}
	}
	if sb.Len() == 0 {
		return "0"
	}
	return strings.TrimPrefix(sb.String(), "+")
}

// ---------------------------------------------------------------------------
// symbolic evaluation of getMatchKeys' integer expressions

type evaluator struct {
	info   *types.Info
	cmd    types.Object // the redisCommand parameter
	args   types.Object // the argument-vector parameter
	fields map[string]poly
	env    map[types.Object]poly
	lenK   types.Object // slice of kept positions: len(it) is the symbol k
	ctx    *core.Ctx    // to follow same-package helpers that compute integers (cmd.keyRange(len(args)))
	depth  int
	body   ast.Node // function body: single-assignment locals not yet in env are resolved lazily
	busy   map[types.Object]bool
	opaque int
}

func strip(info *types.Info, e ast.Expr) ast.Expr {
	for {
		e = ast.Unparen(e)
		call, ok := e.(*ast.CallExpr)
		if !ok || len(call.Args) != 1 {
			return e
		}
		if tv, ok := info.Types[call.Fun]; !ok || !tv.IsType() {
			return e
		}
		e = call.Args[0]
	}
}

func objOf(info *types.Info, e ast.Expr) types.Object {
	if e == nil {
		return nil
	}
	if id, ok := ast.Unparen(e).(*ast.Ident); ok {
		return core.ObjOf(info, id)
	}
	return nil
}

func (ev *evaluator) eval(e ast.Expr) (poly, bool) {
	e = strip(ev.info, e)
	if k, ok := core.IntConst(ev.info, e); ok {
		return konst(k), true
	}
	switch x := e.(type) {
	case *ast.Ident:
		o := objOf(ev.info, x)
		if p, ok := ev.env[o]; ok {
			return p, true
		}
		// a local assigned exactly once (anywhere, e.g. hoisted size/offset
		// expressions) stands for its definition, evaluated in the current environment
		if ev.body != nil && o != nil && !ev.busy[o] {
			if d := singleDef(ev.info, ev.body, o); d != nil {
				if ev.busy == nil {
					ev.busy = map[types.Object]bool{}
				}
				ev.busy[o] = true
				p, ok := ev.eval(d)
				delete(ev.busy, o)
				return p, ok
			}
		}
		return nil, false
	case *ast.SelectorExpr:
		if objOf(ev.info, x.X) == ev.cmd && ev.cmd != nil {
			p, ok := ev.fields[x.Sel.Name]
			return p, ok
		}
	case *ast.IndexExpr:
		// arr[a]: the position of the a-th kept key
		if o := objOf(ev.info, x.X); o != nil && o == ev.lenK {
			if idx, ok := ev.eval(x.Index); ok {
				if name, one := singleSym(idx); one {
					return sym("@" + name), true
				}
			}
		}
	case *ast.CallExpr:
		if res, ok := ev.call(x); ok && len(res) == 1 {
			return res[0], true
		}
		if b, ok := core.Callee(ev.info, x).(*types.Builtin); ok && b.Name() == "len" && len(x.Args) == 1 {
			if o := objOf(ev.info, x.Args[0]); o != nil && o == ev.args {
				return sym("n"), true
			} else if o != nil && o == ev.lenK {
				return sym("k"), true
			}
		}
	case *ast.UnaryExpr:
		if p, ok := ev.eval(x.X); ok && x.Op == token.SUB {
			return konst(0).add(p, -1), true
		}
	case *ast.BinaryExpr:
		l, ok1 := ev.eval(x.X)
		r, ok2 := ev.eval(x.Y)
		if !ok1 || !ok2 {
			return nil, false
		}
		switch x.Op {
		case token.ADD:
			return l.add(r, 1), true
		case token.SUB:
			return l.add(r, -1), true
		case token.MUL:
			return l.mul(r), true
		}
	}
	return nil, false
}

// cond decides a comparison whose two sides differ by a constant.
func (ev *evaluator) cond(e ast.Expr) (val, ok bool) {
	be, isBin := ast.Unparen(e).(*ast.BinaryExpr)
	if !isBin {
		return false, false
	}
	l, ok1 := ev.eval(be.X)
	r, ok2 := ev.eval(be.Y)
	if !ok1 || !ok2 {
		return false, false
	}
	d, isC := l.add(r, -1).isConst()
	if !isC {
		return false, false
	}
	switch be.Op {
	case token.LSS:
		return d < 0, true
	case token.LEQ:
		return d <= 0, true
	case token.GTR:
		return d > 0, true
	case token.GEQ:
		return d >= 0, true
	case token.EQL:
		return d == 0, true
	case token.NEQ:
		return d != 0, true
	}
	return false, false
}

// call evaluates a call of a same-package function or method whose body is
// straight-line integer code ending in a return: parameters are bound to the
// evaluated arguments, the receiver (or a parameter) that is the command struct
// keeps giving access to its fields, the args vector keeps its length symbol.
// Results that are not integers are nil.
func (ev *evaluator) call(call *ast.CallExpr) ([]poly, bool) {
	if ev.ctx == nil || ev.depth > 1 {
		return nil, false
	}
	f := core.CalleeFunc(ev.info, call)
	if f == nil || f.Pkg() == nil || ev.cmd == nil || f.Pkg() != ev.cmd.Pkg() {
		return nil, false
	}
	hf := ev.ctx.FnOf(f)
	if hf == nil || hf.Decl.Body == nil {
		return nil, false
	}
	sig := f.Type().(*types.Signature)
	sub := &evaluator{info: ev.info, fields: ev.fields, env: map[types.Object]poly{}, ctx: ev.ctx, depth: ev.depth + 1, lenK: nil}
	bindTo := func(param types.Object, arg ast.Expr) {
		switch o := objOf(ev.info, arg); {
		case o != nil && o == ev.cmd:
			sub.cmd = param
		case o != nil && o == ev.args:
			sub.args = param
		default:
			if p, ok := ev.eval(arg); ok {
				sub.env[param] = p
			}
		}
	}
	if sig.Recv() != nil {
		if sel, ok := ast.Unparen(call.Fun).(*ast.SelectorExpr); ok {
			bindTo(sig.Recv(), sel.X)
		}
	}
	if sig.Params().Len() != len(call.Args) || sig.Variadic() {
		return nil, false
	}
	for i := 0; i < sig.Params().Len(); i++ {
		bindTo(sig.Params().At(i), call.Args[i])
	}
	for i := 0; i < sig.Results().Len(); i++ {
		if r := sig.Results().At(i); r.Name() != "" {
			if b, ok := r.Type().Underlying().(*types.Basic); ok && b.Info()&types.IsInteger != 0 {
				sub.env[r] = konst(0)
			}
		}
	}
	list := hf.Decl.Body.List
	if len(list) == 0 {
		return nil, false
	}
	ret, ok := list[len(list)-1].(*ast.ReturnStmt)
	if !ok {
		return nil, false
	}
	for _, st := range list[:len(list)-1] { // no other exit, nothing but integer bookkeeping
		bad := false
		ast.Inspect(st, func(n ast.Node) bool {
			switch n.(type) {
			case *ast.ReturnStmt, *ast.ForStmt, *ast.RangeStmt, *ast.GoStmt, *ast.DeferStmt, *ast.BranchStmt:
				bad = true
			}
			return true
		})
		if bad {
			return nil, false
		}
	}
	sub.exec(list[:len(list)-1])
	if sub.opaque > 0 {
		ev.opaque += sub.opaque
	}
	out := make([]poly, sig.Results().Len())
	for i := range out {
		if len(ret.Results) == len(out) {
			if p, ok := sub.eval(ret.Results[i]); ok {
				out[i] = p
			}
		} else if len(ret.Results) == 0 {
			if p, ok := sub.env[sig.Results().At(i)]; ok {
				out[i] = p
			}
		} else {
			return nil, false
		}
	}
	return out, true
}

// exec runs straight-line integer statements; an `if` whose condition cannot
// be decided makes every variable assigned inside opaque.
func (ev *evaluator) exec(stmts []ast.Stmt) {
	for _, s := range stmts {
		switch st := s.(type) {
		case *ast.AssignStmt:
			if len(st.Rhs) == 1 && len(st.Lhs) > 1 && (st.Tok == token.ASSIGN || st.Tok == token.DEFINE) {
				// first, last, step := cmd.keyRange(len(args))
				if call, ok := ast.Unparen(st.Rhs[0]).(*ast.CallExpr); ok {
					res, ok := ev.call(call)
					for i, l := range st.Lhs {
						if o := objOf(ev.info, l); o != nil {
							if ok && i < len(res) && res[i] != nil {
								ev.env[o] = res[i]
							} else {
								delete(ev.env, o)
							}
						}
					}
					continue
				}
			}
			for i, l := range st.Lhs {
				o := objOf(ev.info, l)
				if o == nil {
					continue
				}
				r := core.AssignedTo(st, i)
				var p poly
				ok := false
				if r != nil {
					p, ok = ev.eval(r)
				}
				switch st.Tok {
				case token.ASSIGN, token.DEFINE:
				case token.ADD_ASSIGN, token.SUB_ASSIGN:
					old, had := ev.env[o]
					if ok && had {
						p = old.add(p, map[token.Token]int64{token.ADD_ASSIGN: 1, token.SUB_ASSIGN: -1}[st.Tok])
					} else {
						ok = false
					}
				default:
					ok = false
				}
				if ok {
					ev.env[o] = p
				} else {
					delete(ev.env, o)
				}
			}
		case *ast.IncDecStmt:
			if o := objOf(ev.info, st.X); o != nil {
				if old, had := ev.env[o]; had {
					d := int64(1)
					if st.Tok == token.DEC {
						d = -1
					}
					ev.env[o] = old.add(konst(d), 1)
				}
			}
		case *ast.DeclStmt:
			if gd, ok := st.Decl.(*ast.GenDecl); ok {
				for _, sp := range gd.Specs {
					if vs, ok := sp.(*ast.ValueSpec); ok {
						for i, nm := range vs.Names {
							o := ev.info.Defs[nm]
							if i < len(vs.Values) {
								if p, ok := ev.eval(vs.Values[i]); ok {
									ev.env[o] = p
								}
							} else if b, ok := o.Type().Underlying().(*types.Basic); ok && b.Info()&types.IsInteger != 0 {
								ev.env[o] = konst(0)
							}
						}
					}
				}
			}
		case *ast.IfStmt:
			if st.Init != nil {
				ev.exec([]ast.Stmt{st.Init})
			}
			if v, ok := ev.cond(st.Cond); ok {
				if v {
					ev.exec(st.Body.List)
				} else if eb, ok := st.Else.(*ast.BlockStmt); ok {
					ev.exec(eb.List)
				} else if ei, ok := st.Else.(*ast.IfStmt); ok {
					ev.exec([]ast.Stmt{ei})
				}
				continue
			}
			ast.Inspect(st, func(n ast.Node) bool {
				var lhs []ast.Expr
				switch a := n.(type) {
				case *ast.AssignStmt:
					lhs = a.Lhs
				case *ast.IncDecStmt:
					lhs = []ast.Expr{a.X}
				}
				for _, l := range lhs {
					if o := objOf(ev.info, l); o != nil {
						if _, tracked := ev.env[o]; tracked {
							ev.opaque++
							ev.env[o] = sym("$" + o.Name())
						}
					}
				}
				return true
			})
		}
	}
}

// ---------------------------------------------------------------------------
// R1: the skeleton of the interpreter

type interp struct {
	c        *core.Ctx
	fn       *core.Fn
	info     *types.Info
	cmdP     *ast.Ident // parameters
	argsP    *ast.Ident
	fnames   [3]string // struct field names in table order: first, last, step
	preamble []ast.Stmt
	keyLoop  *ast.ForStmt
	loopVar  ast.Expr
	eF, eL   ast.Expr
	cmpOp    token.Token // LEQ or LSS
	eS       ast.Expr    // nil => stride 1 (i++)
	arr, num ast.Expr
	after    []ast.Stmt // the copy-out phase: statements behind the key loop (interpreted, see copyout.go)
	// where the key loop lives: getMatchKeys itself or a same-package helper it calls
	keyFn    *core.Fn
	keyArgs  types.Object // the argument vector as seen by the key loop
	recArr   ast.Expr     // the slice the key loop records into (== arr unless in a helper)
	appended bool         // positions are recorded with append, their number is len(arr)
	binds    []paramBind  // helper parameters <- caller arguments
}

type paramBind struct {
	param types.Object
	arg   ast.Expr
}

func forHeader(info *types.Info, f *ast.ForStmt) (v, init, bound ast.Expr, op token.Token, step ast.Expr, ok bool) {
	if f == nil || f.Init == nil || f.Post == nil {
		return
	}
	cond := f.Cond
	if cond == nil {
		// the loop condition written as a leading guard: `if i > last { break }`
		if len(f.Body.List) == 0 {
			return
		}
		ifs, isIf := f.Body.List[0].(*ast.IfStmt)
		if !isIf || ifs.Init != nil || ifs.Else != nil || len(ifs.Body.List) != 1 {
			return
		}
		if br, isBr := ifs.Body.List[0].(*ast.BranchStmt); !isBr || br.Tok != token.BREAK || br.Label != nil {
			return
		}
		g, isBin := ast.Unparen(ifs.Cond).(*ast.BinaryExpr)
		neg, has := map[token.Token]token.Token{token.GTR: token.LEQ, token.GEQ: token.LSS, token.LSS: token.GEQ, token.LEQ: token.GTR}[gOp(g)]
		if !isBin || !has {
			return
		}
		cond = &ast.BinaryExpr{X: g.X, Op: neg, Y: g.Y, OpPos: g.OpPos}
	}
	as, isAs := f.Init.(*ast.AssignStmt)
	cb, isBin := ast.Unparen(cond).(*ast.BinaryExpr)
	if !isAs || len(as.Lhs) != 1 || len(as.Rhs) != 1 || !isBin {
		return
	}
	v, init = as.Lhs[0], as.Rhs[0]
	switch {
	case pat.Same(info, cb.X, v) && (cb.Op == token.LEQ || cb.Op == token.LSS):
		bound, op = cb.Y, cb.Op
	case pat.Same(info, cb.Y, v) && (cb.Op == token.GEQ || cb.Op == token.GTR):
		bound, op = cb.X, map[token.Token]token.Token{token.GEQ: token.LEQ, token.GTR: token.LSS}[cb.Op]
	default:
		return
	}
	bd := pat.Binds{"_i": v}
	if pat.Stmt("_i++").Match(info, f.Post, bd) != nil || pat.Stmt("_i += 1").Match(info, f.Post, bd) != nil || pat.Stmt("_i = _i + 1").Match(info, f.Post, bd) != nil {
		return v, init, bound, op, nil, true
	}
	for _, p := range []string{"_i += _s", "_i = _i + _s"} {
		if b := pat.Stmt(p).Match(info, f.Post, bd); b != nil {
			return v, init, bound, op, b["_s"].(ast.Expr), true
		}
	}
	return
}

// enclosingFors lists the for statements around n, outermost first.
func enclosingFors(root, n ast.Node) []*ast.ForStmt {
	var out []*ast.ForStmt
	for _, x := range core.PathTo(root, n) {
		if f, ok := x.(*ast.ForStmt); ok {
			out = append(out, f)
		}
	}
	return out
}

func gOp(b *ast.BinaryExpr) token.Token {
	if b == nil {
		return token.ILLEGAL
	}
	return b.Op
}

// enclosingLoops lists the for/range statements around n, outermost first.
func enclosingLoops(root, n ast.Node) []ast.Stmt {
	var out []ast.Stmt
	for _, x := range core.PathTo(root, n) {
		switch l := x.(type) {
		case *ast.ForStmt:
			out = append(out, l)
		case *ast.RangeStmt:
			out = append(out, l)
		}
	}
	return out
}

// recover reads the interpreter's skeleton; "" on success, else what is missing.
func (it *interp) recover(filterKey *types.Func) string {
	info, body := it.info, it.fn.Decl.Body
	var ps []*ast.Ident
	for _, f := range it.fn.Decl.Type.Params.List {
		ps = append(ps, f.Names...)
	}
	if len(ps) != 2 {
		return "expected parameters (command, args)"
	}
	it.cmdP, it.argsP = ps[0], ps[1]
	st, ok := info.TypeOf(it.cmdP).Underlying().(*types.Struct)
	if !ok {
		return "first parameter is not the command struct"
	}
	var ints []string
	for i := 0; i < st.NumFields(); i++ {
		if b, ok := st.Field(i).Type().Underlying().(*types.Basic); ok && b.Info()&types.IsInteger != 0 {
			ints = append(ints, st.Field(i).Name())
		}
	}
	if len(ints) != 3 {
		return "command struct does not have exactly three integer fields"
	}
	copy(it.fnames[:], ints)
	// key loop: the top-level for statement that consults FilterKey, in this
	// function or in a same-package helper whose result is assigned at top level
	hasFK := func(n ast.Node) bool {
		return len(core.Calls(n, info, func(_ *ast.CallExpr, o types.Object) bool { return o == types.Object(filterKey) })) > 0
	}
	topLoop := func(fn *core.Fn) *ast.ForStmt {
		for _, s := range fn.Decl.Body.List {
			if f, ok := s.(*ast.ForStmt); ok && hasFK(f.Body) {
				return f
			}
		}
		return nil
	}
	var helperAs *ast.AssignStmt
	at := -1
	for i, s := range body.List {
		if f, ok := s.(*ast.ForStmt); ok && hasFK(f.Body) {
			it.keyLoop, it.keyFn, it.keyArgs, at = f, it.fn, info.Defs[it.argsP], i
			break
		}
		as, ok := s.(*ast.AssignStmt)
		if !ok || len(as.Rhs) != 1 || len(as.Lhs) != 1 {
			continue
		}
		call, ok := ast.Unparen(as.Rhs[0]).(*ast.CallExpr)
		if !ok {
			continue
		}
		hf := it.c.FnOf(core.CalleeFunc(info, call))
		if hf == nil || hf.Decl.Body == nil || hf.Obj.Pkg() != it.fn.Obj.Pkg() || hf.Obj == filterKey || topLoop(hf) == nil {
			continue
		}
		ps := hf.Obj.Type().(*types.Signature).Params()
		if ps.Len() != len(call.Args) || hf.Obj.Type().(*types.Signature).Results().Len() != 1 {
			continue
		}
		for k, a := range call.Args {
			if objOf(info, a) == info.Defs[it.argsP] {
				it.keyArgs = ps.At(k)
			} else {
				it.binds = append(it.binds, paramBind{ps.At(k), a})
			}
		}
		it.keyLoop, it.keyFn, helperAs, at = topLoop(hf), hf, as, i
		break
	}
	if it.keyLoop == nil || it.keyArgs == nil {
		return "no top-level loop testing keys with FilterKey (here or in a helper called with args)"
	}
	it.preamble = append([]ast.Stmt{}, body.List[:at]...)
	var hok bool
	it.loopVar, it.eF, it.eL, it.cmpOp, it.eS, hok = forHeader(info, it.keyLoop)
	if !hok {
		return "key loop header is not `for i := first; i <= last; i += step`"
	}
	if n, bd := pat.Stmt("_arr[_num] = _i").Find(info, it.keyLoop.Body, pat.Binds{"_i": it.loopVar}); n != nil {
		it.recArr, it.num = bd["_arr"].(ast.Expr), bd["_num"].(ast.Expr)
	} else if n, bd := pat.Stmt("_arr = append(_arr, _i)").Find(info, it.keyLoop.Body, pat.Binds{"_i": it.loopVar}); n != nil {
		it.recArr, it.appended = bd["_arr"].(ast.Expr), true
	} else {
		return "key loop does not record passing positions as arr[num] = i or arr = append(arr, i)"
	}
	it.arr = it.recArr
	if helperAs != nil {
		if !it.appended {
			return "a helper recording positions into a pre-sized array does not tell their number"
		}
		rets := 0
		okRet := true
		core.Inspect(it.keyFn.Decl.Body, func(n ast.Node) bool {
			if r, ok := n.(*ast.ReturnStmt); ok {
				rets++
				if len(r.Results) != 1 || !pat.Same(info, r.Results[0], it.recArr) {
					okRet = false
				}
			}
			return true
		})
		if rets == 0 || !okRet {
			return "the key-walking helper does not return exactly the positions it recorded"
		}
		it.arr = helperAs.Lhs[0]
	}
	if objOf(info, it.arr) == nil {
		return "position array is not a local variable"
	}
	if it.appended { // the number of kept keys is len(arr), usually named once
		it.num = nil
		ast.Inspect(body, func(n ast.Node) bool {
			if as, ok := n.(*ast.AssignStmt); ok && len(as.Lhs) == 1 && len(as.Rhs) == 1 && it.num == nil {
				if pat.Expr("len(_arr)").Match(info, as.Rhs[0], pat.Binds{"_arr": it.arr}) != nil && singleDef(info, body, objOf(info, as.Lhs[0])) != nil {
					it.num = as.Lhs[0]
				}
			}
			return true
		})
		if it.num == nil {
			if n, _ := pat.Expr("len(_arr)").Find(info, body, pat.Binds{"_arr": it.arr}); n != nil {
				it.num = n.(ast.Expr)
			} else {
				return "the number of kept positions len(arr) is never used"
			}
		}
	} else if objOf(info, it.num) == nil {
		return "position counter is not a local variable"
	}
	// the copy-out phase is interpreted, not matched: try it once on symbolic f, l, s
	it.after = body.List[at+1:]
	if _, why := it.runCopyOut(it.newEval(nil, nil, nil)).classify(); why != "" {
		return "cannot follow how the rebuilt vector is filled: " + why
	}
	return ""
}

// newEval prepares an evaluator; fields nil => symbolic f, l, s.
func (it *interp) newEval(f, l, s *int64) *evaluator {
	ev := &evaluator{info: it.info, cmd: it.info.Defs[it.cmdP], args: it.info.Defs[it.argsP], env: map[types.Object]poly{}, fields: map[string]poly{}, ctx: it.c}
	if f == nil {
		ev.fields[it.fnames[0]], ev.fields[it.fnames[1]], ev.fields[it.fnames[2]] = sym("f"), sym("l"), sym("s")
	} else {
		ev.fields[it.fnames[0]], ev.fields[it.fnames[1]], ev.fields[it.fnames[2]] = konst(*f), konst(*l), konst(*s)
	}
	ev.lenK = objOf(it.info, it.arr)
	pre := it.preamble
	ev.exec(pre)
	// from here on we are behind the key loop: the counter holds the number of
	// kept keys, and later single-assignment locals are resolved when used
	if o := objOf(it.info, it.num); o != nil {
		ev.env[o] = sym("k")
	}
	ev.body = it.fn.Decl.Body
	for _, b := range it.binds { // the key loop runs in a helper: its parameters are the caller's arguments
		if p, ok := ev.eval(b.arg); ok {
			ev.env[b.param] = p
		}
	}
	return ev
}

// convention is the interpreter's reading of one concrete table entry, as
// functions of n = len(args): first index, last bound a*n+b, stride, tail start.
type convention struct {
	F      int64
	La, Lb int64
	S      int64
	Ta, Tb int64
	C      int64
	P      int64
	strict bool // loop condition is i < last
}

func (it *interp) conventionFor(f, l, s int64) (cv convention, why string) {
	ev := it.newEval(&f, &l, &s)
	get := func(e ast.Expr, what string) (poly, bool) {
		if e == nil {
			return konst(1), true
		}
		p, ok := ev.eval(e)
		if !ok {
			why = "cannot evaluate " + what + " " + it.c.Src(e)
		}
		return p, ok
	}
	F, ok1 := get(it.eF, "first index")
	L, ok2 := get(it.eL, "last index")
	S, ok3 := get(it.eS, "stride")
	if !(ok1 && ok2 && ok3) {
		return cv, why
	}
	lay, w := it.runCopyOut(ev).classify()
	if w != "" {
		return cv, w
	}
	var okc [4]bool
	cv.F, okc[0] = F.isConst()
	cv.S, okc[1] = S.isConst()
	cv.C, okc[2] = lay.C.isConst()
	cv.P, okc[3] = lay.P.isConst()
	var okL, okT bool
	cv.La, cv.Lb, okL = L.affine("n")
	cv.Ta, cv.Tb, okT = lay.T.affine("n")
	cv.strict = it.cmpOp == token.LSS
	if !(okc[0] && okc[1] && okc[2] && okc[3] && okL && okT) || cv.La < 0 || cv.La > 1 {
		return cv, fmt.Sprintf("interpreter quantities are not of the form a*len(args)+b (first=%v last=%v step=%v tail=%v)", F, L, S, lay.T)
	}
	return cv, ""
}

// r3 checks the data flow into the rebuilt vector on symbolic f, l, s.
func (it *interp) r3() {
	c := it.c
	ev := it.newEval(nil, nil, nil)
	S := konst(1)
	if it.eS != nil {
		var ok bool
		if S, ok = ev.eval(it.eS); !ok {
			c.Undecidedf("R3.ranges", "stride", it.eS.Pos(), "cannot evaluate %s symbolically", c.Src(it.eS))
			return
		}
	}
	lay, why := it.runCopyOut(ev).classify()
	if why != "" {
		c.Undecidedf("R3.ranges", "copy-out", it.fn.Decl.Pos(), "%s", why)
		return
	}
	k := sym("k")
	P, C, T := lay.P, lay.C, lay.T
	c.Check("R3.ranges", "group-size", lay.grp.node.Pos(), C.eq(S),
		fmt.Sprintf("each kept key is copied with %v consecutive arguments but the key loop advances by %v: companions (MSET values) are dropped or the next key is copied as a companion", C, S))
	// group a, element b
	var a, b poly
	for m := range lay.grp.src {
		if len(m) > 0 && m[0] == '@' {
			a = sym(m[1:])
		}
	}
	b = lay.grp.src.add(sym("@"+onlySym(a)), -1)
	want := P.add(a.mul(C), 1).add(b, 1)
	c.Check("R3.ranges", "group-dest", lay.grp.node.Pos(), lay.grp.dst.eq(want),
		fmt.Sprintf("kept group a, element b must land at %v (found %v): otherwise kept keys overwrite each other or leave nil holes in the forwarded command", lay.rename(want, lay.grp), lay.rename(lay.grp.dst, lay.grp)))
	t := lay.tail.src // the argument position being copied
	want = P.add(k.mul(C), 1).add(t, 1).add(T, -1)
	c.Check("R3.ranges", "tail-dest", lay.tail.node.Pos(), lay.tail.dst.eq(want),
		fmt.Sprintf("tail argument t must land right after the kept groups, at %v (found %v): otherwise trailing options overwrite kept keys or are misplaced", lay.rename(want, lay.tail), lay.rename(lay.tail.dst, lay.tail)))
	want = P.add(k.mul(C), 1).add(sym("n"), 1).add(T, -1)
	c.Check("R3.ranges", "alloc-length", lay.lenAt.Pos(), lay.LEN.eq(want),
		fmt.Sprintf("the rebuilt vector must have prefix + kept*group + tail = %v elements (found %v): a longer one forwards nil arguments, a shorter one panics", want, lay.LEN))
}

func onlySym(p poly) string {
	s, _ := singleSym(p)
	return s
}
