package c13

import (
	"fmt"
	"go/ast"
	"go/token"
	"go/types"
	"sort"
	"strings"

	"rscheck/core"
	"rscheck/pat"
)

// ---------------------------------------------------------------------------
// polynomials with integer coefficients over named symbols

type poly map[string]int64 // monomial ("" = constant, "a*b" sorted) -> coefficient

func konst(k int64) poly { return poly{"": k}.norm() }
func sym(s string) poly  { return poly{s: 1} }

func (p poly) norm() poly {
	for m, c := range p {
		if c == 0 {
			delete(p, m)
		}
	}
	return p
}

func (p poly) add(q poly, sign int64) poly {
	r := poly{}
	for m, c := range p {
		r[m] += c
	}
	for m, c := range q {
		r[m] += sign * c
	}
	return r.norm()
}

func (p poly) mul(q poly) poly {
	r := poly{}
	for m1, c1 := range p {
		for m2, c2 := range q {
			var f []string
			if m1 != "" {
				f = append(f, strings.Split(m1, "*")...)
			}
			if m2 != "" {
				f = append(f, strings.Split(m2, "*")...)
			}
			sort.Strings(f)
			r[strings.Join(f, "*")] += c1 * c2
		}
	}
	return r.norm()
}

func (p poly) eq(q poly) bool { return len(p.add(q, -1)) == 0 }

func (p poly) isConst() (int64, bool) {
	if len(p) == 0 {
		return 0, true
	}
	if c, ok := p[""]; ok && len(p) == 1 {
		return c, true
	}
	return 0, false
}

// affine returns (a, b) when p = a*s + b.
func (p poly) affine(s string) (int64, int64, bool) {
	for m := range p {
		if m != "" && m != s {
			return 0, 0, false
		}
	}
	return p[s], p[""], true
}

func (p poly) String() string {
	var ms []string
	for m := range p {
		ms = append(ms, m)
	}
	sort.Strings(ms)
	var sb strings.Builder
	for _, m := range ms {
		c := p[m]
		switch {
		case m == "":
			fmt.Fprintf(&sb, "%+d", c)
		case c == 1:
			sb.WriteString("+" + m)
		case c == -1:
			sb.WriteString("-" + m)
		default:
			fmt.Fprintf(&sb, "%+d*%s", c, m)
		}
	}
	if sb.Len() == 0 {
		return "0"
	}
	return strings.TrimPrefix(sb.String(), "+")
}

// ---------------------------------------------------------------------------
// symbolic evaluation of getMatchKeys' integer expressions

type evaluator struct {
	info   *types.Info
	cmd    types.Object // the redisCommand parameter
	args   types.Object // the argument-vector parameter
	fields map[string]poly
	env    map[types.Object]poly
	lenK   types.Object // slice of kept positions: len(it) is the symbol k
	body   ast.Node     // function body: single-assignment locals not yet in env are resolved lazily
	busy   map[types.Object]bool
	opaque int
}

func strip(info *types.Info, e ast.Expr) ast.Expr {
	for {
		e = ast.Unparen(e)
		call, ok := e.(*ast.CallExpr)
		if !ok || len(call.Args) != 1 {
			return e
		}
		if tv, ok := info.Types[call.Fun]; !ok || !tv.IsType() {
			return e
		}
		e = call.Args[0]
	}
}

func objOf(info *types.Info, e ast.Expr) types.Object {
	if e == nil {
		return nil
	}
	if id, ok := ast.Unparen(e).(*ast.Ident); ok {
		return core.ObjOf(info, id)
	}
	return nil
}

func (ev *evaluator) eval(e ast.Expr) (poly, bool) {
	e = strip(ev.info, e)
	if k, ok := core.IntConst(ev.info, e); ok {
		return konst(k), true
	}
	switch x := e.(type) {
	case *ast.Ident:
		o := objOf(ev.info, x)
		if p, ok := ev.env[o]; ok {
			return p, true
		}
		// a local assigned exactly once (anywhere, e.g. hoisted size/offset
		// expressions) stands for its definition, evaluated in the current environment
		if ev.body != nil && o != nil && !ev.busy[o] {
			if d := singleDef(ev.info, ev.body, o); d != nil {
				if ev.busy == nil {
					ev.busy = map[types.Object]bool{}
				}
				ev.busy[o] = true
				p, ok := ev.eval(d)
				delete(ev.busy, o)
				return p, ok
			}
		}
		return nil, false
	case *ast.SelectorExpr:
		if objOf(ev.info, x.X) == ev.cmd && ev.cmd != nil {
			p, ok := ev.fields[x.Sel.Name]
			return p, ok
		}
	case *ast.CallExpr:
		if b, ok := core.Callee(ev.info, x).(*types.Builtin); ok && b.Name() == "len" && len(x.Args) == 1 {
			if o := objOf(ev.info, x.Args[0]); o != nil && o == ev.args {
				return sym("n"), true
			} else if o != nil && o == ev.lenK {
				return sym("k"), true
			}
		}
	case *ast.UnaryExpr:
		if p, ok := ev.eval(x.X); ok && x.Op == token.SUB {
			return konst(0).add(p, -1), true
		}
	case *ast.BinaryExpr:
		l, ok1 := ev.eval(x.X)
		r, ok2 := ev.eval(x.Y)
		if !ok1 || !ok2 {
			return nil, false
		}
		switch x.Op {
		case token.ADD:
			return l.add(r, 1), true
		case token.SUB:
			return l.add(r, -1), true
		case token.MUL:
			return l.mul(r), true
		}
	}
	return nil, false
}

// cond decides a comparison whose two sides differ by a constant.
func (ev *evaluator) cond(e ast.Expr) (val, ok bool) {
	be, isBin := ast.Unparen(e).(*ast.BinaryExpr)
	if !isBin {
		return false, false
	}
	l, ok1 := ev.eval(be.X)
	r, ok2 := ev.eval(be.Y)
	if !ok1 || !ok2 {
		return false, false
	}
	d, isC := l.add(r, -1).isConst()
	if !isC {
		return false, false
	}
	switch be.Op {
	case token.LSS:
		return d < 0, true
	case token.LEQ:
		return d <= 0, true
	case token.GTR:
		return d > 0, true
	case token.GEQ:
		return d >= 0, true
	case token.EQL:
		return d == 0, true
	case token.NEQ:
		return d != 0, true
	}
	return false, false
}

// exec runs straight-line integer statements; an `if` whose condition cannot
// be decided makes every variable assigned inside opaque.
func (ev *evaluator) exec(stmts []ast.Stmt) {
	for _, s := range stmts {
		switch st := s.(type) {
		case *ast.AssignStmt:
			for i, l := range st.Lhs {
				o := objOf(ev.info, l)
				if o == nil {
					continue
				}
				r := core.AssignedTo(st, i)
				var p poly
				ok := false
				if r != nil {
					p, ok = ev.eval(r)
				}
				switch st.Tok {
				case token.ASSIGN, token.DEFINE:
				case token.ADD_ASSIGN, token.SUB_ASSIGN:
					old, had := ev.env[o]
					if ok && had {
						p = old.add(p, map[token.Token]int64{token.ADD_ASSIGN: 1, token.SUB_ASSIGN: -1}[st.Tok])
					} else {
						ok = false
					}
				default:
					ok = false
				}
				if ok {
					ev.env[o] = p
				} else {
					delete(ev.env, o)
				}
			}
		case *ast.IncDecStmt:
			if o := objOf(ev.info, st.X); o != nil {
				if old, had := ev.env[o]; had {
					d := int64(1)
					if st.Tok == token.DEC {
						d = -1
					}
					ev.env[o] = old.add(konst(d), 1)
				}
			}
		case *ast.DeclStmt:
			if gd, ok := st.Decl.(*ast.GenDecl); ok {
				for _, sp := range gd.Specs {
					if vs, ok := sp.(*ast.ValueSpec); ok {
						for i, nm := range vs.Names {
							o := ev.info.Defs[nm]
							if i < len(vs.Values) {
								if p, ok := ev.eval(vs.Values[i]); ok {
									ev.env[o] = p
								}
							} else if b, ok := o.Type().Underlying().(*types.Basic); ok && b.Info()&types.IsInteger != 0 {
								ev.env[o] = konst(0)
							}
						}
					}
				}
			}
		case *ast.IfStmt:
			if st.Init != nil {
				ev.exec([]ast.Stmt{st.Init})
			}
			if v, ok := ev.cond(st.Cond); ok {
				if v {
					ev.exec(st.Body.List)
				} else if eb, ok := st.Else.(*ast.BlockStmt); ok {
					ev.exec(eb.List)
				} else if ei, ok := st.Else.(*ast.IfStmt); ok {
					ev.exec([]ast.Stmt{ei})
				}
				continue
			}
			ast.Inspect(st, func(n ast.Node) bool {
				var lhs []ast.Expr
				switch a := n.(type) {
				case *ast.AssignStmt:
					lhs = a.Lhs
				case *ast.IncDecStmt:
					lhs = []ast.Expr{a.X}
				}
				for _, l := range lhs {
					if o := objOf(ev.info, l); o != nil {
						if _, tracked := ev.env[o]; tracked {
							ev.opaque++
							ev.env[o] = sym("$" + o.Name())
						}
					}
				}
				return true
			})
		}
	}
}

// ---------------------------------------------------------------------------
// R1: the skeleton of the interpreter

type interp struct {
	c        *core.Ctx
	fn       *core.Fn
	info     *types.Info
	cmdP     *ast.Ident // parameters
	argsP    *ast.Ident
	fnames   [3]string // struct field names in table order: first, last, step
	preamble []ast.Stmt
	keyLoop  *ast.ForStmt
	loopVar  ast.Expr
	eF, eL   ast.Expr
	cmpOp    token.Token // LEQ or LSS
	eS       ast.Expr    // nil => stride 1 (i++)
	arr, num ast.Expr
	newV     ast.Expr
	eLen     ast.Expr
	grp      *ast.AssignStmt // new[D] = args[arr[a]+b]
	grpA     ast.Expr
	grpB     ast.Expr
	eC       ast.Expr
	tail     *ast.AssignStmt // new[D] = args[t]
	tailVar  ast.Expr
	eT       ast.Expr
	tailCtr  types.Object // j initialised before and incremented once per iteration of the tail loop (may be nil)
	tailInit ast.Expr     // its initial value
	eP       ast.Expr     // prefix length (nil => no prefix copy)
	// where the key loop lives: getMatchKeys itself or a same-package helper it calls
	keyFn    *core.Fn
	keyArgs  types.Object // the argument vector as seen by the key loop
	recArr   ast.Expr     // the slice the key loop records into (== arr unless in a helper)
	appended bool         // positions are recorded with append, their number is len(arr)
	binds    []paramBind  // helper parameters <- caller arguments
}

type paramBind struct {
	param types.Object
	arg   ast.Expr
}

func forHeader(info *types.Info, f *ast.ForStmt) (v, init, bound ast.Expr, op token.Token, step ast.Expr, ok bool) {
	if f == nil || f.Init == nil || f.Cond == nil || f.Post == nil {
		return
	}
	as, isAs := f.Init.(*ast.AssignStmt)
	cb, isBin := ast.Unparen(f.Cond).(*ast.BinaryExpr)
	if !isAs || len(as.Lhs) != 1 || len(as.Rhs) != 1 || !isBin {
		return
	}
	v, init = as.Lhs[0], as.Rhs[0]
	switch {
	case pat.Same(info, cb.X, v) && (cb.Op == token.LEQ || cb.Op == token.LSS):
		bound, op = cb.Y, cb.Op
	case pat.Same(info, cb.Y, v) && (cb.Op == token.GEQ || cb.Op == token.GTR):
		bound, op = cb.X, map[token.Token]token.Token{token.GEQ: token.LEQ, token.GTR: token.LSS}[cb.Op]
	default:
		return
	}
	bd := pat.Binds{"_i": v}
	if pat.Stmt("_i++").Match(info, f.Post, bd) != nil || pat.Stmt("_i += 1").Match(info, f.Post, bd) != nil || pat.Stmt("_i = _i + 1").Match(info, f.Post, bd) != nil {
		return v, init, bound, op, nil, true
	}
	for _, p := range []string{"_i += _s", "_i = _i + _s"} {
		if b := pat.Stmt(p).Match(info, f.Post, bd); b != nil {
			return v, init, bound, op, b["_s"].(ast.Expr), true
		}
	}
	return
}

// enclosingFors lists the for statements around n, outermost first.
func enclosingFors(root, n ast.Node) []*ast.ForStmt {
	var out []*ast.ForStmt
	for _, x := range core.PathTo(root, n) {
		if f, ok := x.(*ast.ForStmt); ok {
			out = append(out, f)
		}
	}
	return out
}

// enclosingLoops lists the for/range statements around n, outermost first.
func enclosingLoops(root, n ast.Node) []ast.Stmt {
	var out []ast.Stmt
	for _, x := range core.PathTo(root, n) {
		switch l := x.(type) {
		case *ast.ForStmt:
			out = append(out, l)
		case *ast.RangeStmt:
			out = append(out, l)
		}
	}
	return out
}

// recover reads the interpreter's skeleton; "" on success, else what is missing.
func (it *interp) recover(filterKey *types.Func) string {
	info, body := it.info, it.fn.Decl.Body
	var ps []*ast.Ident
	for _, f := range it.fn.Decl.Type.Params.List {
		ps = append(ps, f.Names...)
	}
	if len(ps) != 2 {
		return "expected parameters (command, args)"
	}
	it.cmdP, it.argsP = ps[0], ps[1]
	st, ok := info.TypeOf(it.cmdP).Underlying().(*types.Struct)
	if !ok {
		return "first parameter is not the command struct"
	}
	var ints []string
	for i := 0; i < st.NumFields(); i++ {
		if b, ok := st.Field(i).Type().Underlying().(*types.Basic); ok && b.Info()&types.IsInteger != 0 {
			ints = append(ints, st.Field(i).Name())
		}
	}
	if len(ints) != 3 {
		return "command struct does not have exactly three integer fields"
	}
	copy(it.fnames[:], ints)
	// key loop: the top-level for statement that consults FilterKey, in this
	// function or in a same-package helper whose result is assigned at top level
	hasFK := func(n ast.Node) bool {
		return len(core.Calls(n, info, func(_ *ast.CallExpr, o types.Object) bool { return o == types.Object(filterKey) })) > 0
	}
	topLoop := func(fn *core.Fn) *ast.ForStmt {
		for _, s := range fn.Decl.Body.List {
			if f, ok := s.(*ast.ForStmt); ok && hasFK(f.Body) {
				return f
			}
		}
		return nil
	}
	var helperAs *ast.AssignStmt
	at := -1
	for i, s := range body.List {
		if f, ok := s.(*ast.ForStmt); ok && hasFK(f.Body) {
			it.keyLoop, it.keyFn, it.keyArgs, at = f, it.fn, info.Defs[it.argsP], i
			break
		}
		as, ok := s.(*ast.AssignStmt)
		if !ok || len(as.Rhs) != 1 || len(as.Lhs) != 1 {
			continue
		}
		call, ok := ast.Unparen(as.Rhs[0]).(*ast.CallExpr)
		if !ok {
			continue
		}
		hf := it.c.FnOf(core.CalleeFunc(info, call))
		if hf == nil || hf.Decl.Body == nil || hf.Obj.Pkg() != it.fn.Obj.Pkg() || hf.Obj == filterKey || topLoop(hf) == nil {
			continue
		}
		ps := hf.Obj.Type().(*types.Signature).Params()
		if ps.Len() != len(call.Args) || hf.Obj.Type().(*types.Signature).Results().Len() != 1 {
			continue
		}
		for k, a := range call.Args {
			if objOf(info, a) == info.Defs[it.argsP] {
				it.keyArgs = ps.At(k)
			} else {
				it.binds = append(it.binds, paramBind{ps.At(k), a})
			}
		}
		it.keyLoop, it.keyFn, helperAs, at = topLoop(hf), hf, as, i
		break
	}
	if it.keyLoop == nil || it.keyArgs == nil {
		return "no top-level loop testing keys with FilterKey (here or in a helper called with args)"
	}
	it.preamble = append([]ast.Stmt{}, body.List[:at]...)
	var hok bool
	it.loopVar, it.eF, it.eL, it.cmpOp, it.eS, hok = forHeader(info, it.keyLoop)
	if !hok {
		return "key loop header is not `for i := first; i <= last; i += step`"
	}
	if n, bd := pat.Stmt("_arr[_num] = _i").Find(info, it.keyLoop.Body, pat.Binds{"_i": it.loopVar}); n != nil {
		it.recArr, it.num = bd["_arr"].(ast.Expr), bd["_num"].(ast.Expr)
	} else if n, bd := pat.Stmt("_arr = append(_arr, _i)").Find(info, it.keyLoop.Body, pat.Binds{"_i": it.loopVar}); n != nil {
		it.recArr, it.appended = bd["_arr"].(ast.Expr), true
	} else {
		return "key loop does not record passing positions as arr[num] = i or arr = append(arr, i)"
	}
	it.arr = it.recArr
	if helperAs != nil {
		if !it.appended {
			return "a helper recording positions into a pre-sized array does not tell their number"
		}
		rets := 0
		okRet := true
		core.Inspect(it.keyFn.Decl.Body, func(n ast.Node) bool {
			if r, ok := n.(*ast.ReturnStmt); ok {
				rets++
				if len(r.Results) != 1 || !pat.Same(info, r.Results[0], it.recArr) {
					okRet = false
				}
			}
			return true
		})
		if rets == 0 || !okRet {
			return "the key-walking helper does not return exactly the positions it recorded"
		}
		it.arr = helperAs.Lhs[0]
	}
	if objOf(info, it.arr) == nil {
		return "position array is not a local variable"
	}
	if it.appended { // the number of kept keys is len(arr), usually named once
		it.num = nil
		ast.Inspect(body, func(n ast.Node) bool {
			if as, ok := n.(*ast.AssignStmt); ok && len(as.Lhs) == 1 && len(as.Rhs) == 1 && it.num == nil {
				if pat.Expr("len(_arr)").Match(info, as.Rhs[0], pat.Binds{"_arr": it.arr}) != nil && singleDef(info, body, objOf(info, as.Lhs[0])) != nil {
					it.num = as.Lhs[0]
				}
			}
			return true
		})
		if it.num == nil {
			if n, _ := pat.Expr("len(_arr)").Find(info, body, pat.Binds{"_arr": it.arr}); n != nil {
				it.num = n.(ast.Expr)
			} else {
				return "the number of kept positions len(arr) is never used"
			}
		}
	} else if objOf(info, it.num) == nil {
		return "position counter is not a local variable"
	}
	// group copy: new[d] = args[arr[a]+b] in `for a < num { for b < size`, or
	// new[d] = args[pos+b] in `for a, pos := range arr[:num] { for b < size`
	zero := func(e ast.Expr) bool { k, ok := core.IntConst(info, e); return ok && k == 0 }
	bd := pat.Binds{"_args": it.argsP, "_arr": it.arr}
	if g, gb := pat.Stmt("_new[_d] = _args[_arr[_a] + _b]").Find(info, body, bd); g != nil {
		it.grp, it.newV, it.grpA, it.grpB = g.(*ast.AssignStmt), gb["_new"].(ast.Expr), gb["_a"].(ast.Expr), gb["_b"].(ast.Expr)
		loops := enclosingLoops(body, g)
		if len(loops) != 2 {
			return "kept-group copy is not inside exactly two nested loops"
		}
		fa, isFor := loops[0].(*ast.ForStmt)
		va, ia, ba, oa, sa, ok1 := forHeader(info, fa)
		if !isFor || !ok1 || !pat.Same(info, va, it.grpA) || !zero(ia) || oa != token.LSS || sa != nil || !pat.Same(info, ba, it.num) {
			return "outer kept-group loop is not `for a := 0; a < num; a++`"
		}
	} else {
		found := false
		for _, g := range pat.Stmt("_new[_d] = _args[_pos + _b]").FindAll(info, body, pat.Binds{"_args": it.argsP}) {
			loops := enclosingLoops(body, g)
			if len(loops) != 2 {
				continue
			}
			r, isRange := loops[0].(*ast.RangeStmt)
			gb := pat.Stmt("_new[_d] = _args[_pos + _b]").Match(info, g, pat.Binds{"_args": it.argsP})
			if !isRange || r.Key == nil || r.Value == nil || objOf(info, r.Key) == nil || !pat.Same(info, r.Value, gb["_pos"]) {
				continue
			}
			over := pat.Expr("_arr[:_num]").Match(info, r.X, pat.Binds{"_arr": it.arr, "_num": it.num}) != nil ||
				it.appended && pat.Same(info, r.X, it.arr)
			if !over {
				continue
			}
			it.grp, it.newV, it.grpA, it.grpB, found = g.(*ast.AssignStmt), gb["_new"].(ast.Expr), r.Key, gb["_b"].(ast.Expr), true
		}
		if !found {
			return "no copy of the kept groups `new[d] = args[arr[a] + b]` (or ranging over arr[:num])"
		}
	}
	loops := enclosingLoops(body, it.grp)
	fb, isFor := loops[1].(*ast.ForStmt)
	vb, ib, bb, ob, sb, ok2 := forHeader(info, fb)
	if !isFor || !ok2 || !pat.Same(info, vb, it.grpB) || !zero(ib) || ob != token.LSS || sb != nil {
		return "inner kept-group loop is not `for b := 0; b < size; b++`"
	}
	it.eC = bb
	// allocation
	if a, ab := pat.Stmt("_new = make(_t, _len)").Find(info, body, pat.Binds{"_new": it.newV}); a != nil {
		it.eLen = ab["_len"].(ast.Expr)
	} else {
		return "no allocation `new = make(T, length)`"
	}
	// tail copy
	for _, t := range pat.Stmt("_new[_d] = _args[_t]").FindAll(info, body, pat.Binds{"_new": it.newV, "_args": it.argsP}) {
		as := t.(*ast.AssignStmt)
		src := ast.Unparen(as.Rhs[0]).(*ast.IndexExpr).Index
		fs := enclosingFors(body, t)
		if objOf(info, src) == nil || len(fs) != 1 {
			continue
		}
		v, init, bound, op, step, ok := forHeader(info, fs[0])
		if !ok || !pat.Same(info, v, src) || step != nil {
			continue
		}
		if zero(init) { // prefix copy: for p := 0; p < P; p++ { new[p] = args[p] }
			if op == token.LSS && pat.Same(info, ast.Unparen(as.Lhs[0]).(*ast.IndexExpr).Index, src) {
				it.eP = bound
			}
			continue
		}
		if op != token.LSS || pat.Expr("len(_args)").Match(info, bound, pat.Binds{"_args": it.argsP}) == nil {
			return "tail loop does not run to len(args)"
		}
		it.tail, it.tailVar, it.eT = as, v, init
		// optional counter j
		ast.Inspect(ast.Unparen(as.Lhs[0]).(*ast.IndexExpr).Index, func(m ast.Node) bool {
			if id, ok := m.(*ast.Ident); ok {
				o := info.Uses[id]
				bj := pat.Binds{"_j": id}
				inc := 0
				for _, s := range fs[0].Body.List {
					if pat.Stmt("_j++").Match(info, s, bj) != nil || pat.Stmt("_j += 1").Match(info, s, bj) != nil || pat.Stmt("_j = _j + 1").Match(info, s, bj) != nil {
						inc++
					}
				}
				if inc == 1 {
					it.tailCtr = o
				}
			}
			return true
		})
	}
	if it.tail == nil {
		return "no tail copy `for t := start; t < len(args); t++ { new[d] = args[t] }`"
	}
	if it.tailCtr != nil { // initialised exactly once, at top level, before the loop
		inits := 0
		for _, s := range body.List {
			if _, isFor := s.(*ast.ForStmt); isFor {
				continue
			}
			if as, ok := s.(*ast.AssignStmt); ok && len(as.Lhs) == 1 && len(as.Rhs) == 1 && objOf(info, as.Lhs[0]) == it.tailCtr && (as.Tok == token.DEFINE || as.Tok == token.ASSIGN) {
				it.tailInit = as.Rhs[0]
				inits++
			}
		}
		if inits != 1 {
			return "tail counter is not initialised exactly once before the tail loop"
		}
	}
	// prefix copy by copy(new, args[:P]) / copy(new[:P], args[:P])
	for _, p := range []string{"copy(_new, _args[:_p])", "copy(_new[:_p], _args[:_p])", "copy(_new[:_p], _args)"} {
		if n, b := pat.Expr(p).Find(info, body, pat.Binds{"_new": it.newV, "_args": it.argsP}); n != nil {
			it.eP = b["_p"].(ast.Expr)
		}
	}
	return ""
}

// newEval prepares an evaluator; fields nil => symbolic f, l, s.
func (it *interp) newEval(f, l, s *int64) *evaluator {
	ev := &evaluator{info: it.info, cmd: it.info.Defs[it.cmdP], args: it.info.Defs[it.argsP], env: map[types.Object]poly{}, fields: map[string]poly{}}
	if f == nil {
		ev.fields[it.fnames[0]], ev.fields[it.fnames[1]], ev.fields[it.fnames[2]] = sym("f"), sym("l"), sym("s")
	} else {
		ev.fields[it.fnames[0]], ev.fields[it.fnames[1]], ev.fields[it.fnames[2]] = konst(*f), konst(*l), konst(*s)
	}
	ev.lenK = objOf(it.info, it.arr)
	// the tail counter's initialisation is evaluated where it is needed, not here
	var pre []ast.Stmt
	for _, st := range it.preamble {
		if as, ok := st.(*ast.AssignStmt); ok && it.tailCtr != nil && len(as.Lhs) == 1 && objOf(it.info, as.Lhs[0]) == it.tailCtr {
			continue
		}
		pre = append(pre, st)
	}
	ev.exec(pre)
	// from here on we are behind the key loop: the counter holds the number of
	// kept keys, and later single-assignment locals are resolved when used
	if o := objOf(it.info, it.num); o != nil {
		ev.env[o] = sym("k")
	}
	ev.body = it.fn.Decl.Body
	for _, b := range it.binds { // the key loop runs in a helper: its parameters are the caller's arguments
		if p, ok := ev.eval(b.arg); ok {
			ev.env[b.param] = p
		}
	}
	return ev
}

// convention is the interpreter's reading of one concrete table entry, as
// functions of n = len(args): first index, last bound a*n+b, stride, tail start.
type convention struct {
	F      int64
	La, Lb int64
	S      int64
	Ta, Tb int64
	C      int64
	P      int64
	strict bool // loop condition is i < last
}

func (it *interp) conventionFor(f, l, s int64) (cv convention, why string) {
	ev := it.newEval(&f, &l, &s)
	get := func(e ast.Expr, what string) (poly, bool) {
		if e == nil {
			return konst(1), true
		}
		p, ok := ev.eval(e)
		if !ok {
			why = "cannot evaluate " + what + " " + it.c.Src(e)
		}
		return p, ok
	}
	F, ok1 := get(it.eF, "first index")
	L, ok2 := get(it.eL, "last index")
	S, ok3 := get(it.eS, "stride")
	T, ok4 := get(it.eT, "tail start")
	C, ok5 := get(it.eC, "group size")
	P := konst(0)
	ok6 := true
	if it.eP != nil {
		P, ok6 = get(it.eP, "prefix length")
	}
	if !(ok1 && ok2 && ok3 && ok4 && ok5 && ok6) {
		return cv, why
	}
	var okc [4]bool
	cv.F, okc[0] = F.isConst()
	cv.S, okc[1] = S.isConst()
	cv.C, okc[2] = C.isConst()
	cv.P, okc[3] = P.isConst()
	var okL, okT bool
	cv.La, cv.Lb, okL = L.affine("n")
	cv.Ta, cv.Tb, okT = T.affine("n")
	cv.strict = it.cmpOp == token.LSS
	if !(okc[0] && okc[1] && okc[2] && okc[3] && okL && okT) || cv.La < 0 || cv.La > 1 {
		return cv, fmt.Sprintf("interpreter quantities are not of the form a*len(args)+b (first=%v last=%v step=%v tail=%v)", F, L, S, T)
	}
	return cv, ""
}

// r3 checks the data flow into the rebuilt vector on symbolic f, l, s.
func (it *interp) r3() {
	c := it.c
	ev := it.newEval(nil, nil, nil)
	info := it.info
	k := sym("k")
	if o := objOf(info, it.num); o != nil {
		ev.env[o] = k
	}
	need := func(e ast.Expr, what string) (poly, bool) {
		if e == nil {
			return konst(1), true
		}
		p, ok := ev.eval(e)
		if !ok {
			c.Undecidedf("R3.ranges", what, e.Pos(), "cannot evaluate %s symbolically", c.Src(e))
		}
		return p, ok
	}
	S, ok1 := need(it.eS, "stride")
	C, ok2 := need(it.eC, "group-size")
	T, ok3 := need(it.eT, "tail-start")
	LEN, ok4 := need(it.eLen, "alloc-length")
	P := konst(0)
	ok5 := true
	if it.eP != nil {
		P, ok5 = need(it.eP, "prefix")
	}
	if !(ok1 && ok2 && ok3 && ok4 && ok5) {
		return
	}
	c.Check("R3.ranges", "group-size", it.grp.Pos(), C.eq(S),
		fmt.Sprintf("each kept key is copied with %v consecutive arguments but the key loop advances by %v: companions (MSET values) are dropped or the next key is copied as a companion", C, S))
	ev.env[objOf(info, it.grpA)], ev.env[objOf(info, it.grpB)] = sym("a"), sym("b")
	if D, ok := need(ast.Unparen(it.grp.Lhs[0]).(*ast.IndexExpr).Index, "group-dest"); ok {
		want := P.add(sym("a").mul(C), 1).add(sym("b"), 1)
		c.Check("R3.ranges", "group-dest", it.grp.Pos(), D.eq(want),
			fmt.Sprintf("kept group a, element b must land at %v (found %v): otherwise kept keys overwrite each other or leave nil holes in the forwarded command", want, D))
	}
	ev.env[objOf(info, it.tailVar)] = sym("t")
	if it.tailCtr != nil {
		init, ok := need(it.tailInit, "tail-counter")
		if !ok {
			return
		}
		ev.env[it.tailCtr] = init.add(sym("t"), 1).add(T, -1)
	}
	if D, ok := need(ast.Unparen(it.tail.Lhs[0]).(*ast.IndexExpr).Index, "tail-dest"); ok {
		want := P.add(k.mul(C), 1).add(sym("t"), 1).add(T, -1)
		c.Check("R3.ranges", "tail-dest", it.tail.Pos(), D.eq(want),
			fmt.Sprintf("tail argument t must land right after the kept groups, at %v (found %v): otherwise trailing options overwrite kept keys or are misplaced", want, D))
	}
	want := P.add(k.mul(C), 1).add(sym("n"), 1).add(T, -1)
	c.Check("R3.ranges", "alloc-length", it.eLen.Pos(), LEN.eq(want),
		fmt.Sprintf("the rebuilt vector must have prefix + kept*group + tail = %v elements (found %v): a longer one forwards nil arguments, a shorter one panics", want, LEN))
}
