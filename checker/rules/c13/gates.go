package c13

import (
	"go/ast"
	"go/token"
	"go/types"

	"golang.org/x/tools/go/cfg"

	"rscheck/cfgq"
	"rscheck/core"
	"rscheck/pat"
	"rscheck/rules/ring"
)

// assumption is a partial valuation of the wrapper's inputs: some slices are
// empty, some boolean variables have a known value. Conditions are decided
// under it whatever their spelling: `len(a) == 0 && len(b) == 0`,
// `len(a)+len(b) < 1`, `!enabled(a, b)` with a one-line predicate helper,
// lists named by locals first, split guard clauses, De Morgan.
type assumption struct {
	c     *core.Ctx
	info  *types.Info
	pkg   *types.Package
	body  ast.Node
	lenOf func(e ast.Expr) (int64, bool) // assumed length of the slice e denotes
	bools map[types.Object]bool
	field func(sel *ast.SelectorExpr) (int64, bool) // assumed value of an integer field (the looked-up table row), may be nil
}

type argEnv map[types.Object]ast.Expr // parameters of an inlined helper -> arguments

func (a *assumption) resolve(e ast.Expr, env argEnv, depth int) ast.Expr {
	for i := 0; i < 4; i++ {
		e = strip(a.info, e)
		o := objOf(a.info, e)
		if o == nil {
			return e
		}
		if arg, ok := env[o]; ok {
			e = arg
			env = nil // arguments are in the caller's terms
			continue
		}
		if d := singleDef(a.info, a.body, o); d != nil {
			e = d
			continue
		}
		if d := tupleElem(a.info, a.body, o); d != nil { // blacklist, whitelist := x, y
			e = d
			continue
		}
		return e
	}
	return e
}

// tupleElem: o := the i-th right-hand side of its only, parallel, definition.
func tupleElem(info *types.Info, body ast.Node, o types.Object) ast.Expr {
	var out ast.Expr
	n := 0
	ast.Inspect(body, func(m ast.Node) bool {
		if as, ok := m.(*ast.AssignStmt); ok {
			for i, l := range as.Lhs {
				if objOf(info, l) == o && o != nil {
					n++
					if len(as.Lhs) == len(as.Rhs) && len(as.Lhs) > 1 {
						out = as.Rhs[i]
					}
				}
			}
		}
		return true
	})
	if n == 1 {
		return out
	}
	return nil
}

func (a *assumption) intOf(e ast.Expr, env argEnv, depth int) (int64, bool) {
	if depth > 6 {
		return 0, false
	}
	e = strip(a.info, e)
	if k, ok := core.IntConst(a.info, e); ok {
		return k, true
	}
	switch x := e.(type) {
	case *ast.CallExpr:
		if b, ok := core.Callee(a.info, x).(*types.Builtin); ok && b.Name() == "len" && len(x.Args) == 1 {
			if n, ok := a.lenOf(a.resolve(x.Args[0], env, depth)); ok {
				return n, true
			}
		}
	case *ast.Ident:
		r := a.resolve(x, env, depth)
		if r != ast.Expr(x) {
			return a.intOf(r, nil, depth+1)
		}
	case *ast.SelectorExpr:
		if a.field != nil {
			if v, ok := a.field(x); ok {
				return v, true
			}
		}
	case *ast.BinaryExpr:
		l, ok1 := a.intOf(x.X, env, depth+1)
		r, ok2 := a.intOf(x.Y, env, depth+1)
		if ok1 && ok2 {
			switch x.Op {
			case token.ADD:
				return l + r, true
			case token.SUB:
				return l - r, true
			case token.MUL:
				return l * r, true
			}
		}
	}
	return 0, false
}

// atom decides an atomic condition under the assumption.
func (a *assumption) atom(env argEnv, depth int) func(ast.Expr) (bool, bool) {
	return func(e ast.Expr) (bool, bool) {
		if depth > 3 {
			return false, false
		}
		e = ast.Unparen(e)
		switch x := e.(type) {
		case *ast.Ident:
			if v, isC := boolConst(a.info, x); isC {
				return v, true
			}
			if v, ok := a.bools[objOf(a.info, x)]; ok {
				return v, true
			}
			if r := a.resolve(x, env, depth); r != ast.Expr(x) {
				return ring.EvalUnder(r, a.atom(nil, depth+1))
			}
			// a verdict local assigned in several places: whatever way was taken, it holds
			// one of the assigned values; when they all come out the same, that is its value
			if o := objOf(a.info, x); o != nil && env == nil {
				if vals, ok := boolDefs(a.info, a.body, o); ok && len(vals) > 0 {
					all, first := true, false
					for i, d := range vals {
						v, known := false, true // nil: declared with its zero value
						if d != nil {
							v, known = ring.EvalUnder(d, a.atom(nil, depth+1))
						}
						if !known || i > 0 && v != first {
							all = false
							break
						}
						first = v
					}
					if all {
						return first, true
					}
				}
			}
		case *ast.BinaryExpr:
			l, ok1 := a.intOf(x.X, env, 0)
			r, ok2 := a.intOf(x.Y, env, 0)
			if ok1 && ok2 {
				switch x.Op {
				case token.EQL:
					return l == r, true
				case token.NEQ:
					return l != r, true
				case token.LSS:
					return l < r, true
				case token.LEQ:
					return l <= r, true
				case token.GTR:
					return l > r, true
				case token.GEQ:
					return l >= r, true
				}
			}
		case *ast.CallExpr:
			// a same-package predicate consisting of one `return <condition>`
			f := core.CalleeFunc(a.info, x)
			if f == nil || f.Pkg() != a.pkg {
				return false, false
			}
			hf := a.c.FnOf(f)
			ps := f.Type().(*types.Signature).Params()
			if hf == nil || hf.Decl.Body == nil || len(hf.Decl.Body.List) != 1 || ps.Len() != len(x.Args) {
				return false, false
			}
			ret, ok := hf.Decl.Body.List[0].(*ast.ReturnStmt)
			if !ok || len(ret.Results) != 1 {
				return false, false
			}
			inner := argEnv{}
			for i := 0; i < ps.Len(); i++ {
				inner[ps.At(i)] = a.resolve(x.Args[i], env, depth)
			}
			return ring.EvalUnder(ret.Results[0], a.atom(inner, depth+1))
		}
		return false, false
	}
}

// decidedPath: a path from the entry to target on which every branch condition
// is decided by the assumption (so the path is really taken under it).
func (a *assumption) decidedPath(g *cfgq.Graph, target func(ast.Node) bool, avoid func(ast.Node) bool) []string {
	at := a.atom(nil, 0)
	arms := a.typeArms(g)
	return g.Path(cfgq.Query{From: g.Entry(), Target: target, Avoid: avoid, Assume: a.facts(g), AvoidEdge: func(b *cfg.Block, s int) bool {
		if arms(b, s) {
			return true
		}
		cnd := cfgq.CondOf(b)
		if cnd == nil || len(b.Succs) != 2 {
			return false
		}
		v, known := ring.EvalUnder(cnd, at)
		return !known || (s == 0) != v
	}})
}

// unreachableUnder: no path from the entry to target survives the assumption.
// The assumption is also handed to the path search as facts about the
// conditions it decides, so that a verdict computed into a boolean local
// (`run = known && len(argv) != 0; if !run { return }`) is followed.
func (a *assumption) unreachableUnder(g *cfgq.Graph, target cfgq.Point) (bool, []string) {
	tn := target.Node()
	inf := ring.Infeasible(a.info, a.atom(nil, 0))
	arms := a.typeArms(g)
	avoid := func(b *cfg.Block, s int) bool { return arms(b, s) || inf(b, s) }
	w := g.Path(cfgq.Query{From: g.Entry(), Target: func(n ast.Node) bool { return n == tn }, Assume: a.facts(g), AvoidEdge: avoid})
	if w == nil {
		return true, nil
	}
	// a boolean the assumption fixes may be assigned inside the function (the comma-ok
	// flag of a lookup): assume it from the point where it is bound, provided every
	// way to the target passes that point
	for o, val := range a.bools {
		def := boundAt(a.info, a.body, o)
		if def == nil {
			continue
		}
		dp, ok := g.Find(def)
		if !ok {
			continue
		}
		if dom, _ := g.Dominated(target, func(n ast.Node) bool { return n == dp.Node() }); !dom {
			continue
		}
		var seed []cfgq.Fact
		ast.Inspect(a.body, func(n ast.Node) bool {
			if id, isId := n.(*ast.Ident); isId && a.info.Uses[id] == o && len(seed) == 0 {
				seed = append(seed, cfgq.Fact{Expr: id, Val: val})
			}
			return true
		})
		if len(seed) == 0 {
			continue
		}
		w2 := g.Path(cfgq.Query{From: dp, After: true, Target: func(n ast.Node) bool { return n == tn }, Assume: append(seed, a.facts(g)...), AvoidEdge: avoid})
		if w2 == nil {
			return true, nil
		}
	}
	return false, w
}

// boolDefs lists the values assigned to the boolean local o (nil = its zero-value
// declaration); ok is false when o is written in a way that is not a plain
// assignment, is a parameter / named result, or has its address taken.
func boolDefs(info *types.Info, body ast.Node, o types.Object) (vals []ast.Expr, ok bool) {
	v, isVar := o.(*types.Var)
	if !isVar || v.IsField() || body == nil || v.Pos() < body.Pos() || v.Pos() > body.End() {
		return nil, false
	}
	if b, isB := v.Type().Underlying().(*types.Basic); !isB || b.Info()&types.IsBoolean == 0 {
		return nil, false
	}
	ok = true
	ast.Inspect(body, func(n ast.Node) bool {
		switch s := n.(type) {
		case *ast.AssignStmt:
			for i, l := range s.Lhs {
				if objOf(info, l) != o {
					continue
				}
				if r := core.AssignedTo(s, i); r != nil && (s.Tok == token.ASSIGN || s.Tok == token.DEFINE) {
					vals = append(vals, r)
				} else {
					ok = false
				}
			}
		case *ast.ValueSpec:
			for i, nm := range s.Names {
				if info.Defs[nm] == o {
					switch {
					case len(s.Values) == 0:
						vals = append(vals, nil)
					case len(s.Values) == len(s.Names):
						vals = append(vals, s.Values[i])
					default:
						ok = false
					}
				}
			}
		case *ast.UnaryExpr:
			if s.Op == token.AND && objOf(info, s.X) == o {
				ok = false
			}
		case *ast.RangeStmt:
			if s.Key != nil && objOf(info, s.Key) == o || s.Value != nil && objOf(info, s.Value) == o {
				ok = false
			}
		}
		return true
	})
	return vals, ok
}

// boundAt: the statement that gives the local o its only value (`x, o := m[k]`).
func boundAt(info *types.Info, body ast.Node, o types.Object) ast.Node {
	var def ast.Node
	n := 0
	ast.Inspect(body, func(m ast.Node) bool {
		if as, ok := m.(*ast.AssignStmt); ok {
			for _, l := range as.Lhs {
				if objOf(info, l) == o && o != nil {
					def = as
					n++
				}
			}
		}
		return true
	})
	if n != 1 {
		return nil
	}
	return def
}

// facts: the comparisons of the body that the assumption decides, as facts for
// the path search (it drops a fact when a variable it mentions is assigned).
func (a *assumption) facts(g *cfgq.Graph) []cfgq.Fact {
	at := a.atom(nil, 0)
	var out []cfgq.Fact
	ast.Inspect(a.body, func(n ast.Node) bool {
		be, ok := n.(*ast.BinaryExpr)
		if !ok {
			return true
		}
		switch be.Op {
		case token.EQL, token.NEQ, token.LSS, token.LEQ, token.GTR, token.GEQ:
			// only facts about lengths of things nobody assigns in this function (parameters, configuration)
			if mentionsLocalDef(a.info, a.body, be) {
				return true
			}
			if v, known := at(be); known {
				out = append(out, cfgq.Fact{Expr: be, Val: v})
			}
		}
		return true
	})
	return out
}

// mentionsLocalDef: e mentions a local variable that is assigned somewhere in body.
func mentionsLocalDef(info *types.Info, body ast.Node, e ast.Expr) bool {
	hit := false
	ast.Inspect(e, func(n ast.Node) bool {
		id, ok := n.(*ast.Ident)
		if !ok {
			return true
		}
		v, isVar := info.Uses[id].(*types.Var)
		if !isVar || v.IsField() || v.Pkg() == nil || v.Parent() == v.Pkg().Scope() {
			return true
		}
		ast.Inspect(body, func(m ast.Node) bool {
			switch s := m.(type) {
			case *ast.AssignStmt:
				for _, l := range s.Lhs {
					if objOf(info, l) == types.Object(v) {
						hit = true
					}
				}
			case *ast.IncDecStmt:
				if objOf(info, s.X) == types.Object(v) {
					hit = true
				}
			case *ast.RangeStmt:
				if s.Key != nil && objOf(info, s.Key) == types.Object(v) || s.Value != nil && objOf(info, s.Value) == types.Object(v) {
					hit = true
				}
			}
			return true
		})
		return true
	})
	return hit
}

// typeArms prunes the arms of a type switch over the result of a same-package
// helper (`switch pick(a, b).(type) { case T1: ... default: ... }`) when, under
// the assumption, every return of the helper that can be reached yields one
// concrete type: the arms for other types are not taken.
func (a *assumption) typeArms(g *cfgq.Graph) func(b *cfg.Block, s int) bool {
	type armInfo struct {
		ts  *ast.TypeSwitchStmt
		dyn types.Type
	}
	arms := map[*ast.CaseClause]armInfo{}
	ast.Inspect(a.body, func(n ast.Node) bool {
		ts, ok := n.(*ast.TypeSwitchStmt)
		if !ok {
			return true
		}
		var x ast.Expr
		switch as := ts.Assign.(type) {
		case *ast.ExprStmt:
			x = as.X
		case *ast.AssignStmt:
			if len(as.Rhs) == 1 {
				x = as.Rhs[0]
			}
		}
		ta, isTA := ast.Unparen(orNilExpr(x)).(*ast.TypeAssertExpr)
		if !isTA || ta.Type != nil {
			return true
		}
		dyn := a.dynType(ta.X)
		if dyn == nil {
			return true
		}
		for _, cl := range ts.Body.List {
			if cc, ok := cl.(*ast.CaseClause); ok {
				arms[cc] = armInfo{ts, dyn}
			}
		}
		return true
	})
	lists := func(cc *ast.CaseClause, t types.Type) bool {
		for _, e := range cc.List {
			if tv, ok := a.info.Types[e]; ok && tv.IsType() && types.Identical(tv.Type, t) {
				return true
			}
		}
		return false
	}
	return func(b *cfg.Block, s int) bool {
		if len(arms) == 0 || s >= len(b.Succs) {
			return false
		}
		succ := b.Succs[s]
		cc, ok := succ.Stmt.(*ast.CaseClause)
		ai, tracked := arms[cc]
		if !ok || !tracked {
			return false
		}
		switch succ.Kind {
		case cfg.KindSwitchCaseBody:
			if cc.List != nil {
				return !lists(cc, ai.dyn)
			}
			for _, cl := range ai.ts.Body.List { // default: not taken when another arm names the type
				if oc, ok := cl.(*ast.CaseClause); ok && oc.List != nil && lists(oc, ai.dyn) {
					return true
				}
			}
		case cfg.KindSwitchNextCase:
			return len(cc.List) == 1 && lists(cc, ai.dyn) // this arm is the one taken: no falling on to the next test
		}
		return false
	}
}

// dynType: e is a call of a same-package function whose reachable returns, under
// the assumption, all hand back values of one concrete type.
func (a *assumption) dynType(e ast.Expr) types.Type {
	call, ok := ast.Unparen(e).(*ast.CallExpr)
	if !ok {
		return nil
	}
	f := core.CalleeFunc(a.info, call)
	if f == nil || f.Pkg() != a.pkg {
		return nil
	}
	hf := a.c.FnOf(f)
	ps := f.Type().(*types.Signature).Params()
	if hf == nil || hf.Decl.Body == nil || ps.Len() != len(call.Args) || f.Type().(*types.Signature).Results().Len() != 1 {
		return nil
	}
	inner := argEnv{}
	for i := 0; i < ps.Len(); i++ {
		inner[ps.At(i)] = a.resolve(call.Args[i], nil, 0)
	}
	hg := cfgq.Of(a.c.Program, hf)
	inf := ring.Infeasible(a.info, a.atom(inner, 1))
	var dyn types.Type
	for _, p := range hg.Points(func(n ast.Node) bool { _, ok := n.(*ast.ReturnStmt); return ok }) {
		r := p.Node().(*ast.ReturnStmt)
		tn := p.Node()
		if hg.Path(cfgq.Query{From: hg.Entry(), Target: func(n ast.Node) bool { return n == tn }, AvoidEdge: inf}) == nil {
			continue // not reached under the assumption
		}
		if len(r.Results) != 1 {
			return nil
		}
		t := a.info.TypeOf(r.Results[0])
		if t == nil || types.IsInterface(t) || dyn != nil && !types.Identical(dyn, t) {
			return nil
		}
		dyn = t
	}
	return dyn
}

// builtFrom: which slice are the elements of e taken from, one by one and in
// order? e is a local filled by a loop over R (append, or index by index), or
// the result of a same-package helper that fills its result that way from its
// parameter.
func builtFrom(c *core.Ctx, info *types.Info, body ast.Node, e ast.Expr, depth int) types.Object {
	e = strip(info, e)
	if call, ok := e.(*ast.CallExpr); ok && depth < 2 {
		// a closure bound to a local: toArgs := func(v [][]byte) []interface{} { ... }
		if o := objOf(info, call.Fun); o != nil && len(call.Args) == 1 {
			if lit, isLit := ast.Unparen(orNilExpr(singleDef(info, body, o))).(*ast.FuncLit); isLit && len(lit.Type.Params.List) == 1 && len(lit.Type.Params.List[0].Names) == 1 {
				var res ast.Expr
				n := 0
				core.Inspect(lit, func(m ast.Node) bool {
					if r, ok := m.(*ast.ReturnStmt); ok && len(r.Results) == 1 {
						res = r.Results[0]
						n++
					}
					return true
				})
				if n == 1 && builtFrom(c, info, lit.Body, res, depth+1) == info.Defs[lit.Type.Params.List[0].Names[0]] {
					return objOf(info, strip(info, call.Args[0]))
				}
				return nil
			}
		}
		f := core.CalleeFunc(info, call)
		hf := c.FnOf(f)
		if f == nil || hf == nil || hf.Decl.Body == nil || len(call.Args) != 1 || f.Type().(*types.Signature).Params().Len() != 1 {
			return nil
		}
		hinfo := hf.Pkg.TypesInfo
		var res ast.Expr
		n := 0
		core.Inspect(hf.Decl.Body, func(m ast.Node) bool {
			if r, ok := m.(*ast.ReturnStmt); ok && len(r.Results) == 1 {
				res = r.Results[0]
				n++
			}
			return true
		})
		if n != 1 {
			return nil
		}
		if builtFrom(c, hinfo, hf.Decl.Body, res, depth+1) == types.Object(f.Type().(*types.Signature).Params().At(0)) {
			return objOf(info, strip(info, call.Args[0]))
		}
		return nil
	}
	o := objOf(info, e)
	if o == nil {
		return nil
	}
	if d := singleDef(info, body, o); d != nil && depth < 2 { // data := toArgs(newArgv)
		if _, isCall := strip(info, d).(*ast.CallExpr); isCall {
			if src := builtFrom(c, info, body, d, depth); src != nil {
				return src
			}
		}
	}
	var src types.Object
	ast.Inspect(body, func(m ast.Node) bool {
		switch r := m.(type) {
		case *ast.RangeStmt:
			// for _, item := range R { X = append(X, item) }
			if r.Value != nil {
				if a, _ := pat.Stmt("_x = append(_x, _item)").Find(info, r.Body, pat.Binds{"_item": r.Value}); a != nil && objOf(info, a.(*ast.AssignStmt).Lhs[0]) == o {
					src = objOf(info, r.X)
				}
			}
			// for i := range R { X[i] = R[i] }   /   for i, item := range R { X[i] = item }
			if r.Key != nil {
				bd := pat.Binds{"_i": r.Key, "_r": r.X}
				if a, b := pat.Stmt("_x[_i] = _r[_i]").Find(info, r.Body, bd); a != nil && objOf(info, b["_x"].(ast.Expr)) == o {
					src = objOf(info, r.X)
				}
				// for i := range X { X[i] = S[i] } with X := make(T, len(S)): every element of S, in order
				if objOf(info, r.X) == o {
					if a, b := pat.Stmt("_x[_i] = _s[_i]").Find(info, r.Body, pat.Binds{"_i": r.Key, "_x": r.X}); a != nil {
						if mk := singleDef(info, body, o); mk != nil && pat.Expr("make(_t, len(_s))").Match(info, mk, pat.Binds{"_s": b["_s"]}) != nil {
							src = objOf(info, b["_s"].(ast.Expr))
						}
					}
				}
				if r.Value != nil {
					bd["_v"] = r.Value
					if a, b := pat.Stmt("_x[_i] = _v").Find(info, r.Body, bd); a != nil && objOf(info, b["_x"].(ast.Expr)) == o {
						src = objOf(info, r.X)
					}
				}
			}
		case *ast.ForStmt:
			// for i := 0; i < len(R); i++ { X[i] = R[i] }
			if a, b := pat.Stmt("_x[_i] = _r[_i]").Find(info, r.Body, nil); a != nil && objOf(info, b["_x"].(ast.Expr)) == o && r.Cond != nil &&
				pat.Expr("_i < len(_r)").Match(info, r.Cond, pat.Binds{"_i": b["_i"], "_r": b["_r"]}) != nil {
				src = objOf(info, b["_r"].(ast.Expr))
			}
		}
		return true
	})
	return src
}
