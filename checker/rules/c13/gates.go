package c13

import (
	"go/ast"
	"go/token"
	"go/types"

	"golang.org/x/tools/go/cfg"

	"rscheck/cfgq"
	"rscheck/core"
	"rscheck/pat"
	"rscheck/rules/ring"
)

// assumption is a partial valuation of the wrapper's inputs: some slices are
// empty, some boolean variables have a known value. Conditions are decided
// under it whatever their spelling: `len(a) == 0 && len(b) == 0`,
// `len(a)+len(b) < 1`, `!enabled(a, b)` with a one-line predicate helper,
// lists named by locals first, split guard clauses, De Morgan.
type assumption struct {
	c     *core.Ctx
	info  *types.Info
	pkg   *types.Package
	body  ast.Node
	lenOf func(e ast.Expr) (int64, bool) // assumed length of the slice e denotes
	bools map[types.Object]bool
	field func(sel *ast.SelectorExpr) (int64, bool) // assumed value of an integer field (the looked-up table row), may be nil
}

type argEnv map[types.Object]ast.Expr // parameters of an inlined helper -> arguments

func (a *assumption) resolve(e ast.Expr, env argEnv, depth int) ast.Expr {
	for i := 0; i < 4; i++ {
		e = strip(a.info, e)
		o := objOf(a.info, e)
		if o == nil {
			return e
		}
		if arg, ok := env[o]; ok {
			e = arg
			env = nil // arguments are in the caller's terms
			continue
		}
		if d := singleDef(a.info, a.body, o); d != nil {
			e = d
			continue
		}
		if d := tupleElem(a.info, a.body, o); d != nil { // blacklist, whitelist := x, y
			e = d
			continue
		}
		return e
	}
	return e
}

// tupleElem: o := the i-th right-hand side of its only, parallel, definition.
func tupleElem(info *types.Info, body ast.Node, o types.Object) ast.Expr {
	var out ast.Expr
	n := 0
	ast.Inspect(body, func(m ast.Node) bool {
		if as, ok := m.(*ast.AssignStmt); ok {
			for i, l := range as.Lhs {
				if objOf(info, l) == o && o != nil {
					n++
					if len(as.Lhs) == len(as.Rhs) && len(as.Lhs) > 1 {
						out = as.Rhs[i]
					}
				}
			}
		}
		return true
	})
	if n == 1 {
		return out
	}
	return nil
}

func (a *assumption) intOf(e ast.Expr, env argEnv, depth int) (int64, bool) {
	if depth > 6 {
		return 0, false
	}
	e = strip(a.info, e)
	if k, ok := core.IntConst(a.info, e); ok {
		return k, true
	}
	switch x := e.(type) {
	case *ast.CallExpr:
		if b, ok := core.Callee(a.info, x).(*types.Builtin); ok && b.Name() == "len" && len(x.Args) == 1 {
			if n, ok := a.lenOf(a.resolve(x.Args[0], env, depth)); ok {
				return n, true
			}
		}
	case *ast.Ident:
		r := a.resolve(x, env, depth)
		if r != ast.Expr(x) {
			return a.intOf(r, nil, depth+1)
		}
	case *ast.SelectorExpr:
		if a.field != nil {
			if v, ok := a.field(x); ok {
				return v, true
			}
		}
	case *ast.BinaryExpr:
		l, ok1 := a.intOf(x.X, env, depth+1)
		r, ok2 := a.intOf(x.Y, env, depth+1)
		if ok1 && ok2 {
			switch x.Op {
			case token.ADD:
				return l + r, true
			case token.SUB:
				return l - r, true
			case token.MUL:
				return l * r, true
			}
		}
	}
	return 0, false
}

// atom decides an atomic condition under the assumption.
func (a *assumption) atom(env argEnv, depth int) func(ast.Expr) (bool, bool) {
	return func(e ast.Expr) (bool, bool) {
		if depth > 3 {
			return false, false
		}
		e = ast.Unparen(e)
		switch x := e.(type) {
		case *ast.Ident:
			if v, ok := a.bools[objOf(a.info, x)]; ok {
				return v, true
			}
			if r := a.resolve(x, env, depth); r != ast.Expr(x) {
				return ring.EvalUnder(r, a.atom(nil, depth+1))
			}
		case *ast.BinaryExpr:
			l, ok1 := a.intOf(x.X, env, 0)
			r, ok2 := a.intOf(x.Y, env, 0)
			if ok1 && ok2 {
				switch x.Op {
				case token.EQL:
					return l == r, true
				case token.NEQ:
					return l != r, true
				case token.LSS:
					return l < r, true
				case token.LEQ:
					return l <= r, true
				case token.GTR:
					return l > r, true
				case token.GEQ:
					return l >= r, true
				}
			}
		case *ast.CallExpr:
			// a same-package predicate consisting of one `return <condition>`
			f := core.CalleeFunc(a.info, x)
			if f == nil || f.Pkg() != a.pkg {
				return false, false
			}
			hf := a.c.FnOf(f)
			ps := f.Type().(*types.Signature).Params()
			if hf == nil || hf.Decl.Body == nil || len(hf.Decl.Body.List) != 1 || ps.Len() != len(x.Args) {
				return false, false
			}
			ret, ok := hf.Decl.Body.List[0].(*ast.ReturnStmt)
			if !ok || len(ret.Results) != 1 {
				return false, false
			}
			inner := argEnv{}
			for i := 0; i < ps.Len(); i++ {
				inner[ps.At(i)] = a.resolve(x.Args[i], env, depth)
			}
			return ring.EvalUnder(ret.Results[0], a.atom(inner, depth+1))
		}
		return false, false
	}
}

// decidedPath: a path from the entry to target on which every branch condition
// is decided by the assumption (so the path is really taken under it).
func (a *assumption) decidedPath(g *cfgq.Graph, target func(ast.Node) bool, avoid func(ast.Node) bool) []string {
	at := a.atom(nil, 0)
	return g.Path(cfgq.Query{From: g.Entry(), Target: target, Avoid: avoid, AvoidEdge: func(b *cfg.Block, s int) bool {
		cnd := cfgq.CondOf(b)
		if cnd == nil || len(b.Succs) != 2 {
			return false
		}
		v, known := ring.EvalUnder(cnd, at)
		return !known || (s == 0) != v
	}})
}

// unreachableUnder: no path from the entry to target survives the assumption.
func (a *assumption) unreachableUnder(g *cfgq.Graph, target cfgq.Point) (bool, []string) {
	tn := target.Node()
	w := g.Path(cfgq.Query{From: g.Entry(), Target: func(n ast.Node) bool { return n == tn },
		AvoidEdge: ring.Infeasible(a.info, a.atom(nil, 0))})
	return w == nil, w
}

// builtFrom: which slice are the elements of e taken from, one by one and in
// order? e is a local filled by a loop over R (append, or index by index), or
// the result of a same-package helper that fills its result that way from its
// parameter.
func builtFrom(c *core.Ctx, info *types.Info, body ast.Node, e ast.Expr, depth int) types.Object {
	e = strip(info, e)
	if call, ok := e.(*ast.CallExpr); ok && depth < 2 {
		// a closure bound to a local: toArgs := func(v [][]byte) []interface{} { ... }
		if o := objOf(info, call.Fun); o != nil && len(call.Args) == 1 {
			if lit, isLit := ast.Unparen(orNilExpr(singleDef(info, body, o))).(*ast.FuncLit); isLit && len(lit.Type.Params.List) == 1 && len(lit.Type.Params.List[0].Names) == 1 {
				var res ast.Expr
				n := 0
				core.Inspect(lit, func(m ast.Node) bool {
					if r, ok := m.(*ast.ReturnStmt); ok && len(r.Results) == 1 {
						res = r.Results[0]
						n++
					}
					return true
				})
				if n == 1 && builtFrom(c, info, lit.Body, res, depth+1) == info.Defs[lit.Type.Params.List[0].Names[0]] {
					return objOf(info, strip(info, call.Args[0]))
				}
				return nil
			}
		}
		f := core.CalleeFunc(info, call)
		hf := c.FnOf(f)
		if f == nil || hf == nil || hf.Decl.Body == nil || len(call.Args) != 1 || f.Type().(*types.Signature).Params().Len() != 1 {
			return nil
		}
		hinfo := hf.Pkg.TypesInfo
		var res ast.Expr
		n := 0
		core.Inspect(hf.Decl.Body, func(m ast.Node) bool {
			if r, ok := m.(*ast.ReturnStmt); ok && len(r.Results) == 1 {
				res = r.Results[0]
				n++
			}
			return true
		})
		if n != 1 {
			return nil
		}
		if builtFrom(c, hinfo, hf.Decl.Body, res, depth+1) == types.Object(f.Type().(*types.Signature).Params().At(0)) {
			return objOf(info, strip(info, call.Args[0]))
		}
		return nil
	}
	o := objOf(info, e)
	if o == nil {
		return nil
	}
	if d := singleDef(info, body, o); d != nil && depth < 2 { // data := toArgs(newArgv)
		if _, isCall := strip(info, d).(*ast.CallExpr); isCall {
			if src := builtFrom(c, info, body, d, depth); src != nil {
				return src
			}
		}
	}
	var src types.Object
	ast.Inspect(body, func(m ast.Node) bool {
		switch r := m.(type) {
		case *ast.RangeStmt:
			// for _, item := range R { X = append(X, item) }
			if r.Value != nil {
				if a, _ := pat.Stmt("_x = append(_x, _item)").Find(info, r.Body, pat.Binds{"_item": r.Value}); a != nil && objOf(info, a.(*ast.AssignStmt).Lhs[0]) == o {
					src = objOf(info, r.X)
				}
			}
			// for i := range R { X[i] = R[i] }   /   for i, item := range R { X[i] = item }
			if r.Key != nil {
				bd := pat.Binds{"_i": r.Key, "_r": r.X}
				if a, b := pat.Stmt("_x[_i] = _r[_i]").Find(info, r.Body, bd); a != nil && objOf(info, b["_x"].(ast.Expr)) == o {
					src = objOf(info, r.X)
				}
				// for i := range X { X[i] = S[i] } with X := make(T, len(S)): every element of S, in order
				if objOf(info, r.X) == o {
					if a, b := pat.Stmt("_x[_i] = _s[_i]").Find(info, r.Body, pat.Binds{"_i": r.Key, "_x": r.X}); a != nil {
						if mk := singleDef(info, body, o); mk != nil && pat.Expr("make(_t, len(_s))").Match(info, mk, pat.Binds{"_s": b["_s"]}) != nil {
							src = objOf(info, b["_s"].(ast.Expr))
						}
					}
				}
				if r.Value != nil {
					bd["_v"] = r.Value
					if a, b := pat.Stmt("_x[_i] = _v").Find(info, r.Body, bd); a != nil && objOf(info, b["_x"].(ast.Expr)) == o {
						src = objOf(info, r.X)
					}
				}
			}
		case *ast.ForStmt:
			// for i := 0; i < len(R); i++ { X[i] = R[i] }
			if a, b := pat.Stmt("_x[_i] = _r[_i]").Find(info, r.Body, nil); a != nil && objOf(info, b["_x"].(ast.Expr)) == o && r.Cond != nil &&
				pat.Expr("_i < len(_r)").Match(info, r.Cond, pat.Binds{"_i": b["_i"], "_r": b["_r"]}) != nil {
				src = objOf(info, b["_r"].(ast.Expr))
			}
		}
		return true
	})
	return src
}
