package c13

import (
	"fmt"
	"go/ast"
	"go/token"
	"go/types"
	"sort"
	"strings"

	"rscheck/cfgq"
	"rscheck/core"
	"rscheck/pat"
)

// singleDef returns the only expression ever assigned to o under root.
func singleDef(info *types.Info, root ast.Node, o types.Object) ast.Expr {
	var rhs []ast.Expr
	other := 0
	ast.Inspect(root, func(n ast.Node) bool {
		switch s := n.(type) {
		case *ast.AssignStmt:
			for i, l := range s.Lhs {
				if objOf(info, l) == o && o != nil {
					if r := core.AssignedTo(s, i); r != nil && (s.Tok == token.ASSIGN || s.Tok == token.DEFINE) {
						rhs = append(rhs, r)
					} else {
						other++
					}
				}
			}
		case *ast.IncDecStmt:
			if objOf(info, s.X) == o && o != nil {
				other++
			}
		case *ast.ValueSpec: // var x T = v (a declaration without a value is the zero value, not a definition)
			for i, nm := range s.Names {
				if info.Defs[nm] == o && o != nil && len(s.Values) > 0 {
					if len(s.Values) == len(s.Names) {
						rhs = append(rhs, s.Values[i])
					} else {
						other++
					}
				}
			}
		}
		return true
	})
	if len(rhs) == 1 && other == 0 {
		return rhs[0]
	}
	return nil
}

// copySource follows plain copies (`x = y` / `x, z = y, w`, the only value x
// ever gets) back to the variable the value was first bound to. Expanding a
// helper in place and splitting a result struct leave such copies behind.
func copySource(info *types.Info, body ast.Node, o types.Object) types.Object {
	for i := 0; i < 6 && o != nil; i++ {
		d := singleDef(info, body, o)
		if d == nil {
			return o
		}
		src, isVar := objOf(info, d).(*types.Var)
		if !isVar || src.IsField() {
			return o
		}
		o = src
	}
	return o
}

// mentionsKeyLists: the body reads the key-list configuration (a field named FilterKey...).
func mentionsKeyLists(info *types.Info, body ast.Node) bool {
	hit := false
	ast.Inspect(body, func(n ast.Node) bool {
		if e, ok := n.(ast.Expr); ok {
			if v := core.FieldOf(info, e); v != nil && strings.HasPrefix(v.Name(), "FilterKey") {
				hit = true
			}
		}
		return true
	})
	return hit
}

// polarity reduces a boolean expression to one call of target: e <=> call
// (sense true) or e <=> !call (sense false).
func polarity(info *types.Info, root ast.Node, e ast.Expr, target *types.Func, depth int) (call *ast.CallExpr, sense, ok bool) {
	if depth > 4 {
		return nil, false, false
	}
	switch x := ast.Unparen(e).(type) {
	case *ast.CallExpr:
		if core.CalleeFunc(info, x) == target {
			return x, true, true
		}
	case *ast.Ident:
		if d := singleDef(info, root, objOf(info, x)); d != nil {
			return polarity(info, root, d, target, depth+1)
		}
	case *ast.UnaryExpr:
		if x.Op == token.NOT {
			c, s, ok := polarity(info, root, x.X, target, depth+1)
			return c, !s, ok
		}
	case *ast.BinaryExpr:
		if x.Op != token.EQL && x.Op != token.NEQ {
			return nil, false, false
		}
		for _, pr := range [][2]ast.Expr{{x.X, x.Y}, {x.Y, x.X}} {
			if tv, has := info.Types[pr[1]]; has && tv.Value != nil && (tv.Value.String() == "true" || tv.Value.String() == "false") {
				c, s, ok := polarity(info, root, pr[0], target, depth+1)
				if (tv.Value.String() == "false") != (x.Op == token.NEQ) {
					s = !s
				}
				return c, s, ok
			}
		}
	}
	return nil, false, false
}

func mentionsObj(info *types.Info, n ast.Node, o types.Object) bool {
	hit := false
	ast.Inspect(n, func(m ast.Node) bool {
		if id, ok := m.(*ast.Ident); ok && o != nil && info.Uses[id] == o {
			hit = true
		}
		return true
	})
	return hit
}

func boolConst(info *types.Info, e ast.Expr) (val, ok bool) {
	tv, has := info.Types[e]
	if !has || tv.Value == nil {
		return false, false
	}
	switch tv.Value.String() {
	case "true":
		return true, true
	case "false":
		return false, true
	}
	return false, false
}

func wiring(c *core.Ctx, it *interp, wrap, fkey *core.Fn, entries []entry) {
	info := it.info
	gmk := it.fn
	g := cfgq.Of(c.Program, gmk)
	gk := cfgq.Of(c.Program, it.keyFn) // the function holding the key loop (getMatchKeys or its helper)
	kbody := it.keyFn.Decl.Body
	// ---- R5 key predicate
	calls := core.Calls(it.keyLoop.Body, info, func(_ *ast.CallExpr, o types.Object) bool { return o == types.Object(fkey.Obj) })
	if len(calls) != 1 || len(calls[0].Args) != 1 {
		c.Undecidedf("R5.predicate", "getMatchKeys/tested-argument", it.keyLoop.Pos(), "expected exactly one FilterKey call in the key loop, found %d", len(calls))
	} else {
		arg := strip(info, calls[0].Args[0])
		if d := singleDef(info, kbody, objOf(info, arg)); d != nil {
			arg = strip(info, d)
		}
		if ie, ok := arg.(*ast.IndexExpr); ok && objOf(info, ie.X) == it.keyArgs {
			c.Check("R5.predicate", "getMatchKeys/tested-argument", calls[0].Pos(), pat.Same(info, ie.Index, it.loopVar),
				fmt.Sprintf("FilterKey must be applied to args[%s], the position that is then recorded (found %s): otherwise one argument is judged and another one kept", c.Src(it.loopVar), c.Src(arg)))
		} else {
			c.Undecidedf("R5.predicate", "getMatchKeys/tested-argument", calls[0].Pos(), "FilterKey is applied to %s, not recognisably to args[index]", c.Src(arg))
		}
		keepFact := func(want bool) func(cfgq.Fact) bool { // FilterKey(...) evaluated to `want`
			return func(f cfgq.Fact) bool {
				call, sense, ok := polarity(info, kbody, f.Expr, fkey.Obj, 0)
				return ok && call == calls[0] && (f.Val == sense) == want
			}
		}
		recPat, cntPats := pat.Stmt("_arr[_num] = _i"), []*pat.Pattern{pat.Stmt("_num++"), pat.Stmt("_num += 1"), pat.Stmt("_num = _num + 1")}
		bd := pat.Binds{"_arr": it.recArr, "_num": it.num, "_i": it.loopVar}
		want := 2
		if it.appended { // positions are appended, their number is len(arr): nothing is counted separately
			recPat, cntPats, want = pat.Stmt("_arr = append(_arr, _i)"), nil, 1
			bd = pat.Binds{"_arr": it.recArr, "_i": it.loopVar}
		}
		n := 0
		for _, p := range gk.Points(func(m ast.Node) bool {
			if recPat.Match(info, m, bd) != nil {
				return true
			}
			for _, cp := range cntPats {
				if cp.Match(info, m, bd) != nil {
					return true
				}
			}
			return false
		}) {
			n++
			what := "counted"
			if recPat.Match(info, p.Node(), bd) != nil {
				what = "recorded"
			}
			key := "getMatchKeys/kept-iff-not-filtered/" + what
			okKeep, _ := onlyVia(gk, p, keepFact(false))
			okInv, w := onlyVia(gk, p, keepFact(true))
			switch {
			case okKeep:
				c.Okf("R5.predicate", key, p.Node().Pos(), "a key is %s only when FilterKey returned false", what)
			case okInv:
				c.Check("R5.predicate", key, p.Node().Pos(), false, "a key is "+what+" exactly when FilterKey returned TRUE (= filtered out): rejected keys are forwarded and passing keys dropped", w...)
			default:
				c.Undecidedf("R5.predicate", key, p.Node().Pos(), "cannot see that a key is %s only when FilterKey returned false", what)
			}
		}
		if n < want {
			c.Undecidedf("R5.predicate", "getMatchKeys/kept-iff-not-filtered", it.keyLoop.Pos(), "recording and counting statements not both found")
		}

		// ---- R4 pass <=> number > 0
		passVerdict(c, it, g, keepFact(false))
	}

	// ---- R4 wrapper
	winfo := wrap.Pkg.TypesInfo
	wg := cfgq.Of(c.Program, wrap)
	var wps []*ast.Ident
	for _, f := range wrap.Decl.Type.Params.List {
		wps = append(wps, f.Names...)
	}
	var gmCall *ast.CallExpr
	var gmAs *ast.AssignStmt
	ast.Inspect(wrap.Decl.Body, func(n ast.Node) bool {
		if as, ok := n.(*ast.AssignStmt); ok && len(as.Rhs) == 1 && len(as.Lhs) == 2 {
			if call, ok := ast.Unparen(as.Rhs[0]).(*ast.CallExpr); ok && core.CalleeFunc(winfo, call) == gmk.Obj {
				gmCall, gmAs = call, as
			}
		}
		return true
	})
	if len(wps) != 2 || gmCall == nil || len(gmCall.Args) != 2 {
		c.Undecidedf("R4.verdict", "HandleFilterKeyWithCommand/skeleton", wrap.Decl.Pos(), "expected (cmd, argv) and `new, pass := getMatchKeys(node, argv)`")
		return
	}
	cmdParam, argvParam := winfo.Defs[wps[0]], winfo.Defs[wps[1]]
	if objOf(winfo, gmCall.Args[1]) == argvParam {
		c.Okf("R4.verdict", "HandleFilterKeyWithCommand/interprets-argv", gmCall.Pos(), "getMatchKeys rewrites the argument vector the wrapper was given")
	} else {
		c.Undecidedf("R4.verdict", "HandleFilterKeyWithCommand/interprets-argv", gmCall.Pos(), "getMatchKeys is not applied to the wrapper's argument vector itself")
	}
	// lookup: node, ok := table[cmd]
	var lookup *ast.AssignStmt
	viaHelper := false // the lookup is made by a same-package helper returning (entry, found)
	if o := copySource(winfo, wrap.Decl.Body, objOf(winfo, gmCall.Args[0])); o != nil {
		ast.Inspect(wrap.Decl.Body, func(n ast.Node) bool {
			if as, ok := n.(*ast.AssignStmt); ok && len(as.Rhs) == 1 && objOf(winfo, as.Lhs[0]) == o {
				if _, ok := ast.Unparen(as.Rhs[0]).(*ast.IndexExpr); ok {
					lookup = as
				} else if _, _, ok := lookupHelper(c, winfo, as.Rhs[0]); ok && len(as.Lhs) == 2 {
					lookup, viaHelper = as, true
				}
			}
			return true
		})
	}
	gp, _ := wg.Find(gmCall)
	switch {
	case lookup == nil:
		c.Undecidedf("R4.verdict", "HandleFilterKeyWithCommand/unknown-command-unchanged", wrap.Decl.Pos(), "cannot find the table lookup")
	case viaHelper && func() bool { _, key, _ := lookupHelper(c, winfo, lookup.Rhs[0]); return objOf(winfo, key) != cmdParam }():
		c.Undecidedf("R4.verdict", "HandleFilterKeyWithCommand/unknown-command-unchanged", lookup.Pos(), "the table is not indexed by the wrapper's command-name parameter itself")
	case !viaHelper && objOf(winfo, ast.Unparen(lookup.Rhs[0]).(*ast.IndexExpr).Index) != cmdParam:
		c.Undecidedf("R4.verdict", "HandleFilterKeyWithCommand/unknown-command-unchanged", lookup.Pos(), "the table is not indexed by the wrapper's command-name parameter itself")
	case len(lookup.Lhs) == 1 && nodeTested(winfo, wrap.Decl.Body, objOf(winfo, lookup.Lhs[0])):
		c.Undecidedf("R4.verdict", "HandleFilterKeyWithCommand/unknown-command-unchanged", lookup.Pos(), "the lookup has no comma-ok test; cannot interpret the test made on the entry instead")
	case len(lookup.Lhs) == 1:
		c.Check("R4.verdict", "HandleFilterKeyWithCommand/unknown-command-unchanged", lookup.Pos(), false, "the table lookup has no presence test: a command absent from the table yields the zero entry (keystep 0) and the key loop never terminates / the command is mangled instead of being forwarded unchanged")
	default:
		bd := pat.Binds{"_ok": lookup.Lhs[1]}
		okObj := objOf(winfo, lookup.Lhs[1])
		ok, _ := onlyVia(wg, gp, func(f cfgq.Fact) bool {
			if pat.Expr("_ok").Match(winfo, f.Expr, bd) != nil && f.Val {
				return true
			}
			o := objOf(winfo, f.Expr) // a copy of the flag
			return f.Val && o != nil && okObj != nil && copySource(winfo, wrap.Decl.Body, o) == okObj
		})
		if !ok { // whatever the spelling of the test: with ok == false no path reaches the interpreter
			as := &assumption{c: c, info: winfo, pkg: wrap.Obj.Pkg(), body: wrap.Decl.Body, lenOf: func(ast.Expr) (int64, bool) { return 0, false },
				bools: map[types.Object]bool{objOf(winfo, lookup.Lhs[1]): false}}
			ok, _ = as.unreachableUnder(wg, gp)
		}
		if ok {
			c.Okf("R4.verdict", "HandleFilterKeyWithCommand/unknown-command-unchanged", lookup.Pos(), "getMatchKeys runs only for commands present in the table")
		} else {
			c.Undecidedf("R4.verdict", "HandleFilterKeyWithCommand/unknown-command-unchanged", lookup.Pos(), "cannot see that getMatchKeys runs only when the lookup succeeded")
		}
	}
	// an empty argument vector never reaches the interpreter
	emptyArgv := &assumption{c: c, info: winfo, pkg: wrap.Obj.Pkg(), body: wrap.Decl.Body, bools: map[types.Object]bool{},
		lenOf: func(e ast.Expr) (int64, bool) { return 0, objOf(winfo, e) == argvParam }}
	if okLen, _ := emptyArgv.unreachableUnder(wg, gp); okLen {
		c.Okf("R4.verdict", "HandleFilterKeyWithCommand/empty-argv-unchanged", gmCall.Pos(), "getMatchKeys runs only on a non-empty argument vector")
	} else {
		c.Undecidedf("R4.verdict", "HandleFilterKeyWithCommand/empty-argv-unchanged", gmCall.Pos(), "cannot see that an empty argument vector bypasses getMatchKeys (args[first] would be out of range)")
	}
	// no list configured => unchanged: with both key lists empty the interpreter is
	// not reached and every reachable return hands back the original vector
	lists := 0
	ast.Inspect(wrap.Decl.Body, func(n ast.Node) bool {
		if e, ok := n.(ast.Expr); ok {
			if v := core.FieldOf(winfo, e); v != nil && strings.HasPrefix(v.Name(), "FilterKey") {
				lists++
			}
		}
		return true
	})
	listLen := func(vals map[string]int64, dflt int64) func(e ast.Expr) (int64, bool) {
		return func(e ast.Expr) (int64, bool) {
			if v := core.FieldOf(winfo, e); v != nil && strings.HasPrefix(v.Name(), "FilterKey") {
				if n, ok := vals[v.Name()]; ok {
					return n, true
				}
				return dflt, true
			}
			if objOf(winfo, e) == argvParam {
				return 2, true
			}
			return 0, false
		}
	}
	noLists := &assumption{c: c, info: winfo, pkg: wrap.Obj.Pkg(), body: wrap.Decl.Body, bools: map[types.Object]bool{}, lenOf: listLen(nil, 0)}
	if gate, _ := noLists.unreachableUnder(wg, gp); gate && lists >= 2 {
		c.Okf("R4.verdict", "HandleFilterKeyWithCommand/no-filter-unchanged", wrap.Decl.Pos(), "with neither key list configured the original vector is returned, not rejected")
	} else {
		// positive evidence for the opposite: with both lists empty, a command of the table
		// and a non-empty argument vector, a way to the key interpreter on which every
		// branch is decided by exactly these assumptions - and neither the interpreter nor
		// the function holding its key loop looks at the list configuration itself. The
		// interpreter then runs although no key filter is configured, and FilterKey's
		// list-independent clauses (the reserved checkpoint keys) rewrite or drop commands.
		var w []string
		if lookup != nil && len(lookup.Lhs) == 2 && !mentionsKeyLists(it.info, it.fn.Decl.Body) && !mentionsKeyLists(it.info, it.keyFn.Decl.Body) {
			open := &assumption{c: c, info: winfo, pkg: wrap.Obj.Pkg(), body: wrap.Decl.Body,
				bools: map[types.Object]bool{objOf(winfo, lookup.Lhs[1]): true}, lenOf: listLen(nil, 0)}
			w = open.decidedPath(wg, func(n ast.Node) bool { return n == gp.Node() }, nil)
		}
		if w != nil {
			c.Check("R4.verdict", "HandleFilterKeyWithCommand/no-filter-unchanged", wrap.Decl.Pos(), false,
				"with neither key list configured a command of the table is still handed to the key interpreter (there is no early return for the unconfigured filter on this way): FilterKey rejects the reserved keys whatever the lists say, so with NO key filter configured commands are rewritten, and dropped when their only key is such a key, instead of being forwarded unchanged", w...)
		} else {
			c.Undecidedf("R4.verdict", "HandleFilterKeyWithCommand/no-filter-unchanged", wrap.Decl.Pos(), "cannot see the early return for an unconfigured key filter")
		}
	}
	// one list configured (the other empty), command known, argv non-empty: the
	// interpreter must run; a path on which every condition is decided by that
	// assumption and which returns without calling it is a definite bypass
	if lookup != nil && len(lookup.Lhs) == 2 {
		listNames := map[string]bool{}
		ast.Inspect(wrap.Decl.Body, func(n ast.Node) bool {
			if e, ok := n.(ast.Expr); ok {
				if v := core.FieldOf(winfo, e); v != nil && strings.HasPrefix(v.Name(), "FilterKey") {
					listNames[v.Name()] = true
				}
			}
			return true
		})
		isRet := func(n ast.Node) bool { _, ok := n.(*ast.ReturnStmt); return ok }
		isGm := func(n ast.Node) bool { return n == gp.Node() }
		var names []string
		for name := range listNames {
			names = append(names, name)
		}
		sort.Strings(names)
		for _, name := range names {
			as := &assumption{c: c, info: winfo, pkg: wrap.Obj.Pkg(), body: wrap.Decl.Body,
				bools: map[types.Object]bool{objOf(winfo, lookup.Lhs[1]): true}, lenOf: listLen(map[string]int64{name: 1}, 0)}
			w := as.decidedPath(wg, isRet, isGm)
			c.Check("R4.verdict", "HandleFilterKeyWithCommand/filter-applied/"+name, wrap.Decl.Pos(), w == nil,
				"with only "+name+" configured, a key-addressed command with arguments is returned without being filtered: keys that do not pass the filter are forwarded", w...)
		}
	}
	// returns
	wrapperNeg, wrapperKnown := false, false
	branchConflict := false
	for _, p := range wg.Points(func(n ast.Node) bool { _, ok := n.(*ast.ReturnStmt); return ok }) {
		r := p.Node().(*ast.ReturnStmt)
		key := "HandleFilterKeyWithCommand/returns/rebuilt"
		if len(r.Results) == 2 && objOf(winfo, r.Results[0]) == argvParam {
			key = "HandleFilterKeyWithCommand/returns/unchanged"
		}
		if len(r.Results) != 2 {
			c.Undecidedf("R4.verdict", key, r.Pos(), "unrecognised return %s", c.Src(r))
			continue
		}
		if objOf(winfo, r.Results[0]) == argvParam {
			v, isC := boolConst(winfo, r.Results[1])
			if !isC && lookup != nil && len(lookup.Lhs) == 2 && singleKeyShortcut(c, it, wrap, fkey, wg, p, lookup, argvParam, entries, listLen) {
				continue
			}
			if !isC {
				c.Undecidedf("R4.verdict", key, r.Pos(), "unrecognised return %s", c.Src(r))
			} else {
				c.Check("R4.verdict", key, r.Pos(), !v, "returning the unchanged vector together with reject=true drops every command that is not key-addressed / not filtered (e.g. PUBLISH, FLUSHALL) instead of forwarding it unchanged")
			}
			continue
		}
		bd := pat.Binds{"_new": gmAs.Lhs[0], "_pass": gmAs.Lhs[1]}
		switch {
		case pat.Stmt("return _new, !_pass").Match(winfo, r, bd) != nil:
			wrapperNeg, wrapperKnown = true, true
			c.Okf("R4.verdict", key, r.Pos(), "returns the rebuilt vector and !pass")
		case pat.Stmt("return _new, _pass").Match(winfo, r, bd) != nil:
			wrapperNeg, wrapperKnown = false, true
			c.Okf("R4.verdict", key, r.Pos(), "returns the rebuilt vector and pass")
		case pat.Same(winfo, r.Results[0], gmAs.Lhs[0]):
			// `if pass { return new, false }; return new, true`: a constant verdict on a branch decided by pass
			v, isC := boolConst(winfo, r.Results[1])
			passIs := func(want bool) func(cfgq.Fact) bool {
				return func(f cfgq.Fact) bool { return pat.Expr("_pass").Match(winfo, f.Expr, bd) != nil && f.Val == want }
			}
			whenPass, _ := onlyVia(wg, p, passIs(true))
			whenNot, _ := onlyVia(wg, p, passIs(false))
			switch {
			case isC && whenPass != whenNot:
				neg := v != whenPass // verdict false when pass  <=>  verdict is !pass
				if wrapperKnown && neg != wrapperNeg {
					c.Undecidedf("R4.verdict", key, r.Pos(), "the returns of the wrapper disagree on how the verdict relates to pass")
					wrapperKnown = false
					branchConflict = true
				} else if !branchConflict {
					wrapperNeg, wrapperKnown = neg, true
					c.Okf("R4.verdict", key, r.Pos(), "returns the rebuilt vector and the constant %v on the branch where pass is %v", v, whenPass)
				}
			default:
				c.Undecidedf("R4.verdict", key, r.Pos(), "unrecognised verdict expression %s", c.Src(r.Results[1]))
			}
		default:
			c.Undecidedf("R4.verdict", key, r.Pos(), "unrecognised return %s", c.Src(r))
		}
	}
	caller(c, wrap, wrapperNeg, wrapperKnown)
}

func orNilExpr(e ast.Expr) ast.Expr {
	if e == nil {
		return &ast.Ident{Name: "_"}
	}
	return e
}
