package c13

import (
	"fmt"
	"go/ast"
	"go/token"
	"go/types"
	"sort"
	"strings"

	"golang.org/x/tools/go/cfg"

	"rscheck/cfgq"
	"rscheck/core"
	"rscheck/pat"
)

// singleDef returns the only expression ever assigned to o under root.
func singleDef(info *types.Info, root ast.Node, o types.Object) ast.Expr {
	var rhs []ast.Expr
	other := 0
	ast.Inspect(root, func(n ast.Node) bool {
		switch s := n.(type) {
		case *ast.AssignStmt:
			for i, l := range s.Lhs {
				if objOf(info, l) == o && o != nil {
					if r := core.AssignedTo(s, i); r != nil && (s.Tok == token.ASSIGN || s.Tok == token.DEFINE) {
						rhs = append(rhs, r)
					} else {
						other++
					}
				}
			}
		case *ast.IncDecStmt:
			if objOf(info, s.X) == o && o != nil {
				other++
			}
		}
		return true
	})
	if len(rhs) == 1 && other == 0 {
		return rhs[0]
	}
	return nil
}

// polarity reduces a boolean expression to one call of target: e <=> call
// (sense true) or e <=> !call (sense false).
func polarity(info *types.Info, root ast.Node, e ast.Expr, target *types.Func, depth int) (call *ast.CallExpr, sense, ok bool) {
	if depth > 4 {
		return nil, false, false
	}
	switch x := ast.Unparen(e).(type) {
	case *ast.CallExpr:
		if core.CalleeFunc(info, x) == target {
			return x, true, true
		}
	case *ast.Ident:
		if d := singleDef(info, root, objOf(info, x)); d != nil {
			return polarity(info, root, d, target, depth+1)
		}
	case *ast.UnaryExpr:
		if x.Op == token.NOT {
			c, s, ok := polarity(info, root, x.X, target, depth+1)
			return c, !s, ok
		}
	case *ast.BinaryExpr:
		if x.Op != token.EQL && x.Op != token.NEQ {
			return nil, false, false
		}
		for _, pr := range [][2]ast.Expr{{x.X, x.Y}, {x.Y, x.X}} {
			if tv, has := info.Types[pr[1]]; has && tv.Value != nil && (tv.Value.String() == "true" || tv.Value.String() == "false") {
				c, s, ok := polarity(info, root, pr[0], target, depth+1)
				if (tv.Value.String() == "false") != (x.Op == token.NEQ) {
					s = !s
				}
				return c, s, ok
			}
		}
	}
	return nil, false, false
}

func mentionsObj(info *types.Info, n ast.Node, o types.Object) bool {
	hit := false
	ast.Inspect(n, func(m ast.Node) bool {
		if id, ok := m.(*ast.Ident); ok && o != nil && info.Uses[id] == o {
			hit = true
		}
		return true
	})
	return hit
}

func boolConst(info *types.Info, e ast.Expr) (val, ok bool) {
	tv, has := info.Types[e]
	if !has || tv.Value == nil {
		return false, false
	}
	switch tv.Value.String() {
	case "true":
		return true, true
	case "false":
		return false, true
	}
	return false, false
}

func wiring(c *core.Ctx, it *interp, wrap, fkey *core.Fn) {
	info := it.info
	gmk := it.fn
	g := cfgq.Of(c.Program, gmk)
	gk := cfgq.Of(c.Program, it.keyFn) // the function holding the key loop (getMatchKeys or its helper)
	kbody := it.keyFn.Decl.Body
	// ---- R5 key predicate
	calls := core.Calls(it.keyLoop.Body, info, func(_ *ast.CallExpr, o types.Object) bool { return o == types.Object(fkey.Obj) })
	if len(calls) != 1 || len(calls[0].Args) != 1 {
		c.Undecidedf("R5.predicate", "getMatchKeys/tested-argument", it.keyLoop.Pos(), "expected exactly one FilterKey call in the key loop, found %d", len(calls))
	} else {
		arg := strip(info, calls[0].Args[0])
		if d := singleDef(info, kbody, objOf(info, arg)); d != nil {
			arg = strip(info, d)
		}
		if ie, ok := arg.(*ast.IndexExpr); ok && objOf(info, ie.X) == it.keyArgs {
			c.Check("R5.predicate", "getMatchKeys/tested-argument", calls[0].Pos(), pat.Same(info, ie.Index, it.loopVar),
				fmt.Sprintf("FilterKey must be applied to args[%s], the position that is then recorded (found %s): otherwise one argument is judged and another one kept", c.Src(it.loopVar), c.Src(arg)))
		} else {
			c.Undecidedf("R5.predicate", "getMatchKeys/tested-argument", calls[0].Pos(), "FilterKey is applied to %s, not recognisably to args[index]", c.Src(arg))
		}
		keepFact := func(want bool) func(cfgq.Fact) bool { // FilterKey(...) evaluated to `want`
			return func(f cfgq.Fact) bool {
				call, sense, ok := polarity(info, kbody, f.Expr, fkey.Obj, 0)
				return ok && call == calls[0] && (f.Val == sense) == want
			}
		}
		recPat, cntPats := pat.Stmt("_arr[_num] = _i"), []*pat.Pattern{pat.Stmt("_num++"), pat.Stmt("_num += 1"), pat.Stmt("_num = _num + 1")}
		bd := pat.Binds{"_arr": it.recArr, "_num": it.num, "_i": it.loopVar}
		want := 2
		if it.appended { // positions are appended, their number is len(arr): nothing is counted separately
			recPat, cntPats, want = pat.Stmt("_arr = append(_arr, _i)"), nil, 1
			bd = pat.Binds{"_arr": it.recArr, "_i": it.loopVar}
		}
		n := 0
		for _, p := range gk.Points(func(m ast.Node) bool {
			if recPat.Match(info, m, bd) != nil {
				return true
			}
			for _, cp := range cntPats {
				if cp.Match(info, m, bd) != nil {
					return true
				}
			}
			return false
		}) {
			n++
			what := "counted"
			if recPat.Match(info, p.Node(), bd) != nil {
				what = "recorded"
			}
			key := "getMatchKeys/kept-iff-not-filtered/" + what
			okKeep, _ := onlyVia(gk, p, keepFact(false))
			okInv, w := onlyVia(gk, p, keepFact(true))
			switch {
			case okKeep:
				c.Okf("R5.predicate", key, p.Node().Pos(), "a key is %s only when FilterKey returned false", what)
			case okInv:
				c.Check("R5.predicate", key, p.Node().Pos(), false, "a key is "+what+" exactly when FilterKey returned TRUE (= filtered out): rejected keys are forwarded and passing keys dropped", w...)
			default:
				c.Undecidedf("R5.predicate", key, p.Node().Pos(), "cannot see that a key is %s only when FilterKey returned false", what)
			}
		}
		if n < want {
			c.Undecidedf("R5.predicate", "getMatchKeys/kept-iff-not-filtered", it.keyLoop.Pos(), "recording and counting statements not both found")
		}

		// ---- R4 pass <=> number > 0
		passVerdict(c, it, g, keepFact(false))
	}

	// ---- R4 wrapper
	winfo := wrap.Pkg.TypesInfo
	wg := cfgq.Of(c.Program, wrap)
	var wps []*ast.Ident
	for _, f := range wrap.Decl.Type.Params.List {
		wps = append(wps, f.Names...)
	}
	var gmCall *ast.CallExpr
	var gmAs *ast.AssignStmt
	ast.Inspect(wrap.Decl.Body, func(n ast.Node) bool {
		if as, ok := n.(*ast.AssignStmt); ok && len(as.Rhs) == 1 && len(as.Lhs) == 2 {
			if call, ok := ast.Unparen(as.Rhs[0]).(*ast.CallExpr); ok && core.CalleeFunc(winfo, call) == gmk.Obj {
				gmCall, gmAs = call, as
			}
		}
		return true
	})
	if len(wps) != 2 || gmCall == nil || len(gmCall.Args) != 2 {
		c.Undecidedf("R4.verdict", "HandleFilterKeyWithCommand/skeleton", wrap.Decl.Pos(), "expected (cmd, argv) and `new, pass := getMatchKeys(node, argv)`")
		return
	}
	cmdParam, argvParam := winfo.Defs[wps[0]], winfo.Defs[wps[1]]
	if objOf(winfo, gmCall.Args[1]) == argvParam {
		c.Okf("R4.verdict", "HandleFilterKeyWithCommand/interprets-argv", gmCall.Pos(), "getMatchKeys rewrites the argument vector the wrapper was given")
	} else {
		c.Undecidedf("R4.verdict", "HandleFilterKeyWithCommand/interprets-argv", gmCall.Pos(), "getMatchKeys is not applied to the wrapper's argument vector itself")
	}
	// lookup: node, ok := table[cmd]
	var lookup *ast.AssignStmt
	viaHelper := false // the lookup is made by a same-package helper returning (entry, found)
	if o := objOf(winfo, gmCall.Args[0]); o != nil {
		ast.Inspect(wrap.Decl.Body, func(n ast.Node) bool {
			if as, ok := n.(*ast.AssignStmt); ok && len(as.Rhs) == 1 && objOf(winfo, as.Lhs[0]) == o {
				if _, ok := ast.Unparen(as.Rhs[0]).(*ast.IndexExpr); ok {
					lookup = as
				} else if _, _, ok := lookupHelper(c, winfo, as.Rhs[0]); ok && len(as.Lhs) == 2 {
					lookup, viaHelper = as, true
				}
			}
			return true
		})
	}
	gp, _ := wg.Find(gmCall)
	switch {
	case lookup == nil:
		c.Undecidedf("R4.verdict", "HandleFilterKeyWithCommand/unknown-command-unchanged", wrap.Decl.Pos(), "cannot find the table lookup")
	case viaHelper && func() bool { _, key, _ := lookupHelper(c, winfo, lookup.Rhs[0]); return objOf(winfo, key) != cmdParam }():
		c.Undecidedf("R4.verdict", "HandleFilterKeyWithCommand/unknown-command-unchanged", lookup.Pos(), "the table is not indexed by the wrapper's command-name parameter itself")
	case !viaHelper && objOf(winfo, ast.Unparen(lookup.Rhs[0]).(*ast.IndexExpr).Index) != cmdParam:
		c.Undecidedf("R4.verdict", "HandleFilterKeyWithCommand/unknown-command-unchanged", lookup.Pos(), "the table is not indexed by the wrapper's command-name parameter itself")
	case len(lookup.Lhs) == 1 && nodeTested(winfo, wrap.Decl.Body, objOf(winfo, lookup.Lhs[0])):
		c.Undecidedf("R4.verdict", "HandleFilterKeyWithCommand/unknown-command-unchanged", lookup.Pos(), "the lookup has no comma-ok test; cannot interpret the test made on the entry instead")
	case len(lookup.Lhs) == 1:
		c.Check("R4.verdict", "HandleFilterKeyWithCommand/unknown-command-unchanged", lookup.Pos(), false, "the table lookup has no presence test: a command absent from the table yields the zero entry (keystep 0) and the key loop never terminates / the command is mangled instead of being forwarded unchanged")
	default:
		bd := pat.Binds{"_ok": lookup.Lhs[1]}
		ok, _ := onlyVia(wg, gp, func(f cfgq.Fact) bool {
			return pat.Expr("_ok").Match(winfo, f.Expr, bd) != nil && f.Val
		})
		if !ok { // whatever the spelling of the test: with ok == false no path reaches the interpreter
			as := &assumption{c: c, info: winfo, pkg: wrap.Obj.Pkg(), body: wrap.Decl.Body, lenOf: func(ast.Expr) (int64, bool) { return 0, false },
				bools: map[types.Object]bool{objOf(winfo, lookup.Lhs[1]): false}}
			ok, _ = as.unreachableUnder(wg, gp)
		}
		if ok {
			c.Okf("R4.verdict", "HandleFilterKeyWithCommand/unknown-command-unchanged", lookup.Pos(), "getMatchKeys runs only for commands present in the table")
		} else {
			c.Undecidedf("R4.verdict", "HandleFilterKeyWithCommand/unknown-command-unchanged", lookup.Pos(), "cannot see that getMatchKeys runs only when the lookup succeeded")
		}
	}
	// an empty argument vector never reaches the interpreter
	emptyArgv := &assumption{c: c, info: winfo, pkg: wrap.Obj.Pkg(), body: wrap.Decl.Body, bools: map[types.Object]bool{},
		lenOf: func(e ast.Expr) (int64, bool) { return 0, objOf(winfo, e) == argvParam }}
	if okLen, _ := emptyArgv.unreachableUnder(wg, gp); okLen {
		c.Okf("R4.verdict", "HandleFilterKeyWithCommand/empty-argv-unchanged", gmCall.Pos(), "getMatchKeys runs only on a non-empty argument vector")
	} else {
		c.Undecidedf("R4.verdict", "HandleFilterKeyWithCommand/empty-argv-unchanged", gmCall.Pos(), "cannot see that an empty argument vector bypasses getMatchKeys (args[first] would be out of range)")
	}
	// no list configured => unchanged: with both key lists empty the interpreter is
	// not reached and every reachable return hands back the original vector
	lists := 0
	ast.Inspect(wrap.Decl.Body, func(n ast.Node) bool {
		if e, ok := n.(ast.Expr); ok {
			if v := core.FieldOf(winfo, e); v != nil && strings.HasPrefix(v.Name(), "FilterKey") {
				lists++
			}
		}
		return true
	})
	listLen := func(vals map[string]int64, dflt int64) func(e ast.Expr) (int64, bool) {
		return func(e ast.Expr) (int64, bool) {
			if v := core.FieldOf(winfo, e); v != nil && strings.HasPrefix(v.Name(), "FilterKey") {
				if n, ok := vals[v.Name()]; ok {
					return n, true
				}
				return dflt, true
			}
			if objOf(winfo, e) == argvParam {
				return 2, true
			}
			return 0, false
		}
	}
	noLists := &assumption{c: c, info: winfo, pkg: wrap.Obj.Pkg(), body: wrap.Decl.Body, bools: map[types.Object]bool{}, lenOf: listLen(nil, 0)}
	if gate, _ := noLists.unreachableUnder(wg, gp); gate && lists >= 2 {
		c.Okf("R4.verdict", "HandleFilterKeyWithCommand/no-filter-unchanged", wrap.Decl.Pos(), "with neither key list configured the original vector is returned, not rejected")
	} else {
		c.Undecidedf("R4.verdict", "HandleFilterKeyWithCommand/no-filter-unchanged", wrap.Decl.Pos(), "cannot see the early return for an unconfigured key filter")
	}
	// one list configured (the other empty), command known, argv non-empty: the
	// interpreter must run; a path on which every condition is decided by that
	// assumption and which returns without calling it is a definite bypass
	if lookup != nil && len(lookup.Lhs) == 2 {
		listNames := map[string]bool{}
		ast.Inspect(wrap.Decl.Body, func(n ast.Node) bool {
			if e, ok := n.(ast.Expr); ok {
				if v := core.FieldOf(winfo, e); v != nil && strings.HasPrefix(v.Name(), "FilterKey") {
					listNames[v.Name()] = true
				}
			}
			return true
		})
		isRet := func(n ast.Node) bool { _, ok := n.(*ast.ReturnStmt); return ok }
		isGm := func(n ast.Node) bool { return n == gp.Node() }
		var names []string
		for name := range listNames {
			names = append(names, name)
		}
		sort.Strings(names)
		for _, name := range names {
			as := &assumption{c: c, info: winfo, pkg: wrap.Obj.Pkg(), body: wrap.Decl.Body,
				bools: map[types.Object]bool{objOf(winfo, lookup.Lhs[1]): true}, lenOf: listLen(map[string]int64{name: 1}, 0)}
			w := as.decidedPath(wg, isRet, isGm)
			c.Check("R4.verdict", "HandleFilterKeyWithCommand/filter-applied/"+name, wrap.Decl.Pos(), w == nil,
				"with only "+name+" configured, a key-addressed command with arguments is returned without being filtered: keys that do not pass the filter are forwarded", w...)
		}
	}
	// returns
	wrapperNeg, wrapperKnown := false, false
	branchConflict := false
	for _, p := range wg.Points(func(n ast.Node) bool { _, ok := n.(*ast.ReturnStmt); return ok }) {
		r := p.Node().(*ast.ReturnStmt)
		key := "HandleFilterKeyWithCommand/returns/rebuilt"
		if len(r.Results) == 2 && objOf(winfo, r.Results[0]) == argvParam {
			key = "HandleFilterKeyWithCommand/returns/unchanged"
		}
		if len(r.Results) != 2 {
			c.Undecidedf("R4.verdict", key, r.Pos(), "unrecognised return %s", c.Src(r))
			continue
		}
		if objOf(winfo, r.Results[0]) == argvParam {
			v, isC := boolConst(winfo, r.Results[1])
			if !isC {
				c.Undecidedf("R4.verdict", key, r.Pos(), "unrecognised return %s", c.Src(r))
			} else {
				c.Check("R4.verdict", key, r.Pos(), !v, "returning the unchanged vector together with reject=true drops every command that is not key-addressed / not filtered (e.g. PUBLISH, FLUSHALL) instead of forwarding it unchanged")
			}
			continue
		}
		bd := pat.Binds{"_new": gmAs.Lhs[0], "_pass": gmAs.Lhs[1]}
		switch {
		case pat.Stmt("return _new, !_pass").Match(winfo, r, bd) != nil:
			wrapperNeg, wrapperKnown = true, true
			c.Okf("R4.verdict", key, r.Pos(), "returns the rebuilt vector and !pass")
		case pat.Stmt("return _new, _pass").Match(winfo, r, bd) != nil:
			wrapperNeg, wrapperKnown = false, true
			c.Okf("R4.verdict", key, r.Pos(), "returns the rebuilt vector and pass")
		case pat.Same(winfo, r.Results[0], gmAs.Lhs[0]):
			// `if pass { return new, false }; return new, true`: a constant verdict on a branch decided by pass
			v, isC := boolConst(winfo, r.Results[1])
			passIs := func(want bool) func(cfgq.Fact) bool {
				return func(f cfgq.Fact) bool { return pat.Expr("_pass").Match(winfo, f.Expr, bd) != nil && f.Val == want }
			}
			whenPass, _ := onlyVia(wg, p, passIs(true))
			whenNot, _ := onlyVia(wg, p, passIs(false))
			switch {
			case isC && whenPass != whenNot:
				neg := v != whenPass // verdict false when pass  <=>  verdict is !pass
				if wrapperKnown && neg != wrapperNeg {
					c.Undecidedf("R4.verdict", key, r.Pos(), "the returns of the wrapper disagree on how the verdict relates to pass")
					wrapperKnown = false
					branchConflict = true
				} else if !branchConflict {
					wrapperNeg, wrapperKnown = neg, true
					c.Okf("R4.verdict", key, r.Pos(), "returns the rebuilt vector and the constant %v on the branch where pass is %v", v, whenPass)
				}
			default:
				c.Undecidedf("R4.verdict", key, r.Pos(), "unrecognised verdict expression %s", c.Src(r.Results[1]))
			}
		default:
			c.Undecidedf("R4.verdict", key, r.Pos(), "unrecognised return %s", c.Src(r))
		}
	}
	caller(c, wrap, wrapperNeg, wrapperKnown)
}

// passVerdict: the interpreter's second result is true iff at least one key passed.
func passVerdict(c *core.Ctx, it *interp, g *cfgq.Graph, kept func(cfgq.Fact) bool) {
	info, gmk := it.info, it.fn
	res := gmk.Obj.Type().(*types.Signature).Results()
	key := "getMatchKeys/pass-iff-some-key-kept"
	if res.Len() != 2 {
		c.Undecidedf("R4.verdict", key, gmk.Decl.Pos(), "getMatchKeys does not return (vector, pass)")
		return
	}
	bd := pat.Binds{"_num": it.num}
	type pv struct {
		p   string
		val bool
	}
	some := func(f cfgq.Fact) bool {
		for _, x := range []pv{{"_num > 0", true}, {"_num != 0", true}, {"_num >= 1", true}, {"_num == 0", false}, {"_num <= 0", false}, {"_num < 1", false}} {
			if x.val == f.Val && pat.Expr(x.p).Match(info, f.Expr, bd) != nil {
				return true
			}
		}
		return false
	}
	none := func(f cfgq.Fact) bool {
		for _, x := range []pv{{"_num > 0", false}, {"_num != 0", false}, {"_num >= 1", false}, {"_num == 0", true}, {"_num <= 0", true}, {"_num < 1", true}} {
			if x.val == f.Val && pat.Expr(x.p).Match(info, f.Expr, bd) != nil {
				return true
			}
		}
		return false
	}
	direct := func(e ast.Expr) (ok, good bool) { // pass = num > 0
		for _, p := range []string{"_num > 0", "_num != 0", "_num >= 1"} {
			if pat.Expr(p).Match(info, e, bd) != nil {
				return true, true
			}
		}
		for _, p := range []string{"_num == 0", "_num <= 0", "_num < 1", "_num > 1", "_num >= 0"} {
			if pat.Expr(p).Match(info, e, bd) != nil {
				return true, false
			}
		}
		return false, false
	}
	passObj := types.Object(res.At(1))
	named := res.At(1).Name() != ""
	var exprs []ast.Expr // expressions that define the verdict
	var pts []cfgq.Point
	for _, p := range g.Points(func(n ast.Node) bool {
		switch s := n.(type) {
		case *ast.AssignStmt:
			for _, l := range s.Lhs {
				if named && objOf(info, l) == passObj {
					return true
				}
			}
		case *ast.ReturnStmt:
			return len(s.Results) == 2
		}
		return false
	}) {
		switch s := p.Node().(type) {
		case *ast.AssignStmt:
			for i, l := range s.Lhs {
				if objOf(info, l) == passObj {
					exprs, pts = append(exprs, core.AssignedTo(s, i)), append(pts, p)
				}
			}
		case *ast.ReturnStmt:
			if !(named && objOf(info, s.Results[1]) == passObj) {
				exprs, pts = append(exprs, s.Results[1]), append(pts, p)
			}
		}
	}
	if len(exprs) == 0 {
		c.Undecidedf("R4.verdict", key, gmk.Decl.Pos(), "cannot find where the pass verdict is computed")
		return
	}
	numObj := objOf(info, it.num)
	if numObj == nil { // the number of kept keys is spelled len(arr)
		numObj = objOf(info, it.arr)
	}
	for i, e := range exprs {
		p := pts[i]
		pos := p.Node().Pos()
		if e == nil {
			c.Undecidedf("R4.verdict", key, pos, "unrecognised verdict assignment")
			continue
		}
		if v, isC := boolConst(info, e); isC {
			if !v {
				c.Okf("R4.verdict", key+"/init-false", pos, "verdict initialised to false")
				continue
			}
			okSome, _ := onlyVia(g, p, some)
			okKept, _ := onlyVia(g, p, kept)
			okNone, wn := onlyVia(g, p, none)
			// reachable without ever keeping a key and without consulting the counter?
			free := g.Path(cfgq.Query{From: g.Entry(), Target: func(n ast.Node) bool { return n == p.Node() },
				AvoidEdge: func(b *cfg.Block, s int) bool {
					cond := cfgq.CondOf(b)
					return cond != nil && mentionsObj(info, cond, numObj) || edgeHas(g, b, s, kept)
				}})
			switch {
			case okSome || okKept:
				c.Okf("R4.verdict", key+"/true-only-if-kept", pos, "verdict set to true only when at least one key was kept")
			case okNone:
				c.Check("R4.verdict", key+"/true-only-if-kept", pos, false, "the verdict is set to true exactly when NO key passed: commands whose keys all fail the filter are forwarded (with no keys), the others dropped", wn...)
			case free != nil:
				c.Check("R4.verdict", key+"/true-only-if-kept", pos, false, "the verdict is set to true on a path that neither kept a key nor consulted the number of kept keys: a command none of whose keys passes the filter is forwarded (e.g. `DEL k` with k blacklisted is sent as `DEL`)", free...)
			default:
				c.Undecidedf("R4.verdict", key+"/true-only-if-kept", pos, "cannot see that the verdict is true only when a key was kept")
			}
			continue
		}
		if ok, good := direct(e); ok {
			c.Check("R4.verdict", key+"/expression", pos, good, fmt.Sprintf("the verdict must be `kept > 0` (found %s): otherwise commands without a passing key are forwarded or commands with one are dropped", c.Src(e)))
		} else {
			c.Undecidedf("R4.verdict", key, pos, "unrecognised verdict expression %s", c.Src(e))
		}
	}
	// when the counter is known positive the verdict is set on every path to the exit
	if named {
		for _, b := range g.CFG.Blocks {
			for si := range b.Succs {
				if b.Live && len(b.Succs) == 2 && edgeHas(g, b, si, some) {
					setTrue := func(n ast.Node) bool {
						as, ok := n.(*ast.AssignStmt)
						if !ok {
							return false
						}
						for i, l := range as.Lhs {
							if objOf(info, l) == passObj {
								rhs := orNilExpr(core.AssignedTo(as, i))
								if v, isC := boolConst(info, rhs); isC {
									return v
								}
								_, good := direct(rhs) // pass = kept > 0
								return good
							}
						}
						return false
					}
					already, _ := g.Dominated(cfgq.Point{B: b, I: len(b.Nodes) - 1}, setTrue)
					w := g.Path(cfgq.Query{From: cfgq.Point{B: b.Succs[si], I: 0}, Avoid: setTrue, TargetExit: cfgq.NormalExit})
					if !already {
						c.Check("R4.verdict", "getMatchKeys/pass-set-when-kept", cfgq.CondOf(b).Pos(), w == nil,
							"with at least one key kept the verdict must become true before returning: otherwise a command with passing keys is dropped", w...)
					}
				}
			}
		}
	}
}

func orNilExpr(e ast.Expr) ast.Expr {
	if e == nil {
		return &ast.Ident{Name: "_"}
	}
	return e
}

// caller: parseSourceCommand forwards the returned vector and skips on reject.
func caller(c *core.Ctx, wrap *core.Fn, wrapperNeg, wrapperKnown bool) {
	fn := c.Func(pkgSync, "DbSyncer", "parseSourceCommand")
	if fn == nil {
		return
	}
	info := fn.Pkg.TypesInfo
	g := cfgq.Of(c.Program, fn)
	var as *ast.AssignStmt
	var call *ast.CallExpr
	n := 0
	ast.Inspect(fn.Decl.Body, func(m ast.Node) bool {
		if a, ok := m.(*ast.AssignStmt); ok && len(a.Rhs) == 1 && len(a.Lhs) == 2 {
			if cl, ok := ast.Unparen(a.Rhs[0]).(*ast.CallExpr); ok && core.CalleeFunc(info, cl) == wrap.Obj {
				as, call = a, cl
				n++
			}
		}
		return true
	})
	if n != 1 || len(call.Args) != 2 {
		c.Undecidedf("R4.caller", "parseSourceCommand/call", fn.Decl.Pos(), "expected one `new, reject = HandleFilterKeyWithCommand(cmd, argv)`, found %d", n)
		return
	}
	newObj, rejObj := objOf(info, as.Lhs[0]), objOf(info, as.Lhs[1])
	cmdObj, argvObj := objOf(info, call.Args[0]), objOf(info, call.Args[1])
	// the forwarding site: a composite literal whose Cmd is the command name,
	// built here or in a same-package helper that receives the command name and
	// the arguments (`ds.pushCmd(sCmd, data, ...)`)
	literal := func(body ast.Node, cmd types.Object) (*ast.CompositeLit, ast.Expr) {
		var lit *ast.CompositeLit
		var args ast.Expr
		ast.Inspect(body, func(m ast.Node) bool {
			if cl, ok := m.(*ast.CompositeLit); ok {
				var cmdOK bool
				var ax ast.Expr
				for _, el := range cl.Elts {
					if kv, ok := el.(*ast.KeyValueExpr); ok {
						if id, ok := kv.Key.(*ast.Ident); ok {
							if id.Name == "Cmd" && objOf(info, kv.Value) == cmd && cmd != nil {
								cmdOK = true
							}
							if id.Name == "Args" {
								ax = kv.Value
							}
						}
					}
				}
				if cmdOK {
					lit, args = cl, ax
				}
			}
			return true
		})
		return lit, args
	}
	var fwd ast.Node
	var argsExpr ast.Expr
	if lit, ax := literal(fn.Decl.Body, cmdObj); lit != nil {
		fwd, argsExpr = lit, ax
	} else {
		for _, hc := range core.Calls(fn.Decl.Body, info, func(hc *ast.CallExpr, o types.Object) bool {
			f, _ := o.(*types.Func)
			return f != nil && f.Pkg() == fn.Obj.Pkg() && f != wrap.Obj
		}) {
			hf := c.FnOf(core.CalleeFunc(info, hc))
			if hf == nil || hf.Decl.Body == nil {
				continue
			}
			ps := hf.Obj.Type().(*types.Signature).Params()
			if ps.Len() != len(hc.Args) {
				continue
			}
			for i, a := range hc.Args {
				if objOf(info, a) != cmdObj || cmdObj == nil {
					continue
				}
				if lit, ax := literal(hf.Decl.Body, ps.At(i)); lit != nil && ax != nil {
					for j := 0; j < ps.Len(); j++ {
						if objOf(info, ax) == types.Object(ps.At(j)) {
							fwd, argsExpr = hc, hc.Args[j]
						}
					}
				}
			}
		}
	}
	if fwd == nil || argsExpr == nil || newObj == nil || rejObj == nil {
		c.Undecidedf("R4.caller", "parseSourceCommand/forwards-returned-vector", fn.Decl.Pos(), "cannot find the command forwarded with the parsed command name")
		return
	}
	// where do the forwarded Args come from?
	src := builtFrom(c, info, fn.Decl.Body, argsExpr, 0)
	switch {
	case src == newObj:
		c.Okf("R4.caller", "parseSourceCommand/forwards-returned-vector", fwd.Pos(), "the forwarded arguments are built from the vector returned by the key filter")
	case src != nil && src == argvObj:
		c.Check("R4.caller", "parseSourceCommand/forwards-returned-vector", fwd.Pos(), false, "the forwarded arguments are built from the ORIGINAL argument vector, not from the one returned by the key filter: rejected keys of multi-key commands (e.g. DEL a b with b blacklisted) are still sent to the target")
	default:
		c.Undecidedf("R4.caller", "parseSourceCommand/forwards-returned-vector", fwd.Pos(), "cannot trace the forwarded arguments back to the key filter's result")
	}
	// skip on reject
	cp, ok1 := g.Find(call)
	fp, ok2 := g.Find(fwd)
	if !ok1 || !ok2 {
		c.Undecidedf("R4.caller", "parseSourceCommand/skips-on-reject", call.Pos(), "call or forwarding send not in the control-flow graph")
		return
	}
	bd := pat.Binds{"_r": as.Lhs[1]}
	rej := func(val bool) func(b *cfg.Block, s int) bool {
		return func(b *cfg.Block, s int) bool {
			return edgeHas(g, b, s, func(f cfgq.Fact) bool {
				return pat.Expr("_r").Match(info, f.Expr, bd) != nil && f.Val == val ||
					pat.Expr("_r == true").Match(info, f.Expr, bd) != nil && f.Val == val || pat.Expr("_r == false").Match(info, f.Expr, bd) != nil && f.Val != val
			})
		}
	}
	isCall := func(m ast.Node) bool { return m == cp.Node() }
	isFwd := func(m ast.Node) bool { return m == fp.Node() }
	onlyIfFalse := g.Path(cfgq.Query{From: cp, After: true, Target: isFwd, Avoid: isCall, AvoidEdge: rej(false)}) == nil
	onlyIfTrue := g.Path(cfgq.Query{From: cp, After: true, Target: isFwd, Avoid: isCall, AvoidEdge: rej(true)}) == nil
	key := "parseSourceCommand/skips-on-reject"
	switch {
	case !wrapperKnown || onlyIfFalse == onlyIfTrue:
		c.Undecidedf("R4.caller", key, call.Pos(), "cannot relate the wrapper's second result to whether the command is forwarded")
	default:
		// forwarded only if second result false  <=> it means "reject"; the wrapper must then return !pass
		c.Check("R4.caller", key, call.Pos(), onlyIfFalse == wrapperNeg,
			fmt.Sprintf("the wrapper returns %s and the caller forwards only when that value is %v: commands whose keys pass are dropped and commands with no passing key are forwarded", map[bool]string{true: "!pass", false: "pass"}[wrapperNeg], !onlyIfFalse))
	}
}

// nodeTested: some branch condition mentions the looked-up entry.
func nodeTested(info *types.Info, body ast.Node, o types.Object) bool {
	hit := false
	ast.Inspect(body, func(n ast.Node) bool {
		var cond ast.Expr
		switch x := n.(type) {
		case *ast.IfStmt:
			cond = x.Cond
		case *ast.CaseClause:
			for _, e := range x.List {
				if mentionsObj(info, e, o) {
					hit = true
				}
			}
		}
		if cond != nil && mentionsObj(info, cond, o) {
			hit = true
		}
		return true
	})
	return hit
}

// lookupHelper: e is a call h(key) of a same-package function that looks key up
// in a package-level map and returns (entry, found) unchanged; it returns the
// map and the key argument.
func lookupHelper(c *core.Ctx, info *types.Info, e ast.Expr) (types.Object, ast.Expr, bool) {
	call, ok := ast.Unparen(e).(*ast.CallExpr)
	if !ok || len(call.Args) != 1 {
		return nil, nil, false
	}
	f := core.CalleeFunc(info, call)
	hf := c.FnOf(f)
	if f == nil || hf == nil || hf.Decl.Body == nil || f.Type().(*types.Signature).Params().Len() != 1 || f.Type().(*types.Signature).Results().Len() != 2 {
		return nil, nil, false
	}
	hinfo := hf.Pkg.TypesInfo
	param := types.Object(f.Type().(*types.Signature).Params().At(0))
	var m types.Object
	var as *ast.AssignStmt
	n := 0
	ast.Inspect(hf.Decl.Body, func(x ast.Node) bool {
		if ie, ok := x.(*ast.IndexExpr); ok {
			if v, isVar := core.ObjOf(hinfo, ie.X).(*types.Var); isVar && v.Pkg() != nil && v.Parent() == v.Pkg().Scope() {
				if _, isMap := v.Type().Underlying().(*types.Map); isMap && objOf(hinfo, ie.Index) == param {
					m = v
					n++
				}
			}
		}
		if a, ok := x.(*ast.AssignStmt); ok && len(a.Lhs) == 2 && len(a.Rhs) == 1 {
			if _, isIdx := ast.Unparen(a.Rhs[0]).(*ast.IndexExpr); isIdx {
				as = a
			}
		}
		return true
	})
	if n != 1 || m == nil {
		return nil, nil, false
	}
	// every return hands back the two results of that lookup (directly, or the locals holding them)
	okRet := true
	rets := 0
	core.Inspect(hf.Decl.Body, func(x ast.Node) bool {
		if r, ok := x.(*ast.ReturnStmt); ok {
			rets++
			switch {
			case len(r.Results) == 1:
				if _, isIdx := ast.Unparen(r.Results[0]).(*ast.IndexExpr); !isIdx {
					okRet = false
				}
			case len(r.Results) == 2 && as != nil:
				if !pat.Same(hinfo, r.Results[0], as.Lhs[0]) || !pat.Same(hinfo, r.Results[1], as.Lhs[1]) {
					okRet = false
				}
			default:
				okRet = false
			}
		}
		return true
	})
	if !okRet || rets == 0 {
		return nil, nil, false
	}
	return m, call.Args[0], true
}
