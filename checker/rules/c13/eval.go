package c13

import (
	"fmt"
	"go/ast"
	"go/token"
	"go/types"
	"rscheck/core"
	"sort"
	"strings"
)

type poly map[string]int64 // monomial ("" = constant, "a*b" sorted) -> coefficient

func konst(k int64) poly { return poly{"": k}.norm() }
func sym(s string) poly  { return poly{s: 1} }

func (p poly) norm() poly {
	for m, c := range p {
		if c == 0 {
			delete(p, m)
		}
	}
	return p
}

func (p poly) add(q poly, sign int64) poly {
	r := poly{}
	for m, c := range p {
		r[m] += c
	}
	for m, c := range q {
		r[m] += sign * c
	}
	return r.norm()
}

func (p poly) mul(q poly) poly {
	r := poly{}
	for m1, c1 := range p {
		for m2, c2 := range q {
			var f []string
			if m1 != "" {
				f = append(f, strings.Split(m1, "*")...)
			}
			if m2 != "" {
				f = append(f, strings.Split(m2, "*")...)
			}
			sort.Strings(f)
			r[strings.Join(f, "*")] += c1 * c2
		}
	}
	return r.norm()
}

func (p poly) eq(q poly) bool { return len(p.add(q, -1)) == 0 }

func (p poly) isConst() (int64, bool) {
	if len(p) == 0 {
		return 0, true
	}
	if c, ok := p[""]; ok && len(p) == 1 {
		return c, true
	}
	return 0, false
}

// affine returns (a, b) when p = a*s + b.
func (p poly) affine(s string) (int64, int64, bool) {
	for m := range p {
		if m != "" && m != s {
			return 0, 0, false
		}
	}
	return p[s], p[""], true
}

func (p poly) String() string {
	var ms []string
	for m := range p {
		ms = append(ms, m)
	}
	sort.Strings(ms)
	var sb strings.Builder
	for _, m := range ms {
		c := p[m]
		switch {
		case m == "":
			fmt.Fprintf(&sb, "%+d", c)
		case c == 1:
			sb.WriteString("+" + m)
		case c == -1:
			sb.WriteString("-" + m)
		default:
			fmt.Fprintf(&sb, "%+d*%s", c, m)
		}
	}
	if sb.Len() == 0 {
		return "0"
	}
	return strings.TrimPrefix(sb.String(), "+")
}

// ---------------------------------------------------------------------------
// symbolic evaluation of getMatchKeys' integer expressions

type evaluator struct {
	info   *types.Info
	cmd    types.Object // the redisCommand parameter
	args   types.Object // the argument-vector parameter
	fields map[string]poly
	env    map[types.Object]poly
	lenK   map[types.Object]bool // the slice of kept positions (under each of its names): len(it) is the symbol k
	ctx    *core.Ctx             // to follow same-package helpers that compute integers (cmd.keyRange(len(args)))
	depth  int
	body   ast.Node // function body: single-assignment locals not yet in env are resolved lazily
	busy   map[types.Object]bool
	opaque int
}

func strip(info *types.Info, e ast.Expr) ast.Expr {
	for {
		e = ast.Unparen(e)
		call, ok := e.(*ast.CallExpr)
		if !ok || len(call.Args) != 1 {
			return e
		}
		if tv, ok := info.Types[call.Fun]; !ok || !tv.IsType() {
			return e
		}
		e = call.Args[0]
	}
}

func objOf(info *types.Info, e ast.Expr) types.Object {
	if e == nil {
		return nil
	}
	if id, ok := ast.Unparen(e).(*ast.Ident); ok {
		return core.ObjOf(info, id)
	}
	return nil
}

func (ev *evaluator) eval(e ast.Expr) (poly, bool) {
	e = strip(ev.info, e)
	if k, ok := core.IntConst(ev.info, e); ok {
		return konst(k), true
	}
	switch x := e.(type) {
	case *ast.Ident:
		o := objOf(ev.info, x)
		if p, ok := ev.env[o]; ok {
			return p, true
		}
		// a local assigned exactly once (anywhere, e.g. hoisted size/offset
		// expressions) stands for its definition, evaluated in the current environment
		if ev.body != nil && o != nil && !ev.busy[o] {
			if d := singleDef(ev.info, ev.body, o); d != nil {
				if ev.busy == nil {
					ev.busy = map[types.Object]bool{}
				}
				ev.busy[o] = true
				p, ok := ev.eval(d)
				delete(ev.busy, o)
				return p, ok
			}
		}
		return nil, false
	case *ast.SelectorExpr:
		if objOf(ev.info, x.X) == ev.cmd && ev.cmd != nil {
			p, ok := ev.fields[x.Sel.Name]
			return p, ok
		}
	case *ast.IndexExpr:
		// arr[a]: the position of the a-th kept key
		if o := objOf(ev.info, x.X); o != nil && ev.lenK[o] {
			if idx, ok := ev.eval(x.Index); ok {
				if name, one := singleSym(idx); one {
					return sym("@" + name), true
				}
			}
		}
	case *ast.CallExpr:
		if res, ok := ev.call(x); ok && len(res) == 1 {
			return res[0], true
		}
		if b, ok := core.Callee(ev.info, x).(*types.Builtin); ok && b.Name() == "len" && len(x.Args) == 1 {
			if o := objOf(ev.info, x.Args[0]); o != nil && o == ev.args {
				return sym("n"), true
			} else if o != nil && ev.lenK[o] {
				return sym("k"), true
			}
		}
	case *ast.UnaryExpr:
		if p, ok := ev.eval(x.X); ok && x.Op == token.SUB {
			return konst(0).add(p, -1), true
		}
	case *ast.BinaryExpr:
		l, ok1 := ev.eval(x.X)
		r, ok2 := ev.eval(x.Y)
		if !ok1 || !ok2 {
			return nil, false
		}
		switch x.Op {
		case token.ADD:
			return l.add(r, 1), true
		case token.SUB:
			return l.add(r, -1), true
		case token.MUL:
			return l.mul(r), true
		}
	}
	return nil, false
}

// cond decides a comparison whose two sides differ by a constant.
func (ev *evaluator) cond(e ast.Expr) (val, ok bool) {
	be, isBin := ast.Unparen(e).(*ast.BinaryExpr)
	if !isBin {
		return false, false
	}
	l, ok1 := ev.eval(be.X)
	r, ok2 := ev.eval(be.Y)
	if !ok1 || !ok2 {
		return false, false
	}
	d, isC := l.add(r, -1).isConst()
	if !isC {
		return false, false
	}
	switch be.Op {
	case token.LSS:
		return d < 0, true
	case token.LEQ:
		return d <= 0, true
	case token.GTR:
		return d > 0, true
	case token.GEQ:
		return d >= 0, true
	case token.EQL:
		return d == 0, true
	case token.NEQ:
		return d != 0, true
	}
	return false, false
}

// call evaluates a call of a same-package function or method whose body is
// straight-line integer code ending in a return: parameters are bound to the
// evaluated arguments, the receiver (or a parameter) that is the command struct
// keeps giving access to its fields, the args vector keeps its length symbol.
// Results that are not integers are nil.
func (ev *evaluator) call(call *ast.CallExpr) ([]poly, bool) {
	if ev.ctx == nil || ev.depth > 1 {
		return nil, false
	}
	f := core.CalleeFunc(ev.info, call)
	if f == nil || f.Pkg() == nil || ev.cmd == nil || f.Pkg() != ev.cmd.Pkg() {
		return nil, false
	}
	hf := ev.ctx.FnOf(f)
	if hf == nil || hf.Decl.Body == nil {
		return nil, false
	}
	sig := f.Type().(*types.Signature)
	sub := &evaluator{info: ev.info, fields: ev.fields, env: map[types.Object]poly{}, ctx: ev.ctx, depth: ev.depth + 1, lenK: nil}
	bindTo := func(param types.Object, arg ast.Expr) {
		switch o := objOf(ev.info, arg); {
		case o != nil && o == ev.cmd:
			sub.cmd = param
		case o != nil && o == ev.args:
			sub.args = param
		default:
			if p, ok := ev.eval(arg); ok {
				sub.env[param] = p
			}
		}
	}
	if sig.Recv() != nil {
		if sel, ok := ast.Unparen(call.Fun).(*ast.SelectorExpr); ok {
			bindTo(sig.Recv(), sel.X)
		}
	}
	if sig.Params().Len() != len(call.Args) || sig.Variadic() {
		return nil, false
	}
	for i := 0; i < sig.Params().Len(); i++ {
		bindTo(sig.Params().At(i), call.Args[i])
	}
	for i := 0; i < sig.Results().Len(); i++ {
		if r := sig.Results().At(i); r.Name() != "" {
			if b, ok := r.Type().Underlying().(*types.Basic); ok && b.Info()&types.IsInteger != 0 {
				sub.env[r] = konst(0)
			}
		}
	}
	list := hf.Decl.Body.List
	if len(list) == 0 {
		return nil, false
	}
	ret, ok := list[len(list)-1].(*ast.ReturnStmt)
	if !ok {
		return nil, false
	}
	for _, st := range list[:len(list)-1] { // no other exit, nothing but integer bookkeeping
		bad := false
		ast.Inspect(st, func(n ast.Node) bool {
			switch n.(type) {
			case *ast.ReturnStmt, *ast.ForStmt, *ast.RangeStmt, *ast.GoStmt, *ast.DeferStmt, *ast.BranchStmt:
				bad = true
			}
			return true
		})
		if bad {
			return nil, false
		}
	}
	sub.exec(list[:len(list)-1])
	if sub.opaque > 0 {
		ev.opaque += sub.opaque
	}
	out := make([]poly, sig.Results().Len())
	for i := range out {
		if len(ret.Results) == len(out) {
			if p, ok := sub.eval(ret.Results[i]); ok {
				out[i] = p
			}
		} else if len(ret.Results) == 0 {
			if p, ok := sub.env[sig.Results().At(i)]; ok {
				out[i] = p
			}
		} else {
			return nil, false
		}
	}
	return out, true
}

// exec runs straight-line integer statements; an `if` whose condition cannot
// be decided makes every variable assigned inside opaque.
func (ev *evaluator) exec(stmts []ast.Stmt) {
	for _, s := range stmts {
		switch st := s.(type) {
		case *ast.AssignStmt:
			if len(st.Rhs) == 1 && len(st.Lhs) > 1 && (st.Tok == token.ASSIGN || st.Tok == token.DEFINE) {
				// first, last, step := cmd.keyRange(len(args))
				if call, ok := ast.Unparen(st.Rhs[0]).(*ast.CallExpr); ok {
					res, ok := ev.call(call)
					for i, l := range st.Lhs {
						if o := objOf(ev.info, l); o != nil {
							if ok && i < len(res) && res[i] != nil {
								ev.env[o] = res[i]
							} else {
								delete(ev.env, o)
							}
						}
					}
					continue
				}
			}
			for i, l := range st.Lhs {
				o := objOf(ev.info, l)
				if o == nil {
					continue
				}
				r := core.AssignedTo(st, i)
				var p poly
				ok := false
				if r != nil {
					p, ok = ev.eval(r)
				}
				switch st.Tok {
				case token.ASSIGN, token.DEFINE:
				case token.ADD_ASSIGN, token.SUB_ASSIGN:
					old, had := ev.env[o]
					if ok && had {
						p = old.add(p, map[token.Token]int64{token.ADD_ASSIGN: 1, token.SUB_ASSIGN: -1}[st.Tok])
					} else {
						ok = false
					}
				default:
					ok = false
				}
				if ok {
					ev.env[o] = p
				} else {
					delete(ev.env, o)
				}
			}
		case *ast.IncDecStmt:
			if o := objOf(ev.info, st.X); o != nil {
				if old, had := ev.env[o]; had {
					d := int64(1)
					if st.Tok == token.DEC {
						d = -1
					}
					ev.env[o] = old.add(konst(d), 1)
				}
			}
		case *ast.DeclStmt:
			if gd, ok := st.Decl.(*ast.GenDecl); ok {
				for _, sp := range gd.Specs {
					if vs, ok := sp.(*ast.ValueSpec); ok {
						for i, nm := range vs.Names {
							o := ev.info.Defs[nm]
							if i < len(vs.Values) {
								if p, ok := ev.eval(vs.Values[i]); ok {
									ev.env[o] = p
								}
							} else if b, ok := o.Type().Underlying().(*types.Basic); ok && b.Info()&types.IsInteger != 0 {
								ev.env[o] = konst(0)
							}
						}
					}
				}
			}
		case *ast.BlockStmt:
			ev.exec(st.List)
		case *ast.IfStmt:
			if st.Init != nil {
				ev.exec([]ast.Stmt{st.Init})
			}
			if v, ok := ev.cond(st.Cond); ok {
				if v {
					ev.exec(st.Body.List)
				} else if eb, ok := st.Else.(*ast.BlockStmt); ok {
					ev.exec(eb.List)
				} else if ei, ok := st.Else.(*ast.IfStmt); ok {
					ev.exec([]ast.Stmt{ei})
				}
				continue
			}
			ast.Inspect(st, func(n ast.Node) bool {
				var lhs []ast.Expr
				switch a := n.(type) {
				case *ast.AssignStmt:
					lhs = a.Lhs
				case *ast.IncDecStmt:
					lhs = []ast.Expr{a.X}
				}
				for _, l := range lhs {
					if o := objOf(ev.info, l); o != nil {
						if _, tracked := ev.env[o]; tracked {
							ev.opaque++
							ev.env[o] = sym("$" + o.Name())
						}
					}
				}
				return true
			})
		}
	}
}

// ---------------------------------------------------------------------------
// R1: the skeleton of the interpreter
