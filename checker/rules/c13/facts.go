package c13

import (
	"go/ast"
	"go/token"
	"go/types"

	"golang.org/x/tools/go/cfg"

	"rscheck/cfgq"
	"rscheck/core"
)

// edgeFacts returns the atoms whose truth value is known after leaving block
// b through successor succ. Besides if/for conditions (what cfgq reads) it
// reads the case expressions of tagless switch statements, so that rewriting
// an if chain as `switch { case cond: ... }` does not change a verdict.
func edgeFacts(g *cfgq.Graph, b *cfg.Block, succ int) []cfgq.Fact {
	cond := cfgq.CondOf(b)
	if cond == nil {
		return nil
	}
	if b.Succs[0].Kind == cfg.KindSwitchCaseBody {
		clause, _ := b.Succs[0].Stmt.(*ast.CaseClause)
		tagless := false
		ast.Inspect(g.Body, func(n ast.Node) bool {
			if sw, ok := n.(*ast.SwitchStmt); ok && sw.Tag == nil {
				for _, cl := range sw.Body.List {
					if cl == ast.Stmt(clause) && clause != nil {
						tagless = true
					}
				}
			}
			return !tagless
		})
		if !tagless {
			return nil
		}
	} else if b.Kind == cfg.KindSwitchNextCase {
		return nil
	}
	return expandLocals(g, cfgq.Facts(cond, succ == 0), cond, 0)
}

// expandLocals makes a condition carried in a boolean local transparent:
// `match := a == b; if !match { ... }` establishes the same facts as
// `if !(a == b)`. The local must be assigned exactly once and the variables its
// definition mentions must not be written between that assignment and the test
// `at` (so the definition still holds where the local is tested).
func expandLocals(g *cfgq.Graph, facts []cfgq.Fact, at ast.Node, depth int) []cfgq.Fact {
	var out []cfgq.Fact
	for _, f := range facts {
		out = append(out, f)
		id, ok := ast.Unparen(f.Expr).(*ast.Ident)
		if !ok || depth > 2 || g.Info == nil {
			continue
		}
		o := g.Info.Uses[id]
		if o == nil {
			continue
		}
		def := soleDef(g, o)
		if def == nil {
			def = reachingDef(g, o, at)
		}
		if def == nil {
			continue
		}
		if stableAt(g, def, at) {
			out = append(out, expandLocals(g, cfgq.Facts(def, f.Val), at, depth+1)...)
		}
	}
	return out
}

// reachingDef: the local o is assigned in several places, but at the test `at`
// it can only hold the value of ONE of them: that assignment is passed on every
// way to the test and no other assignment to o lies between it and the test.
func reachingDef(g *cfgq.Graph, o types.Object, at ast.Node) ast.Expr {
	ws, wild := writeNodes(g, o)
	if wild || len(ws) < 2 || at == nil {
		return nil
	}
	tp, ok := g.Find(at)
	if !ok {
		return nil
	}
	var found ast.Expr
	for _, d := range ws {
		as, isAs := d.(*ast.AssignStmt)
		if !isAs || len(as.Lhs) != len(as.Rhs) || as.Tok != token.ASSIGN && as.Tok != token.DEFINE {
			continue
		}
		var rhs ast.Expr
		for i, l := range as.Lhs {
			if id, isId := ast.Unparen(l).(*ast.Ident); isId && (g.Info.Uses[id] == o || g.Info.Defs[id] == o) {
				rhs = as.Rhs[i]
			}
		}
		dp, okD := g.Find(as)
		if rhs == nil || !okD {
			continue
		}
		isD := func(n ast.Node) bool { return n == dp.Node() }
		if dom, _ := g.Dominated(tp, isD); !dom {
			continue
		}
		clean := true
		for _, w := range ws {
			wp, okW := g.Find(w)
			if !okW {
				return nil
			}
			if wp.Node() == dp.Node() {
				continue
			}
			wn := wp.Node()
			if g.Path(cfgq.Query{From: dp, After: true, Avoid: isD, Target: func(n ast.Node) bool { return n == wn }}) != nil &&
				(wn == tp.Node() || g.Path(cfgq.Query{From: wp, After: true, Avoid: isD, Target: func(n ast.Node) bool { return n == tp.Node() }}) != nil) {
				clean = false
				break
			}
		}
		if !clean {
			continue
		}
		if found != nil {
			return nil
		}
		found = rhs
	}
	return found
}

// stableAt: no local variable that def mentions can be written after def was
// evaluated and before the test `at` is reached (a write W breaks this when W
// is reachable from def and `at` from W, both without re-evaluating def).
func stableAt(g *cfgq.Graph, def ast.Expr, at ast.Node) bool {
	var vars []*types.Var
	ast.Inspect(def, func(n ast.Node) bool {
		if x, isId := n.(*ast.Ident); isId {
			if v, isVar := g.Info.Uses[x].(*types.Var); isVar && !v.IsField() && v.Pkg() != nil && v.Parent() != v.Pkg().Scope() {
				vars = append(vars, v)
			}
		}
		return true
	})
	dp, okD := g.Find(def)
	tp, okT := g.Find(at)
	if !okD || !okT {
		for _, v := range vars {
			if writes(g, v) > 1 {
				return false
			}
		}
		return true
	}
	isDef := func(n ast.Node) bool { return n == dp.Node() }
	for _, v := range vars {
		ws, wild := writeNodes(g, v)
		if wild {
			return false
		}
		for _, w := range ws {
			wp, ok := g.Find(w)
			if !ok {
				return false // written somewhere the graph does not cover (a function literal)
			}
			if wp.Node() == dp.Node() {
				continue
			}
			wn := wp.Node()
			reachW := g.Path(cfgq.Query{From: dp, After: true, Avoid: isDef, Target: func(n ast.Node) bool { return n == wn }}) != nil
			if !reachW {
				continue
			}
			if wn == tp.Node() || g.Path(cfgq.Query{From: wp, After: true, Avoid: isDef, Target: func(n ast.Node) bool { return n == tp.Node() }}) != nil {
				return false
			}
		}
	}
	return true
}

// writeNodes lists the statements that assign o; wild when its address is taken.
func writeNodes(g *cfgq.Graph, o types.Object) (nodes []ast.Node, wild bool) {
	is := func(e ast.Expr) bool {
		id, ok := ast.Unparen(e).(*ast.Ident)
		return ok && (g.Info.Uses[id] == o || g.Info.Defs[id] == o)
	}
	ast.Inspect(g.Body, func(m ast.Node) bool {
		switch s := m.(type) {
		case *ast.AssignStmt:
			for _, l := range s.Lhs {
				if is(l) {
					nodes = append(nodes, s)
				}
			}
		case *ast.IncDecStmt:
			if is(s.X) {
				nodes = append(nodes, s)
			}
		case *ast.RangeStmt:
			for _, e := range []ast.Expr{s.Key, s.Value} {
				if e != nil && is(e) {
					nodes = append(nodes, e) // the control-flow graph holds key and value, not the statement
				}
			}
		case *ast.UnaryExpr:
			if s.Op == token.AND && is(s.X) {
				wild = true
			}
		}
		return true
	})
	return
}

// writes counts the assignments (of any kind) to o in the graph's function body.
func writes(g *cfgq.Graph, o types.Object) int {
	n := 0
	ast.Inspect(g.Body, func(m ast.Node) bool {
		switch s := m.(type) {
		case *ast.AssignStmt:
			for _, l := range s.Lhs {
				if id, ok := ast.Unparen(l).(*ast.Ident); ok && (g.Info.Uses[id] == o || g.Info.Defs[id] == o) {
					n++
				}
			}
		case *ast.IncDecStmt:
			if id, ok := ast.Unparen(s.X).(*ast.Ident); ok && g.Info.Uses[id] == o {
				n++
			}
		case *ast.RangeStmt:
			for _, e := range []ast.Expr{s.Key, s.Value} {
				if id, ok := e.(*ast.Ident); ok && e != nil && (g.Info.Uses[id] == o || g.Info.Defs[id] == o) {
					n++
				}
			}
		case *ast.UnaryExpr:
			if id, ok := ast.Unparen(s.X).(*ast.Ident); ok && s.Op == token.AND && g.Info.Uses[id] == o {
				n += 2 // address taken: anything may write it
			}
		}
		return true
	})
	return n
}

// soleDef: the right-hand side of the only assignment to o (1:1 position), nil otherwise.
func soleDef(g *cfgq.Graph, o types.Object) ast.Expr {
	if writes(g, o) != 1 {
		return nil
	}
	var def ast.Expr
	ast.Inspect(g.Body, func(m ast.Node) bool {
		if as, ok := m.(*ast.AssignStmt); ok && len(as.Lhs) == len(as.Rhs) && (as.Tok == token.DEFINE || as.Tok == token.ASSIGN) {
			for i, l := range as.Lhs {
				if id, ok := ast.Unparen(l).(*ast.Ident); ok && (g.Info.Uses[id] == o || g.Info.Defs[id] == o) {
					def = as.Rhs[i]
				}
			}
		}
		return true
	})
	return def
}

func edgeHas(g *cfgq.Graph, b *cfg.Block, succ int, match func(cfgq.Fact) bool) bool {
	for _, f := range edgeFacts(g, b, succ) {
		if match(f) {
			return true
		}
	}
	// De Morgan: leaving `A && B` through its false edge says "A false or B
	// false"; the edge still establishes a property that follows from either
	if len(edgeFacts(g, b, succ)) == 0 && readable(g, b) {
		return implied(g, cfgq.CondOf(b), cfgq.CondOf(b), succ == 0, match, 0)
	}
	return false
}

// readable: the block ends in a boolean condition whose edges can be interpreted
// (if/for conditions and tagless switch cases).
func readable(g *cfgq.Graph, b *cfg.Block) bool {
	if cfgq.CondOf(b) == nil || b.Kind == cfg.KindSwitchNextCase && b.Succs[0].Kind != cfg.KindSwitchCaseBody {
		return false
	}
	if b.Succs[0].Kind == cfg.KindSwitchCaseBody {
		clause, _ := b.Succs[0].Stmt.(*ast.CaseClause)
		tagless := false
		ast.Inspect(g.Body, func(n ast.Node) bool {
			if sw, ok := n.(*ast.SwitchStmt); ok && sw.Tag == nil {
				for _, cl := range sw.Body.List {
					if cl == ast.Stmt(clause) && clause != nil {
						tagless = true
					}
				}
			}
			return !tagless
		})
		return tagless
	}
	return true
}

// implied: does `cond == val` imply the property recognised by match? A
// conjunction implies it if one conjunct does, a disjunction only if every
// disjunct does; negation and boolean locals are looked through.
func implied(g *cfgq.Graph, at ast.Node, cond ast.Expr, val bool, match func(cfgq.Fact) bool, depth int) bool {
	cond = ast.Unparen(cond)
	if depth > 6 {
		return false
	}
	switch x := cond.(type) {
	case *ast.UnaryExpr:
		if x.Op == token.NOT {
			return implied(g, at, x.X, !val, match, depth+1)
		}
	case *ast.BinaryExpr:
		if x.Op == token.LAND || x.Op == token.LOR {
			conj := (x.Op == token.LAND) == val // the statement is "both" (true) or "at least one of" (false)
			l, r := implied(g, at, x.X, val, match, depth+1), implied(g, at, x.Y, val, match, depth+1)
			if conj {
				return l || r
			}
			return l && r
		}
	}
	for _, f := range expandLocals(g, []cfgq.Fact{{Expr: cond, Val: val}}, at, 0) {
		if match(f) {
			return true
		}
		if f.Expr != cond { // a boolean local standing for a compound condition
			if _, isBin := ast.Unparen(f.Expr).(*ast.BinaryExpr); isBin && implied(g, at, f.Expr, f.Val, match, depth+1) {
				return true
			}
		}
	}
	return false
}

// onlyVia reports whether every path from the entry to target leaves some
// branch through an edge establishing a fact accepted by match.
func onlyVia(g *cfgq.Graph, target cfgq.Point, match func(cfgq.Fact) bool) (bool, []string) {
	tn := target.Node()
	w := g.Path(cfgq.Query{
		From:      g.Entry(),
		Target:    func(n ast.Node) bool { return n == tn },
		AvoidEdge: func(b *cfg.Block, s int) bool { return edgeHas(g, b, s, match) },
	})
	return w == nil, w
}

// withViews runs the rule set on the tree as written and, when that leaves
// something open, on the normalised views of the tree as well. The driver
// adopts only what a view proves; a located-and-wrong construct that only a
// view lets the rules read (the rules stopped early on the tree as written,
// say at a skeleton they did not recognise) would otherwise vanish together
// with the open obligation the view discharges. Such a failure is reported
// here, under the key it has on the view.
func withViews(c *core.Ctx, run func(*core.Ctx)) {
	run(c)
	if c.Program == nil || c.Program.Orig != nil || c.Program.Inlined == nil || !c.Open() {
		return
	}
	have := map[string]bool{}
	for _, o := range c.Obs {
		have[o.FullKey()] = true
	}
	for _, v := range append([]*core.Program{c.Program.Inlined}, c.Program.Views...) {
		c2 := core.NewCtx(v, c.Prop, c.Tier)
		func() {
			defer func() { _ = recover() }()
			run(c2)
		}()
		for _, o := range c2.Obs {
			if o.Status == "FAIL" && !have[o.FullKey()] {
				have[o.FullKey()] = true
				c.Check(o.Rule, o.Key, token.NoPos, false, "[read on the normalised view of the tree, at "+o.Pos+"] "+o.Detail, o.Witness...)
			}
		}
	}
}
