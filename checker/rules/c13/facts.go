package c13

import (
	"go/ast"
	"go/token"
	"go/types"

	"golang.org/x/tools/go/cfg"

	"rscheck/cfgq"
)

// edgeFacts returns the atoms whose truth value is known after leaving block
// b through successor succ. Besides if/for conditions (what cfgq reads) it
// reads the case expressions of tagless switch statements, so that rewriting
// an if chain as `switch { case cond: ... }` does not change a verdict.
func edgeFacts(g *cfgq.Graph, b *cfg.Block, succ int) []cfgq.Fact {
	cond := cfgq.CondOf(b)
	if cond == nil {
		return nil
	}
	if b.Succs[0].Kind == cfg.KindSwitchCaseBody {
		clause, _ := b.Succs[0].Stmt.(*ast.CaseClause)
		tagless := false
		ast.Inspect(g.Body, func(n ast.Node) bool {
			if sw, ok := n.(*ast.SwitchStmt); ok && sw.Tag == nil {
				for _, cl := range sw.Body.List {
					if cl == ast.Stmt(clause) && clause != nil {
						tagless = true
					}
				}
			}
			return !tagless
		})
		if !tagless {
			return nil
		}
	} else if b.Kind == cfg.KindSwitchNextCase {
		return nil
	}
	return expandLocals(g, cfgq.Facts(cond, succ == 0), 0)
}

// expandLocals makes a condition carried in a boolean local transparent:
// `match := a == b; if !match { ... }` establishes the same facts as
// `if !(a == b)`. The local must be assigned exactly once and the variables its
// definition mentions must not be written anywhere else (so the definition
// still holds where the local is tested).
func expandLocals(g *cfgq.Graph, facts []cfgq.Fact, depth int) []cfgq.Fact {
	var out []cfgq.Fact
	for _, f := range facts {
		out = append(out, f)
		id, ok := ast.Unparen(f.Expr).(*ast.Ident)
		if !ok || depth > 2 || g.Info == nil {
			continue
		}
		o := g.Info.Uses[id]
		if o == nil {
			continue
		}
		def := soleDef(g, o)
		if def == nil {
			continue
		}
		stable := true
		ast.Inspect(def, func(n ast.Node) bool {
			if x, isId := n.(*ast.Ident); isId {
				if v, isVar := g.Info.Uses[x].(*types.Var); isVar && !v.IsField() && v.Pkg() != nil && v.Parent() != v.Pkg().Scope() {
					if writes(g, v) > 1 {
						stable = false
					}
				}
			}
			return true
		})
		if stable {
			out = append(out, expandLocals(g, cfgq.Facts(def, f.Val), depth+1)...)
		}
	}
	return out
}

// writes counts the assignments (of any kind) to o in the graph's function body.
func writes(g *cfgq.Graph, o types.Object) int {
	n := 0
	ast.Inspect(g.Body, func(m ast.Node) bool {
		switch s := m.(type) {
		case *ast.AssignStmt:
			for _, l := range s.Lhs {
				if id, ok := ast.Unparen(l).(*ast.Ident); ok && (g.Info.Uses[id] == o || g.Info.Defs[id] == o) {
					n++
				}
			}
		case *ast.IncDecStmt:
			if id, ok := ast.Unparen(s.X).(*ast.Ident); ok && g.Info.Uses[id] == o {
				n++
			}
		case *ast.RangeStmt:
			for _, e := range []ast.Expr{s.Key, s.Value} {
				if id, ok := e.(*ast.Ident); ok && e != nil && (g.Info.Uses[id] == o || g.Info.Defs[id] == o) {
					n++
				}
			}
		case *ast.UnaryExpr:
			if id, ok := ast.Unparen(s.X).(*ast.Ident); ok && s.Op == token.AND && g.Info.Uses[id] == o {
				n += 2 // address taken: anything may write it
			}
		}
		return true
	})
	return n
}

// soleDef: the right-hand side of the only assignment to o (1:1 position), nil otherwise.
func soleDef(g *cfgq.Graph, o types.Object) ast.Expr {
	if writes(g, o) != 1 {
		return nil
	}
	var def ast.Expr
	ast.Inspect(g.Body, func(m ast.Node) bool {
		if as, ok := m.(*ast.AssignStmt); ok && len(as.Lhs) == len(as.Rhs) && (as.Tok == token.DEFINE || as.Tok == token.ASSIGN) {
			for i, l := range as.Lhs {
				if id, ok := ast.Unparen(l).(*ast.Ident); ok && (g.Info.Uses[id] == o || g.Info.Defs[id] == o) {
					def = as.Rhs[i]
				}
			}
		}
		return true
	})
	return def
}

func edgeHas(g *cfgq.Graph, b *cfg.Block, succ int, match func(cfgq.Fact) bool) bool {
	for _, f := range edgeFacts(g, b, succ) {
		if match(f) {
			return true
		}
	}
	// De Morgan: leaving `A && B` through its false edge says "A false or B
	// false"; the edge still establishes a property that follows from either
	if len(edgeFacts(g, b, succ)) == 0 && readable(g, b) {
		return implied(g, cfgq.CondOf(b), succ == 0, match, 0)
	}
	return false
}

// readable: the block ends in a boolean condition whose edges can be interpreted
// (if/for conditions and tagless switch cases).
func readable(g *cfgq.Graph, b *cfg.Block) bool {
	if cfgq.CondOf(b) == nil || b.Kind == cfg.KindSwitchNextCase && b.Succs[0].Kind != cfg.KindSwitchCaseBody {
		return false
	}
	if b.Succs[0].Kind == cfg.KindSwitchCaseBody {
		clause, _ := b.Succs[0].Stmt.(*ast.CaseClause)
		tagless := false
		ast.Inspect(g.Body, func(n ast.Node) bool {
			if sw, ok := n.(*ast.SwitchStmt); ok && sw.Tag == nil {
				for _, cl := range sw.Body.List {
					if cl == ast.Stmt(clause) && clause != nil {
						tagless = true
					}
				}
			}
			return !tagless
		})
		return tagless
	}
	return true
}

// implied: does `cond == val` imply the property recognised by match? A
// conjunction implies it if one conjunct does, a disjunction only if every
// disjunct does; negation and boolean locals are looked through.
func implied(g *cfgq.Graph, cond ast.Expr, val bool, match func(cfgq.Fact) bool, depth int) bool {
	cond = ast.Unparen(cond)
	if depth > 6 {
		return false
	}
	switch x := cond.(type) {
	case *ast.UnaryExpr:
		if x.Op == token.NOT {
			return implied(g, x.X, !val, match, depth+1)
		}
	case *ast.BinaryExpr:
		if x.Op == token.LAND || x.Op == token.LOR {
			conj := (x.Op == token.LAND) == val // the statement is "both" (true) or "at least one of" (false)
			l, r := implied(g, x.X, val, match, depth+1), implied(g, x.Y, val, match, depth+1)
			if conj {
				return l || r
			}
			return l && r
		}
	}
	for _, f := range expandLocals(g, []cfgq.Fact{{Expr: cond, Val: val}}, 0) {
		if match(f) {
			return true
		}
		if f.Expr != cond { // a boolean local standing for a compound condition
			if _, isBin := ast.Unparen(f.Expr).(*ast.BinaryExpr); isBin && implied(g, f.Expr, f.Val, match, depth+1) {
				return true
			}
		}
	}
	return false
}

// onlyVia reports whether every path from the entry to target leaves some
// branch through an edge establishing a fact accepted by match.
func onlyVia(g *cfgq.Graph, target cfgq.Point, match func(cfgq.Fact) bool) (bool, []string) {
	tn := target.Node()
	w := g.Path(cfgq.Query{
		From:      g.Entry(),
		Target:    func(n ast.Node) bool { return n == tn },
		AvoidEdge: func(b *cfg.Block, s int) bool { return edgeHas(g, b, s, match) },
	})
	return w == nil, w
}
