package c13

import (
	"fmt"
	"go/ast"
	"go/token"
	"go/types"

	"rscheck/core"
)

// When the key loop is not a counting loop with a readable header (an iterator
// protocol expanded in place, a while loop with the counter advanced inside the
// body, ...), the scan phase is EXECUTED instead of read: for concrete table
// values (first, last, step) and a concrete number of arguments, the integer and
// boolean statements from the start of the function up to and including the key
// loop are interpreted, and every FilterKey(args[x]) records x. Nothing about
// the shape of the loop is assumed; what cannot be evaluated makes the run fail
// (undecided), never a verdict.

type simVal struct {
	i    int64
	b    bool
	bool bool
}

type scanSim struct {
	it      *interp
	fkey    *types.Func
	fields  map[string]int64
	n       int64
	env     map[types.Object]simVal
	lens    map[types.Object]int64 // slices built with make / append: their length
	visited []int64
	steps   int
	fail    string
}

type simCtl int

const (
	ctlNone simCtl = iota
	ctlBreak
	ctlContinue
	ctlReturn
)

func (s *scanSim) failf(f string, a ...interface{}) {
	if s.fail == "" {
		s.fail = fmt.Sprintf(f, a...)
	}
}

// positions runs the scan phase for the table row (f, l, st) and n arguments.
func (it *interp) positions(f, l, st, n int64) ([]int64, string) {
	s := &scanSim{it: it, fkey: it.fkeyObj, n: n, env: map[types.Object]simVal{}, lens: map[types.Object]int64{},
		fields: map[string]int64{it.fnames[0]: f, it.fnames[1]: l, it.fnames[2]: st}}
	list := append(append([]ast.Stmt{}, it.preamble...), it.keyLoop)
	s.block(list, "")
	if s.fail != "" {
		return nil, s.fail
	}
	return s.visited, ""
}

func (s *scanSim) block(list []ast.Stmt, label string) (simCtl, string) {
	for _, st := range list {
		if ctl, lb := s.stmt(st, ""); ctl != ctlNone {
			return ctl, lb
		}
		if s.fail != "" {
			return ctlReturn, ""
		}
	}
	return ctlNone, ""
}

func (s *scanSim) set(o types.Object, v simVal, ok bool) {
	if o == nil {
		return
	}
	if ok {
		s.env[o] = v
	} else {
		delete(s.env, o)
	}
}

func isIntOrBool(t types.Type) bool {
	b, ok := t.Underlying().(*types.Basic)
	return ok && b.Info()&(types.IsInteger|types.IsBoolean) != 0
}

func (s *scanSim) stmt(st ast.Stmt, label string) (simCtl, string) {
	info := s.it.info
	if s.steps++; s.steps > 20000 {
		s.failf("the scan does not finish within 20000 steps")
		return ctlReturn, ""
	}
	switch x := st.(type) {
	case *ast.EmptyStmt:
	case *ast.LabeledStmt:
		return s.stmt(x.Stmt, x.Label.Name)
	case *ast.BlockStmt:
		return s.block(x.List, "")
	case *ast.DeclStmt:
		if gd, ok := x.Decl.(*ast.GenDecl); ok {
			for _, sp := range gd.Specs {
				vs, ok := sp.(*ast.ValueSpec)
				if !ok {
					continue
				}
				for i, nm := range vs.Names {
					o := info.Defs[nm]
					switch {
					case o == nil:
					case len(vs.Values) == len(vs.Names):
						s.assign(nm, vs.Values[i])
					case len(vs.Values) == 0 && isIntOrBool(o.Type()):
						b, _ := o.Type().Underlying().(*types.Basic)
						s.env[o] = simVal{bool: b.Info()&types.IsBoolean != 0}
					case len(vs.Values) == 0:
						if _, isSl := o.Type().Underlying().(*types.Slice); isSl {
							s.lens[o] = 0
						}
					default:
						delete(s.env, o)
					}
				}
			}
		}
	case *ast.AssignStmt:
		switch {
		case x.Tok == token.ASSIGN || x.Tok == token.DEFINE:
			if len(x.Lhs) != len(x.Rhs) {
				for _, l := range x.Lhs {
					if o := objOf(info, l); o != nil {
						if isIntOrBool(o.Type()) {
							delete(s.env, o)
						}
						delete(s.lens, o)
					}
				}
				break
			}
			// right-hand sides first (parallel assignment)
			vals := make([]simVal, len(x.Rhs))
			oks := make([]bool, len(x.Rhs))
			lens := make([]int64, len(x.Rhs))
			lok := make([]bool, len(x.Rhs))
			for i, r := range x.Rhs {
				if t := info.TypeOf(r); t != nil && isIntOrBool(t) {
					vals[i], oks[i] = s.eval(r)
				} else {
					lens[i], lok[i] = s.sliceLen(r)
				}
			}
			for i, l := range x.Lhs {
				o := objOf(info, l)
				if o == nil {
					continue // element stores, fields: no integer state of the scan
				}
				if isIntOrBool(o.Type()) {
					s.set(o, vals[i], oks[i])
				} else if lok[i] {
					s.lens[o] = lens[i]
				} else {
					delete(s.lens, o)
				}
			}
		default: // op-assign
			if len(x.Lhs) == 1 && len(x.Rhs) == 1 {
				o := objOf(info, x.Lhs[0])
				if o == nil || !isIntOrBool(o.Type()) {
					break
				}
				old, had := s.env[o]
				r, ok := s.eval(x.Rhs[0])
				if !had || !ok || old.bool || r.bool {
					delete(s.env, o)
					break
				}
				switch x.Tok {
				case token.ADD_ASSIGN:
					old.i += r.i
				case token.SUB_ASSIGN:
					old.i -= r.i
				case token.MUL_ASSIGN:
					old.i *= r.i
				default:
					delete(s.env, o)
					return ctlNone, ""
				}
				s.env[o] = old
			}
		}
	case *ast.IncDecStmt:
		if o := objOf(info, x.X); o != nil {
			if v, ok := s.env[o]; ok && !v.bool {
				if x.Tok == token.INC {
					v.i++
				} else {
					v.i--
				}
				s.env[o] = v
			}
		}
	case *ast.ExprStmt:
		if t := info.TypeOf(x.X); t != nil && isIntOrBool(t) {
			s.eval(x.X)
		} else {
			s.calls(x.X)
		}
	case *ast.IfStmt:
		if x.Init != nil {
			if ctl, lb := s.stmt(x.Init, ""); ctl != ctlNone {
				return ctl, lb
			}
		}
		v, ok := s.eval(x.Cond)
		if !ok || !v.bool {
			s.failf("cannot evaluate the condition %s", s.it.c.Src(x.Cond))
			return ctlReturn, ""
		}
		if v.b {
			return s.block(x.Body.List, "")
		}
		if x.Else != nil {
			return s.stmt(x.Else, "")
		}
	case *ast.ForStmt:
		if x.Init != nil {
			s.stmt(x.Init, "")
		}
		for {
			if s.steps++; s.steps > 20000 {
				s.failf("the scan does not finish within 20000 steps")
				return ctlReturn, ""
			}
			if x.Cond != nil {
				v, ok := s.eval(x.Cond)
				if !ok || !v.bool {
					s.failf("cannot evaluate the loop condition %s", s.it.c.Src(x.Cond))
					return ctlReturn, ""
				}
				if !v.b {
					break
				}
			}
			ctl, lb := s.block(x.Body.List, "")
			if s.fail != "" {
				return ctlReturn, ""
			}
			if ctl == ctlReturn {
				return ctl, lb
			}
			if (ctl == ctlBreak || ctl == ctlContinue) && lb != "" && lb != label {
				return ctl, lb // aimed at an outer statement
			}
			if ctl == ctlBreak {
				break
			}
			if x.Post != nil {
				s.stmt(x.Post, "")
			}
		}
	case *ast.BranchStmt:
		lb := ""
		if x.Label != nil {
			lb = x.Label.Name
		}
		switch x.Tok {
		case token.BREAK:
			return ctlBreak, lb
		case token.CONTINUE:
			return ctlContinue, lb
		default:
			s.failf("%s in the scan phase", x.Tok)
			return ctlReturn, ""
		}
	case *ast.ReturnStmt:
		return ctlReturn, ""
	default:
		s.failf("statement %T in the scan phase", st)
		return ctlReturn, ""
	}
	return ctlNone, ""
}

func (s *scanSim) assign(nm *ast.Ident, r ast.Expr) {
	o := s.it.info.Defs[nm]
	if o == nil {
		o = s.it.info.Uses[nm]
	}
	if o == nil {
		return
	}
	if isIntOrBool(o.Type()) {
		v, ok := s.eval(r)
		s.set(o, v, ok)
		return
	}
	if n, ok := s.sliceLen(r); ok {
		s.lens[o] = n
	} else {
		delete(s.lens, o)
	}
}

// sliceLen: the length of a slice-valued expression built with make / append / a tracked local.
func (s *scanSim) sliceLen(e ast.Expr) (int64, bool) {
	info := s.it.info
	e = ast.Unparen(e)
	if o := objOf(info, e); o != nil {
		if o == s.it.info.Defs[s.it.argsP] {
			return s.n, true
		}
		n, ok := s.lens[o]
		return n, ok
	}
	if core.IsNil(info, e) {
		return 0, true
	}
	call, ok := e.(*ast.CallExpr)
	if !ok {
		return 0, false
	}
	b, isB := core.Callee(info, call).(*types.Builtin)
	if !isB {
		s.calls(e)
		return 0, false
	}
	switch b.Name() {
	case "make":
		if len(call.Args) >= 2 {
			if v, ok := s.eval(call.Args[1]); ok && !v.bool {
				return v.i, true
			}
		}
	case "append":
		if len(call.Args) >= 1 && !call.Ellipsis.IsValid() {
			for _, a := range call.Args[1:] {
				if t := info.TypeOf(a); t != nil && isIntOrBool(t) {
					s.eval(a)
				}
			}
			if n, ok := s.sliceLen(call.Args[0]); ok {
				return n + int64(len(call.Args)-1), true
			}
		}
	}
	return 0, false
}

// calls evaluates the FilterKey calls inside an expression that is not itself an integer or boolean.
func (s *scanSim) calls(e ast.Expr) {
	ast.Inspect(e, func(n ast.Node) bool {
		if call, ok := n.(*ast.CallExpr); ok && core.CalleeFunc(s.it.info, call) == s.fkey {
			s.eval(call)
			return false
		}
		return true
	})
}

func (s *scanSim) eval(e ast.Expr) (simVal, bool) {
	info := s.it.info
	e = ast.Unparen(e)
	if tv, ok := info.Types[e]; ok && tv.Value != nil {
		if k, isI := core.IntConst(info, e); isI {
			return simVal{i: k}, true
		}
		if v, isB := boolConst(info, e); isB {
			return simVal{b: v, bool: true}, true
		}
	}
	switch x := e.(type) {
	case *ast.Ident:
		v, ok := s.env[objOf(info, x)]
		return v, ok
	case *ast.SelectorExpr:
		if objOf(info, x.X) == info.Defs[s.it.cmdP] {
			v, ok := s.fields[x.Sel.Name]
			return simVal{i: v}, ok
		}
	case *ast.CallExpr:
		if tv, isT := info.Types[x.Fun]; isT && tv.IsType() && len(x.Args) == 1 {
			return s.eval(x.Args[0])
		}
		if b, isB := core.Callee(info, x).(*types.Builtin); isB && b.Name() == "len" && len(x.Args) == 1 {
			n, ok := s.sliceLen(x.Args[0])
			return simVal{i: n}, ok
		}
		if core.CalleeFunc(info, x) == s.fkey && len(x.Args) == 1 {
			// FilterKey(string(args[i])): i is examined; the key is taken to pass
			arg := strip(info, x.Args[0])
			if o := objOf(info, arg); o != nil { // key := string(args[i]) named first
				if d := singleDef(info, s.it.fn.Decl.Body, o); d != nil {
					arg = strip(info, d)
				}
			}
			ie, isIdx := arg.(*ast.IndexExpr)
			if !isIdx || objOf(info, ie.X) != info.Defs[s.it.argsP] {
				s.failf("FilterKey is applied to %s, not to args[index]", s.it.c.Src(x.Args[0]))
				return simVal{}, false
			}
			idx, ok := s.eval(ie.Index)
			if !ok || idx.bool {
				s.failf("cannot evaluate the position %s handed to FilterKey", s.it.c.Src(ie.Index))
				return simVal{}, false
			}
			if len(s.visited) < 256 {
				s.visited = append(s.visited, idx.i)
			}
			return simVal{b: false, bool: true}, true
		}
	case *ast.UnaryExpr:
		v, ok := s.eval(x.X)
		if !ok {
			return v, false
		}
		switch x.Op {
		case token.NOT:
			return simVal{b: !v.b, bool: true}, v.bool
		case token.SUB:
			return simVal{i: -v.i}, !v.bool
		case token.ADD:
			return v, !v.bool
		}
	case *ast.BinaryExpr:
		if x.Op == token.LAND || x.Op == token.LOR {
			l, ok := s.eval(x.X)
			if !ok || !l.bool {
				return simVal{}, false
			}
			if x.Op == token.LAND && !l.b || x.Op == token.LOR && l.b {
				return l, true
			}
			r, ok := s.eval(x.Y)
			return r, ok && r.bool
		}
		l, ok1 := s.eval(x.X)
		r, ok2 := s.eval(x.Y)
		if !ok1 || !ok2 || l.bool != r.bool {
			return simVal{}, false
		}
		if l.bool {
			switch x.Op {
			case token.EQL:
				return simVal{b: l.b == r.b, bool: true}, true
			case token.NEQ:
				return simVal{b: l.b != r.b, bool: true}, true
			}
			return simVal{}, false
		}
		switch x.Op {
		case token.ADD:
			return simVal{i: l.i + r.i}, true
		case token.SUB:
			return simVal{i: l.i - r.i}, true
		case token.MUL:
			return simVal{i: l.i * r.i}, true
		case token.QUO:
			if r.i != 0 {
				return simVal{i: l.i / r.i}, true
			}
		case token.REM:
			if r.i != 0 {
				return simVal{i: l.i % r.i}, true
			}
		case token.EQL:
			return simVal{b: l.i == r.i, bool: true}, true
		case token.NEQ:
			return simVal{b: l.i != r.i, bool: true}, true
		case token.LSS:
			return simVal{b: l.i < r.i, bool: true}, true
		case token.LEQ:
			return simVal{b: l.i <= r.i, bool: true}, true
		case token.GTR:
			return simVal{b: l.i > r.i, bool: true}, true
		case token.GEQ:
			return simVal{b: l.i >= r.i, bool: true}, true
		}
	}
	return simVal{}, false
}
