package c13

import (
	"fmt"
	"go/ast"
	"go/token"
	"go/types"
	"os"
	"strings"

	"golang.org/x/tools/go/cfg"

	"rscheck/cfgq"
	"rscheck/core"
	"rscheck/flow"
)

// R7 the name the command table is indexed with.
//
// The table's keys are lower-case constants (R2 checks that) and the lookup is an
// exact map index, while Redis propagates argv[0] exactly as the client typed it
// and matches command names without regard to case. A key-addressed command is
// therefore filtered only if the value that indexes the table is the TOTAL
// lower-casing of the name received from the source: on every way from where
// the name is taken off the wire to the index expression, a whole-string
// lower-case fold has been applied to it. A name that arrives unfolded is "not
// found", i.e. treated as not key-addressed, and forwarded with all its keys.
//
// The rule follows the index expression backwards (reaching definitions, the
// callers' arguments for a parameter, the return statements of module helpers
// for a call result, the element stores of a local vector for an element) and
// puts every origin into one of three classes:
//
//	folded    the result of a whole-string lower-case fold (strings.ToLower,
//	          bytes.ToLower), a lower-case constant, or a case-preserving
//	          function of folded values;
//	unfolded  a case-preserving function of the bytes as decoded from the source
//	          (or an upper-casing), reaching the index on a way on which no branch
//	          can have established that the name is all lower-case: only branches
//	          that look at nothing of the name, at its length, at a bounded number
//	          of its bytes, that compare it for INequality, or that match it
//	          case-insensitively are passed;
//	unknown   anything else (a hand-written scan, a predicate over the name the
//	          rule cannot see through, mixed stores into one vector ...).
//
// All origins folded: pass. Some origin unfolded: violation, located at the
// definition. Otherwise: undecided.

type foldKind int

const (
	fFolded foldKind = iota
	fRaw
	fUnknown
	fNone // a vector without elements (make, nil): contributes no origin
)

type foldRes struct {
	kind    foldKind
	why     string
	pos     token.Pos
	witness []string
}

func folded() foldRes  { return foldRes{kind: fFolded} }
func noValue() foldRes { return foldRes{kind: fNone} }
func unknownf(pos token.Pos, format string, a ...interface{}) foldRes {
	return foldRes{kind: fUnknown, why: fmt.Sprintf(format, a...), pos: pos}
}

type folder struct {
	c       *core.Ctx
	e       *flow.Engine
	busy    map[ast.Node]bool
	busyFn  map[*types.Func]bool
	blind   map[*types.Func]int // 0 unknown, 1 blind, 2 not blind, 3 in progress
	callers map[*types.Func][]callerSite
	indexed bool
}

type callerSite struct {
	fn   *core.Fn
	call *ast.CallExpr
}

const foldDepth = 12

// casefold checks every index read of the command table.
func casefold(c *core.Ctx, mapObj types.Object) {
	if mapObj == nil {
		return
	}
	f := &folder{c: c, e: flow.New(c.Program), busy: map[ast.Node]bool{}, busyFn: map[*types.Func]bool{}, blind: map[*types.Func]int{}}
	n := 0
	for _, pk := range c.Program.Pkgs {
		if pk.TypesInfo == nil {
			continue
		}
		for _, fn := range c.Program.FuncsOf(pk) {
			fn := fn
			info := pk.TypesInfo
			var sites []*ast.IndexExpr
			written := map[*ast.IndexExpr]bool{}
			ast.Inspect(fn.Decl.Body, func(m ast.Node) bool {
				switch x := m.(type) {
				case *ast.AssignStmt:
					for _, l := range x.Lhs {
						if ie, ok := ast.Unparen(l).(*ast.IndexExpr); ok {
							written[ie] = true
						}
					}
				case *ast.IndexExpr:
					if core.ObjOf(info, x.X) == mapObj && !written[x] {
						sites = append(sites, x)
					}
				}
				return true
			})
			for _, ie := range sites {
				n++
				key := fn.Obj.Name() + "/table-index"
				if n > 1 {
					key = fmt.Sprintf("%s#%d", key, n)
				}
				s, ok := f.e.SiteOf(fn, ie)
				if !ok {
					c.Undecidedf("R7.casefold", key, ie.Pos(), "the table lookup is not in the control-flow graph of %s (function literal)", fn.Name())
					continue
				}
				r := f.classify(fn, s, ie.Index, 0)
				switch r.kind {
				case fFolded, fNone:
					c.Okf("R7.casefold", key, ie.Pos(), "every value that reaches the index of %s is a whole-string lower-case fold of the name received from the source", mapObj.Name())
				case fRaw:
					pos := r.pos
					if !pos.IsValid() {
						pos = ie.Pos()
					}
					c.Check("R7.casefold", key, pos, false,
						fmt.Sprintf("the command table %s (lower-case keys, exact lookup at %s) is indexed with a name that is not lower-cased on this way: %s. Redis propagates a command name exactly as the client typed it, so a key-addressed command written in another case (mSET, dEL, hMSet) is not found in the table, is treated as not key-addressed and is forwarded with all its keys, whatever the key filter says",
							mapObj.Name(), c.Pos(ie.Pos()), r.why), r.witness...)
				default:
					pos := r.pos
					if !pos.IsValid() {
						pos = ie.Pos()
					}
					c.Undecidedf("R7.casefold", key, pos, "cannot see that the name indexing %s is lower-cased as a whole: %s", mapObj.Name(), r.why)
				}
			}
		}
	}
	if n == 0 {
		c.Undecidedf("R7.casefold", "table-index", mapObj.Pos(), "no index read of %s found", mapObj.Name())
	}
}

// ---------------------------------------------------------------------------
// classification of values

func calleePkgName(info *types.Info, call *ast.CallExpr) (pkg, name string, f *types.Func) {
	f = core.CalleeFunc(info, call)
	if f == nil || f.Pkg() == nil {
		return "", "", f
	}
	return f.Pkg().Path(), f.Name(), f
}

func isConversion(info *types.Info, call *ast.CallExpr) bool {
	tv, ok := info.Types[call.Fun]
	return ok && tv.IsType() && len(call.Args) == 1
}

// textPkg: the packages whose functions map text to text.
func textPkg(p string) bool { return p == "strings" || p == "bytes" }

func caseAwarePkg(p string) bool {
	return p == "unicode" || strings.HasPrefix(p, "golang.org/x/text")
}

// lowerFold: whole-value lower-case folds.
func lowerFold(pkg, name string) bool {
	return textPkg(pkg) && name == "ToLower"
}

// otherFold: whole-value case mappings that do not produce the table's case.
func otherFold(pkg, name string) bool {
	if !textPkg(pkg) {
		return false
	}
	switch name {
	case "ToUpper", "ToTitle", "Title":
		return true
	}
	return false
}

// caseAware: functions of strings/bytes whose result depends on, or changes,
// the case of their operand in a way the rule does not interpret.
func caseAware(pkg, name string) bool {
	if caseAwarePkg(pkg) {
		return true
	}
	if !textPkg(pkg) {
		return false
	}
	switch name {
	case "ToLower", "ToUpper", "ToTitle", "Title", "ToLowerSpecial", "ToUpperSpecial", "ToTitleSpecial", "Map", "Compare", "Equal":
		return true
	}
	return false
}

// casePreserving: text -> text functions whose result is part of the operand, unchanged.
func casePreserving(pkg, name string) bool {
	if !textPkg(pkg) {
		return false
	}
	switch name {
	case "TrimSpace", "Trim", "TrimLeft", "TrimRight", "TrimPrefix", "TrimSuffix", "Clone":
		return true
	}
	return false
}

func isText(t types.Type) bool {
	if t == nil {
		return false
	}
	switch u := t.Underlying().(type) {
	case *types.Basic:
		return u.Info()&types.IsString != 0
	case *types.Slice:
		if b, ok := u.Elem().Underlying().(*types.Basic); ok {
			return b.Kind() == types.Byte || b.Kind() == types.Uint8
		}
	}
	return false
}

func isTextVec(t types.Type) bool {
	if t == nil {
		return false
	}
	switch u := t.Underlying().(type) {
	case *types.Slice:
		return isText(u.Elem())
	case *types.Array:
		return isText(u.Elem())
	}
	return false
}

func isByteLike(t types.Type) bool {
	if t == nil {
		return false
	}
	b, ok := t.Underlying().(*types.Basic)
	return ok && (b.Kind() == types.Byte || b.Kind() == types.Uint8 || b.Kind() == types.Rune || b.Kind() == types.Int32 || b.Kind() == types.UntypedRune)
}

// plainNumber: a number or truth value that cannot hold (part of) a name.
func plainNumber(t types.Type) bool {
	b, ok := t.Underlying().(*types.Basic)
	return ok && b.Info()&(types.IsNumeric|types.IsBoolean) != 0 && !isByteLike(t)
}

func paramIndex(fn *core.Fn, obj types.Object) int {
	sig := fn.Obj.Type().(*types.Signature)
	for i := 0; i < sig.Params().Len(); i++ {
		if types.Object(sig.Params().At(i)) == obj {
			return i
		}
	}
	return -1
}

func isResultVar(fn *core.Fn, obj types.Object) bool {
	sig := fn.Obj.Type().(*types.Signature)
	for i := 0; i < sig.Results().Len(); i++ {
		if types.Object(sig.Results().At(i)) == obj {
			return true
		}
	}
	return false
}

// classify: the text value of x at site s of fn.
func (f *folder) classify(fn *core.Fn, s flow.Site, x ast.Expr, depth int) foldRes {
	info := fn.Pkg.TypesInfo
	if depth > foldDepth {
		return unknownf(x.Pos(), "value chain too long at %s", f.c.Src(x))
	}
	x = ast.Unparen(x)
	if sv, ok := core.StringConst(info, x); ok {
		if sv == strings.ToLower(sv) {
			return folded()
		}
		return foldRes{kind: fRaw, pos: x.Pos(), why: fmt.Sprintf("the constant %q is not lower-case", sv)}
	}
	switch v := x.(type) {
	case *ast.CallExpr:
		if isConversion(info, v) {
			if isText(info.TypeOf(v.Args[0])) {
				return f.classify(fn, s, v.Args[0], depth+1)
			}
			return unknownf(v.Pos(), "%s converts a value that is not text", f.c.Src(v))
		}
		pkg, name, callee := calleePkgName(info, v)
		switch {
		case lowerFold(pkg, name):
			return folded()
		case otherFold(pkg, name):
			return foldRes{kind: fRaw, pos: v.Pos(), why: fmt.Sprintf("%s maps the name to a case that is not the table's", f.c.Src(v))}
		case casePreserving(pkg, name) && len(v.Args) >= 1:
			return f.classify(fn, s, v.Args[0], depth+1)
		case callee == nil:
			return unknownf(v.Pos(), "%s is not a call of a known function", f.c.Src(v))
		}
		return f.callResult(fn, s, v, 0, depth+1, false)
	case *ast.Ident:
		return f.variable(fn, s, v, depth, false)
	case *ast.SliceExpr:
		if isText(info.TypeOf(v.X)) {
			return f.classify(fn, s, v.X, depth+1)
		}
		return unknownf(v.Pos(), "unrecognised slice %s", f.c.Src(v))
	case *ast.IndexExpr:
		if isTextVec(info.TypeOf(v.X)) {
			return f.elements(fn, s, v.X, depth+1)
		}
		return unknownf(v.Pos(), "unrecognised element %s", f.c.Src(v))
	case *ast.SelectorExpr:
		if fld := core.FieldOf(info, v); fld != nil {
			return f.field(fld, v)
		}
	}
	return unknownf(x.Pos(), "unrecognised origin %s", f.c.Src(x))
}

// elements: the text elements of vector x at site s.
func (f *folder) elements(fn *core.Fn, s flow.Site, x ast.Expr, depth int) foldRes {
	info := fn.Pkg.TypesInfo
	if depth > foldDepth {
		return unknownf(x.Pos(), "value chain too long at %s", f.c.Src(x))
	}
	x = ast.Unparen(x)
	switch v := x.(type) {
	case *ast.SliceExpr:
		return f.elements(fn, s, v.X, depth+1)
	case *ast.Ident:
		return f.variable(fn, s, v, depth, true)
	case *ast.CallExpr:
		if isConversion(info, v) {
			return f.elements(fn, s, v.Args[0], depth+1)
		}
		if b, ok := core.Callee(info, v).(*types.Builtin); ok {
			switch b.Name() {
			case "make":
				return noValue() // no element yet
			case "append":
				if v.Ellipsis.IsValid() {
					return unknownf(v.Pos(), "%s appends a whole vector", f.c.Src(v))
				}
				rs := []foldRes{f.elements(fn, s, v.Args[0], depth+1)}
				for _, a := range v.Args[1:] {
					rs = append(rs, f.classify(fn, s, a, depth+1))
				}
				return uniform(rs, v.Pos(), f.c.Src(v))
			}
		}
		if core.CalleeFunc(info, v) == nil {
			return unknownf(v.Pos(), "%s is not a call of a known function", f.c.Src(v))
		}
		return f.callResult(fn, s, v, 0, depth+1, true)
	case *ast.CompositeLit:
		var rs []foldRes
		for _, el := range v.Elts {
			if kv, ok := el.(*ast.KeyValueExpr); ok {
				el = kv.Value
			}
			rs = append(rs, f.classify(fn, s, el, depth+1))
		}
		return uniform(rs, v.Pos(), f.c.Src(v))
	case *ast.SelectorExpr:
		if fld := core.FieldOf(info, v); fld != nil {
			return f.field(fld, v)
		}
	}
	if core.IsNil(info, x) {
		return noValue()
	}
	return unknownf(x.Pos(), "unrecognised vector %s", f.c.Src(x))
}

// uniform: all parts folded -> folded; all parts unfolded (or empty) with at
// least one unfolded -> unfolded; anything else unknown. Used where the rule
// does not distinguish the ways (elements of a vector, returns of a helper).
func uniform(rs []foldRes, pos token.Pos, what string) foldRes {
	var raw *foldRes
	nFolded := 0
	for i := range rs {
		switch rs[i].kind {
		case fUnknown:
			return rs[i]
		case fRaw:
			if raw == nil {
				raw = &rs[i]
			}
		case fFolded:
			nFolded++
		}
	}
	switch {
	case raw == nil && nFolded == 0:
		return noValue()
	case raw == nil:
		return folded()
	case nFolded == 0:
		return *raw
	}
	return unknownf(pos, "%s combines lower-cased and not lower-cased values", what)
}

// field: a struct field read. The bytes of a decoded reply are what the source
// sent provided nothing in the program stores a case-mapped value there.
func (f *folder) field(fld *types.Var, at ast.Expr) foldRes {
	if !isText(fld.Type()) && !isTextVec(fld.Type()) {
		return unknownf(at.Pos(), "field %s is not text", fld.Name())
	}
	owner := ""
	mapped := token.NoPos
	for _, pk := range f.c.Program.Pkgs {
		if pk.TypesInfo == nil {
			continue
		}
		info := pk.TypesInfo
		for _, file := range pk.Syntax {
			ast.Inspect(file, func(m ast.Node) bool {
				switch x := m.(type) {
				case *ast.AssignStmt:
					for i, l := range x.Lhs {
						tgt := ast.Unparen(l)
						if ie, ok := tgt.(*ast.IndexExpr); ok {
							tgt = ast.Unparen(ie.X)
						}
						if core.FieldOf(info, tgt) == fld {
							r := core.AssignedTo(x, i)
							if r == nil && len(x.Rhs) > 0 {
								r = x.Rhs[0]
							}
							if r != nil && f.hasCaseCall(info, r) {
								mapped = x.Pos()
							}
						}
					}
				case *ast.CompositeLit:
					st, ok := info.TypeOf(x).Underlying().(*types.Struct)
					if !ok {
						if p, isP := info.TypeOf(x).Underlying().(*types.Pointer); isP {
							st, ok = p.Elem().Underlying().(*types.Struct)
						}
					}
					if !ok || st == nil {
						return true
					}
					for i, el := range x.Elts {
						var val ast.Expr
						if kv, isKV := el.(*ast.KeyValueExpr); isKV {
							if id, isID := kv.Key.(*ast.Ident); isID && info.Uses[id] == types.Object(fld) {
								val = kv.Value
							}
						} else if i < st.NumFields() && st.Field(i) == fld {
							val = el
						}
						if val != nil && f.hasCaseCall(info, val) {
							mapped = x.Pos()
						}
					}
				}
				return true
			})
		}
	}
	if mapped.IsValid() {
		return unknownf(at.Pos(), "field %s is stored a case-mapped value at %s", fld.Name(), f.c.Pos(mapped))
	}
	if p := fld.Pkg(); p != nil {
		owner = strings.TrimPrefix(p.Path(), core.Module+"/") + "."
	}
	return foldRes{kind: fRaw, pos: at.Pos(), why: fmt.Sprintf("%s reads field %s%s, the bytes as decoded from the source", f.c.Src(at), owner, fld.Name())}
}

// hasCaseCall: e contains a call of a case-aware function.
func (f *folder) hasCaseCall(info *types.Info, e ast.Node) bool {
	hit := false
	ast.Inspect(e, func(m ast.Node) bool {
		if call, ok := m.(*ast.CallExpr); ok {
			if pkg, name, _ := calleePkgName(info, call); caseAware(pkg, name) {
				hit = true
			}
		}
		return true
	})
	return hit
}

// callResult: result #idx of a module helper, over its return statements.
func (f *folder) callResult(fn *core.Fn, s flow.Site, call *ast.CallExpr, idx, depth int, elems bool) foldRes {
	info := fn.Pkg.TypesInfo
	callee := core.CalleeFunc(info, call)
	cf := f.c.Program.FnOf(callee)
	if callee == nil || cf == nil || cf.Decl == nil || cf.Decl.Body == nil || callee.Pkg() == nil || !strings.HasPrefix(callee.Pkg().Path(), core.Module) {
		return unknownf(call.Pos(), "the result of %s is not interpreted", f.c.Src(call))
	}
	if f.busyFn[callee] {
		return unknownf(call.Pos(), "%s is recursive", f.c.Src(call))
	}
	f.busyFn[callee] = true
	defer delete(f.busyFn, callee)
	root := flow.Site{G: s.G, At: s.At} // frames are not used: parameters are resolved over all callers
	rets, ok := f.e.Follow(root, call, idx)
	if !ok || len(rets) == 0 {
		return unknownf(call.Pos(), "the returns of %s cannot be followed", f.c.Src(call))
	}
	var rs []foldRes
	for _, r := range rets {
		rsite := flow.Site{G: r.G, At: r.At}
		switch {
		case r.Call != nil:
			rs = append(rs, f.callResultIn(cf, rsite, r.Call, idx, depth+1, elems))
		case elems:
			rs = append(rs, f.elements(cf, rsite, r.Expr, depth+1))
		default:
			one := f.classify(cf, rsite, r.Expr, depth+1)
			// an unfolded value written directly in the return: the way to it must be clean as well
			if one.kind == fRaw && one.witness == nil {
				if _, isID := ast.Unparen(r.Expr).(*ast.Ident); !isID {
					one = f.cleanWay(cf, rsite, nil, nil, r.Expr, one)
				}
			}
			rs = append(rs, one)
		}
	}
	return uniform(rs, call.Pos(), "the results of "+f.c.Src(call))
}

func (f *folder) callResultIn(fn *core.Fn, s flow.Site, call *ast.CallExpr, idx, depth int, elems bool) foldRes {
	if depth > foldDepth {
		return unknownf(call.Pos(), "value chain too long at %s", f.c.Src(call))
	}
	return f.callResult(fn, s, call, idx, depth, elems)
}

// variable: the value (or, with elems, the elements) of local variable id at s.
func (f *folder) variable(fn *core.Fn, s flow.Site, id *ast.Ident, depth int, elems bool) foldRes {
	info := fn.Pkg.TypesInfo
	obj := core.ObjOf(info, id)
	v, isVar := obj.(*types.Var)
	if !isVar {
		return unknownf(id.Pos(), "%s is not a variable", id.Name)
	}
	if v.Parent() == nil || v.Pkg() == nil || v.Parent() == v.Pkg().Scope() || v.IsField() {
		return unknownf(id.Pos(), "%s is not a local variable", id.Name)
	}
	st := f.e.Step(flow.Site{G: s.G, At: s.At}, id)
	if !st.Local || st.Unsafe {
		return unknownf(id.Pos(), "the value of %s is not tracked (address taken or assigned in a closure)", id.Name)
	}
	var rs []foldRes
	add := func(r foldRes) { rs = append(rs, r) }
	for _, d := range st.Defs {
		if f.busy[d.Node] {
			continue // a cycle of definitions adds no origin of its own
		}
		f.busy[d.Node] = true
		var r foldRes
		dsite := flow.Site{G: d.G, At: d.At}
		switch {
		case d.Zero && elems:
			r = noValue()
		case d.Zero:
			r = folded()
		case d.RHS != nil && elems:
			r = f.elements(fn, dsite, d.RHS, depth+1)
		case d.RHS != nil:
			r = f.classify(fn, dsite, d.RHS, depth+1)
		case d.Call != nil:
			r = f.callResult(fn, dsite, d.Call, d.Idx, depth+1, elems)
		default:
			if rid, isRange := d.Node.(*ast.Ident); isRange && !elems {
				r = f.rangeValue(fn, dsite, rid, depth+1)
			} else {
				r = unknownf(d.Node.Pos(), "unrecognised definition of %s", id.Name)
			}
		}
		delete(f.busy, d.Node)
		if r.kind == fRaw && !elems {
			var src ast.Expr = d.RHS
			if src == nil && d.Call != nil {
				src = d.Call
			}
			dn := d.Node
			r = f.cleanWay(fn, s, dn, v, src, r)
		}
		add(r)
	}
	if elems {
		// element stores `v[i] = x`, wherever they are (not ordered against the read)
		ast.Inspect(fn.Decl.Body, func(m ast.Node) bool {
			as, ok := m.(*ast.AssignStmt)
			if !ok {
				return true
			}
			for i, l := range as.Lhs {
				ie, ok := ast.Unparen(l).(*ast.IndexExpr)
				if !ok || core.ObjOf(info, ie.X) != obj {
					continue
				}
				rhs := core.AssignedTo(as, i)
				if rhs == nil || as.Tok != token.ASSIGN {
					add(unknownf(as.Pos(), "unrecognised element store %s", f.c.Src(as)))
					continue
				}
				if f.busy[as] {
					continue
				}
				f.busy[as] = true
				if ss, ok := f.e.SiteOf(fn, as); ok {
					add(f.classify(fn, ss, rhs, depth+1))
				} else {
					add(unknownf(as.Pos(), "element store %s is inside a function literal", f.c.Src(as)))
				}
				delete(f.busy, as)
			}
			return true
		})
	}
	if st.Entry {
		switch {
		case paramIndex(fn, obj) >= 0:
			r := f.param(fn, paramIndex(fn, obj), id, depth+1, elems)
			if r.kind == fRaw && !elems {
				r = f.cleanWay(fn, s, nil, v, id, r)
			}
			add(r)
		case isResultVar(fn, obj):
			add(folded()) // the zero value
		default:
			add(unknownf(id.Pos(), "%s is read before it is defined", id.Name))
		}
	}
	if len(rs) == 0 {
		return unknownf(id.Pos(), "no definition of %s reaches %s", id.Name, f.c.Pos(id.Pos()))
	}
	if elems {
		return uniform(rs, id.Pos(), "vector "+id.Name)
	}
	// by ways: one unfolded definition on a clean way decides
	for _, r := range rs {
		if r.kind == fRaw {
			return r
		}
	}
	for _, r := range rs {
		if r.kind == fUnknown {
			return r
		}
	}
	return folded()
}

// rangeValue: the value variable of `for _, v := range X` over a text vector.
func (f *folder) rangeValue(fn *core.Fn, s flow.Site, id *ast.Ident, depth int) foldRes {
	var rng *ast.RangeStmt
	ast.Inspect(fn.Decl.Body, func(m ast.Node) bool {
		if r, ok := m.(*ast.RangeStmt); ok && r.Value != nil && ast.Unparen(r.Value) == ast.Expr(id) {
			rng = r
		}
		return true
	})
	if rng == nil || !isTextVec(fn.Pkg.TypesInfo.TypeOf(rng.X)) {
		return unknownf(id.Pos(), "%s is a range variable the rule does not interpret", id.Name)
	}
	return f.elements(fn, s, rng.X, depth+1)
}

// param: parameter #i of fn, over every call of fn in the program.
func (f *folder) param(fn *core.Fn, i int, at *ast.Ident, depth int, elems bool) foldRes {
	if depth > foldDepth {
		return unknownf(at.Pos(), "value chain too long at parameter %s", at.Name)
	}
	f.index()
	sig := fn.Obj.Type().(*types.Signature)
	if sig.Variadic() && i == sig.Params().Len()-1 {
		return unknownf(at.Pos(), "%s is a variadic parameter", at.Name)
	}
	sites, known := f.callers[fn.Obj.Origin()]
	if !known || len(sites) == 0 {
		// nothing in the program calls it: what the parameter holds is what the outside hands in
		return unknownf(at.Pos(), "parameter %s of %s: no caller in the program", at.Name, fn.Name())
	}
	var rs []foldRes
	for _, cs := range sites {
		if cs.call == nil {
			return unknownf(at.Pos(), "%s is used as a function value in %s; its callers are not all known", fn.Name(), cs.fn.Name())
		}
		if i >= len(cs.call.Args) || cs.call.Ellipsis.IsValid() {
			return unknownf(cs.call.Pos(), "unrecognised call %s", f.c.Src(cs.call))
		}
		if f.busy[cs.call] {
			continue
		}
		ss, ok := f.e.SiteOf(cs.fn, cs.call)
		if !ok {
			return unknownf(cs.call.Pos(), "the call %s is inside a function literal", f.c.Src(cs.call))
		}
		f.busy[cs.call] = true
		var r foldRes
		if elems {
			r = f.elements(cs.fn, ss, cs.call.Args[i], depth+1)
		} else {
			r = f.classify(cs.fn, ss, cs.call.Args[i], depth+1)
			if r.kind == fRaw && r.witness == nil {
				if _, isID := ast.Unparen(cs.call.Args[i]).(*ast.Ident); !isID {
					r = f.cleanWay(cs.fn, ss, nil, nil, cs.call.Args[i], r)
				}
			}
		}
		delete(f.busy, cs.call)
		rs = append(rs, r)
	}
	if len(rs) == 0 {
		return unknownf(at.Pos(), "parameter %s of %s: only recursive calls", at.Name, fn.Name())
	}
	for _, r := range rs {
		if r.kind == fRaw {
			return r // one caller handing in an unfolded name is enough
		}
	}
	for _, r := range rs {
		if r.kind == fUnknown {
			return r
		}
	}
	return folded()
}

// index lists, once, the calls (and other uses) of every module function.
func (f *folder) index() {
	if f.indexed {
		return
	}
	f.indexed = true
	f.callers = map[*types.Func][]callerSite{}
	for _, pk := range f.c.Program.Pkgs {
		if pk.TypesInfo == nil {
			continue
		}
		info := pk.TypesInfo
		for _, fn := range f.c.Program.FuncsOf(pk) {
			fn := fn
			inCall := map[*ast.Ident]bool{}
			ast.Inspect(fn.Decl.Body, func(m ast.Node) bool {
				if call, ok := m.(*ast.CallExpr); ok {
					if callee := core.CalleeFunc(info, call); callee != nil {
						switch fun := ast.Unparen(call.Fun).(type) {
						case *ast.Ident:
							inCall[fun] = true
						case *ast.SelectorExpr:
							inCall[fun.Sel] = true
						}
						f.callers[callee.Origin()] = append(f.callers[callee.Origin()], callerSite{fn, call})
					}
				}
				return true
			})
			ast.Inspect(fn.Decl.Body, func(m ast.Node) bool {
				if id, ok := m.(*ast.Ident); ok && !inCall[id] {
					if fo, ok := info.Uses[id].(*types.Func); ok && fo.Pkg() != nil && strings.HasPrefix(fo.Pkg().Path(), core.Module) {
						f.callers[fo.Origin()] = append(f.callers[fo.Origin()], callerSite{fn, nil})
					}
				}
				return true
			})
		}
	}
}

// ---------------------------------------------------------------------------
// ways: can a branch have established that the name is lower-case?

// taint is what, in one function, carries the content of the name: the traced
// variable, what it is computed from, what is computed from those.
type taint struct {
	f       *folder
	fn      *core.Fn
	info    *types.Info
	vars    map[types.Object]bool // text or source values
	carrier map[types.Object]bool // non-text values computed by something that may look at the case
	gotos   bool
	flagMem map[types.Object]int
}

func (f *folder) newTaint(fn *core.Fn, seeds []types.Object, exprs []ast.Expr, exempt map[types.Object]bool) *taint {
	t := &taint{f: f, fn: fn, info: fn.Pkg.TypesInfo, vars: map[types.Object]bool{}, carrier: map[types.Object]bool{}, flagMem: map[types.Object]int{}}
	body := fn.Decl.Body
	ast.Inspect(body, func(m ast.Node) bool {
		if b, ok := m.(*ast.BranchStmt); ok && b.Tok == token.GOTO {
			t.gotos = true
		}
		return true
	})
	local := func(o types.Object) bool {
		v, ok := o.(*types.Var)
		return ok && !v.IsField() && v.Pkg() != nil && v.Parent() != v.Pkg().Scope()
	}
	addMentions := func(e ast.Node) bool {
		ch := false
		ast.Inspect(e, func(m ast.Node) bool {
			if id, ok := m.(*ast.Ident); ok {
				if o := t.info.Uses[id]; o != nil && local(o) && !t.vars[o] && !plainNumber(o.Type()) {
					t.vars[o] = true
					ch = true
				}
			}
			return true
		})
		return ch
	}
	for _, o := range seeds {
		if o != nil {
			t.vars[o] = true
		}
	}
	for _, e := range exprs {
		if e != nil {
			addMentions(e)
		}
	}
	// backwards: what the tainted values are computed from
	type asg struct {
		lhs []types.Object
		rhs []ast.Expr
		all ast.Node
	}
	var asgs []asg
	ast.Inspect(body, func(m ast.Node) bool {
		switch x := m.(type) {
		case *ast.AssignStmt:
			a := asg{all: x}
			for _, l := range x.Lhs {
				tgt := ast.Unparen(l)
				if ie, ok := tgt.(*ast.IndexExpr); ok { // element store: the vector receives the value
					tgt = ast.Unparen(ie.X)
				}
				if id, ok := tgt.(*ast.Ident); ok {
					a.lhs = append(a.lhs, core.ObjOf(t.info, id))
				} else {
					a.lhs = append(a.lhs, nil)
				}
			}
			a.rhs = x.Rhs
			asgs = append(asgs, a)
		case *ast.ValueSpec:
			a := asg{all: x}
			for _, nm := range x.Names {
				a.lhs = append(a.lhs, t.info.Defs[nm])
			}
			a.rhs = x.Values
			asgs = append(asgs, a)
		case *ast.RangeStmt:
			a := asg{all: x}
			if x.Key != nil {
				a.lhs = append(a.lhs, nil) // the position says nothing about the content
			}
			if x.Value != nil {
				a.lhs = append(a.lhs, core.ObjOf(t.info, x.Value))
			}
			a.rhs = []ast.Expr{x.X}
			asgs = append(asgs, a)
		}
		return true
	})
	rhsOf := func(a asg, i int) []ast.Expr {
		if len(a.rhs) == len(a.lhs) {
			return []ast.Expr{a.rhs[i]}
		}
		return a.rhs
	}
	seedSet := map[types.Object]bool{}
	for _, o := range seeds {
		seedSet[o] = true
	}
	for changed, rounds := true, 0; changed && rounds < 20; rounds++ {
		changed = false
		for _, a := range asgs {
			for i, l := range a.lhs {
				if l == nil || !t.vars[l] || seedSet[l] && len(exprs) > 0 {
					continue // the traced variable's other definitions are other origins, not sources of this one
				}
				for _, r := range rhsOf(a, i) {
					if addMentions(r) {
						changed = true
					}
				}
			}
		}
	}
	// forwards: what is computed from tainted values
	for changed, rounds := true, 0; changed && rounds < 20; rounds++ {
		changed = false
		for _, a := range asgs {
			for i, l := range a.lhs {
				if l == nil || t.vars[l] || t.carrier[l] || !local(l) || exempt[l] {
					continue
				}
				for _, r := range rhsOf(a, i) {
					if !t.mentions(r) {
						continue
					}
					if ty := l.Type(); isText(ty) || isTextVec(ty) || isByteLike(ty) && t.textElement(r) {
						t.vars[l] = true
						changed = true
					} else if t.capable(r) {
						t.carrier[l] = true
						changed = true
					}
				}
			}
		}
	}
	return t
}

// textElement: r is a byte of a tainted text (`v[i]`) or the range over one.
func (t *taint) textElement(r ast.Expr) bool {
	r = ast.Unparen(r)
	if ie, ok := r.(*ast.IndexExpr); ok {
		return t.textOperand(ie.X)
	}
	return t.textOperand(r) // range value over the text
}

func (t *taint) mentions(e ast.Node) bool {
	hit := false
	ast.Inspect(e, func(m ast.Node) bool {
		if id, ok := m.(*ast.Ident); ok {
			if o := t.info.Uses[id]; o != nil && (t.vars[o] || t.carrier[o]) {
				hit = true
			}
		}
		return true
	})
	return hit
}

// textOperand: e denotes (part of) the tainted text as a value: a tainted text
// variable, a conversion of one, an element or sub-vector of a tainted vector.
func (t *taint) textOperand(e ast.Expr) bool {
	e = ast.Unparen(e)
	switch x := e.(type) {
	case *ast.Ident:
		o := t.info.Uses[x]
		return o != nil && t.vars[o] && (isText(o.Type()) || isTextVec(o.Type()))
	case *ast.CallExpr:
		if isConversion(t.info, x) && (isText(t.info.TypeOf(x)) || isTextVec(t.info.TypeOf(x))) {
			return t.textOperand(x.Args[0])
		}
	case *ast.IndexExpr:
		return isTextVec(t.info.TypeOf(x.X)) && t.textOperand(x.X)
	case *ast.SliceExpr:
		return isTextVec(t.info.TypeOf(x.X)) && t.textOperand(x.X)
	case *ast.SelectorExpr:
		// a text field of a tainted source value
		if ty := t.info.TypeOf(x); isText(ty) || isTextVec(ty) {
			root := ast.Unparen(x.X)
			for {
				switch y := root.(type) {
				case *ast.SelectorExpr:
					root = ast.Unparen(y.X)
					continue
				case *ast.StarExpr:
					root = ast.Unparen(y.X)
					continue
				case *ast.IndexExpr:
					root = ast.Unparen(y.X)
					continue
				case *ast.TypeAssertExpr:
					root = ast.Unparen(y.X)
					continue
				}
				break
			}
			if id, ok := root.(*ast.Ident); ok {
				if o := t.info.Uses[id]; o != nil && t.vars[o] {
					return true
				}
			}
		}
	}
	return false
}

// boundedByte: a byte variable whose every definition is `text[constant]`.
func (t *taint) boundedByte(o types.Object) bool {
	if !isByteLike(o.Type()) {
		return false
	}
	n, ok := 0, true
	ast.Inspect(t.fn.Decl.Body, func(m ast.Node) bool {
		switch x := m.(type) {
		case *ast.AssignStmt:
			for i, l := range x.Lhs {
				if core.ObjOf(t.info, l) != o {
					continue
				}
				n++
				r := core.AssignedTo(x, i)
				if r == nil || x.Tok != token.ASSIGN && x.Tok != token.DEFINE || !t.constIndexed(r) {
					ok = false
				}
			}
		case *ast.ValueSpec:
			for i, nm := range x.Names {
				if t.info.Defs[nm] != o {
					continue
				}
				n++
				if len(x.Values) != len(x.Names) || !t.constIndexed(x.Values[i]) {
					ok = false
				}
			}
		case *ast.IncDecStmt:
			if core.ObjOf(t.info, x.X) == o {
				ok = false
			}
		case *ast.RangeStmt:
			if x.Key != nil && core.ObjOf(t.info, x.Key) == o || x.Value != nil && core.ObjOf(t.info, x.Value) == o {
				ok = false
			}
		case *ast.UnaryExpr:
			if x.Op == token.AND && core.ObjOf(t.info, x.X) == o {
				ok = false
			}
		}
		return true
	})
	return ok && n > 0
}

func (t *taint) constIndexed(r ast.Expr) bool {
	r = ast.Unparen(r)
	if call, ok := r.(*ast.CallExpr); ok && isConversion(t.info, call) {
		return t.constIndexed(call.Args[0])
	}
	ie, ok := r.(*ast.IndexExpr)
	if !ok || !isText(t.info.TypeOf(ie.X)) {
		return false
	}
	_, isC := core.IntConst(t.info, ie.Index)
	return isC
}

// capable: evaluating e may tell whether the name is all lower-case (or e is
// something the rule does not interpret that touches the name).
func (t *taint) capable(e ast.Expr) bool {
	if e == nil {
		return false
	}
	e = ast.Unparen(e)
	if t.textOperand(e) {
		return true // the name itself, used in a way no case below consumed
	}
	if tv, ok := t.info.Types[e]; ok && tv.Value != nil {
		return false
	}
	switch x := e.(type) {
	case *ast.Ident:
		o := t.info.Uses[x]
		if o == nil {
			return false
		}
		switch {
		case t.carrier[o]:
			return true
		case t.vars[o] && isByteLike(o.Type()):
			return !t.boundedByte(o)
		case t.vars[o]:
			// where the name comes from (the decoded reply, a reader): naming it looks at
			// nothing; calls on it are judged as calls, its text fields as text
			return false
		}
		if v, ok := o.(*types.Var); ok && !v.IsField() && v.Pkg() != nil && v.Parent() != v.Pkg().Scope() {
			return t.flag(o)
		}
		return false
	case *ast.BasicLit:
		return false
	case *ast.BinaryExpr:
		if x.Op == token.EQL || x.Op == token.NEQ {
			for _, p := range [][2]ast.Expr{{x.X, x.Y}, {x.Y, x.X}} {
				if core.IsNil(t.info, p[1]) {
					if t.textOperand(p[0]) {
						return false
					}
					if id, ok := ast.Unparen(p[0]).(*ast.Ident); ok {
						if o := t.info.Uses[id]; o != nil && t.vars[o] {
							return false
						}
					}
					return t.capable(p[0])
				}
			}
		}
		return t.capable(x.X) || t.capable(x.Y)
	case *ast.UnaryExpr:
		return t.capable(x.X)
	case *ast.StarExpr:
		return t.capable(x.X)
	case *ast.SelectorExpr:
		if _, isPkg := t.info.Uses[identOrNil(x.X)].(*types.PkgName); isPkg {
			return false
		}
		return t.capable(x.X)
	case *ast.TypeAssertExpr:
		return t.capable(x.X)
	case *ast.IndexExpr:
		if isText(t.info.TypeOf(x.X)) && t.textOperand(x.X) {
			_, isC := core.IntConst(t.info, x.Index)
			return !isC
		}
		return t.capable(x.X) || t.capable(x.Index)
	case *ast.SliceExpr:
		return t.mentions(x)
	case *ast.CallExpr:
		return t.capableCall(x)
	case *ast.CompositeLit:
		for _, el := range x.Elts {
			if kv, ok := el.(*ast.KeyValueExpr); ok {
				el = kv.Value
			}
			if t.capable(el) {
				return true
			}
		}
		return false
	}
	return t.mentions(e)
}

func identOrNil(e ast.Expr) *ast.Ident {
	id, _ := ast.Unparen(e).(*ast.Ident)
	return id
}

func (t *taint) capableCall(call *ast.CallExpr) bool {
	if isConversion(t.info, call) {
		return t.capable(call.Args[0])
	}
	// arguments that are the name itself are judged by what the callee does with
	// them; any other argument is an expression of its own
	touches := false
	var rest []ast.Expr
	for _, a := range call.Args {
		switch {
		case t.textOperand(a):
			touches = true
		case t.sourceIdent(a):
			touches = true
		default:
			rest = append(rest, a)
		}
	}
	if sel, ok := ast.Unparen(call.Fun).(*ast.SelectorExpr); ok {
		if _, isPkg := t.info.Uses[identOrNil(sel.X)].(*types.PkgName); !isPkg {
			if t.textOperand(sel.X) || t.sourceIdent(sel.X) {
				touches = true
			} else {
				rest = append(rest, sel.X)
			}
		}
	}
	for _, a := range rest {
		if t.capable(a) {
			return true
		}
	}
	if !touches {
		return false
	}
	if b, ok := core.Callee(t.info, call).(*types.Builtin); ok {
		switch b.Name() {
		case "len", "cap", "append", "copy", "make", "print", "println", "panic":
			return false
		}
		return true
	}
	pkg, name, callee := calleePkgName(t.info, call)
	if callee == nil {
		return true // function value, interface method
	}
	if strings.HasPrefix(pkg, core.Module) {
		return !t.f.caseBlind(callee, 0)
	}
	return caseAware(pkg, name)
}

// sourceIdent: a bare tainted variable that is not text (the decoded reply, the reader ...).
func (t *taint) sourceIdent(e ast.Expr) bool {
	id := identOrNil(e)
	if id == nil {
		return false
	}
	o := t.info.Uses[id]
	return o != nil && t.vars[o] && !isByteLike(o.Type())
}

// caseBlind: nothing fn does (itself or in the module functions it calls)
// depends on the case of letters: no case mapping or classification, no
// ordered comparison of a byte with a letter, no equality / switch / map index
// on a text parameter.
func (f *folder) caseBlind(fo *types.Func, depth int) bool {
	fo = fo.Origin()
	switch f.blind[fo] {
	case 1:
		return true
	case 2:
		return false
	case 3:
		return true // recursion: judged by the rest
	}
	fn := f.c.Program.FnOf(fo)
	if fn == nil || fn.Decl == nil || fn.Decl.Body == nil || depth > 4 {
		return false
	}
	f.blind[fo] = 3
	info := fn.Pkg.TypesInfo
	textParam := func(e ast.Expr) bool {
		for {
			e = ast.Unparen(e)
			if call, ok := e.(*ast.CallExpr); ok && isConversion(info, call) {
				e = call.Args[0]
				continue
			}
			break
		}
		id, ok := e.(*ast.Ident)
		if !ok {
			return false
		}
		v, ok := info.Uses[id].(*types.Var)
		return ok && paramIndex(fn, v) >= 0 && (isText(v.Type()) || isTextVec(v.Type()))
	}
	letter := func(e ast.Expr) bool {
		tv, ok := info.Types[e]
		if !ok || tv.Value == nil {
			return false
		}
		if k, isC := core.IntConst(info, e); isC {
			return k >= 'A' && k <= 'Z' || k >= 'a' && k <= 'z'
		}
		return false
	}
	ok := true
	ast.Inspect(fn.Decl.Body, func(m ast.Node) bool {
		if !ok {
			return false
		}
		switch x := m.(type) {
		case *ast.CallExpr:
			if isConversion(info, x) {
				return true
			}
			if _, isB := core.Callee(info, x).(*types.Builtin); isB {
				return true
			}
			pkg, name, callee := calleePkgName(info, x)
			switch {
			case callee == nil:
				// a function value or interface method: blind unless it is handed text
				for _, a := range x.Args {
					if isText(info.TypeOf(a)) || isTextVec(info.TypeOf(a)) {
						ok = false
					}
				}
			case strings.HasPrefix(pkg, core.Module):
				if cf := f.c.Program.FnOf(callee); cf != nil && cf.Decl != nil && cf.Decl.Body != nil {
					if !f.caseBlind(callee, depth+1) {
						ok = false
					}
				} else {
					for _, a := range x.Args {
						if isText(info.TypeOf(a)) || isTextVec(info.TypeOf(a)) {
							ok = false
						}
					}
				}
			case caseAware(pkg, name):
				ok = false
			}
		case *ast.BinaryExpr:
			switch x.Op {
			case token.LSS, token.LEQ, token.GTR, token.GEQ, token.SUB, token.ADD, token.OR, token.XOR, token.AND, token.AND_NOT:
				if isByteLike(info.TypeOf(x.X)) && (letter(x.X) || letter(x.Y)) {
					ok = false
				}
			case token.EQL, token.NEQ:
				if textParam(x.X) && !core.IsNil(info, x.Y) || textParam(x.Y) && !core.IsNil(info, x.X) {
					ok = false
				}
			}
		case *ast.SwitchStmt:
			if x.Tag != nil && textParam(x.Tag) {
				ok = false
			}
		case *ast.IndexExpr:
			if _, isMap := info.TypeOf(x.X).Underlying().(*types.Map); isMap && textParam(x.Index) {
				ok = false
			}
		}
		return true
	})
	if ok {
		f.blind[fo] = 1
	} else {
		f.blind[fo] = 2
	}
	return ok
}

// flag: local variable o (not computed from the name) may still say something
// about the name's case because one of its assignments is executed or not
// depending on a capable condition.
func (t *taint) flag(o types.Object) bool {
	// a truth value assigned constants: the path search itself knows, at every
	// branch on the flag, which constant the way it came assigned last and does
	// not follow the other edge; the assignments on the way were reached through
	// branches that were judged one by one. (Anything else assigned to it that
	// touches the name makes it a carrier, not a flag.)
	if b, ok := o.Type().Underlying().(*types.Basic); ok && b.Info()&types.IsBoolean != 0 && t.safeLocal(o) {
		return false
	}
	if t.gotos {
		return true
	}
	switch t.flagMem[o] {
	case 1:
		return true
	case 2:
		return false
	case 3:
		return false
	}
	t.flagMem[o] = 3
	res := false
	var stack []ast.Node
	governed := func() bool {
		for _, anc := range stack {
			switch a := anc.(type) {
			case *ast.IfStmt:
				if t.condCapable(a.Cond) {
					return true
				}
			case *ast.ForStmt:
				if a.Cond != nil && t.condCapable(a.Cond) || t.bodyCapable(a.Body) {
					return true
				}
			case *ast.RangeStmt:
				if t.bodyCapable(a.Body) {
					return true
				}
			case *ast.SwitchStmt:
				if a.Tag != nil && (t.textOperand(a.Tag) || t.capable(a.Tag)) {
					return true
				}
				for _, st := range a.Body.List {
					if cc, ok := st.(*ast.CaseClause); ok {
						for _, ce := range cc.List {
							if t.condCapable(ce) {
								return true
							}
						}
					}
				}
			case *ast.FuncLit:
				return true
			case *ast.SelectStmt, *ast.TypeSwitchStmt:
				if t.mentions(a) {
					return true
				}
			}
		}
		return false
	}
	var walk func(n ast.Node)
	walk = func(n ast.Node) {
		ast.Inspect(n, func(m ast.Node) bool {
			if m == nil {
				stack = stack[:len(stack)-1]
				return false
			}
			stack = append(stack, m)
			assigns := false
			switch x := m.(type) {
			case *ast.AssignStmt:
				for _, l := range x.Lhs {
					if core.ObjOf(t.info, l) == o {
						assigns = true
					}
				}
			case *ast.IncDecStmt:
				assigns = core.ObjOf(t.info, x.X) == o
			case *ast.RangeStmt:
				assigns = x.Key != nil && core.ObjOf(t.info, x.Key) == o || x.Value != nil && core.ObjOf(t.info, x.Value) == o
			}
			if assigns && !res && governed() {
				res = true
			}
			return true
		})
	}
	walk(t.fn.Decl.Body)
	if res {
		t.flagMem[o] = 1
	} else {
		t.flagMem[o] = 2
	}
	return res
}

// safeLocal: the address of o is never taken and no function literal assigns it.
func (t *taint) safeLocal(o types.Object) bool {
	safe := true
	var walk func(n ast.Node, inLit bool)
	walk = func(n ast.Node, inLit bool) {
		ast.Inspect(n, func(m ast.Node) bool {
			switch x := m.(type) {
			case *ast.FuncLit:
				if !inLit {
					walk(x.Body, true)
					return false
				}
			case *ast.UnaryExpr:
				if x.Op == token.AND && core.ObjOf(t.info, x.X) == o {
					safe = false
				}
			case *ast.AssignStmt:
				if inLit {
					for _, l := range x.Lhs {
						if core.ObjOf(t.info, l) == o {
							safe = false
						}
					}
				}
			case *ast.IncDecStmt:
				if inLit && core.ObjOf(t.info, x.X) == o {
					safe = false
				}
			}
			return true
		})
	}
	walk(t.fn.Decl.Body, false)
	return safe
}

func (t *taint) condCapable(cond ast.Expr) bool {
	return cond != nil && (t.atom(cond, true) || t.atom(cond, false))
}

// bodyCapable: some branch inside the loop body is capable (a break or
// continue under it makes everything the loop assigns depend on it).
func (t *taint) bodyCapable(body *ast.BlockStmt) bool {
	hit := false
	ast.Inspect(body, func(m ast.Node) bool {
		switch x := m.(type) {
		case *ast.IfStmt:
			if t.condCapable(x.Cond) {
				hit = true
			}
		case *ast.ForStmt:
			if x.Cond != nil && t.condCapable(x.Cond) {
				hit = true
			}
		case *ast.SwitchStmt:
			if x.Tag != nil && (t.textOperand(x.Tag) || t.capable(x.Tag)) {
				hit = true
			}
		case *ast.CaseClause:
			for _, ce := range x.List {
				if t.mentions(ce) && t.condCapable(ce) {
					hit = true
				}
			}
		}
		return !hit
	})
	return hit
}

// atom: condition e evaluating to val may establish that the name is lower-case.
func (t *taint) atom(e ast.Expr, val bool) bool {
	e = ast.Unparen(e)
	switch x := e.(type) {
	case *ast.UnaryExpr:
		if x.Op == token.NOT {
			return t.atom(x.X, !val)
		}
	case *ast.BinaryExpr:
		switch x.Op {
		case token.LAND, token.LOR:
			if (x.Op == token.LAND) == val {
				return t.atom(x.X, val) || t.atom(x.Y, val)
			}
			return t.atom(x.X, true) || t.atom(x.X, false) || t.atom(x.Y, true) || t.atom(x.Y, false)
		case token.EQL, token.NEQ:
			for _, p := range [][2]ast.Expr{{x.X, x.Y}, {x.Y, x.X}} {
				if t.textOperand(p[0]) && isText(t.info.TypeOf(p[0])) && !core.IsNil(t.info, p[1]) {
					// equal to something: that something may be lower-case. Different from
					// something: says nothing about the rest of the alphabet
					return (x.Op == token.EQL) == val
				}
			}
		}
	}
	return t.capable(e)
}

// edgeCapable: leaving block b through successor succ.
func (t *taint) edgeCapable(g *cfgq.Graph, b *cfg.Block, succ int) bool {
	if len(b.Succs) != 2 {
		return false
	}
	cond := cfgq.CondOf(b)
	if cond == nil {
		return false
	}
	if b.Succs[0].Kind == cfg.KindSwitchCaseBody {
		fs := g.EdgeFacts(b, succ)
		if len(fs) == 0 {
			return t.mentions(cond)
		}
		for _, fct := range fs {
			if t.atom(fct.Expr, fct.Val) {
				return true
			}
		}
		return false
	}
	return t.atom(cond, succ == 0)
}

func assignsVar(info *types.Info, n ast.Node, o types.Object) bool {
	switch x := n.(type) {
	case *ast.AssignStmt:
		for _, l := range x.Lhs {
			if core.ObjOf(info, l) == o {
				return true
			}
		}
	case *ast.ValueSpec:
		for _, nm := range x.Names {
			if info.Defs[nm] == o {
				return true
			}
		}
	case *ast.IncDecStmt:
		return core.ObjOf(info, x.X) == o
	case *ast.Ident:
		return info.Defs[x] == o
	}
	return false
}

// cleanWay turns an unfolded origin into a located finding only when there is
// a way entry -> definition -> use on which no branch may have established
// that the name is lower-case. def == nil: the value is a parameter (or an
// expression written at the use); v == nil: no variable is involved.
func (f *folder) cleanWay(fn *core.Fn, use flow.Site, def ast.Node, v types.Object, src ast.Expr, r foldRes) foldRes {
	g := use.G
	info := fn.Pkg.TypesInfo
	var seeds []types.Object
	if v != nil {
		seeds = append(seeds, v)
	}
	var exprs []ast.Expr
	if src != nil && (def != nil || v == nil) {
		exprs = append(exprs, src)
	}
	// the error result of the call that produced the name only says that there is
	// a name (the returns followed into the callee are its non-error returns)
	exempt := map[types.Object]bool{}
	if as, ok := def.(*ast.AssignStmt); ok && len(as.Rhs) == 1 && len(as.Lhs) > 1 {
		if _, isCall := ast.Unparen(as.Rhs[0]).(*ast.CallExpr); isCall {
			for _, l := range as.Lhs {
				if o := core.ObjOf(info, l); o != nil && o != v && cfgq.IsErrorType(o.Type()) {
					exempt[o] = true
				}
			}
		}
	}
	t := f.newTaint(fn, seeds, exprs, exempt)
	avoidEdge := func(b *cfg.Block, s int) bool {
		r := t.edgeCapable(g, b, s)
		if r && os.Getenv("RS_C13_DEBUG") != "" {
			fmt.Fprintf(os.Stderr, "capable edge %d of %s in %s\n", s, f.c.Src(cfgq.CondOf(b)), fn.Name())
		}
		return r
	}
	useNode := use.At.Node()
	if useNode == nil {
		return unknownf(r.pos, "%s; the use is not a node of the control-flow graph", r.why)
	}
	isUse := func(n ast.Node) bool { return n == useNode }
	var w []string
	if def == nil {
		if use.At.B == g.Entry().B && use.At.I == 0 {
			w = []string{"entry of " + fn.Name()}
		} else {
			w = g.Path(cfgq.Query{From: g.Entry(), Target: isUse, AvoidEdge: avoidEdge})
		}
		if w == nil {
			return unknownf(r.pos, "%s; but every way from the entry of %s to %s passes a branch that may tell whether the name is lower-case", r.why, fn.Name(), f.c.Pos(useNode.Pos()))
		}
	} else {
		dp, ok := g.Find(def)
		if !ok {
			return unknownf(r.pos, "%s; the definition is not in the control-flow graph", r.why)
		}
		dn := dp.Node()
		if dn == useNode || dp.B == use.At.B && use.At.I <= dp.I {
			return unknownf(r.pos, "%s; the definition at %s reaches its use around a loop", r.why, f.c.Pos(def.Pos()))
		}
		// one way: entry -> the definition's block -> the use, no other definition of
		// the variable behind the definition's block, no capable branch anywhere
		w = g.Path(cfgq.Query{From: g.Entry(), Target: isUse, AvoidEdge: avoidEdge,
			Via:   func(b *cfg.Block) bool { return b == dp.B },
			Avoid: func(n ast.Node) bool { return n != dn && v != nil && assignsVar(info, n, v) }})
		if w == nil {
			return unknownf(r.pos, "%s; but every way through %s to %s passes a branch that may tell whether the name is lower-case", r.why, f.c.Pos(def.Pos()), f.c.Pos(useNode.Pos()))
		}
		if r.witness == nil {
			name := ""
			if v != nil {
				name = v.Name() + " = "
			}
			what := ""
			if src != nil {
				what = f.c.Src(src)
			}
			r.why = fmt.Sprintf("`%s%s` at %s reaches %s without being lower-cased as a whole (%s); the branches on the way look at no more than the length, a bounded number of bytes or an inequality of the name", name, what, f.c.Pos(def.Pos()), f.c.Pos(useNode.Pos()), r.why)
			r.pos = def.Pos()
		}
	}
	r.witness = append(r.witness, w...)
	if len(r.witness) == 0 {
		r.witness = []string{"straight line"}
	}
	return r
}
