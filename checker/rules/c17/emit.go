// Recognisers of C17: base64 encoder forms, JSON text, writes into the entry buffer.
package c17

import (
	"go/ast"
	"go/token"
	"go/types"
	"strings"

	"rscheck/cfgq"
	"rscheck/core"
	"rscheck/pat"
	"rscheck/rules/c07"
)

// isStdEnc: e denotes base64.StdEncoding, directly or through a local bound once to it.
func (x *rx) isStdEnc(e ast.Expr) bool {
	o := core.ObjOf(x.info, c07.Through(x.info, e))
	return o != nil && o.Pkg() != nil && o.Pkg().Path() == "encoding/base64" && o.Name() == "StdEncoding"
}

// stdMethod: call is StdEncoding.<name>(...).
func (x *rx) stdMethod(call *ast.CallExpr, name string, nargs int) bool {
	sel, ok := ast.Unparen(call.Fun).(*ast.SelectorExpr)
	return ok && len(call.Args) == nargs && pkgFunc(c07.CalleeF(x.info, call), "encoding/base64", name) && x.isStdEnc(sel.X)
}

func (x *rx) isStdB64(call *ast.CallExpr) bool { return x.stdMethod(call, "EncodeToString", 1) }

// b64Of returns the bytes whose standard base64 text e denotes, or nil: StdEncoding.EncodeToString(A), or
// string(buf) where buf is `make([]byte, StdEncoding.EncodedLen(len(A)))` filled by the one StdEncoding.Encode(buf, A)
// of the scope (both possibly held in a single-assignment local).
func (x *rx) b64Of(e ast.Expr, scope ast.Node) ast.Expr {
	t := c07.Through(x.info, e)
	call, ok := t.(*ast.CallExpr)
	if !ok {
		return nil
	}
	if x.isStdB64(call) {
		return call.Args[0]
	}
	bi, isB := core.Callee(x.info, call).(*types.Builtin)
	buf := c07.Obj(x.info, c07.Strip(x.info, e))
	if !isB || bi.Name() != "make" || len(call.Args) != 2 || buf == nil || scope == nil {
		return nil
	}
	n, ok := c07.Through(x.info, call.Args[1]).(*ast.CallExpr)
	if !ok || !x.stdMethod(n, "EncodedLen", 1) {
		return nil
	}
	ln, ok := c07.Through(x.info, n.Args[0]).(*ast.CallExpr)
	if !ok || len(ln.Args) != 1 {
		return nil
	}
	if lb, isL := core.Callee(x.info, ln).(*types.Builtin); !isL || lb.Name() != "len" {
		return nil
	}
	var src ast.Expr
	fills := 0
	core.InspectAll(scope, func(m ast.Node) bool {
		if c, isC := m.(*ast.CallExpr); isC && x.stdMethod(c, "Encode", 2) && c07.Obj(x.info, c.Args[0]) == buf {
			fills++
			src = c.Args[1]
		}
		return true
	})
	if fills != 1 || !pat.Same(x.info, src, ln.Args[0]) {
		return nil
	}
	return src
}

// encoded returns the argument of an application of the base64 encoder, or nil.
func (x *rx) encoded(e ast.Expr) ast.Expr {
	if a := x.b64Of(e, x.fn.Decl.Body); a != nil {
		return a
	}
	call, ok := ast.Unparen(e).(*ast.CallExpr)
	if !ok || len(call.Args) != 1 {
		return nil
	}
	if x.kindOf(call.Fun) == "b64" {
		return call.Args[0]
	}
	return nil
}

func (x *rx) otherB64(e ast.Expr) bool {
	call, ok := ast.Unparen(e).(*ast.CallExpr)
	if !ok {
		return false
	}
	o := core.Callee(x.info, call)
	return x.kindOf(call.Fun) == "b64other" || o != nil && o.Pkg() != nil && o.Pkg().Path() == "encoding/base64"
}

func (x *rx) entryField(e ast.Expr, name string) bool {
	sel, ok := ast.Unparen(e).(*ast.SelectorExpr)
	if !ok || !core.IsFieldNamed(x.info, sel, "BinEntry", name) {
		return false
	}
	o := c07.Obj(x.info, sel.X)
	return o != nil && (o == x.entry || x.alias[o])
}

// bufVar resolves the buffer an expression denotes: `&b`, `b`, or a pointer local bound once to `&b`.
func (x *rx) bufVar(e ast.Expr) types.Object {
	e = ast.Unparen(e)
	if id, ok := e.(*ast.Ident); ok {
		if d := pat.DefOf(x.info, id); d != nil {
			if _, isAddr := ast.Unparen(d).(*ast.UnaryExpr); isAddr {
				e = ast.Unparen(d)
			}
		}
	}
	if u, ok := e.(*ast.UnaryExpr); ok && u.Op == token.AND {
		e = ast.Unparen(u.X)
	}
	return c07.Obj(x.info, e)
}

// jsonOf: e is the JSON text of a value: toJson(v), string(j), []byte(j), or a local holding the first result
// of json.Marshal(v) / of a marshalling helper. It returns v's object.
func (x *rx) jsonOf(e ast.Expr) types.Object {
	for i := 0; i < 4; i++ {
		e = c07.Strip(x.info, e)
		if id, ok := e.(*ast.Ident); ok {
			if td, isT := pat.TupleDefOf(x.info, id); isT && td.Index == 0 && len(td.Call.Args) == 1 {
				if f := c07.CalleeF(x.info, td.Call); pkgFunc(f, "encoding/json", "Marshal") || x.kindOf(td.Call.Fun) == "json" {
					return c07.Obj(x.info, td.Call.Args[0])
				}
			}
			if d := pat.DefOf(x.info, id); d != nil {
				e = d
				continue
			}
			return nil
		}
		if call, ok := e.(*ast.CallExpr); ok && len(call.Args) == 1 && x.kindOf(call.Fun) == "json" {
			return c07.Obj(x.info, call.Args[0])
		}
		return nil
	}
	return nil
}

func isNewline(info *types.Info, e ast.Expr) bool {
	if s, ok := core.StringConst(info, e); ok {
		return s == "\n"
	}
	v, ok := core.IntConst(info, e)
	return ok && v == '\n'
}

// emit: the node appends text to a bytes.Buffer. Recognised forms carry the JSON text J of a value:
// fmt.Fprintf(&buf, "%s\n", J), fmt.Fprintln(&buf, J), fmt.Fprint(&buf, J), io.WriteString(&buf, J),
// buf.Write(J) / buf.WriteString(J) (J may be `J + "\n"`, otherwise the newline follows separately) and
// json.NewEncoder(&buf).Encode(v) (which appends the newline itself). Any other call that writes into a message
// buffer is an emission of unknown content (v == nil): it is reported as not judged, never as a missing line.
func (x *rx) emit(n ast.Node) (buf, v types.Object, ok bool) {
	buf, v, _, ok = x.emit2(n)
	return
}

// text splits `J + "\n"`.
func (x *rx) text(e ast.Expr) (types.Object, bool) {
	if be, isB := ast.Unparen(e).(*ast.BinaryExpr); isB && be.Op == token.ADD && isNewline(x.info, be.Y) {
		return x.jsonOf(be.X), true
	}
	return x.jsonOf(e), false
}

func (x *rx) isBuffer(o types.Object) bool {
	if o == nil {
		return false
	}
	t := o.Type()
	if p, isP := t.Underlying().(*types.Pointer); isP {
		t = p.Elem()
	}
	return core.NamedTypePath(t) == "bytes.Buffer"
}

func (x *rx) emit2(n ast.Node) (buf, v types.Object, withNL, ok bool) {
	for _, call := range cfgq.ExecCalls(n) {
		f := c07.CalleeF(x.info, call)
		if f == nil || f.Pkg() == nil {
			continue
		}
		sel, _ := ast.Unparen(call.Fun).(*ast.SelectorExpr)
		switch {
		case pkgFunc(f, "fmt", "Fprintf") && len(call.Args) >= 2 && x.isBuffer(x.bufVar(call.Args[0])):
			buf = x.bufVar(call.Args[0])
			if len(call.Args) == 3 {
				v = x.jsonOf(call.Args[2])
				s, _ := core.StringConst(x.info, call.Args[1])
				withNL = s == "%s\n"
			}
			return buf, v, withNL, true
		case pkgFunc(f, "fmt", "Fprintln") && len(call.Args) == 2 && x.isBuffer(x.bufVar(call.Args[0])):
			return x.bufVar(call.Args[0]), x.jsonOf(call.Args[1]), true, true
		case (pkgFunc(f, "fmt", "Fprint") || pkgFunc(f, "io", "WriteString")) && len(call.Args) == 2 && x.isBuffer(x.bufVar(call.Args[0])):
			v, withNL = x.text(call.Args[1])
			return x.bufVar(call.Args[0]), v, withNL, true
		case f.Pkg().Path() == "bytes" && sel != nil && core.NamedTypePath(recvType(f)) == "bytes.Buffer" && strings.HasPrefix(f.Name(), "Write"):
			if len(call.Args) == 1 && isNewline(x.info, call.Args[0]) {
				continue
			}
			buf = x.bufVar(sel.X)
			if (f.Name() == "Write" || f.Name() == "WriteString") && len(call.Args) == 1 {
				if v, withNL = x.text(call.Args[0]); v != nil {
					return buf, v, withNL, true
				}
			}
			if x.msgBufs[buf] {
				return buf, nil, false, true
			}
		case f.Pkg().Path() == "encoding/json" && f.Name() == "Encode" && sel != nil && len(call.Args) == 1:
			if mk, isC := c07.Through(x.info, sel.X).(*ast.CallExpr); isC && len(mk.Args) == 1 && pkgFunc(c07.CalleeF(x.info, mk), "encoding/json", "NewEncoder") {
				if buf = x.bufVar(mk.Args[0]); x.isBuffer(buf) {
					return buf, c07.Obj(x.info, call.Args[0]), true, true
				}
			}
		default: // some other call that is handed a message buffer as its writer
			for _, a := range call.Args {
				if _, isAddr := ast.Unparen(a).(*ast.UnaryExpr); !isAddr && !isPtr(x.info.TypeOf(a)) {
					continue
				}
				if b := x.bufVar(a); x.isBuffer(b) && x.msgBufs[b] {
					return b, nil, false, true
				}
			}
		}
	}
	return nil, nil, false, false
}

func isPtr(t types.Type) bool {
	if t == nil {
		return false
	}
	_, ok := t.Underlying().(*types.Pointer)
	return ok
}

func recvType(f *types.Func) types.Type {
	if sig, ok := f.Type().(*types.Signature); ok && sig.Recv() != nil {
		return sig.Recv().Type()
	}
	return nil
}

// newlineInto: the node appends "\n" to buf.
func (x *rx) newlineInto(n ast.Node, buf types.Object) bool {
	for _, call := range cfgq.ExecCalls(n) {
		f := c07.CalleeF(x.info, call)
		if f == nil || f.Pkg() == nil || f.Pkg().Path() != "bytes" || len(call.Args) != 1 || !isNewline(x.info, call.Args[0]) {
			continue
		}
		if sel, ok := ast.Unparen(call.Fun).(*ast.SelectorExpr); ok && x.bufVar(sel.X) == buf {
			return true
		}
	}
	return false
}

func (x *rx) isEmit(n ast.Node) bool { _, _, ok := x.emit(n); return ok }
