// Look-through helpers of C17: locals holding a field value, one-level line helpers, classification of the
// encoder / marshal functions (closures or package-level functions).
package c17

import (
	"go/ast"
	"go/token"
	"go/types"

	"rscheck/cfgq"
	"rscheck/core"
	"rscheck/pat"
	"rscheck/rules/c07"
)

// through looks through a local variable that holds a field's value: it returns the expressions assigned to it
// anywhere in the function (each is judged), or e itself when e is not such a local.
func (x *rx) through(e ast.Expr) []ast.Expr {
	id, ok := ast.Unparen(e).(*ast.Ident)
	if !ok {
		return []ast.Expr{e}
	}
	v, ok := c07.Obj(x.info, id).(*types.Var)
	if !ok || v.IsField() || !c07.Within(identPos(v), x.fn.Decl.Body) {
		return []ast.Expr{e}
	}
	var out []ast.Expr
	opaque := false
	core.InspectAll(x.fn.Decl.Body, func(n ast.Node) bool {
		switch s := n.(type) {
		case *ast.AssignStmt:
			for i, l := range s.Lhs {
				if c07.Obj(x.info, l) == types.Object(v) {
					if r := core.AssignedTo(s, i); r != nil && (s.Tok == token.ASSIGN || s.Tok == token.DEFINE) {
						out = append(out, r)
					} else {
						opaque = true
					}
				}
			}
		case *ast.ValueSpec:
			for i, nm := range s.Names {
				if x.info.Defs[nm] == types.Object(v) && i < len(s.Values) {
					out = append(out, s.Values[i])
				}
			}
		case *ast.UnaryExpr:
			if s.Op == token.AND && c07.Obj(x.info, s.X) == types.Object(v) {
				opaque = true
			}
		case *ast.IncDecStmt: // a counter: it does not stand for the expressions assigned to it
			if c07.Obj(x.info, s.X) == types.Object(v) {
				opaque = true
			}
		}
		return true
	})
	if opaque || len(out) == 0 {
		return []ast.Expr{e}
	}
	return out
}

// lineHelper follows one level: `h(e)` builds the message of an entry in a function of this package. The helper
// must declare its own buffer, write exactly one JSON line of a recognised struct literal into it on every path
// and return its String(). Its literal is judged like an inline one (the parameter stands for the entry).
func (x *rx) lineHelper(call *ast.CallExpr) bool {
	h := x.c.FnOf(c07.CalleeF(x.info, call))
	if h == nil || h.Decl.Body == nil || h.Pkg != x.fn.Pkg || h.Decl.Recv != nil {
		return false
	}
	var param types.Object
	i := 0
	for _, f := range h.Decl.Type.Params.List {
		for _, nm := range f.Names {
			if i < len(call.Args) && c07.Obj(x.info, call.Args[i]) == x.entry {
				param = x.info.Defs[nm]
			}
			i++
		}
	}
	if param == nil {
		return false
	}
	y := &rx{c: x.c, info: x.info, fn: h, g: cfgq.Of(x.c.Program, h), entry: param, loop: x.loop, kinds: x.kinds, errCk: x.errCk, litOf: map[types.Object]*ast.CompositeLit{}}
	core.Inspect(h.Decl.Body, func(n ast.Node) bool {
		if as, ok := n.(*ast.AssignStmt); ok && len(as.Lhs) == 1 && len(as.Rhs) == 1 {
			if u, ok := ast.Unparen(as.Rhs[0]).(*ast.UnaryExpr); ok && u.Op == token.AND {
				if cl, ok := ast.Unparen(u.X).(*ast.CompositeLit); ok {
					y.litOf[c07.Obj(x.info, as.Lhs[0])] = cl
				}
			}
		}
		return true
	})
	// returns: <buf>.String() of a buffer declared in the helper
	var hb types.Object
	okRet := true
	core.Inspect(h.Decl.Body, func(n ast.Node) bool {
		if ret, ok := n.(*ast.ReturnStmt); ok {
			var b pat.Binds
			if len(ret.Results) == 1 {
				b = pat.Expr("_b.String()").Match(x.info, ret.Results[0], nil)
			}
			o := types.Object(nil)
			if b != nil {
				o = c07.Obj(x.info, b["_b"].(ast.Expr))
			}
			if o == nil || hb != nil && hb != o || !c07.Within(identPos(o), h.Decl.Body) {
				okRet = false
			}
			hb = o
		}
		return true
	})
	y.msgBufs = map[types.Object]bool{hb: true}
	emits := y.g.Points(y.isEmit)
	if !okRet || hb == nil || len(emits) != 1 {
		return false
	}
	buf, v, _ := y.emit(emits[0].Node())
	cl := y.litOf[v]
	if buf != hb || cl == nil {
		return false
	}
	vals, _, ok := y.fields(cl)
	if !ok {
		return false
	}
	if s, _ := core.StringConst(x.info, vals["type"]); s != "aux" {
		return false // only the aux line is built outside the type switch
	}
	x.c.Functions[h.Name()] = true
	okOne, w := c07.MustPass(y.g, y.g.Entry(), false, y.isEmit)
	x.c.Check("R2.one-line", "aux/helper-one-line", h.Decl.Pos(), okOne, "the helper that builds the aux line must write exactly one JSON line on every path, otherwise the script is omitted from the output", w...)
	y.literal(cl, "", nil, noElem, nil)
	return true
}

// kindOf classifies the function that `fun` denotes: a local closure, a local bound once to a package-level
// function of this package, or such a function called directly. "b64": returns StdEncoding.EncodeToString of its
// parameter; "b64other": uses encoding/base64 otherwise; "json": json.Marshal of its parameter (its error
// discipline is checked once).
func (x *rx) kindOf(fun ast.Expr) string {
	o := c07.Obj(x.info, fun)
	if o == nil {
		return ""
	}
	if k, ok := x.kinds[o]; ok {
		return k
	}
	x.kinds[o] = ""
	var target ast.Expr
	switch v := o.(type) {
	case *types.Func:
		target = fun
	case *types.Var:
		if v.IsField() || v.Pkg() == nil || v.Parent() == v.Pkg().Scope() {
			return ""
		}
		n := 0
		core.InspectAll(x.fn.Decl.Body, func(m ast.Node) bool {
			if as, ok := m.(*ast.AssignStmt); ok {
				for i, l := range as.Lhs {
					if c07.Obj(x.info, l) == o {
						n++
						target = core.AssignedTo(as, i)
					}
				}
			}
			return true
		})
		if n != 1 || target == nil {
			return ""
		}
	default:
		return ""
	}
	var params *ast.FieldList
	var body *ast.BlockStmt
	var root ast.Node
	var g *cfgq.Graph
	if sel, ok := ast.Unparen(target).(*ast.SelectorExpr); ok { // a method value: base64.StdEncoding.EncodeToString
		if mf, isF := c07.Obj(x.info, sel).(*types.Func); isF && pkgFunc(mf, "encoding/base64", "EncodeToString") {
			kind := "b64other"
			if x.isStdEnc(sel.X) {
				kind = "b64"
			}
			x.kinds[o] = kind
			return kind
		}
	}
	switch r := ast.Unparen(target).(type) {
	case *ast.FuncLit:
		params, body, root, g = r.Type.Params, r.Body, r, cfgq.OfLit(x.c.Program, x.info, r)
	default:
		f, _ := c07.Obj(x.info, r).(*types.Func)
		fn := x.c.FnOf(f)
		if fn == nil || fn.Decl.Body == nil || fn.Pkg != x.fn.Pkg || fn.Decl.Recv != nil {
			return ""
		}
		params, body, root, g = fn.Decl.Type.Params, fn.Decl.Body, fn.Decl.Body, cfgq.Of(x.c.Program, fn)
	}
	if params.NumFields() != 1 || len(params.List[0].Names) != 1 {
		return ""
	}
	param := x.info.Defs[params.List[0].Names[0]]
	kind := ""
	// every return hands back the standard base64 text of the (never re-assigned) parameter
	nret, okRet := 0, true
	core.Inspect(body, func(m ast.Node) bool {
		switch st := m.(type) {
		case *ast.ReturnStmt:
			nret++
			if len(st.Results) != 1 {
				okRet = false
			} else if a := x.b64Of(st.Results[0], body); a == nil || c07.Obj(x.info, a) != param {
				okRet = false
			}
		case *ast.AssignStmt:
			for _, l := range st.Lhs {
				if c07.Obj(x.info, l) == param {
					okRet = false
				}
			}
		case *ast.UnaryExpr:
			if st.Op == token.AND && c07.Obj(x.info, st.X) == param {
				okRet = false
			}
		}
		return true
	})
	if nret > 0 && okRet {
		kind = "b64"
	}
	if kind == "" && len(core.Calls(body, x.info, func(_ *ast.CallExpr, co types.Object) bool {
		return co != nil && co.Pkg() != nil && co.Pkg().Path() == "encoding/base64"
	})) > 0 {
		kind = "b64other"
	}
	for _, call := range core.Calls(body, x.info, func(call *ast.CallExpr, co types.Object) bool {
		f, _ := co.(*types.Func)
		return pkgFunc(f, "encoding/json", "Marshal") && len(call.Args) == 1 && c07.Obj(x.info, call.Args[0]) == param
	}) {
		kind = "json"
		if !x.errCk[root] {
			x.errCk[root] = true
			c07.ErrCheck(x.c, g, x.info, root, call, c07.ErrSpec{Rule: "R2.error", Key: "decoderMain/json.Marshal",
				Consequence: "a marshalling failure must stop the run; otherwise an empty or partial line is printed for the element and the run reports success"})
		}
	}
	x.kinds[o] = kind
	return kind
}
