// Package c17 decides the structural clauses of property C17 (decode mode).
package c17

import (
	"fmt"
	"go/ast"
	"go/token"
	"go/types"
	"rscheck/rules/c01"
	"rscheck/rules/reent"
	"strings"

	"golang.org/x/tools/go/cfg"

	"rscheck/cfgq"
	"rscheck/core"
	"rscheck/driver"
	"rscheck/pat"
	"rscheck/rules/c07"
	"rscheck/rules/c07/inl"
)

const (
	pkgRun    = "redis-shake"
	pkgCommon = "redis-shake/common"
)

var Def = driver.PropDef{
	ID: "C17",
	Explanation: "Structural necessary conditions of decode mode (CmdDecode.decode / decoderMain), on every path: " +
		"R1 every JSON field whose tag ends in 64 is the standard base64 encoder applied to the raw bytes of the key / field / member / value of this element (never string(x) or the lossy text rendering); a float field handed to json.Marshal is guarded against Inf/NaN; " +
		"R2 the type switch covers String, List, Hash, Set, ZSet, each collection case ranges once over the decoded object and emits exactly one `%s\\n` JSON line per iteration into the entry's own buffer (the string case exactly one), db/expireat/type/index/score come from this entry/element, decode and marshal errors are no-return; " +
		"R3 exactly one message is sent to the output channel per entry, built in a buffer that is fresh per entry; " +
		"R4 fan-out/fan-in: workers spawned = tokens awaited, each worker runs decoderMain on the shared input/output channels and hands in its token only when it returns, the output channel is closed only after all tokens, the writer goroutine writes every message once, flushes and closes the done channel when the output channel is drained, decode returns only through the <-done arm; " +
		"R5 the loader closes the input channel exactly at EOF (shared with C07.R5).",
	NotDecided: "numeric equality of finite scores through JSON, correctness of rdb.DecodeDump (C01/C12), order of lines between workers (only the multiset matters).",
	Trusted:    []string{"go/parser, go/types, go/cfg (x/tools v0.29.0)", "encoding/base64.StdEncoding round-trips every byte string", "encoding/json: invalid UTF-8 in a Go string is replaced by U+FFFD, Inf/NaN floats are rejected with an error", "channel close/range semantics"},
	Run:        Run,
}

type rx struct {
	c     *core.Ctx
	info  *types.Info
	fn    *core.Fn // decoderMain
	g     *cfgq.Graph
	entry types.Object            // e of `for e := range ipipe`
	loop  *ast.RangeStmt          // that loop
	kinds map[types.Object]string // classification of helper functions/closures: "b64", "b64other", "json", ""
	errCk map[ast.Node]bool       // marshal-error discipline already checked for this function
	alias map[types.Object]bool   // further names of the entry (parameter of a one-level helper)
	buf   types.Object            // per-entry buffer
	litOf map[types.Object]*ast.CompositeLit
	// buffers whose String() is the message of an entry (sent to the output channel or returned)
	msgBufs map[types.Object]bool
}

func reentrant(c *core.Ctx) {
	var roots []*core.Fn
	if f := c.FuncOpt("redis-shake", "CmdDecode", "decoderMain"); f != nil {
		roots = append(roots, f)
	}
	for _, n := range []string{"DecodeDump"} {
		if f := c.FuncOpt("pkg/rdb", "", n); f != nil {
			roots = append(roots, f)
		}
		if f := c.FuncOpt("pkg/libs/cupcake/rdb", "", n); f != nil {
			roots = append(roots, f)
		}
	}
	reent.Check(c, "R6.reentrant", roots, []string{"redis-shake", "pkg/rdb", "pkg/libs/cupcake/rdb", "pkg/libs/cupcake/rdb/crc64", "pkg/rdb/digest"}, "the parallel decode workers")
	// what the lines carry (db, expiry, key, type) is bound by the parser as C01 requires
	c01.EntryRules(c)
}

// Specs names the anchored functions of C17 for the helper inliner.
var Specs = []inl.Spec{
	{Pkg: pkgRun, Roots: []string{"CmdDecode.decode", "CmdDecode.decoderMain"},
		Keep:      []string{"Fprintf", "Marshal", "EncodeToString", "DecodeDump", "WriteString", "FlushWriter", "Flush", "NewRDBLoader", "decoderMain"},
		KeepTypes: []string{"BinEntry"}},
}

func Run(c *core.Ctx) {
	defer reentrant(c)
	c07.Dual(c, append(append([]inl.Spec{}, Specs...), c07.Specs[2]), run)
}

func run(c *core.Ctx) {
	dm := c.Func(pkgRun, "CmdDecode", "decoderMain")
	dec := c.Func(pkgRun, "CmdDecode", "decode")
	if dm != nil {
		x := &rx{c: c, info: dm.Pkg.TypesInfo, fn: dm, g: cfgq.Of(c.Program, dm), kinds: map[types.Object]string{}, errCk: map[ast.Node]bool{}, litOf: map[types.Object]*ast.CompositeLit{}}
		if x.setup() {
			x.lines()
			x.messages()
			nScore := 0
			for _, o := range c.Obs {
				if o.Rule == "R1.score" {
					nScore++
				}
			}
			if nScore == 0 {
				c.Okf("R1.score", "no-float-field", dm.Decl.Pos(), "no float-typed field is handed to json.Marshal (Inf/NaN cannot make the marshalling fail)")
			}
		}
	}
	if dec != nil {
		fan(c, dec, dm)
	}
	c07.LoaderRules(c)
	for rule, n := range map[string]int{"R1.base64": 12, "R1.score": 1, "R2.fields": 24, "R2.cases": 5, "R2.one-line": 10, "R2.error": 2, "R3.one-message": 2, "R3.buffer": 2,
		"R4.bounds": 1, "R4.token": 2, "R4.worker": 1, "R4.close-output": 2, "R4.writer": 4, "R4.wait-loop": 1, "R5.close": 1} {
		c.Expect(rule, n)
	}
}

// ---- recognisers

func pkgFunc(f *types.Func, pkg, name string) bool {
	return f != nil && f.Pkg() != nil && f.Pkg().Path() == pkg && f.Name() == name
}

func (x *rx) setup() bool {
	body := x.fn.Decl.Body
	var ipipe types.Object
	if ps := x.fn.Decl.Type.Params.List; len(ps) >= 1 && len(ps[0].Names) >= 1 {
		ipipe = x.info.Defs[ps[0].Names[0]]
	}
	core.Inspect(body, func(n ast.Node) bool {
		if rs, ok := n.(*ast.RangeStmt); ok && ipipe != nil && c07.Obj(x.info, rs.X) == ipipe {
			x.loop = rs
		}
		return true
	})
	if x.loop == nil || x.loop.Key == nil {
		x.c.Undecidedf("R3.one-message", "decoderMain", x.fn.Decl.Pos(), "no `for e := range <input channel parameter>` loop in decoderMain")
		return false
	}
	x.entry = c07.Obj(x.info, x.loop.Key)
	x.msgBufs = map[types.Object]bool{}
	msgOf := func(e ast.Expr) {
		if alts := x.through(e); len(alts) == 1 {
			e = alts[0]
		}
		if b := pat.Expr("_b.String()").Match(x.info, e, nil); b != nil {
			if o := c07.Obj(x.info, b["_b"].(ast.Expr)); x.isBuffer(o) {
				x.msgBufs[o] = true
			}
		}
	}
	core.InspectAll(body, func(n ast.Node) bool {
		switch st := n.(type) {
		case *ast.SendStmt:
			msgOf(st.Value)
		case *ast.ReturnStmt:
			if len(st.Results) == 1 {
				msgOf(st.Results[0])
			}
		}
		return true
	})
	// json.Marshal called in decoderMain itself (a marshalling helper expanded in place)
	for _, call := range core.Calls(body, x.info, func(_ *ast.CallExpr, o types.Object) bool {
		f, _ := o.(*types.Func)
		return pkgFunc(f, "encoding/json", "Marshal") || f != nil && f.Name() == "Encode" && core.NamedTypePath(recvType(f)) == "encoding/json.Encoder"
	}) {
		if !x.errCk[body] {
			x.errCk[body] = true
			c07.ErrCheck(x.c, x.g, x.info, body, call, c07.ErrSpec{Rule: "R2.error", Key: "decoderMain/json.Marshal",
				Consequence: "a marshalling failure must stop the run; otherwise an empty or partial line is printed for the element and the run reports success"})
		}
	}
	core.Inspect(body, func(n ast.Node) bool {
		if as, ok := n.(*ast.AssignStmt); ok && len(as.Lhs) == 1 && len(as.Rhs) == 1 {
			if u, ok := ast.Unparen(as.Rhs[0]).(*ast.UnaryExpr); ok && u.Op == token.AND {
				if cl, ok := ast.Unparen(u.X).(*ast.CompositeLit); ok {
					x.litOf[c07.Obj(x.info, as.Lhs[0])] = cl
				}
			}
		}
		return true
	})
	return true
}

var label = map[string]string{"String": "string", "List": "list", "Hash": "hash", "Set": "set", "ZSet": "zset"}

// literal checks R1 and R2.fields for one marshalled struct literal. kind is the rdb type name of the enclosing
// case ("" for the aux line), sv the case's switch variable, elem/idx the element and index of the enclosing range.
func noElem(ast.Expr) bool { return false }

func (x *rx) literal(cl *ast.CompositeLit, kind string, sv types.Object, elemIs func(ast.Expr) bool, idx types.Object) {
	vals, typs, ok := x.fields(cl)
	name := "aux"
	if kind != "" {
		name = label[kind]
	}
	if !ok {
		x.c.Undecidedf("R1.base64", name, cl.Pos(), "struct literal not understood")
		return
	}
	isObj := func(o types.Object) func(ast.Expr) bool {
		return func(e ast.Expr) bool { return o != nil && c07.Obj(x.info, ast.Unparen(e)) == o }
	}
	elemField := func(typ, f string) func(ast.Expr) bool {
		return func(e ast.Expr) bool {
			sel, ok := ast.Unparen(e).(*ast.SelectorExpr)
			return ok && core.IsFieldNamed(x.info, sel, typ, f) && elemIs(sel.X)
		}
	}
	entryF := func(f string) func(ast.Expr) bool { return func(e ast.Expr) bool { return x.entryField(e, f) } }
	type want struct {
		src  func(ast.Expr) bool
		what string
	}
	raw := map[string]want{"key64": {entryF("Key"), "the entry's Key"}}
	plain := map[string]want{}
	if kind != "" {
		plain["db"], plain["expireat"] = want{entryF("DB"), "the entry's DB"}, want{entryF("ExpireAt"), "the entry's ExpireAt"}
	}
	switch kind {
	case "":
		raw["value64"] = want{entryF("Value"), "the entry's Value (the script body)"}
		delete(raw, "key64")
	case "String":
		raw["value64"] = want{isObj(sv), "the decoded string"}
	case "List":
		raw["value64"] = want{elemIs, "this list element"}
		plain["index"] = want{isObj(idx), "the range index of this element"}
	case "Hash":
		raw["field64"], raw["value64"] = want{elemField("HashElement", "Field"), "this element's Field"}, want{elemField("HashElement", "Value"), "this element's Value"}
	case "Set":
		raw["member64"] = want{elemIs, "this set member"}
	case "ZSet":
		raw["member64"] = want{elemField("ZSetElement", "Member"), "this element's Member"}
		isScore := elemField("ZSetElement", "Score")
		plain["score"] = want{func(e ast.Expr) bool { // the score itself or a rendering of it (FormatFloat(ele.Score, ...))
			found := false
			ast.Inspect(e, func(n ast.Node) bool {
				if se, ok := n.(ast.Expr); ok && isScore(se) {
					found = true
				}
				return !found
			})
			return found
		}, "this element's Score"}
	}
	for tag, val0 := range vals {
		if !strings.HasSuffix(tag, "64") {
			continue
		}
		key := name + "/" + tag
		w, known := raw[tag]
		// look through a local that holds the field's value: every value it may hold is judged
		status, msg, pos := 0, "", val0.Pos() // 0 pass, 1 undecided, 2 fail
		for _, val := range x.through(val0) {
			arg := x.encoded(val)
			st, m := 0, ""
			switch {
			case arg == nil && x.otherB64(val):
				st, m = 1, fmt.Sprintf("field %q is produced by a base64 variant other than StdEncoding.EncodeToString: `%s`", tag, x.c.Src(val))
			case arg == nil:
				st, m = 2, fmt.Sprintf("JSON field %q must be base64.StdEncoding applied to the raw bytes; found `%s`. Witness: bytes containing 0xff (not UTF-8) are turned into U+FFFD by json.Marshal (or into '.' by the text rendering), so the original bytes cannot be recovered from the line", tag, x.c.Src(val))
			case !known:
				st, m = 1, fmt.Sprintf("no source rule for field %q of the %s line", tag, name)
			case !w.src(arg):
				st, m = 2, fmt.Sprintf("JSON field %q of the %s line must encode %s; it encodes `%s`, so the line attributes another element's bytes to this one", tag, name, w.what, x.c.Src(arg))
			}
			if st > status {
				status, msg, pos = st, m, val.Pos()
			}
		}
		switch status {
		case 0:
			x.c.Okf("R1.base64", key, pos, "JSON field %q of the %s line is the standard base64 of the right bytes", tag, name)
		case 1:
			x.c.Undecidedf("R1.base64", key, pos, "%s", msg)
		default:
			x.c.Failf("R1.base64", key, pos, "%s", msg)
		}
		delete(raw, tag)
	}
	for tag, w := range raw {
		x.c.Failf("R1.base64", name+"/"+tag, cl.Pos(), "the %s line has no %q field carrying %s in base64: the original bytes cannot be recovered", name, tag, w.what)
	}
	for tag, w := range plain {
		val, has := vals[tag]
		okSrc := has
		if has {
			for _, v := range x.through(val) {
				okSrc = okSrc && w.src(c07.Strip(x.info, v))
			}
		}
		x.c.Check("R2.fields", name+"/"+tag, cl.Pos(), okSrc, fmt.Sprintf("JSON field %q of the %s line must be %s", tag, name, w.what))
	}
	tv, has := vals["type"]
	s, isC := "", false
	if has {
		s, isC = core.StringConst(x.info, tv)
	}
	x.c.Check("R2.fields", name+"/type", cl.Pos(), isC && s == name, fmt.Sprintf("the line must carry type %q (found %q): a wrong type label makes the element unrecoverable", name, s))
	// floats handed to json.Marshal
	for tag, t := range typs {
		isFloat := func(t types.Type) bool {
			if t == nil {
				return false
			}
			b, isB := t.Underlying().(*types.Basic)
			return isB && b.Info()&types.IsFloat != 0
		}
		// a float field, or an interface field that may hold a float (json.Marshal sees the dynamic float)
		for _, val := range x.through(vals[tag]) {
			if !isFloat(t) && !(types.IsInterface(t) && isFloat(x.info.TypeOf(val))) {
				continue
			}
			if tv, has := x.info.Types[val]; has && tv.Value != nil {
				continue
			}
			// the guard: math.IsInf / math.IsNaN of the value, or the comparisons that say the same (`v != v` is
			// NaN, `v > math.MaxFloat64` / `v < -math.MaxFloat64` are the infinities), the value possibly in a
			// single-assignment local. Any other condition on the value is a guard of unknown meaning.
			isVal := func(e ast.Expr) bool {
				return pat.Same(x.info, e, val) || pat.Same(x.info, c07.Through(x.info, e), val)
			}
			guarded, other := false, false
			core.Inspect(x.fn.Decl.Body, func(n ast.Node) bool {
				switch t := n.(type) {
				case *ast.CallExpr:
					if f := c07.CalleeF(x.info, t); (pkgFunc(f, "math", "IsInf") || pkgFunc(f, "math", "IsNaN")) && len(t.Args) > 0 && isVal(t.Args[0]) {
						guarded = true
					}
				case *ast.BinaryExpr:
					switch t.Op {
					case token.EQL, token.NEQ, token.LSS, token.LEQ, token.GTR, token.GEQ:
						if isVal(t.X) || isVal(t.Y) {
							if isVal(t.X) && isVal(t.Y) && (t.Op == token.NEQ || t.Op == token.EQL) {
								guarded = true // NaN test
							} else {
								other = true
							}
						}
					}
				}
				return true
			})
			msg := fmt.Sprintf("JSON field %q is a float taken from the RDB (`%s`) and handed to json.Marshal without an Inf/NaN guard. Witness: a sorted-set member with score +inf (ZADD k +inf m) decodes to math.Inf(1); json.Marshal fails with `unsupported value: +Inf`, the worker calls log.PanicError and decode aborts, so this and all later elements are not printed", tag, x.c.Src(val))
			if !guarded && other {
				x.c.Undecidedf("R1.score", name+"/"+tag, val.Pos(), "the float `%s` is compared in a condition that is not recognised as an Inf/NaN guard", x.c.Src(val))
			} else {
				x.c.Check("R1.score", name+"/"+tag, val.Pos(), guarded, msg)
			}
		}
	}
}

// lines checks R1/R2 over the aux branch and the type switch.
func (x *rx) lines() {
	body := x.loop.Body
	var ts *ast.TypeSwitchStmt
	core.Inspect(body, func(n ast.Node) bool {
		if s, ok := n.(*ast.TypeSwitchStmt); ok && ts == nil {
			ts = s
		}
		return true
	})
	if ts == nil {
		x.c.Undecidedf("R2.cases", "decoderMain", body.Pos(), "no type switch over the decoded object")
		return
	}
	// literals outside the type switch: the aux line
	done := map[*ast.CompositeLit]bool{}
	for _, cl := range x.litOf {
		if !c07.Within(cl, ts) && c07.Within(cl, body) {
			if vals, _, ok := x.fields(cl); ok {
				if s, _ := core.StringConst(x.info, vals["type"]); s == "aux" {
					x.literal(cl, "", nil, noElem, nil)
					done[cl] = true
				}
			}
		}
	}
	seen := map[string]bool{}
	for _, st := range ts.Body.List {
		cc := st.(*ast.CaseClause)
		if cc.List == nil {
			continue
		}
		sv := x.info.Implicits[cc]
		kind := ""
		if len(cc.List) == 1 {
			kind = core.NamedTypeName(x.info.TypeOf(cc.List[0]))
		}
		if label[kind] == "" || core.NamedTypePath(x.info.TypeOf(cc.List[0])) != core.Module+"/pkg/rdb."+kind {
			x.c.Undecidedf("R2.cases", "case", cc.Pos(), "case `%s` is not one of rdb.String/List/Hash/Set/ZSet", x.c.Src(cc.List[0]))
			continue
		}
		seen[kind] = true
		blk := caseBlock(x.g, cc)
		var after *cfg.Block
		for _, b := range x.g.CFG.Blocks {
			if b.Kind == cfg.KindSwitchDone && b.Stmt == ast.Stmt(ts) {
				after = b
			}
		}
		// the loops of the case: exactly one, visiting every element of the decoded object once
		var loops, iters []ast.Stmt
		var lbody *ast.BlockStmt
		var elemVar, idx types.Object
		for _, s := range cc.Body {
			core.Inspect(s, func(n ast.Node) bool {
				switch l := n.(type) {
				case *ast.RangeStmt:
					loops = append(loops, l)
					if sv != nil && c07.Obj(x.info, l.X) == sv {
						iters = append(iters, l)
						lbody, elemVar, idx = l.Body, nil, nil
						if l.Value != nil {
							elemVar = c07.Obj(x.info, l.Value)
						}
						if l.Key != nil {
							idx = c07.Obj(x.info, l.Key)
						}
					}
				case *ast.ForStmt:
					if c07.OnceLoop(l) {
						return true
					}
					loops = append(loops, l)
					// for i := 0; i < len(obj); i++ with i left alone in the body
					if cnt, isC := c07.LoopCount(x.info, l).(*ast.CallExpr); isC && len(cnt.Args) == 1 && sv != nil && c07.Obj(x.info, cnt.Args[0]) == sv && c07.ZeroBased(x.info, l) {
						post, isInc := l.Post.(*ast.IncDecStmt)
						if lb, isL := core.Callee(x.info, cnt).(*types.Builtin); isL && lb.Name() == "len" && isInc && post.Tok == token.INC {
							i := c07.Obj(x.info, l.Init.(*ast.AssignStmt).Lhs[0])
							touched := false
							core.InspectAll(l.Body, func(m ast.Node) bool {
								switch st := m.(type) {
								case *ast.AssignStmt:
									for _, lh := range st.Lhs {
										touched = touched || c07.Obj(x.info, lh) == i
									}
								case *ast.IncDecStmt:
									touched = touched || c07.Obj(x.info, st.X) == i
								case *ast.UnaryExpr:
									touched = touched || st.Op == token.AND && c07.Obj(x.info, st.X) == i
								}
								return true
							})
							if !touched {
								iters = append(iters, l)
								lbody, elemVar, idx = l.Body, nil, i
							}
						}
					}
				}
				return true
			})
		}
		name := label[kind]
		var rs ast.Stmt
		elemIs := func(ast.Expr) bool { return false }
		from, to := cfgq.Point{B: blk}, after
		if kind == "String" {
			if len(loops) != 0 {
				x.c.Undecidedf("R2.one-line", name, cc.Pos(), "loop inside the string case")
				continue
			}
		} else {
			escapes := false // the object is handed to some function: the loop may be there
			for _, s := range cc.Body {
				core.InspectAll(s, func(n ast.Node) bool {
					if call, isC := n.(*ast.CallExpr); isC {
						for _, a := range call.Args {
							if _, isB := core.Callee(x.info, call).(*types.Builtin); !isB && sv != nil && c07.Obj(x.info, a) == sv {
								escapes = true
							}
						}
					}
					return true
				})
			}
			withEmit := 0
			for _, l := range iters {
				if len(x.g.Points(func(n ast.Node) bool { return x.isEmit(n) && c07.Within(n, l) })) > 0 {
					withEmit++
				}
			}
			switch {
			case len(iters) == 1 && len(loops) == 1:
			case len(loops) == 0 && !escapes || withEmit >= 2:
				x.c.Failf("R2.one-line", name+"/range", cc.Pos(), "the %s case must iterate the decoded object with exactly one loop (found %d loop(s), %d over the object): elements are omitted or repeated", name, len(loops), len(iters))
				continue
			default:
				x.c.Undecidedf("R2.one-line", name+"/range", cc.Pos(), "the %s case has %d loop(s), %d of them recognised as one pass over the decoded object", name, len(loops), len(iters))
				continue
			}
			rs = iters[0]
			x.c.Okf("R2.one-line", name+"/range", rs.Pos(), "one range over the decoded %s", name)
			ev, ix, lb := elemVar, idx, lbody
			elemIs = func(e ast.Expr) bool {
				if id, isID := ast.Unparen(e).(*ast.Ident); isID { // a local of the loop body bound once to obj[i]
					if d := pat.DefOf(x.info, id); d != nil {
						if _, isIx := ast.Unparen(d).(*ast.IndexExpr); isIx && !c07.Within(identPos(c07.Obj(x.info, id)), lb) {
							return false
						}
					}
				}
				e = c07.Through(x.info, e)
				if ev != nil && c07.Obj(x.info, e) == ev {
					return true
				}
				ie, isIx := e.(*ast.IndexExpr)
				return isIx && ix != nil && c07.Obj(x.info, ie.Index) == ix && c07.Obj(x.info, ie.X) == sv
			}
			head, b := c07.RangeBlocks(x.g, rs)
			from, to = cfgq.Point{B: b}, head
		}
		if from.B == nil || to == nil {
			x.c.Undecidedf("R2.one-line", name, cc.Pos(), "case body not found in the control-flow graph")
			continue
		}
		toEnd := func(b *cfg.Block, s int) bool { return b.Succs[s] == to }
		x.c.Check("R2.one-line", name+"/at-least-one", cc.Pos(), !c07.ReachBlock(x.g, from, false, x.isEmit, to),
			fmt.Sprintf("every %s element must produce a JSON line: here a path through the %s ends without Fprintf into the entry buffer, the element is omitted from the output", name, map[bool]string{true: "case", false: "iteration"}[kind == "String"]))
		var w []string
		var lits []*ast.CompositeLit
		unknownEmit := false
		for _, p := range x.g.Points(func(n ast.Node) bool { return x.isEmit(n) && c07.Within(n, cc) }) {
			if w == nil {
				w = x.g.Path(cfgq.Query{From: p, After: true, Target: x.isEmit, AvoidEdge: toEnd})
			}
			buf, v, okFmt, _ := x.emit2(p.Node())
			if !okFmt && buf != nil { // the newline is written separately: it must follow before the next line / the end of the message
				pn := p.Node()
				okFmt = x.g.Path(cfgq.Query{From: p, After: true, Avoid: func(n ast.Node) bool { return x.newlineInto(n, buf) },
					Target: func(n ast.Node) bool { _, isSend := n.(*ast.SendStmt); return n != pn && (x.isEmit(n) || isSend) }, TargetExit: c07.NormalExit}) == nil
			}
			cl := x.litOf[v]
			okLit := cl != nil && c07.Within(cl, cc) && (rs == nil || c07.Within(cl, lbody))
			if v == nil || cl == nil {
				unknownEmit = true
				// the marshalling helper or the value it is given is not in a recognised form: not judged
				x.c.Undecidedf("R2.fields", name+"/emit", p.Node().Pos(), "cannot identify the struct literal marshalled by `%s`", x.c.Src(p.Node()))
				continue
			}
			x.c.Check("R2.fields", name+"/emit", p.Node().Pos(), okFmt && okLit && buf != nil && c07.Within(identPos(buf), x.loop.Body),
				"a line is `%s\\n` of the JSON of the struct built for this element, written into the buffer of this entry")
			if okLit {
				lits = append(lits, cl)
			}
		}
		if w != nil && unknownEmit {
			x.c.Undecidedf("R2.one-line", name+"/at-most-one", cc.Pos(), "several writes into the entry buffer, not all of them recognised as a JSON line")
			w = nil
		} else {
			x.c.Check("R2.one-line", name+"/at-most-one", cc.Pos(), w == nil, fmt.Sprintf("a %s element produces two JSON lines: the element is duplicated in the output", name), w...)
		}
		for _, cl := range lits {
			if !done[cl] {
				done[cl] = true
				x.literal(cl, kind, sv, elemIs, idx)
			}
		}
	}
	for _, k := range []string{"String", "List", "Hash", "Set", "ZSet"} {
		x.c.Check("R2.cases", label[k], ts.Pos(), seen[k], fmt.Sprintf("the type switch has no case for rdb.%s: every key of that type reaches the default arm (`unknown object`, run aborted) or prints nothing", k))
	}
	// decode error is no-return
	for _, call := range core.Calls(body, x.info, func(_ *ast.CallExpr, o types.Object) bool {
		f, _ := o.(*types.Func)
		return pkgFunc(f, core.Module+"/pkg/rdb", "DecodeDump")
	}) {
		okArg := len(call.Args) == 1 && x.entryField(call.Args[0], "Value")
		x.c.Check("R2.fields", "decode-arg", call.Pos(), okArg, "the object decoded must be this entry's Value")
		c07.ErrCheck(x.c, x.g, x.info, x.fn.Decl.Body, call, c07.ErrSpec{Rule: "R2.error", Key: "decoderMain/DecodeDump", Consequence: "an undecodable value must stop the run; otherwise the key is silently omitted from the output"})
	}
}

type posNode struct{ p token.Pos }

func (n posNode) Pos() token.Pos       { return n.p }
func (n posNode) End() token.Pos       { return n.p }
func identPos(o types.Object) ast.Node { return posNode{o.Pos()} }

func caseBlock(g *cfgq.Graph, cc *ast.CaseClause) *cfg.Block {
	for _, b := range g.CFG.Blocks {
		if b.Kind == cfg.KindSwitchCaseBody && b.Stmt == ast.Stmt(cc) {
			return b
		}
	}
	return nil
}

// messages checks R3.
func (x *rx) messages() {
	var opipe types.Object
	if ps := x.fn.Decl.Type.Params.List; len(ps) == 2 && len(ps[1].Names) == 1 {
		opipe = x.info.Defs[ps[1].Names[0]]
	}
	isSend := func(n ast.Node) bool {
		s, ok := n.(*ast.SendStmt)
		return ok && opipe != nil && c07.Obj(x.info, s.Chan) == opipe
	}
	head, body := c07.RangeBlocks(x.g, x.loop)
	x.c.Check("R3.one-message", "decoderMain/at-least-one", x.loop.Pos(), !c07.ReachBlock(x.g, cfgq.Point{B: body}, false, isSend, head),
		"every entry taken from the input channel must send its lines to the output channel: here a path reaches the next entry without a send, so the lines of that key are lost")
	var w []string
	bufs := map[types.Object]bool{}
	unknown := ""
	for _, p := range x.g.Points(isSend) {
		if w == nil {
			w = x.g.Path(cfgq.Query{From: p, After: true, Target: isSend, AvoidEdge: func(b *cfg.Block, s int) bool { return b.Succs[s] == head }})
		}
		val := p.Node().(*ast.SendStmt).Value
		// `line := <expr>; opipe <- line`: every value the local may hold is the String() of a buffer
		alts, okAll := x.through(val), true
		for _, alt := range alts {
			o := types.Object(nil)
			if b := pat.Expr("_b.String()").Match(x.info, alt, nil); b != nil {
				o = c07.Obj(x.info, b["_b"].(ast.Expr))
			}
			if o == nil {
				okAll = false
			} else {
				bufs[o] = true
			}
		}
		if okAll {
			continue
		}
		if len(alts) == 1 {
			val = alts[0]
		}
		if call, ok := ast.Unparen(val).(*ast.CallExpr); ok && x.lineHelper(call) {
			continue
		}
		unknown = x.c.Src(val)
	}
	x.c.Check("R3.one-message", "decoderMain/at-most-one", x.loop.Pos(), w == nil, "an entry's buffer is sent twice: all its lines are duplicated in the output", w...)
	stale := false
	for b := range bufs {
		if !c07.Within(identPos(b), x.loop.Body) {
			stale = true
		} else if x.buf == nil {
			x.buf = b
		}
	}
	const freshMsg = "the message sent is the String() of a buffer declared inside the entry loop: a buffer shared across entries re-sends the lines of all earlier keys with every later key (duplicates)"
	switch {
	case stale:
		x.c.Failf("R3.buffer", "decoderMain/fresh-per-entry", x.loop.Pos(), "%s", freshMsg)
	case unknown != "" || len(bufs) > 1:
		x.c.Undecidedf("R3.buffer", "decoderMain/fresh-per-entry", x.loop.Pos(), "cannot identify the per-entry buffer behind the message `%s`", unknown)
	default:
		x.c.Okf("R3.buffer", "decoderMain/fresh-per-entry", x.loop.Pos(), "%s", freshMsg)
	}
	okSame := true
	for _, p := range x.g.Points(x.isEmit) {
		if buf, _, _ := x.emit(p.Node()); buf == nil || !bufs[buf] {
			okSame = false
		}
	}
	x.c.Check("R3.buffer", "decoderMain/lines-into-message", x.loop.Pos(), okSame, "every JSON line must be written into the buffer that is sent for this entry, otherwise the line never reaches the output")
}

// ---- R4
