// Package c17 decides the structural clauses of property C17 (decode mode).
package c17

import (
	"fmt"
	"go/ast"
	"go/token"
	"go/types"
	"reflect"
	"rscheck/rules/c01"
	"rscheck/rules/reent"
	"strings"

	"golang.org/x/tools/go/cfg"

	"rscheck/cfgq"
	"rscheck/core"
	"rscheck/driver"
	"rscheck/pat"
	"rscheck/rules/c07"
)

const (
	pkgRun    = "redis-shake"
	pkgCommon = "redis-shake/common"
)

var Def = driver.PropDef{
	ID: "C17",
	Explanation: "Structural necessary conditions of decode mode (CmdDecode.decode / decoderMain), on every path: " +
		"R1 every JSON field whose tag ends in 64 is the standard base64 encoder applied to the raw bytes of the key / field / member / value of this element (never string(x) or the lossy text rendering); a float field handed to json.Marshal is guarded against Inf/NaN; " +
		"R2 the type switch covers String, List, Hash, Set, ZSet, each collection case ranges once over the decoded object and emits exactly one `%s\\n` JSON line per iteration into the entry's own buffer (the string case exactly one), db/expireat/type/index/score come from this entry/element, decode and marshal errors are no-return; " +
		"R3 exactly one message is sent to the output channel per entry, built in a buffer that is fresh per entry; " +
		"R4 fan-out/fan-in: workers spawned = tokens awaited, each worker runs decoderMain on the shared input/output channels and hands in its token only when it returns, the output channel is closed only after all tokens, the writer goroutine writes every message once, flushes and closes the done channel when the output channel is drained, decode returns only through the <-done arm; " +
		"R5 the loader closes the input channel exactly at EOF (shared with C07.R5).",
	NotDecided: "numeric equality of finite scores through JSON, correctness of rdb.DecodeDump (C01/C12), order of lines between workers (only the multiset matters).",
	Trusted:    []string{"go/parser, go/types, go/cfg (x/tools v0.29.0)", "encoding/base64.StdEncoding round-trips every byte string", "encoding/json: invalid UTF-8 in a Go string is replaced by U+FFFD, Inf/NaN floats are rejected with an error", "channel close/range semantics"},
	Run:        Run,
}

type rx struct {
	c     *core.Ctx
	info  *types.Info
	fn    *core.Fn // decoderMain
	g     *cfgq.Graph
	entry types.Object            // e of `for e := range ipipe`
	loop  *ast.RangeStmt          // that loop
	kinds map[types.Object]string // classification of helper functions/closures: "b64", "b64other", "json", ""
	errCk map[ast.Node]bool       // marshal-error discipline already checked for this function
	alias map[types.Object]bool   // further names of the entry (parameter of a one-level helper)
	buf   types.Object            // per-entry buffer
	litOf map[types.Object]*ast.CompositeLit
}

func reentrant(c *core.Ctx) {
	var roots []*core.Fn
	if f := c.FuncOpt("redis-shake", "CmdDecode", "decoderMain"); f != nil {
		roots = append(roots, f)
	}
	for _, n := range []string{"DecodeDump"} {
		if f := c.FuncOpt("pkg/rdb", "", n); f != nil {
			roots = append(roots, f)
		}
		if f := c.FuncOpt("pkg/libs/cupcake/rdb", "", n); f != nil {
			roots = append(roots, f)
		}
	}
	reent.Check(c, "R6.reentrant", roots, []string{"redis-shake", "pkg/rdb", "pkg/libs/cupcake/rdb", "pkg/libs/cupcake/rdb/crc64", "pkg/rdb/digest"}, "the parallel decode workers")
	// what the lines carry (db, expiry, key, type) is bound by the parser as C01 requires
	c01.EntryRules(c)
}

func Run(c *core.Ctx) {
	defer reentrant(c)
	dm := c.Func(pkgRun, "CmdDecode", "decoderMain")
	dec := c.Func(pkgRun, "CmdDecode", "decode")
	if dm != nil {
		x := &rx{c: c, info: dm.Pkg.TypesInfo, fn: dm, g: cfgq.Of(c.Program, dm), kinds: map[types.Object]string{}, errCk: map[ast.Node]bool{}, litOf: map[types.Object]*ast.CompositeLit{}}
		if x.setup() {
			x.lines()
			x.messages()
			nScore := 0
			for _, o := range c.Obs {
				if o.Rule == "R1.score" {
					nScore++
				}
			}
			if nScore == 0 {
				c.Okf("R1.score", "no-float-field", dm.Decl.Pos(), "no float-typed field is handed to json.Marshal (Inf/NaN cannot make the marshalling fail)")
			}
		}
	}
	if dec != nil {
		fan(c, dec, dm)
	}
	c07.LoaderRules(c)
	for rule, n := range map[string]int{"R1.base64": 12, "R1.score": 1, "R2.fields": 24, "R2.cases": 5, "R2.one-line": 10, "R2.error": 2, "R3.one-message": 2, "R3.buffer": 2,
		"R4.bounds": 1, "R4.token": 2, "R4.worker": 1, "R4.close-output": 2, "R4.writer": 4, "R4.wait-loop": 1, "R5.close": 1} {
		c.Expect(rule, n)
	}
}

// ---- recognisers

func pkgFunc(f *types.Func, pkg, name string) bool {
	return f != nil && f.Pkg() != nil && f.Pkg().Path() == pkg && f.Name() == name
}

func (x *rx) setup() bool {
	body := x.fn.Decl.Body
	var ipipe types.Object
	if ps := x.fn.Decl.Type.Params.List; len(ps) >= 1 && len(ps[0].Names) >= 1 {
		ipipe = x.info.Defs[ps[0].Names[0]]
	}
	core.Inspect(body, func(n ast.Node) bool {
		if rs, ok := n.(*ast.RangeStmt); ok && ipipe != nil && core.ObjOf(x.info, rs.X) == ipipe {
			x.loop = rs
		}
		return true
	})
	if x.loop == nil || x.loop.Key == nil {
		x.c.Undecidedf("R3.one-message", "decoderMain", x.fn.Decl.Pos(), "no `for e := range <input channel parameter>` loop in decoderMain")
		return false
	}
	x.entry = core.ObjOf(x.info, x.loop.Key)
	core.Inspect(body, func(n ast.Node) bool {
		if as, ok := n.(*ast.AssignStmt); ok && len(as.Lhs) == 1 && len(as.Rhs) == 1 {
			if u, ok := ast.Unparen(as.Rhs[0]).(*ast.UnaryExpr); ok && u.Op == token.AND {
				if cl, ok := ast.Unparen(u.X).(*ast.CompositeLit); ok {
					x.litOf[core.ObjOf(x.info, as.Lhs[0])] = cl
				}
			}
		}
		return true
	})
	return true
}

func (x *rx) isStdB64(call *ast.CallExpr) bool {
	f := core.CalleeFunc(x.info, call)
	sel, ok := ast.Unparen(call.Fun).(*ast.SelectorExpr)
	if !ok || !pkgFunc(f, "encoding/base64", "EncodeToString") || len(call.Args) != 1 {
		return false
	}
	o := core.ObjOf(x.info, sel.X)
	return o != nil && o.Pkg() != nil && o.Pkg().Path() == "encoding/base64" && o.Name() == "StdEncoding"
}

// encoded returns the argument of an application of the base64 encoder, or nil.
func (x *rx) encoded(e ast.Expr) ast.Expr {
	call, ok := ast.Unparen(e).(*ast.CallExpr)
	if !ok || len(call.Args) != 1 {
		return nil
	}
	if x.isStdB64(call) || x.kindOf(call.Fun) == "b64" {
		return call.Args[0]
	}
	return nil
}

func (x *rx) otherB64(e ast.Expr) bool {
	call, ok := ast.Unparen(e).(*ast.CallExpr)
	if !ok {
		return false
	}
	o := core.Callee(x.info, call)
	return x.kindOf(call.Fun) == "b64other" || o != nil && o.Pkg() != nil && o.Pkg().Path() == "encoding/base64"
}

func (x *rx) entryField(e ast.Expr, name string) bool {
	sel, ok := ast.Unparen(e).(*ast.SelectorExpr)
	if !ok || !core.IsFieldNamed(x.info, sel, "BinEntry", name) {
		return false
	}
	o := core.ObjOf(x.info, sel.X)
	return o != nil && (o == x.entry || x.alias[o])
}

// emit: fmt.Fprintf(&buf, "%s\n", toJson(v)); returns the buffer object and v's object.
func (x *rx) emit(n ast.Node) (buf, v types.Object, ok bool) {
	for _, call := range cfgq.ExecCalls(n) {
		if !pkgFunc(core.CalleeFunc(x.info, call), "fmt", "Fprintf") || len(call.Args) < 2 {
			continue
		}
		if u, isU := ast.Unparen(call.Args[0]).(*ast.UnaryExpr); isU && u.Op == token.AND {
			buf = core.ObjOf(x.info, u.X)
		}
		if len(call.Args) == 3 {
			if jc, isC := ast.Unparen(call.Args[2]).(*ast.CallExpr); isC && len(jc.Args) == 1 && x.kindOf(jc.Fun) == "json" {
				v = core.ObjOf(x.info, jc.Args[0])
			}
		}
		return buf, v, true
	}
	return nil, nil, false
}

func (x *rx) isEmit(n ast.Node) bool { _, _, ok := x.emit(n); return ok }

func jsonName(tag string) string {
	name := reflect.StructTag(tag).Get("json")
	if i := strings.Index(name, ","); i >= 0 {
		name = name[:i]
	}
	return name
}

// fields maps json names to the initialising expressions of a struct literal.
func (x *rx) fields(cl *ast.CompositeLit) (map[string]ast.Expr, map[string]types.Type, bool) {
	st, ok := x.info.TypeOf(cl).Underlying().(*types.Struct)
	if !ok {
		return nil, nil, false
	}
	vals, typs := map[string]ast.Expr{}, map[string]types.Type{}
	for i, el := range cl.Elts {
		idx := i
		val := el
		if kv, ok := el.(*ast.KeyValueExpr); ok {
			idx = -1
			for j := 0; j < st.NumFields(); j++ {
				if id, ok := kv.Key.(*ast.Ident); ok && st.Field(j).Name() == id.Name {
					idx = j
				}
			}
			val = kv.Value
		}
		if idx < 0 || idx >= st.NumFields() {
			return nil, nil, false
		}
		name := jsonName(st.Tag(idx))
		if name == "" {
			name = st.Field(idx).Name()
		}
		vals[name], typs[name] = val, st.Field(idx).Type()
	}
	return vals, typs, true
}

var label = map[string]string{"String": "string", "List": "list", "Hash": "hash", "Set": "set", "ZSet": "zset"}

// literal checks R1 and R2.fields for one marshalled struct literal. kind is the rdb type name of the enclosing
// case ("" for the aux line), sv the case's switch variable, elem/idx the element and index of the enclosing range.
func (x *rx) literal(cl *ast.CompositeLit, kind string, sv, elem, idx types.Object) {
	vals, typs, ok := x.fields(cl)
	name := "aux"
	if kind != "" {
		name = label[kind]
	}
	if !ok {
		x.c.Undecidedf("R1.base64", name, cl.Pos(), "struct literal not understood")
		return
	}
	isObj := func(o types.Object) func(ast.Expr) bool {
		return func(e ast.Expr) bool { return o != nil && core.ObjOf(x.info, ast.Unparen(e)) == o }
	}
	elemField := func(typ, f string) func(ast.Expr) bool {
		return func(e ast.Expr) bool {
			sel, ok := ast.Unparen(e).(*ast.SelectorExpr)
			return ok && elem != nil && core.IsFieldNamed(x.info, sel, typ, f) && core.ObjOf(x.info, sel.X) == elem
		}
	}
	entryF := func(f string) func(ast.Expr) bool { return func(e ast.Expr) bool { return x.entryField(e, f) } }
	type want struct {
		src  func(ast.Expr) bool
		what string
	}
	raw := map[string]want{"key64": {entryF("Key"), "the entry's Key"}}
	plain := map[string]want{}
	if kind != "" {
		plain["db"], plain["expireat"] = want{entryF("DB"), "the entry's DB"}, want{entryF("ExpireAt"), "the entry's ExpireAt"}
	}
	switch kind {
	case "":
		raw["value64"] = want{entryF("Value"), "the entry's Value (the script body)"}
		delete(raw, "key64")
	case "String":
		raw["value64"] = want{isObj(sv), "the decoded string"}
	case "List":
		raw["value64"] = want{isObj(elem), "this list element"}
		plain["index"] = want{isObj(idx), "the range index of this element"}
	case "Hash":
		raw["field64"], raw["value64"] = want{elemField("HashElement", "Field"), "this element's Field"}, want{elemField("HashElement", "Value"), "this element's Value"}
	case "Set":
		raw["member64"] = want{isObj(elem), "this set member"}
	case "ZSet":
		raw["member64"] = want{elemField("ZSetElement", "Member"), "this element's Member"}
		isScore := elemField("ZSetElement", "Score")
		plain["score"] = want{func(e ast.Expr) bool { // the score itself or a rendering of it (FormatFloat(ele.Score, ...))
			found := false
			ast.Inspect(e, func(n ast.Node) bool {
				if se, ok := n.(ast.Expr); ok && isScore(se) {
					found = true
				}
				return !found
			})
			return found
		}, "this element's Score"}
	}
	for tag, val0 := range vals {
		if !strings.HasSuffix(tag, "64") {
			continue
		}
		key := name + "/" + tag
		w, known := raw[tag]
		// look through a local that holds the field's value: every value it may hold is judged
		status, msg, pos := 0, "", val0.Pos() // 0 pass, 1 undecided, 2 fail
		for _, val := range x.through(val0) {
			arg := x.encoded(val)
			st, m := 0, ""
			switch {
			case arg == nil && x.otherB64(val):
				st, m = 1, fmt.Sprintf("field %q is produced by a base64 variant other than StdEncoding.EncodeToString: `%s`", tag, x.c.Src(val))
			case arg == nil:
				st, m = 2, fmt.Sprintf("JSON field %q must be base64.StdEncoding applied to the raw bytes; found `%s`. Witness: bytes containing 0xff (not UTF-8) are turned into U+FFFD by json.Marshal (or into '.' by the text rendering), so the original bytes cannot be recovered from the line", tag, x.c.Src(val))
			case !known:
				st, m = 1, fmt.Sprintf("no source rule for field %q of the %s line", tag, name)
			case !w.src(arg):
				st, m = 2, fmt.Sprintf("JSON field %q of the %s line must encode %s; it encodes `%s`, so the line attributes another element's bytes to this one", tag, name, w.what, x.c.Src(arg))
			}
			if st > status {
				status, msg, pos = st, m, val.Pos()
			}
		}
		switch status {
		case 0:
			x.c.Okf("R1.base64", key, pos, "JSON field %q of the %s line is the standard base64 of the right bytes", tag, name)
		case 1:
			x.c.Undecidedf("R1.base64", key, pos, "%s", msg)
		default:
			x.c.Failf("R1.base64", key, pos, "%s", msg)
		}
		delete(raw, tag)
	}
	for tag, w := range raw {
		x.c.Failf("R1.base64", name+"/"+tag, cl.Pos(), "the %s line has no %q field carrying %s in base64: the original bytes cannot be recovered", name, tag, w.what)
	}
	for tag, w := range plain {
		val, has := vals[tag]
		okSrc := has
		if has {
			for _, v := range x.through(val) {
				okSrc = okSrc && w.src(c07.Strip(x.info, v))
			}
		}
		x.c.Check("R2.fields", name+"/"+tag, cl.Pos(), okSrc, fmt.Sprintf("JSON field %q of the %s line must be %s", tag, name, w.what))
	}
	tv, has := vals["type"]
	s, isC := "", false
	if has {
		s, isC = core.StringConst(x.info, tv)
	}
	x.c.Check("R2.fields", name+"/type", cl.Pos(), isC && s == name, fmt.Sprintf("the line must carry type %q (found %q): a wrong type label makes the element unrecoverable", name, s))
	// floats handed to json.Marshal
	for tag, t := range typs {
		isFloat := func(t types.Type) bool {
			if t == nil {
				return false
			}
			b, isB := t.Underlying().(*types.Basic)
			return isB && b.Info()&types.IsFloat != 0
		}
		// a float field, or an interface field that may hold a float (json.Marshal sees the dynamic float)
		for _, val := range x.through(vals[tag]) {
			if !isFloat(t) && !(types.IsInterface(t) && isFloat(x.info.TypeOf(val))) {
				continue
			}
			if tv, has := x.info.Types[val]; has && tv.Value != nil {
				continue
			}
			guarded := false
			core.Inspect(x.fn.Decl.Body, func(n ast.Node) bool {
				if call, ok := n.(*ast.CallExpr); ok {
					if f := core.CalleeFunc(x.info, call); (pkgFunc(f, "math", "IsInf") || pkgFunc(f, "math", "IsNaN")) && len(call.Args) > 0 && pat.Same(x.info, call.Args[0], val) {
						guarded = true
					}
				}
				return true
			})
			x.c.Check("R1.score", name+"/"+tag, val.Pos(), guarded, fmt.Sprintf("JSON field %q is a float taken from the RDB (`%s`) and handed to json.Marshal without an Inf/NaN guard. Witness: a sorted-set member with score +inf (ZADD k +inf m) decodes to math.Inf(1); json.Marshal fails with `unsupported value: +Inf`, the worker calls log.PanicError and decode aborts, so this and all later elements are not printed", tag, x.c.Src(val)))
		}
	}
}

// lines checks R1/R2 over the aux branch and the type switch.
func (x *rx) lines() {
	body := x.loop.Body
	var ts *ast.TypeSwitchStmt
	core.Inspect(body, func(n ast.Node) bool {
		if s, ok := n.(*ast.TypeSwitchStmt); ok && ts == nil {
			ts = s
		}
		return true
	})
	if ts == nil {
		x.c.Undecidedf("R2.cases", "decoderMain", body.Pos(), "no type switch over the decoded object")
		return
	}
	// literals outside the type switch: the aux line
	done := map[*ast.CompositeLit]bool{}
	for _, cl := range x.litOf {
		if !c07.Within(cl, ts) && c07.Within(cl, body) {
			if vals, _, ok := x.fields(cl); ok {
				if s, _ := core.StringConst(x.info, vals["type"]); s == "aux" {
					x.literal(cl, "", nil, nil, nil)
					done[cl] = true
				}
			}
		}
	}
	seen := map[string]bool{}
	for _, st := range ts.Body.List {
		cc := st.(*ast.CaseClause)
		if cc.List == nil {
			continue
		}
		sv := x.info.Implicits[cc]
		kind := ""
		if len(cc.List) == 1 {
			kind = core.NamedTypeName(x.info.TypeOf(cc.List[0]))
		}
		if label[kind] == "" || core.NamedTypePath(x.info.TypeOf(cc.List[0])) != core.Module+"/pkg/rdb."+kind {
			x.c.Undecidedf("R2.cases", "case", cc.Pos(), "case `%s` is not one of rdb.String/List/Hash/Set/ZSet", x.c.Src(cc.List[0]))
			continue
		}
		seen[kind] = true
		blk := caseBlock(x.g, cc)
		var after *cfg.Block
		for _, b := range x.g.CFG.Blocks {
			if b.Kind == cfg.KindSwitchDone && b.Stmt == ast.Stmt(ts) {
				after = b
			}
		}
		var rs *ast.RangeStmt
		nrs := 0
		for _, s := range cc.Body {
			core.Inspect(s, func(n ast.Node) bool {
				if r, ok := n.(*ast.RangeStmt); ok {
					nrs++
					if core.ObjOf(x.info, r.X) == sv {
						rs = r
					}
				}
				return true
			})
		}
		name := label[kind]
		var elem, idx types.Object
		from, to := cfgq.Point{B: blk}, after
		if kind == "String" {
			if nrs != 0 {
				x.c.Undecidedf("R2.one-line", name, cc.Pos(), "loop inside the string case")
				continue
			}
		} else {
			if rs == nil || nrs != 1 {
				x.c.Failf("R2.one-line", name+"/range", cc.Pos(), "the %s case must iterate the decoded object with exactly one range loop (found %d loop(s), %v over the object): elements are omitted or repeated", name, nrs, rs != nil)
				continue
			}
			x.c.Okf("R2.one-line", name+"/range", rs.Pos(), "one range over the decoded %s", name)
			if rs.Value != nil {
				elem = core.ObjOf(x.info, rs.Value)
			}
			if rs.Key != nil {
				idx = core.ObjOf(x.info, rs.Key)
			}
			head, b := c07.RangeBlocks(x.g, rs)
			from, to = cfgq.Point{B: b}, head
		}
		if from.B == nil || to == nil {
			x.c.Undecidedf("R2.one-line", name, cc.Pos(), "case body not found in the control-flow graph")
			continue
		}
		toEnd := func(b *cfg.Block, s int) bool { return b.Succs[s] == to }
		x.c.Check("R2.one-line", name+"/at-least-one", cc.Pos(), !c07.ReachBlock(x.g, from, false, x.isEmit, to),
			fmt.Sprintf("every %s element must produce a JSON line: here a path through the %s ends without Fprintf into the entry buffer, the element is omitted from the output", name, map[bool]string{true: "case", false: "iteration"}[kind == "String"]))
		var w []string
		var lits []*ast.CompositeLit
		for _, p := range x.g.Points(func(n ast.Node) bool { return x.isEmit(n) && c07.Within(n, cc) }) {
			if w == nil {
				w = x.g.Path(cfgq.Query{From: p, After: true, Target: x.isEmit, AvoidEdge: toEnd})
			}
			buf, v, _ := x.emit(p.Node())
			okFmt := false
			for _, call := range cfgq.ExecCalls(p.Node()) {
				if pkgFunc(core.CalleeFunc(x.info, call), "fmt", "Fprintf") && len(call.Args) == 3 {
					s, _ := core.StringConst(x.info, call.Args[1])
					okFmt = s == "%s\n"
				}
			}
			cl := x.litOf[v]
			okLit := cl != nil && c07.Within(cl, cc) && (rs == nil || c07.Within(cl, rs.Body))
			if v == nil || cl == nil {
				// the marshalling helper or the value it is given is not in a recognised form: not judged
				x.c.Undecidedf("R2.fields", name+"/emit", p.Node().Pos(), "cannot identify the struct literal marshalled by `%s`", x.c.Src(p.Node()))
				continue
			}
			x.c.Check("R2.fields", name+"/emit", p.Node().Pos(), okFmt && okLit && buf != nil && c07.Within(identPos(buf), x.loop.Body),
				"a line is `%s\\n` of the JSON of the struct built for this element, written into the buffer of this entry")
			if okLit {
				lits = append(lits, cl)
			}
		}
		x.c.Check("R2.one-line", name+"/at-most-one", cc.Pos(), w == nil, fmt.Sprintf("a %s element produces two JSON lines: the element is duplicated in the output", name), w...)
		for _, cl := range lits {
			if !done[cl] {
				done[cl] = true
				x.literal(cl, kind, sv, elem, idx)
			}
		}
	}
	for _, k := range []string{"String", "List", "Hash", "Set", "ZSet"} {
		x.c.Check("R2.cases", label[k], ts.Pos(), seen[k], fmt.Sprintf("the type switch has no case for rdb.%s: every key of that type reaches the default arm (`unknown object`, run aborted) or prints nothing", k))
	}
	// decode error is no-return
	for _, call := range core.Calls(body, x.info, func(_ *ast.CallExpr, o types.Object) bool {
		f, _ := o.(*types.Func)
		return pkgFunc(f, core.Module+"/pkg/rdb", "DecodeDump")
	}) {
		okArg := len(call.Args) == 1 && x.entryField(call.Args[0], "Value")
		x.c.Check("R2.fields", "decode-arg", call.Pos(), okArg, "the object decoded must be this entry's Value")
		c07.ErrCheck(x.c, x.g, x.info, x.fn.Decl.Body, call, c07.ErrSpec{Rule: "R2.error", Key: "decoderMain/DecodeDump", Consequence: "an undecodable value must stop the run; otherwise the key is silently omitted from the output"})
	}
}

type posNode struct{ p token.Pos }

func (n posNode) Pos() token.Pos       { return n.p }
func (n posNode) End() token.Pos       { return n.p }
func identPos(o types.Object) ast.Node { return posNode{o.Pos()} }

func caseBlock(g *cfgq.Graph, cc *ast.CaseClause) *cfg.Block {
	for _, b := range g.CFG.Blocks {
		if b.Kind == cfg.KindSwitchCaseBody && b.Stmt == ast.Stmt(cc) {
			return b
		}
	}
	return nil
}

// messages checks R3.
func (x *rx) messages() {
	var opipe types.Object
	if ps := x.fn.Decl.Type.Params.List; len(ps) == 2 && len(ps[1].Names) == 1 {
		opipe = x.info.Defs[ps[1].Names[0]]
	}
	isSend := func(n ast.Node) bool {
		s, ok := n.(*ast.SendStmt)
		return ok && opipe != nil && core.ObjOf(x.info, s.Chan) == opipe
	}
	head, body := c07.RangeBlocks(x.g, x.loop)
	x.c.Check("R3.one-message", "decoderMain/at-least-one", x.loop.Pos(), !c07.ReachBlock(x.g, cfgq.Point{B: body}, false, isSend, head),
		"every entry taken from the input channel must send its lines to the output channel: here a path reaches the next entry without a send, so the lines of that key are lost")
	var w []string
	bufs := map[types.Object]bool{}
	unknown := ""
	for _, p := range x.g.Points(isSend) {
		if w == nil {
			w = x.g.Path(cfgq.Query{From: p, After: true, Target: isSend, AvoidEdge: func(b *cfg.Block, s int) bool { return b.Succs[s] == head }})
		}
		val := p.Node().(*ast.SendStmt).Value
		if alts := x.through(val); len(alts) == 1 { // `line := <expr>; opipe <- line`
			val = alts[0]
		}
		if b := pat.Expr("_b.String()").Match(x.info, val, nil); b != nil {
			if o := core.ObjOf(x.info, b["_b"].(ast.Expr)); o != nil {
				bufs[o] = true
				continue
			}
		}
		if call, ok := ast.Unparen(val).(*ast.CallExpr); ok && x.lineHelper(call) {
			continue
		}
		unknown = x.c.Src(val)
	}
	x.c.Check("R3.one-message", "decoderMain/at-most-one", x.loop.Pos(), w == nil, "an entry's buffer is sent twice: all its lines are duplicated in the output", w...)
	stale := false
	for b := range bufs {
		if !c07.Within(identPos(b), x.loop.Body) {
			stale = true
		} else if x.buf == nil {
			x.buf = b
		}
	}
	const freshMsg = "the message sent is the String() of a buffer declared inside the entry loop: a buffer shared across entries re-sends the lines of all earlier keys with every later key (duplicates)"
	switch {
	case stale:
		x.c.Failf("R3.buffer", "decoderMain/fresh-per-entry", x.loop.Pos(), "%s", freshMsg)
	case unknown != "" || len(bufs) > 1:
		x.c.Undecidedf("R3.buffer", "decoderMain/fresh-per-entry", x.loop.Pos(), "cannot identify the per-entry buffer behind the message `%s`", unknown)
	default:
		x.c.Okf("R3.buffer", "decoderMain/fresh-per-entry", x.loop.Pos(), "%s", freshMsg)
	}
	okSame := true
	for _, p := range x.g.Points(x.isEmit) {
		if buf, _, _ := x.emit(p.Node()); buf == nil || !bufs[buf] {
			okSame = false
		}
	}
	x.c.Check("R3.buffer", "decoderMain/lines-into-message", x.loop.Pos(), okSame, "every JSON line must be written into the buffer that is sent for this entry, otherwise the line never reaches the output")
}

// ---- R4
