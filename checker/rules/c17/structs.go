// Reading struct values that are marshalled: literal fields, embedded headers, copy-with methods.
package c17

import (
	"go/ast"
	"go/token"
	"go/types"
	"reflect"
	"strings"

	"rscheck/core"
	"rscheck/rules/c07"
)

func jsonName(tag string) string {
	name := reflect.StructTag(tag).Get("json")
	if i := strings.Index(name, ","); i >= 0 {
		name = name[:i]
	}
	return name
}

// fields maps json names to the initialising expressions of a struct literal.
func (x *rx) fields(cl *ast.CompositeLit) (map[string]ast.Expr, map[string]types.Type, bool) {
	st, ok := x.info.TypeOf(cl).Underlying().(*types.Struct)
	if !ok {
		return nil, nil, false
	}
	vals, typs := map[string]ast.Expr{}, map[string]types.Type{}
	for i, el := range cl.Elts {
		idx := i
		val := el
		if kv, ok := el.(*ast.KeyValueExpr); ok {
			idx = -1
			for j := 0; j < st.NumFields(); j++ {
				if id, ok := kv.Key.(*ast.Ident); ok && st.Field(j).Name() == id.Name {
					idx = j
				}
			}
			val = kv.Value
		}
		if idx < 0 || idx >= st.NumFields() {
			return nil, nil, false
		}
		name := jsonName(st.Tag(idx))
		if f := st.Field(idx); f.Embedded() && name == "" {
			// an embedded struct: encoding/json promotes its fields; they are read from the value it is given
			if _, isStruct := f.Type().Underlying().(*types.Struct); isStruct {
				ev, et, ok := x.structValue(val, 0)
				if !ok {
					return nil, nil, false
				}
				for k, v := range ev {
					vals[k], typs[k] = v, et[k]
				}
				continue
			}
		}
		if name == "" {
			name = st.Field(idx).Name()
		}
		vals[name], typs[name] = val, st.Field(idx).Type()
	}
	return vals, typs, true
}

// structValue reads the fields of a struct value that is not written as a literal in place: a local defined once
// (by a literal, or as a copy of another such local) and completed by field stores `v.F = e` that stand in the
// same statement list as its definition. Anything else (a call, a value with several definitions, a store under a
// condition) is not read.
func (x *rx) structValue(e ast.Expr, depth int) (map[string]ast.Expr, map[string]types.Type, bool) {
	e = ast.Unparen(e)
	if u, ok := e.(*ast.UnaryExpr); ok && u.Op == token.AND {
		e = ast.Unparen(u.X)
	}
	if cl, ok := e.(*ast.CompositeLit); ok {
		return x.fields(cl)
	}
	if call, ok := e.(*ast.CallExpr); ok && depth <= 4 {
		return x.copyWith(call, depth)
	}
	id, ok := e.(*ast.Ident)
	if !ok || depth > 4 {
		return nil, nil, false
	}
	v, ok := c07.Obj(x.info, id).(*types.Var)
	if !ok || v.IsField() {
		return nil, nil, false
	}
	st, ok := v.Type().Underlying().(*types.Struct)
	if !ok {
		return nil, nil, false
	}
	var def ast.Expr
	var defStmt ast.Stmt
	ndef := 0
	type store struct {
		field string
		val   ast.Expr
		stmt  ast.Stmt
	}
	var stores []store
	bad := false
	core.InspectAll(x.fn.Decl.Body, func(n ast.Node) bool {
		switch t := n.(type) {
		case *ast.AssignStmt:
			for i, l := range t.Lhs {
				if c07.Obj(x.info, l) == types.Object(v) {
					if _, isID := ast.Unparen(l).(*ast.Ident); isID {
						ndef++
						def, defStmt = core.AssignedTo(t, i), t
					}
				}
				if sel, isSel := ast.Unparen(l).(*ast.SelectorExpr); isSel && c07.Obj(x.info, sel.X) == types.Object(v) {
					if r := core.AssignedTo(t, i); r != nil && t.Tok == token.ASSIGN {
						stores = append(stores, store{sel.Sel.Name, r, t})
					} else {
						bad = true
					}
				}
			}
		case *ast.ValueSpec:
			for i, nm := range t.Names {
				if x.info.Defs[nm] == types.Object(v) {
					ndef++
					if i < len(t.Values) {
						def = t.Values[i]
					}
					for _, p := range core.PathTo(x.fn.Decl.Body, t) {
						if ds, isDS := p.(*ast.DeclStmt); isDS {
							defStmt = ds
						}
					}
				}
			}
		case *ast.UnaryExpr:
			if t.Op == token.AND && c07.Obj(x.info, t.X) == types.Object(v) {
				bad = true
			}
		}
		return true
	})
	if bad || ndef != 1 || defStmt == nil {
		return nil, nil, false
	}
	vals, typs := map[string]ast.Expr{}, map[string]types.Type{}
	if def != nil {
		var ok bool
		if vals, typs, ok = x.structValue(def, depth+1); !ok {
			return nil, nil, false
		}
	}
	// the statement list that holds the definition
	var list []ast.Stmt
	for _, p := range core.PathTo(x.fn.Decl.Body, defStmt) {
		switch b := p.(type) {
		case *ast.BlockStmt:
			list = b.List
		case *ast.CaseClause:
			list = b.Body
		}
	}
	pos := -1
	for i, s := range list {
		if s == defStmt {
			pos = i
		}
	}
	for _, sto := range stores {
		after := false
		for i, s := range list {
			if s == sto.stmt && i > pos && pos >= 0 {
				after = true
			}
		}
		if !after {
			return nil, nil, false
		}
		for k := 0; k < st.NumFields(); k++ {
			if st.Field(k).Name() == sto.field {
				name := jsonName(st.Tag(k))
				if name == "" {
					name = sto.field
				}
				vals[name], typs[name] = sto.val, st.Field(k).Type()
			}
		}
	}
	return vals, typs, true
}

// copyWith reads `v.with(a, ...)` where with is a value-receiver method of this module that only stores
// parameters or constants into fields of its receiver copy and returns it (`func (h T) as(k string) T { h.Type = k;
// return h }`): the fields of v with those stores applied.
func (x *rx) copyWith(call *ast.CallExpr, depth int) (map[string]ast.Expr, map[string]types.Type, bool) {
	sel, ok := ast.Unparen(call.Fun).(*ast.SelectorExpr)
	if !ok {
		return nil, nil, false
	}
	m := x.c.FnOf(c07.CalleeF(x.info, call))
	if m == nil || m.Decl.Body == nil || m.Decl.Recv == nil || len(m.Decl.Recv.List) != 1 || len(m.Decl.Recv.List[0].Names) != 1 {
		return nil, nil, false
	}
	minfo := m.Pkg.TypesInfo
	recv := minfo.Defs[m.Decl.Recv.List[0].Names[0]]
	st, isStruct := recv.Type().Underlying().(*types.Struct) // a value receiver of struct type
	if !isStruct {
		return nil, nil, false
	}
	args := map[types.Object]ast.Expr{}
	i := 0
	for _, f := range m.Decl.Type.Params.List {
		for _, nm := range f.Names {
			if i < len(call.Args) {
				args[minfo.Defs[nm]] = call.Args[i]
			}
			i++
		}
	}
	vals, typs, ok := x.structValue(sel.X, depth+1)
	if !ok {
		return nil, nil, false
	}
	list := m.Decl.Body.List
	if len(list) == 0 {
		return nil, nil, false
	}
	ret, isRet := list[len(list)-1].(*ast.ReturnStmt)
	if !isRet || len(ret.Results) != 1 || core.ObjOf(minfo, ret.Results[0]) != recv {
		return nil, nil, false
	}
	for _, s := range list[:len(list)-1] {
		as, isAs := s.(*ast.AssignStmt)
		if !isAs || as.Tok != token.ASSIGN || len(as.Lhs) != 1 || len(as.Rhs) != 1 {
			return nil, nil, false
		}
		fsel, isSel := ast.Unparen(as.Lhs[0]).(*ast.SelectorExpr)
		if !isSel || core.ObjOf(minfo, fsel.X) != recv {
			return nil, nil, false
		}
		var val ast.Expr
		if a, isParam := args[core.ObjOf(minfo, as.Rhs[0])]; isParam {
			val = a
		} else if tv, has := minfo.Types[as.Rhs[0]]; has && tv.Value != nil {
			val = as.Rhs[0]
		} else {
			return nil, nil, false
		}
		for k := 0; k < st.NumFields(); k++ {
			if st.Field(k).Name() == fsel.Sel.Name {
				name := jsonName(st.Tag(k))
				if name == "" {
					name = fsel.Sel.Name
				}
				vals[name], typs[name] = val, st.Field(k).Type()
			}
		}
	}
	return vals, typs, true
}
